def nontrivial(seq):
    obs = [o for _, o in seq]
    ok = any(o.startswith("ok ") and op.split()[0] in ("alloc", "galloc", "finish") for (op, _), o in zip(seq, obs))
    bad = any(o.startswith(("conflict", "err", "parked")) for o in obs)
    return ok and bad


SPEC = {
    "id": "C04",
    "area": "idalloc",
    "harness": "idalloc",
    "lean_targets": ["PdModel.Props.C04", "Audit.C04"],
    "audit": "Audit/C04.lean",
    "lean_files": ["PdModel/Model/IdAlloc.lean", "PdModel/Lemmas/IdAlloc.lean", "PdModel/Props/C04.lean",
                   "PdModel/Spec/C04.lean", "PdModel/Driver/IdAlloc.lean"],
    "gen": {
        "quick": {"args": ["-n", "75", "-len", "60"], "streams": 4},
        "thorough": {"args": ["-n", "380", "-len", "90"], "streams": 16},
    },
    "search": {"args": ["-n", "400", "-len", "80"], "streams": 8},
    "nontrivial": nontrivial,
    "rule": "sequence = reset + random interleaving of new/leader/alloc/rebase/gated alloc+rebase (transaction parked "
            "between read and commit)/finish with fault flags/stored on 1-6 allocator instances of 1-3 members on one "
            "embedded etcd; non-trivial = at least one successful allocation and at least one conflict, injected "
            "transaction error or parked transaction; distinct = distinct op sequence",
    "model_text": "PdModel/Model/IdAlloc.lean: rd / cas / bump micro-steps of server/id/id.go over one etcd key "
                  "guarded by the leader key; allocStep regenerated from the source",
    "level_text": "Theorem C04_holds (Lean 4, kernel-checked, no bound on history length, number of instances or "
                  "interleaving): in every history of the allocator model all returned ids are pairwise distinct, increase "
                  "per instance and are below the durably stored bound at return; failed_condition_cannot_extend / "
                  "stored_monotone for the ownership clauses. The model is tied to server/id/id.go by differential "
                  "execution (real allocators on embedded etcd, gated and faulted transactions) and the proved checker "
                  "Spec.C04.check monitors the implementation's own outputs.",
    "level_note": "Trusted: Lean kernel + 3 standard axioms; hand-written model (tied by correspondence on generated "
                  "histories, statistical beyond them); harness gates; uint64 wrap-around not modelled; allocStep extracted "
                  "by factgen.",
    "technique": "Lean 4 inductive invariant over op histories + differential correspondence + verified monitor",
    "assumptions": [
        "uint64 wrap-around of the id counter is not modelled (ids are unbounded naturals)",
        "etcd executes a transaction atomically; a Commit error may come with or without effect (both modelled)",
        "the instance mutex serialises rd/cas/bump of ONE instance; steps of different instances interleave freely",
    ],
}
