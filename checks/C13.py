def nontrivial(seq):
    """a history with at least one accepted update that changes the index, one rejected update and one storage failure"""
    outs = [obs.split(" ", 1)[0] for _, obs in seq]
    return outs.count("ok") >= 3 and any(o.startswith("rej-") for o in outs) and "err-storage" in outs


def coverage_extra(results, vlib):
    dist = {}
    outs = {}
    segs = {}
    for r in results:
        if "crash" in r:
            continue
        try:
            for l in open(r["trace"], errors="replace"):
                if l.startswith("# distribution "):
                    for kv in l.split()[2:]:
                        k, v = kv.rsplit("=", 1)
                        dist[k] = dist.get(k, 0) + int(v)
                elif " => " in l:
                    o = l.split(" => ", 1)[1]
                    w = o.split(" ")
                    outs[w[0]] = outs.get(w[0], 0) + 1
                    for x in w:
                        if x.startswith("S="):
                            n = len([t for t in x[2:].split(",")[7].split("+") if t != "-"])  # split keys of (0, inf)
                            segs[n + 1] = segs.get(n + 1, 0) + 1
        except (OSError, IndexError):
            pass
    return {"input_distribution": dist, "results": outs, "segments_served_histogram": segs}


SPEC = {
    "id": "C13",
    "area": "rules",
    "harness": "rules",
    "lean_targets": ["PdModel.Props.C13", "Audit.C13"],
    "audit": "Audit/C13.lean",
    "lean_files": ["PdModel/Model/Rules.lean", "PdModel/Spec/C13.lean", "PdModel/Props/C13.lean",
                   "PdModel/Driver/Rules.lean", "PdModel/Lemmas/RuleOrder.lean", "PdModel/Lemmas/RuleSweep.lean",
                   "PdModel/Lemmas/RuleIndex.lean", "PdModel/Lemmas/RuleMaps.lean", "PdModel/Lemmas/RuleMgr.lean",
                   "PdModel/Lemmas/RuleStore.lean", "PdModel/Lemmas/RuleLoad.lean", "PdModel/Lemmas/RuleOverride.lean",
                   "PdModel/Lemmas/RuleSpec.lean"],
    "gen": {
        "quick": {"args": ["-n", "300", "-len", "40", "-bulk", "2"], "streams": 8},
        "thorough": {"args": ["-n", "4000", "-len", "60", "-bulk", "15"], "streams": 16},
    },
    "search": {"args": ["-n", "1000", "-len", "50", "-bulk", "6"], "streams": 8},
    "nontrivial": nontrivial,
    "coverage_extra": coverage_extra,
    "rule": "history = reset (fresh storage, default rule) + 8-40 ops on the real RuleManager: SetRule / DeleteRule / "
            "SetRules / Batch (add, delete, delete by id prefix, replace-default-by-partition) / SetRuleGroup / "
            "DeleteRuleGroup / SetGroupBundle / SetAllGroupBundles / DeleteGroupBundle (plain and regexp) / "
            "GetRule-modify-SetRule / restart, with rules over 4 groups x 6 ids x 8 variable-length keys (nested, "
            "adjacent, unbounded ranges, indexes, override flags, group indexes and overrides, 4 label payloads), one "
            "update in six with a storage failure at its 1st-4th write (then often retried), one in ten from the "
            "malformed stream (empty ids, bad role, count <= 0, end <= start, mismatching bundle group), every eighth "
            "history with storage corruption (rule under a foreign key, junk value, invalid stored rule, deleted key) "
            "followed by restart (half of them first with a storage failure at the k-th write of Initialize's key repair, "
            "incl. served rules whose only stored copy was moved under a foreign key); extreme rule / group indexes "
            "(Min/MaxInt64) in one rule of eight; one step in ten is a pair of updates overlapping in time (`park u1`: u1 is held inside its "
            "first storage write by the kv gate; `during u2`: u2 is issued meanwhile and must be observed blocked - probed "
            "with TryLock on the manager's mutex, then really started; `release`: both finish, all observables are "
            "reported); per stream two bulk histories (15 in the thorough tier) that bring the number of persisted "
            "rules to 99/100/101/199/200/201/~230 (the 100-key pages of LoadRangeByPrefix) by batches and single "
            "SetRule calls over 60 extra rule ids and restart twice at each size; after every op all observables are reported (GetAllRules, GetRuleGroups, "
            "GetRulesByKey on 9 keys, GetRulesForApplyRegion and GetSplitKeys on 64 ranges, raw storage, a second "
            "manager loaded from a copy of the storage); non-trivial = >= 3 accepted updates, a rejected update and a "
            "storage failure; distinct = distinct op sequence",
    "model_text": "PdModel/Model/Rules.lean: buildRuleList (sweep over sorted split points, insertRule/deleteRule, "
                  "prepareRulesForApply, checkApplyRules), getRulesByKey/getRulesForApplyRegion/getSplitKeys, "
                  "ruleConfig + patch (adjust, trim, commit), savePatch with a failure at the k-th write, "
                  "loadRules with key repair, Initialize, every public update kind; follows the tree with the repairs "
                  "F6a, F6b, F6c",
    "level_text": "Theorems (Lean 4, kernel-checked, no bounds on rule sets, key ranges or history length): buildRuleList_eq / "
                  "build_tie_order_independent / build_iteration_order_independent = buildRuleList equals an order-free "
                  "specification for every order the unstable sort and the map iteration may produce; rules_by_key_exact, "
                  "apply_rules_exact (override semantics, loop invariant of prepareRulesForApply), "
                  "region_rules_iff_single_segment, split_keys_exact, gap_rejected (interior, trailing and - with repair F6a - "
                  "leading), no_voter_or_two_leaders_rejected, accepted_valid_everywhere; over all histories of all update "
                  "kinds with any storage-failure inputs: step_wf/reachable_wf (the served index is buildRuleList of the served "
                  "configuration), served_index_exact, spec_functions_agree (the functions the monitor evaluates are these "
                  "answers), rejected_changes_nothing, failed_save_served_unchanged, "
                  "accepted_failure_free_storage_eq_served, restart_loads_served, retry_converges; F6d: "
                  "failed_save_then_other_update_counterexample + accepted_storage_eq_served_partial. The model is tied to "
                  "the placement package by differential execution of the real RuleManager on a failing kv.Base (every "
                  "observable after every op, incl. raw storage and a second manager), and the monitor judges the "
                  "implementation's own reports with Spec.C13.",
    "level_note": "Trusted: Lean kernel + 3 standard axioms; hand-written model (tied by correspondence on generated histories, "
                  "statistical beyond them); names are ranks in sorted universes (order checked by the harness), prefix / regexp "
                  "matches passed as rank sets (checked by the harness); the completed writes of a failed save are reported by "
                  "the harness (Go map order); JSON / hex encodings and regexp are on the implementation side of the diff "
                  "only. The theorems speak about the tree with fixes/F6a,F6b,F6c,F6e applied; the pre-repair behaviour is "
                  "flagged by the monitor on the corpus witnesses (checked on an unrepaired copy). F6d is an open known finding: "
                  "after a half-done save a different accepted update leaves storage != served.",
    "technique": "Lean 4 proofs about the sweep and the patch/commit logic + differential correspondence on histories "
                 "with injected storage failures + verified monitor over the implementation's own reports",
    "assumptions": [
        "names are ranks in sorted universes (the harness checks rank order = byte order); prefix and regexp matches are "
        "passed to the model as the set of matching ranks, checked by the harness",
        "one update = one atomic step: the manager's mutex is held from before the served configuration is read until "
        "after commit, storage writes included (rules_lock_facts, re-extracted on every run; and observed on gated "
        "pairs of overlapping updates: the second is blocked while the first is inside its storage write)",
        "the order in which savePatch issues its writes (Go map order) is reported by the harness",
        "keyType is raw (no table/txn key encoding check); no store informer",
    ],
}
