def nontrivial(seq):
    """a store reaches tombstone, and some operation was rejected or hit an injected storage failure"""
    tomb = any("/T/" in obs for _, obs in seq)
    bad = any(not obs.startswith("ok") and " ; " in obs for (op, obs) in seq if not op.startswith("reset"))
    return tomb and bad


def coverage_extra(results, vlib):
    import os
    hist, writes = {}, {"ok": 0, "refused": 0}
    modes = {"rc": 0, "srv": 0}
    for r in results:
        if "crash" in r or not os.path.exists(r["trace"]):
            continue
        for op, obs in vlib.read_trace(r["trace"]):
            w = op.split(" ")
            if w[0] == "reset" and len(w) > 1:
                modes[w[1]] = modes.get(w[1], 0) + 1
            k = w[0] + ":" + obs.split(" ; ")[0]
            hist[k] = hist.get(k, 0) + 1
            for part in obs.split(" ; "):
                if part.startswith("writes: "):
                    for x in part[8:].split():
                        if x.endswith("!"):
                            writes["refused"] += 1
                        elif x.endswith("+"):
                            writes["ok"] += 1
    return {"result_histogram": dict(sorted(hist.items())), "store_writes": writes, "sequences_by_backend": modes}


SPEC = {
    "id": "C14",
    "area": "storefsm",
    "harness": "storefsm",
    "lean_targets": ["PdModel.Props.C14", "Audit.C14"],
    "audit": "Audit/C14.lean",
    "lean_files": ["PdModel/Prelude/StoreCfgMap.lean", "PdModel/Model/StoreFsm.lean", "PdModel/Lemmas/StoreFsm.lean",
                   "PdModel/Props/C14.lean", "PdModel/Spec/C14.lean", "PdModel/Driver/StoreFsm.lean"],
    "gen": {
        "quick": {"args": ["-n", "150", "-nsrv", "40", "-ngate", "24", "-len", "60"], "streams": 4},
        "thorough": {"args": ["-n", "2500", "-nsrv", "300", "-ngate", "100", "-len", "80"], "streams": 16},
    },
    "search": {"args": ["-n", "400", "-nsrv", "40", "-ngate", "40", "-len", "80"], "streams": 8},
    "nontrivial": nontrivial,
    "coverage_extra": coverage_extra,
    "rule": "sequence = reset (back end rc = bare RaftCluster on a memory kv / srv = in-process PD server with the real "
            "gRPC handlers; strict label matching on/off, location labels, placement rules on/off, initial cluster "
            "version) + 0-4 registrations + 5-60 random ops out of put / gput / ghb / labels (merge or force) / remove "
            "(with/without physically-destroyed) / up / bury / check / weight / rmtomb / region placement on 1-3 of the "
            "stores (non-leader peers are learners 2 times in 5) / restart (bare cluster: fresh cache + LoadClusterInfo on "
            "the same storage), over 5 store ids (+ id 0 and an unknown id), 4 addresses, 9 versions (incl. unparsable and empty), "
            "5 label keys (one differing in case only); every op carries a failure mask (bit i = the i-th store write of "
            "the op fails), non-zero for 1 op in 4; 1 sequence in 8 also registers stores born offline / tombstone / "
            "destroyed (malformed stream); non-trivial = some store reaches tombstone and some op is rejected or hits an "
            "injected failure; distinct = distinct op sequence. Gated stream (-ngate): 2-4 stores, then 3-6 "
            "two-operation schedules: `park <op1>` holds op1's first store write (after it is logged, before it takes "
            "effect, i.e. inside its locked section), `<op2>` (mostly on the same store) is started from a second "
            "goroutine and must be observed `blocked` on the cluster lock, `release` lets the write go on and reports "
            "both results, or `parked` when op2 reaches a write of its own (then a second `release`); op1/op2 out of "
            "check / put / remove / up / labels / weight / bury / rmtomb (+ ghb / gput on the server)",
    "model_text": "PdModel/Model/StoreFsm.lean: putStoreImpl (id / version compatibility / address loop / label merge / "
                  "strict label check / save-then-publish), PutStore + cluster-version bump, gRPC PutStore and "
                  "StoreHeartbeat (tombstone test, TiFlash test, persist-on-first-heartbeat), UpdateStoreLabels, "
                  "RemoveStore, UpStore, buryStore, checkStores and RemoveTombStoneRecords as loops over an input "
                  "iteration order, SetStoreWeight (three writes), the region-count bookkeeping of region heartbeats; "
                  "lock sections and save/publish orders regenerated from the source",
    "level_text": "Theorem C14_holds (Lean 4, kernel-checked; induction over op lists, no bound on history length, number of "
                  "stores, failure masks or loop orders): every operation of every history of the store life-cycle model is "
                  "observed as Spec.C14.StepOk demands - state_moves_only_forward, tombstone_refused_at_rpc, "
                  "bury_only_empty, live_addresses_unique, success_stored_eq_served, failed_write_served_unchanged - from the "
                  "invariant 'stored = served and live addresses pairwise different' (inv_reachable). The model is tied to "
                  "server/cluster, server/core and server/grpc_service.go by differential execution (bare RaftCluster and an "
                  "in-process PD server, failing kv.Base) with exact comparison of result, served stores, stored stores, "
                  "weight keys, write log and cluster version after every op; the proved checker Spec.C14.checkStep "
                  "(checkStep_iff) monitors the implementation's own observations.",
    "level_note": "Trusted: Lean kernel + 3 standard axioms; hand-written model (tied by correspondence on generated "
                  "histories, statistical beyond them); the failing kv wrapper (a refused write has no effect); the "
                  "canonicalisation (LastHeartbeat, status/peer address, deploy path and git hash are not compared; "
                  "weights are fixed point). Sequential histories only (the property's quantifier). Heartbeats are assumed "
                  "to arrive less than storePersistInterval apart (first heartbeat of a store object saves, later ones do "
                  "not). bury_only_empty is asserted for checkStores, not for the direct hook call of buryStore (which "
                  "has no region test of its own and only checkStores calls). One defect was found and repaired in /repo "
                  "(fixes/F22-merge-labels-copy.diff); the model follows the repaired code. The gated stream steps "
                  "outside the sequential quantifier: there the model serialises the two operations in the order in "
                  "which the cluster lock admits them (unlocked look-ups of UpdateStoreLabels / checkStores keep what "
                  "they saw), and the monitor judges every observed served/stored state.",
    "technique": "Lean 4 inductive invariant over op histories + differential correspondence + verified monitor",
    "assumptions": [
        "histories are sequential (one operation at a time), as the property quantifies",
        "a refused storage write returns an error and has no effect; store writes are the record key raft/s/<id> and the two weight keys",
        "store heartbeats arrive less than storePersistInterval (5 min) apart, so only the first heartbeat of a store object saves the record",
        "uint64 wrap-around and float weights that do not convert exactly to 10^-6 fixed point are not modelled",
        "semver pre-release tags in store versions are not modelled (versions are major.minor.patch)",
    ],
}
