def nontrivial(seq):
    ops = [op.split()[0] for op, _ in seq]
    displaced = any(op.startswith("put ") and o.startswith("ov=") and o != "ov=-" for op, o in seq)
    return displaced and "rm" in ops and ops.count("put") >= 10 and any(x in ops for x in ("scan", "search", "rand"))


def coverage_extra(results, vlib):
    """sum the generator's own distribution comments (kinds of puts, key spaces, malformed stream)"""
    dist = {}
    for r in results:
        if "crash" in r:
            continue
        try:
            for l in open(r["trace"], errors="replace"):
                if l.startswith("# distribution:"):
                    for kv in l.split(":", 1)[1].split():
                        k, v = kv.split("=")
                        dist[k] = dist.get(k, 0) + int(v)
        except OSError:
            pass
    return {"input_distribution": dist}


SPEC = {
    "id": "C07",
    "area": "regiontree",
    "harness": "regiontree",
    "lean_targets": ["PdModel.Props.C07", "Audit.C07"],
    "audit": "Audit/C07.lean",
    "lean_files": ["PdModel/Model/RegionTree.lean", "PdModel/Lemmas/RegionTreeList.lean", "PdModel/Lemmas/RegionTreeOps.lean",
                   "PdModel/Lemmas/RegionTreeInv.lean", "PdModel/Lemmas/RegionTreeRefine.lean", "PdModel/Lemmas/RegionTreeSet.lean",
                   "PdModel/Lemmas/RegionTreeQuery.lean", "PdModel/Props/C07.lean",
                   "PdModel/Spec/C07.lean", "PdModel/Driver/RegionTree.lean", "PdModel/Driver/RegionText.lean"],
    "gen": {
        "quick": {"args": ["-n", "640", "-len", "120", "-bulk", "160"], "streams": 8},
        "thorough": {"args": ["-n", "2500", "-len", "160", "-bulk", "100"], "streams": 16},
    },
    "search": {"args": ["-n", "60", "-len", "140", "-bulk", "8"], "streams": 8},
    "nontrivial": nontrivial,
    "coverage_extra": coverage_extra,
    "rule": "sequence = reset + 35-160 mutations of a real core.BasicCluster/RegionsInfo (put of a new id, gap fill, same "
            "range with other size, same range with other peers/leader/pending, changed range, split halves in either "
            "order, merge over 1-3 neighbours, new id swallowing several regions, unbounded end keys, removals), each "
            "followed by 1-4 queries (get/search/searchprev/scan with limit/overlaps/adjacent/len/per-store counts and "
            "sizes/total/store regions/random picks, 4 draws each) and periodic dumps of every tree; key spaces: 8 one-byte "
            "keys, 10^6 three-byte keys, variable-length keys; 1 sequence in 160 (quick; 1 in 100 thorough) is a grow-shrink-grow history with 280-440 contiguous regions on 2-4 stores (put all in ascending/descending/shuffled order, remove all but 20-70, put them again) so that the main tree and the sub-trees split, collapse and re-use freed btree nodes, probed after each phase with random picks restricted to single-region ranges (a panicking pick is recovered and reported as `panic`: sig=C07.random-pick-panicked), lookups, scans and counters; about once per 40 mutations `remove-stale`: put with the leader moved (sometimes other pending peers), then RemoveRegion with the OLD RegionInfo (op `rmstale`, the DropCacheRegion race), then per-store counts / listings / picks on every store of the region; about once per 70 mutations a `bounce` op runs a writer goroutine that transfers the leadership of a cached region back and forth (PutRegion) while 1500 reads poll BasicCluster.GetStoreRegionCount/Size of both stores (every value seen is reported; exactly one is allowed); GetStoreRegions and random picks report the returned OBJECTS (id/size/epoch, `id~stale` for a pick that is not the served RegionInfo); every 8th sequence drives pkg/btree alone (degrees 2,3,4,64; insert/replace/delete/Get/GetAt/GetWithIndex/Ascend*/Descend*/DeleteMin/Max, up to ~1900 ops) against the ordered-list abstraction; every 5th sequence is the malformed stream (empty/inverted "
            "ranges, two peers on a store, pending peer without peer, RemoveRegion with a foreign object); non-trivial = at "
            "least 10 puts, one displacing put, one removal and a lookup; distinct = distinct op sequence",
    "model_text": "PdModel/Model/RegionTree.lean: regionTree (find/getOverlaps/update/remove/updateStat/scanRange/"
                  "getAdjacentRegions/RandomRegion) over an ordered-set abstraction of pkg/btree, regionMap, RegionsInfo "
                  "(SetRegion with item re-use through a shared heap of items, RemoveRegion, sub-tree clean-up, updateSubTreeStat), "
                  "RegionFromHeartbeat glue; constants regenerated from server/core/region.go",
    "level_text": "Refinement proof in Lean 4 (kernel-checked, no bound on history length, key length, number of stores or "
                  "regions): history_refines - after every sequence of puts of well-formed regions and drops the RegionsInfo model "
                  "satisfies Inv (main tree ordered and pairwise non-overlapping with exact totalSize, tree = id map, every per-store "
                  "leader/follower/learner/pending sub-tree = the matching filter of the main tree with exact totalSize) and its "
                  "regions are Spec.C07.put/remove applied to a plain list; put_refines also gives the returned overlaps. On top: "
                  "get/search/searchPrev/scanRange(limit)/overlaps/adjacent/tree_len_eq_map_len/leader|follower|learner|pending "
                  "Count_eq and Size_eq/totalSize_eq/storeRegions_eq = their linear-scan definitions, random_pick_sound and "
                  "random_pick_complete for every index the rank computation can choose; C07_holds states it over whole traces with "
                  "the executable checker Spec.C07.check (check_iff). The model is tied to server/core by differential execution of "
                  "core.BasicCluster/RegionsInfo (internal trees dumped through an add-only hook) and Spec.C07 monitors the "
                  "implementation's own answers.",
    "level_note": "Trusted: Lean kernel + 3 standard axioms; hand-written model of region_tree.go/region.go (items as a shared heap, "
                  "tied by correspondence on generated histories: exact there, statistical beyond); pkg/btree is MODELLED as an "
                  "ordered list (not verified); well-formedness of input regions (real key range, one peer per store, pending peers on "
                  "peer stores) is an explicit decidable hypothesis - malformed input (also RemoveRegion with a foreign object, which "
                  "makes SetRegion dereference nil) is only compared with the model; that a random pick can come back nil is checked "
                  "by the monitor but not proved; completeness of random picks on the real code is statistical (200 draws); "
                  "int64 overflow not modelled; constants and BasicCluster lock regions extracted by factgen.",
    "technique": "Lean 4 refinement proof (model of RegionsInfo -> list specification) + differential correspondence + verified monitor",
    "assumptions": [
        "pkg/btree is modelled as an ordered list with linear-scan operations (not verified)",
        "int64/uint64 wrap-around of sizes and ids is not modelled",
        "regions are well-formed (start < end or unbounded end, one peer per store, pending peers on peer stores); "
        "the malformed stream is only compared with the model",
    ],
}
