def nontrivial(seq):
    """some change accepted, some rejected as invalid, and some rejected by an injected storage failure"""
    res = [obs.split(" ; ")[0] for (op, obs) in seq if not op.startswith("reset")]
    return "ok" in res and "kverr" in res and any(r not in ("ok", "kverr") for r in res)


def coverage_extra(results, vlib):
    import os
    hist, writes = {}, {}
    for r in results:
        if "crash" in r or not os.path.exists(r["trace"]):
            continue
        for op, obs in vlib.read_trace(r["trace"]):
            k = op.split(" ")[0] + ":" + obs.split(" ; ")[0]
            hist[k] = hist.get(k, 0) + 1
            for part in obs.split(" ; "):
                if part.startswith("writes: "):
                    writes[part[8:]] = writes.get(part[8:], 0) + 1
    return {"result_histogram": dict(sorted(hist.items())), "write_patterns": dict(sorted(writes.items()))}


SPEC = {
    "id": "C18",
    "area": "config",
    "harness": "config",
    "lean_targets": ["PdModel.Props.C18", "Audit.C18"],
    "audit": "Audit/C18.lean",
    "lean_files": ["PdModel/Model/Config.lean", "PdModel/Lemmas/Config.lean", "PdModel/Props/C18.lean",
                   "PdModel/Spec/C18.lean", "PdModel/Driver/Config.lean"],
    "gen": {
        "quick": {"args": ["-n", "70", "-len", "40"], "streams": 4},
        "thorough": {"args": ["-n", "1500", "-len", "50"], "streams": 16},
    },
    "search": {"args": ["-n", "150", "-len", "50"], "streams": 8},
    "nontrivial": nontrivial,
    "coverage_extra": coverage_extra,
    "rule": "sequence = reset (in-process bootstrapped PD server put back to its default configuration, cluster version "
            "4.0.0 or 5.0.0) + 4-40 calls out of Server.SetScheduleConfig / SetReplicationConfig / SetPDServerConfig / "
            "SetLabelProperty / DeleteLabelProperty / SetLabelPropertyConfig / SetClusterVersion / "
            "SetReplicationModeConfig, plus `foreign <section> <value>` (another member's write of one section through "
            "its own options/Storage objects on the same kv) and `reload` (Reload on the serving options object, i.e. "
            "re-election); each call mutates 1-4 items of the currently served section with values from the "
            "domain edges (ratios 0, 10^-6, 0.699999..0.800001, 0.999999, 1, 1.000001, 2, negative, NaN, +-Inf; tolerant "
            "ratio negative/NaN/Inf; flow digit -3..127; isolation level in / not in the location labels; label keys "
            "valid and invalid; registered, unregistered and misspelled scheduler types; deprecated flags; dashboard "
            "address auto/none/own url/own host/foreign/junk; version strings valid, v-prefixed, pre-release, malformed; "
            "replication modes in every spelling) and carries a failure mask over the storage writes of the call "
            "(configuration value, replication status, reverted configuration), non-zero for 1 call in 3; after every "
            "call the served sections, the default placement rule and a fresh PersistOptions.Reload are observed; "
            "non-trivial = an accepted, an invalid and a storage-failed call in the sequence; distinct = distinct op sequence",
    "model_text": "PdModel/Model/Config.lean: the eight setters as validate -> swap -> persist whole configuration -> roll "
                  "back, ScheduleConfig.Validate/Deprecated with IEEE comparison semantics on fixed-point values, "
                  "ReplicationConfig.Validate with the label-key grammar, the default-rule consistency test and the rule "
                  "roll-back of SetReplicationConfig, the dashboard-address and digit checks of SetPDServerConfig, "
                  "Set/DeleteLabelProperty, ParseVersion, NormalizeReplicationMode and the ModeManager.UpdateConfig "
                  "branches that write the replication status (revert path included), Persist (fails on NaN/Inf) and "
                  "Reload (adjustScheduleCfg + both MigrateDeprecatedFlags); registered and default scheduler types "
                  "regenerated from the source",
    "level_text": "Theorem C18_holds (Lean 4, kernel-checked; induction over op lists, no bound on history length, values or "
                  "failure masks): every call of every history of the configuration model is observed as Spec.C18.StepOk "
                  "demands - rejected_leaves_served_unchanged (every setter; invalid value, unmarshallable value or failing "
                  "write), accepted_is_reloaded (reload = Spec.C18.normalise of the served configuration; "
                  "normalise_of_accepted_sched: for validated sections only default schedulers are re-added), "
                  "accepted_in_domain / out_of_domain_sched_rejected / domain_invariant. The model is tied to server/server.go, "
                  "server/config and server/replication by differential execution on an in-process PD server with a failing "
                  "kv.Base (exact comparison of result, served sections, default rule, reloaded sections and write log after "
                  "every call); the proved checker Spec.C18.checkStep (checkStep_iff) monitors the implementation's own "
                  "observations.",
    "level_note": "Trusted: Lean kernel + 3 standard axioms; hand-written model (tied by correspondence on generated "
                  "histories, statistical beyond them); the failing kv wrapper (a refused write has no effect); JSON "
                  "encoding modelled as identity on the canonical record except for NaN/Inf; 21 scheduling, 5 PD-server and "
                  "7 dr-auto-sync scalar items are carried as uninterpreted text (no validation applies to them; their "
                  "round trip is compared); floats are fixed point (10^-6), generated values convert exactly; nil-vs-empty "
                  "location-label slices (reflect.DeepEqual in SetReplicationConfig tells them apart) are not explored; the "
                  "server is bootstrapped without stores (the TiFlash test of SetReplicationConfig is never true). One "
                  "defect repaired in /repo (fixes/F8-label-property-rollback.diff); the model follows the repaired code "
                  "and the repaired F6c (GetRule returns a copy).",
    "technique": "Lean 4 theorems over op histories + differential correspondence + verified monitor",
    "assumptions": [
        "histories are sequential (one setter call at a time)",
        "a refused storage write returns an error and has no effect; the writes of a call are the configuration value, the replication status and the reverted configuration value",
        "JSON marshalling is the identity on the canonical record, except that NaN/Inf cannot be marshalled",
        "the placement rule manager is initialised (placement rules are enabled when the cluster starts) and rule pd/default has empty key range",
        "generated float values convert exactly to 10^-6 fixed point",
    ],
}
