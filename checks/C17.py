def nontrivial(seq):
    ops = [op.split() for op, _ in seq]
    obs = [o for _, o in seq]
    loads = [(w, o) for w, o in zip(ops, obs) if w and w[0] in ("loadstores", "loadregions", "loadonce")]
    nonempty = any(o.startswith("ok ") and " n=0 " not in o + " " for w, o in loads)
    changed = any(w and w[0] in ("delstore", "delregion", "flush", "close", "crash", "weight", "weights", "corrupt", "race")
                  for w in ops) or \
        any(len(w) > (2 if w[0] == "loadregions" else 1) for w, _ in loads)
    paged = any(o.startswith("ok n=") and int(o.split()[1][2:]) >= 100 for _, o in loads)
    return nonempty and (changed or paged)


def coverage_extra(results, vlib):
    backends, sizes, errs, pruned, halvings, stops = {}, {}, {"ok": 0, "err": 0}, 0, {}, 0
    once = {"failed": 0, "loaded": 0, "skipped-already-loaded": 0}
    weighted_pages, races = {}, 0
    for r in results:
        if "crash" in r:
            continue
        try:
            lines = vlib.read_trace(r["trace"])
        except OSError:
            continue
        for op, obs in lines:
            w = op.split()
            if not w:
                continue
            if w[0] == "open":
                backends[w[1]] = backends.get(w[1], 0) + 1
            elif w[0] == "weights":
                n = int(w[1])
                b = "1-50" if n <= 50 else "51-100" if n <= 100 else ">100"
                weighted_pages[b] = weighted_pages.get(b, 0) + 1
            elif w[0] == "race":
                races += 1
            elif w[0] == "loadonce":
                if not obs.startswith("ok"):
                    once["failed"] += 1
                elif " n=0 " in obs and " kn=0 " not in obs:
                    once["skipped-already-loaded"] += 1
                else:
                    once["loaded"] += 1
            elif w[0] in ("loadstores", "loadregions"):
                pat = w[-1] if w[-1].strip("01") == "" and w[-1] else ""
                k = str(pat.count("1"))
                halvings[k] = halvings.get(k, 0) + 1
                errs["ok" if obs.startswith("ok") else "err"] += 1
                if obs.startswith("ok n="):
                    n = int(obs.split()[1][2:])
                    b = ("0" if n == 0 else "1-99" if n < 100 else "100-101" if n <= 101 else "102-155" if n < 156 else
                         "156-157" if n <= 157 else "158-311" if n < 312 else "312-313" if n <= 313 else
                         "314-2498" if n < 2499 else "2499-2501" if n <= 2501 else "2502-9998" if n < 9999 else
                         "9999-10001" if n <= 10001 else ">10001")
                    sizes[b] = sizes.get(b, 0) + 1
                if w[0] == "loadregions" and w[1] == "prune" and " cn=" in obs and " kn=" in obs:
                    ln = int(obs.split(" n=")[1].split()[0]) if " n=" in obs else 0
                    cn = int(obs.split(" cn=")[1].split()[0])
                    pruned += 1 if cn < ln else 0
            elif w[0] == "crash":
                stops += 1
    return {"backends": backends, "load_sizes": sizes, "load_results": errs, "failing_loadrange_calls_per_load": halvings,
            "prune_loads_that_removed_leftovers": pruned, "process_stops": stops, "load_regions_once": once,
            "bulk_weight_sets": weighted_pages, "gated_delete_vs_flush_schedules": races}


SPEC = {
    "id": "C17",
    "area": "storageload",
    "harness": "storageload",
    "lean_targets": ["PdModel.Props.C17", "Audit.C17"],
    "audit": "Audit/C17.lean",
    "lean_files": ["PdModel/Model/StorageLoad.lean", "PdModel/Model/SyncRegion.lean", "PdModel/Lemmas/StorageLoad.lean",
                   "PdModel/Props/C17.lean", "PdModel/Spec/C17.lean", "PdModel/Driver/StorageLoad.lean"],
    "gen": {
        "quick": {"args": ["-n", "60", "-len", "30", "-big", "1"], "streams": 8},
        "thorough": {"args": ["-n", "500", "-len", "50", "-big", "5", "-bg", "1"], "streams": 16},
    },
    "search": {"args": ["-n", "150", "-len", "40", "-big", "2"], "streams": 8},
    "nontrivial": nontrivial,
    "coverage_extra": coverage_extra,
    "rule": "sequence = reset + open mem|etcd|rs + one of (a) stores: a bulk set (0-301 or 9999-10001 items; dense from 0/1, "
            "stepped, 2^32-stepped, ending just below 2^64-1, random) then random store/delstore/weight/loadstores with "
            "failing LoadRange calls; (b) region paging: a bulk set sized around the page boundary of the adaptive limit after "
            "0-6 halvings (156 ... 10000; lim-1, lim, lim+1, 2lim-1 ... 3lim) loaded with an error pattern that forces exactly "
            "those halvings, then deletes/overwrites and plain or pruning loads under random patterns (0-7 failures); (c) "
            "pruning/histories: overlapping, stale and duplicate-range leftovers on a 10-key grid with versions 1-5, "
            "save/delete/flush/close/process-stop histories on the real RegionStorage (also right at its batch boundary "
            "98-101 saves), plain and pruning loads, single loads; (d) LoadRegionsOnce on one Storage object with a fresh cache "
            "per call: unreadable records planted below core.Storage make loads fail part-way, the record is rewritten or "
            "deleted, the call is retried, repeated after success, close/stop in between; (e) gated schedule on a leveldb whose "
            "journal writes can be parked: DeleteRegion of a pending region parked inside its leveldb delete, Flush started, "
            "delete released; (f) leveldb write faults: Flush and the batch-filling SaveRegion of the region backend return an "
            "error while every leveldb write fails (embedded DB swapped for a closed one), later flush/close/reopen/full load; "
            "(g) fat regions (keys padded to 2-16 KB so that one page of a range scan is several MB) on leveldb and memory kv; "
            "(h) selector switches (SwitchToDefaultStorage / SwitchToRegionStorage) inside the region-backend histories. "
            "Store sets also get 51-100+ explicitly saved weights inside one page (2 weight keys per store). Foreign keys are planted around both namespaces. "
            "non-trivial = a non-empty successful full load plus a delete/flush/close/stop/weight/error pattern or >= 100 "
            "items; distinct = distinct op sequence",
    "model_text": "PdModel/Model/PadKey.lean (%020d keys, byte order), PdModel/Model/StorageLoad.lean (LoadRange, the loops of "
                  "LoadStores and loadRegions with adaptive limit and callback deletions, kv Save/Remove/Load, RegionStorage = "
                  "leveldb + batch + cacheSize, weights), PdModel/Model/SyncRegion.lean (CheckAndPutRegion as prune callback); "
                  "minKVRangeLimit, maxKVRangeLimit, defaultBatchSize, the key format and the lock/order structure of "
                  "RegionStorage.Remove regenerated from the source",
    "level_text": "Theorems (Lean 4, kernel-checked, no bounds): padded_key_order - zero-padded key order = id order for every "
                  "width; kv_history - after every save/delete history the kv is in key order and Load returns the value saved "
                  "last; load_stores_exact_once_partial / load_regions_exact_once_partial - for every such history, every page "
                  "limit >= 1 and (regions) every error pattern that keeps the page size above the minimum (with the extracted "
                  "limits: any 6 failing calls) the load ends without error and its callback received exactly the stored items "
                  "once each in id order (proved by 'paging is transparent': the loop equals one fold over the remaining items); "
                  "prune_storage_eq_cache_partial - with the CheckAndPutRegion callback the same holds while leftovers are "
                  "deleted under the iteration, and afterwards storage and cache hold the same pairwise compatible regions; "
                  "flush_makes_saved_visible / saved_not_deleted_exact_region_backend_partial / stop_keeps_flushed - region "
                  "backend, every save/delete/flush history, every batch size. _partial = under the hypothesis that no id is "
                  "2^64-1, which the pinned code loses (load_max_id_counterexample, known finding F7a). The model is tied to "
                  "server/core by differential execution of the real core.Storage on memory kv, embedded etcd and a real leveldb "
                  "RegionStorage, and the proved checkers of Spec.C17 monitor the implementation's own outputs.",
    "level_note": "Trusted: Lean kernel + 3 standard axioms (one @[csimp] equation, itself a theorem, lets the compiled driver compare "
                  "ids instead of digit lists); hand-written model (tied by correspondence on generated histories, statistical "
                  "beyond them); harness canonicalisation (large loads are reported as compressed id list + checksum, full items up "
                  "to 2500). Modelled rather than verified: strconv float formatting/parsing of the weights (bit patterns are "
                  "compared on the implementation side), protobuf encodings, the three kv backends' own range scans (compared, not "
                  "proved), the time-based background flush (thorough tier only), failures of Save/Remove/Load (only LoadRange "
                  "failures, unreadable region records and failing leveldb writes of the region backend are injected); concurrency inside RegionStorage is covered by one gated "
                  "schedule (delete parked in leveldb vs flush) and the extracted lock/order facts, not by a model of interleavings. The region-backend theorems speak about the tree with fixes/F7b-*.diff applied; the "
                  "pre-repair behaviour is proved wrong on a witness (delete_then_flush_unfixed_counterexample) that is replayed "
                  "from corpus/C17 on every run.",
    "technique": "Lean 4 induction over pages/error patterns/histories + differential correspondence on the real "
                 "core.Storage over memory kv, embedded etcd and leveldb RegionStorage + verified monitor",
    "assumptions": [
        "ids are uint64; the id 2^64-1 is excluded from the _partial theorems (known finding F7a: it is never loaded)",
        "every value is stored under the key of its own id (SaveStore/SaveRegion build the key from the id)",
        "only LoadRange calls fail (any pattern); Save/Remove/Load succeed",
        "a process stop loses exactly the pending batch of the region storage; leveldb itself keeps what was written",
        "prune_storage_eq_cache_partial starts from an empty cache (all call sites of the pinned tree on first load)",
    ],
}
