import re


def nontrivial(seq):
    """at least one served-state switch by a tick and at least one fault, failed switch or recovery scan"""
    switched = any(op.startswith("tick") and ":1@" in obs and ";S" in obs for op, obs in seq)
    other = any(("Ax" in obs) or (":0@" in obs) or ("Q" in obs.split("ev=")[-1]) for _, obs in seq)
    return switched and other


def coverage_extra(results, vlib):
    dist = {}
    for r in results:
        if "crash" in r:
            continue
        try:
            for l in open(r["trace"], errors="replace"):
                m = re.match(r"# dist (.*) = (\d+)$", l.rstrip("\n"))
                if m:
                    dist[m.group(1)] = dist.get(m.group(1), 0) + int(m.group(2))
        except OSError:
            pass
    return {"input_distribution": dist}


SPEC = {
    "id": "C19",
    "area": "drautosync",
    "harness": "drautosync",
    "lean_targets": ["PdModel.Props.C19", "Audit.C19"],
    "audit": "Audit/C19.lean",
    "lean_files": ["PdModel/Model/DrAutoSync.lean", "PdModel/Lemmas/DrAutoSync.lean", "PdModel/Props/C19.lean",
                   "PdModel/Spec/C19.lean", "PdModel/Driver/DrAutoSync.lean"],
    "gen": {
        "quick": {"args": ["-n", "400", "-len", "60"], "streams": 8},
        "thorough": {"args": ["-n", "6000", "-len", "80"], "streams": 16},
    },
    "search": {"args": ["-n", "400", "-len", "70"], "streams": 8},
    "nontrivial": nontrivial,
    "coverage_extra": coverage_extra,
    "rule": "sequence = reset + optional small scan sizes (batch 1-16, sample 1-9; every fourth sequence keeps the real "
            "1024/512 and fills 500-3000 regions) + 2-6 labelled stores + NewReplicationModeManager (dr-auto-sync 9/10) on a "
            "mockcluster, fake file replicator and fault-injecting storage + 8-60 ops drawn from: tick (two switch inputs: "
            "fresh id or AllocID error, file-replication ok/fail, save ok / error / error-after-write), store events = meta state "
            "Up/Offline/Tombstone crossed with liveness up/down, relabel (steered towards leaving the current state; in async "
            "also `store delete` of a dead store = Offline while still down), region reports (status update, split, merge, arbitrary "
            "overlapping range, removal; state id current 72% / stale / future / 0; integrity 78% / majority / unknown), fill "
            "(n contiguous regions), UpdateConfig majority<->dr-auto-sync and replica counts, restart on the same storage, "
            "start-time / member-time freshness, scan-size changes, and (rare) direct setting of the recovery counters up to "
            "2^26 followed by a tick (float32 tie); streams 3 mod 4 add malformed inputs (zero replicas, equal or empty dc "
            "labels, unlabeled stores, tick without manager, reports far in the future, duplicates, empty cluster); "
            "label-key changes only in the corpus. non-trivial = at least one served-state switch by a tick and at least one "
            "injected fault, failed switch or recovery scan; distinct = distinct op sequence",
    "model_text": "PdModel/Model/DrAutoSync.lean: NewReplicationModeManager/loadDRAutoSync, UpdateConfig, drSwitchTo* "
                  "(AllocID ; replicate file ; save ; publish), drCheckAsyncTimeout, checkStoreStatus, tickDR, updateProgress "
                  "(batches, gaps, sampling), checkRegionRecover, drRecoverFinished, estimateProgress (exact rational and a "
                  "binary32 soft-float), updateRecoverProgress, and the region cache operations the scan relies on; scan sizes "
                  "and the persist-before-publish statement order regenerated from the source",
    "level_text": "Theorem C19_holds (Lean 4, kernel-checked; every history of starts/restarts, configuration updates, ticks, "
                  "store events, region reports, removals, time-out inputs and every AllocID result / file-replication / "
                  "storage failure at every switch; no bound on length or number of regions; only hypothesis: the id allocator "
                  "never repeats an id = C04): what is observed of the model satisfies Spec.C19.Holds - each change of the "
                  "served state is 'fresh id ; offered ; persisted while the old state is still served ; then served', failed "
                  "persists change nothing, async / sync_recover / sync are entered only under the stated store conditions "
                  "resp. only when every key lies in a region that reported integrity under the sync_recover id. Clause theorems "
                  "to_async_only_if, to_sync_recover_only_if, to_sync_only_if_all_regions_contiguous_integrity (cursor "
                  "invariant inv_reachable), state_id_fresh, persist_before_publish, failed_persist_served_unchanged, "
                  "exact_progress_eq_one_iff. The model is tied to server/replication/replication_mode.go by differential "
                  "execution of the real ModeManager (hook: tickDR, cursor, start/member times, scan sizes) including every scan "
                  "call, counter and float32 bit pattern, and the proved checker Spec.C19.runB monitors the implementation's own "
                  "event stream.",
    "level_note": "Trusted: Lean kernel + 3 standard axioms; hand-written model (tied by correspondence on generated "
                  "histories, statistical beyond them); harness (cluster/storage/replicator wrappers, lock-free peek of the "
                  "in-memory state inside callbacks); factgen shape check of the switch functions. Modelled rather than "
                  "verified: float32 arithmetic of estimateProgress (soft-float, compared bit-for-bit; after the F9 repair no "
                  "decision depends on it), wall clock (down / old flags are inputs; harness uses 1000 h margins), the region "
                  "B-tree (sorted list), the bounded fuel of the scan loop (exhaustion would show as a DIFF). Not covered: "
                  "interleavings of tickDR with a concurrent UpdateConfig (C19 quantifies over histories, not schedules); "
                  "malformed regions with start >= end != '' (the Go loop itself may not terminate on them).",
    "technique": "Lean 4 inductive invariant over op histories + differential correspondence + verified monitor",
    "assumptions": [
        "the id allocator never returns the same id twice (property C04, proved separately); ids are inputs of the switches",
        "clock readings are inputs: a store is 'down' when DownTime >= WaitStoreTimeout, start/member times are 'old' when "
        "further back than WaitAsyncTimeout",
        "region reports are well-formed (start < end or end = ''); keys are compared as the byte strings the harness encodes",
        "one operation at a time: no tickDR concurrent with UpdateConfig (the property quantifies over histories)",
        "float32 operations are IEEE-754 round-to-nearest-even without fused multiply-add (amd64); counters below 2^63",
    ],
}
