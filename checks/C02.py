import importlib.util, os
_p = os.path.join(os.path.dirname(os.path.abspath(__file__)), "C01.py")
_s = importlib.util.spec_from_file_location("check_C01_shared", _p)
_m = importlib.util.module_from_spec(_s)
_s.loader.exec_module(_m)

SPEC = dict(_m.COMMON)
SPEC.update({
    "id": "C02",
    "sig_prefix": "C02.",
    "lean_targets": ["PdModel.Props.C01", "Audit.C02"],
    "audit": "Audit/C02.lean",
    "level_text": "Theorem C02_holds (Lean 4, kernel-checked; same quantifiers as C01: every prefix of every history is a "
                  "crash point, every save may fail before or after taking effect, every clock offset incl. a persisted "
                  "window far in the future, interleavings at the granularity of single storage transactions): the stored "
                  "window never decreases and every grant's physical time is more than the guard below the window stored "
                  "at that moment (granted_below_stored, stored_monotone_step); failed_save_keeps_memory; the take-over "
                  "clause follows from C01_holds over the whole multi-member history. window_counterexample_unserialised "
                  "shows (by decide) the violation of the pinned tree that fix F1 (window mutex) removes; the lock facts "
                  "are re-extracted from the source on every run. Tied to the code as C01.",
    "level_note": "As C01. Known finding F16 (open): a SetTSO whose save commits but reports an error leaves the cached "
                  "bound stale and a later update lowers the stored window (stored_window_counterexample_errAfter + corpus "
                  "witness on the real code); excluded from the theorem by Op.faithful.",
    "technique": "Lean 4 inductive invariant (window invariant over save history) + gated-transaction correspondence + verified monitor",
})
