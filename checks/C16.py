def nontrivial(seq):
    ops = [op.split() for op, _ in seq]
    obs = [o for _, o in seq]
    hb = [w for w in ops if w and w[0] == "hb"]
    if hb:
        kinds = {w[1] for w in hb if len(w) > 1}
        wrapped = any(o.startswith("next=") and "first=" in o and not o.split()[1].endswith("=0") for o in obs)
        return "from" in kinds and ("rec" in kinds or "recn" in kinds) and wrapped
    connects = [o for w, o in zip(ops, obs) if w and w[0] == "connect"]
    sent = any("msgs=[" in o and "msgs=[]" not in o for o in connects)
    checks = any(w and w[0] == "check" for w in ops)
    return sent and checks


def coverage_extra(results, vlib):
    import re
    modes = {"full-sync-batches": {}, "incremental": 0, "raw-messages": 0}
    caps, sizes, restarts, hbq = {}, {}, 0, {"inside": 0, "outside": 0}
    for r in results:
        if "crash" in r:
            continue
        try:
            lines = vlib.read_trace(r["trace"])
        except OSError:
            continue
        for op, obs in lines:
            w = op.split()
            if not w:
                continue
            if w[0] == "connect":
                m = re.search(r"req=(\d+) msgs=\[(.*)\] fnext", obs)
                if not m:
                    continue
                msgs = [x for x in m.group(2).split(";") if x]
                if not msgs:
                    modes["no-message (in sync, or index outside the window)"] = modes.get("no-message (in sync, or index outside the window)", 0) + 1
                elif m.group(1) == "0" and msgs[0].startswith("0/") and (len(msgs) > 1 or int(msgs[0].split("/")[1]) <= 100):
                    k = str(len(msgs))
                    modes["full-sync-batches"][k] = modes["full-sync-batches"].get(k, 0) + 1
                else:
                    modes["incremental"] += 1
                n = sum(int(x.split("/")[1]) for x in msgs)
                b = "0" if n == 0 else "1-99" if n < 100 else "100" if n == 100 else "101-199" if n < 200 else "200+"
                sizes[b] = sizes.get(b, 0) + 1
            elif w[0] == "raw":
                modes["raw-messages"] += 1
            elif w[0] in ("leader", "follower") or (w[0] == "hb" and w[1:2] == ["new"]):
                c = w[-1]
                caps[c] = caps.get(c, 0) + 1
            elif w[0] == "restart" or w[:2] == ["hb", "restart"]:
                restarts += 1
            elif w[:2] == ["hb", "from"]:
                hbq["outside" if obs == "[]" else "inside"] += 1
    return {"sync_modes": modes, "regions_per_connect": sizes, "capacities": caps, "restarts": restarts,
            "records_from_queries": hbq}


SPEC = {
    "id": "C16",
    "area": "syncer",
    "harness": "syncer",
    "lean_targets": ["PdModel.Props.C16", "Audit.C16"],
    "audit": "Audit/C16.lean",
    "lean_files": ["PdModel/Model/HistoryBuf.lean", "PdModel/Model/SyncRegion.lean", "PdModel/Model/Syncer.lean",
                   "PdModel/Lemmas/HistoryBuf.lean", "PdModel/Lemmas/Syncer.lean", "PdModel/Props/C16.lean",
                   "PdModel/Spec/C16.lean", "PdModel/Driver/Syncer.lean"],
    "gen": {
        "quick": {"args": ["-n", "30", "-len", "40", "-reuse", "6"], "streams": 8},
        "thorough": {"args": ["-n", "400", "-len", "60", "-reuse", "120"], "streams": 16},
    },
    "search": {"args": ["-n", "60", "-len", "50", "-reuse", "10"], "streams": 8},
    "nontrivial": nontrivial,
    "coverage_extra": coverage_extra,
    "rule": "sequence = reset + either (a) ops on the real historyBuffer through the hook: new(cap 0-130)/rec/recn/from/get/"
            "resetidx/restart with injected kv failures, hold/recheck (a caller keeps an answer of RecordsFrom while the buffer "
            "records past a wrap-around and looks at it again), or (b) one leader RegionSyncer behind a real gRPC server and up to "
            "3 follower RegionSyncers running the real StartSyncWithLeader loop: populate 0-320 regions, well-formed "
            "changes (leader/flow/membership/split/merge/stale) or arbitrary region reports, connect (GetRegions order "
            "asc/desc/rot/evenodd)/check/disconnect/follower restart, burst (2-5 changes notified while a live follower's "
            "stream is busy: its Send is parked before it serialises, the others queue up and leave as one message; often the same "
            "region twice with a leader change in between), lrestart (leader process restart: index reloaded from the kv, "
            "everybody reconnects, a change is broadcast at once), failing follower writes (a follower on its default kv whose "
            "writes of chosen region keys fail once or persistently during full/incremental sync and broadcasts), or (c) the malformed stream: hand-made messages on a "
            "follower's stream with missing stats, fewer leaders than regions, leader peer id 0, mismatching start index "
            "(correspondence only); non-trivial = (a) records, a wrapped or shifted "
            "window and a RecordsFrom query, (b) a connection that transported regions followed by a comparison of "
            "follower and leader; distinct = distinct op sequence",
    "model_text": "PdModel/Model/HistoryBuf.lean (ring buffer head/tail/size+1 slots/index/flush counter/persisted index), "
                  "PdModel/Model/Syncer.lean (syncHistoryRegion incl. the batch loop with its three parallel slices, RunServer "
                  "record+broadcast, follower receive loop, LoadRegionsOnce), PdModel/Model/SyncRegion.lean (CheckAndPutRegion); "
                  "defaultFlushCount, maxSyncRegionBatchSize, defaultHistoryBufferSize and the lock structure regenerated from the source",
    "level_text": "Theorems (Lean 4, kernel-checked, no bounds): records_from_exact – for every capacity, flush interval, "
                  "persisted start index and every sequence of record/reset/restart operations with any pattern of failing "
                  "saves, RecordsFrom(i) of the ring-buffer model returns for every i exactly the records from i to the newest "
                  "inside the window and nothing outside (refinement ring buffer -> list, no modular arithmetic in the "
                  "statement); restart_lag_le_flush – after every history without failing save a restart continues not ahead "
                  "of and less than one flush interval behind the previous index (instantiated with the extracted "
                  "defaultFlushCount); full_sync_messages_exact / full_sync_follower_eq_leader – for every leader history, "
                  "every enumeration order, every batch size and number of batches the follower ends with exactly the "
                  "leader's regions (range, epoch, peers, leader, flow statistics) and the right next index "
                  "(full_sync_into_follower: also when the follower already holds older regions); "
                  "incremental_sync_follower_eq_leader and broadcast_follower_eq_leader – a follower equal to the leader at "
                  "index i equals it again after synchronising, for every reachable history buffer and every list of changes "
                  "of which at most `capacity` are accepted. The model is tied to server/region_syncer by differential "
                  "execution of the real historyBuffer (hook) and of real leader/follower RegionSyncers over gRPC, and the "
                  "proved checkers of Spec.C16 monitor the implementation's own outputs.",
    "level_note": "Trusted: Lean kernel + 3 standard axioms; hand-written model (tied by correspondence on generated histories, "
                  "statistical beyond them); the harness' quiescence waits and canonicalisation; gRPC/protobuf/leveldb as they are. "
                  "Modelled rather than verified: CheckAndPutRegion as a list model (C06's domain), the leader's heartbeat path "
                  "(the harness feeds accepted changes into RunServer's channel), keep-alive ticks, uint64 wrap-around. The theorems "
                  "speak about the tree with the repairs fixes/F3-*.diff and fixes/F12-*.diff applied; the pre-repair behaviour is "
                  "proved wrong on witnesses (full_sync_unfixed_counterexample, restart_lag_unfixed_counterexample) and the "
                  "witnesses are replayed from corpus/C16 on every run.",
    "technique": "Lean 4 refinement proof (ring buffer -> list spec) and induction over batches/histories + differential "
                 "correspondence on the real syncer over gRPC + verified monitor",
    "assumptions": [
        "uint64 wrap-around of the history index is not modelled (indexes are unbounded naturals)",
        "a present region leader has a non-zero peer id (id 0 is the wire encoding of 'no leader'); hypothesis WF of the sync theorems",
        "restart_lag_le_flush: no kv.Save of the history index fails (with failing saves the lag is unbounded; the monitor skips the lag check after an injected failure until a persist is seen to succeed)",
        "incremental_sync_follower_eq_leader: the follower equals the leader at its index (a past state of the leader) and at most `capacity` changes were accepted since; a follower whose index fell out of the window (and is not 0) is sent nothing by the code - C16 does not claim convergence for it",
        "the leader's cache is the list model of CheckAndPutRegion (stale check on version/confver, overlap removal); terms are 0",
        "the next-index statements of the sync theorems assume that no region save fails on the follower (NoFail); failed_save_keeps_cache covers the cache for every failure pattern",
        "each follower connection is quiescent when observed (the harness waits for bindStream and for the follower's index)",
    ],
}
