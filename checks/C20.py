def nontrivial(seq):
    """a sequence counts when requests really raced (two parked transactions, or a burst) or the leader
    changed while a request was in flight, or the cluster id was raced for"""
    ops = [op.split()[0] for op, _ in seq]
    obs = [o.split(" | ")[0] for _, o in seq]
    parked = sum(1 for (op, _), o in zip(seq, obs) if op.startswith("boot ") and o == "parked")
    idr = sum(1 for op in ops if op == "idstart") >= 2 or "idburst" in ops
    return parked >= 2 or "burst" in ops or (parked >= 1 and "lead" in ops) or idr


def coverage_extra(results, vlib):
    import collections
    outs = collections.Counter()
    pay = collections.Counter()
    hdr = collections.Counter()
    burst = collections.Counter()
    for r in results:
        if "crash" in r:
            continue
        for op, o in vlib.read_trace(r["trace"]):
            w = op.split()
            first = o.split(" | ")[0].split()
            outs[w[0] + ":" + (first[0] if first else "?")] += 1
            if w[0] in ("boot", "bootnow"):
                tok, h = (w[4], w[3]) if w[0] == "boot" else (w[3], w[2])
                good = tok in ("S1,R2,K00,P3@1", "S4,R5,K00,P6@4", "S7,R8,K00,P9@7", "S1,R5,K00,P9@1")
                pay["well-formed" if good else "malformed-or-freeform"] += 1
                hdr[h] += 1
            if w[0] == "burst":
                burst[len(w) - 2] += 1
    return {"outcome_histogram": dict(sorted(outs.items())), "payload_classes": dict(pay),
            "header_classes": dict(hdr), "burst_sizes": dict(sorted(burst.items()))}


SPEC = {
    "id": "C20",
    "area": "bootstrap",
    "harness": "bootstrap",
    "lean_targets": ["PdModel.Props.C20", "Audit.C20"],
    "audit": "Audit/C20.lean",
    "lean_files": ["PdModel/Model/Bootstrap.lean", "PdModel/Lemmas/Bootstrap.lean",
                   "PdModel/Lemmas/BootstrapEvents.lean", "PdModel/Props/C20.lean",
                   "PdModel/Spec/C20.lean", "PdModel/Driver/Bootstrap.lean"],
    "gen": {
        "quick": {"args": ["-n", "30", "-len", "24", "-streams", "4"], "streams": 4},
        "thorough": {"args": ["-n", "500", "-len", "32", "-streams", "16", "-maxsec", "500"], "streams": 16},
    },
    "search": {"args": ["-n", "80", "-len", "30", "-streams", "8"], "streams": 8},
    "nontrivial": nontrivial,
    "coverage_extra": coverage_extra,
    "rule": "two in-process PD servers on one etcd cluster, real Bootstrap / IsBootstrapped handlers. (1) every commit "
            "order of 2 and of 3 racing Bootstrap requests (transactions parked by a goroutine-selective gate on the "
            "server's etcd client), first transaction also with an error before / after its effect, with a malformed "
            "and a foreign-cluster request mixed in; (2) random histories: gated and ungated requests with "
            "well-formed, malformed (12 fixed + free-form) and foreign/zero cluster-id payloads to leader and "
            "follower, forced leader changes (ResignEtcdLeader) while transactions are parked, free bursts of 2-16 "
            "concurrent requests, IsBootstrapped, a probe of 8 other handlers with the same header, PutClusterConfig with "
            "own/foreign/zero cluster id in header and body, GetClusterConfig (also on the next leader), Tso streams "
            "of 1-6 requests with chosen header ids, a write fault of the leader-local region storage (closed leveldb "
            "handle) around the winning request, the served "
            "stores/region; (3) 2-8 gated and 2-8 free concurrent initOrGetClusterID calls on a fresh key. "
            "non-trivial = two parked transactions, or a burst, or a leader change with a parked transaction, or a "
            "cluster-id race; distinct = distinct op sequence",
    "model_text": "PdModel/Model/Bootstrap.lean: boot (validateRequest, raft cluster running, checkBootstrapRequest) / "
                  "commit (the CreateRevision(root)=0 transaction with fault flag) / start (cluster.Start) / lead "
                  "(leader change: stop and create raft cluster) micro-steps over the bootstrap keys of etcd; initId = "
                  "the create-if-absent transaction of initOrGetClusterID",
    "level_text": "Theorem C20_holds (Lean 4, kernel-checked, no bound on members, requests, interleaving, leader changes or "
                  "transaction faults): the observable events of EVERY model history (requests issued, answers, stored "
                  "records after every step) satisfy Spec.C20.Holds - at most one request accepted, it was well-formed and "
                  "for this cluster and the records are its own from then on, records never change, they come from one "
                  "never-refused well-formed request. Theorem bootstrap_exactly_once (same quantifiers): in every reachable state at most one bootstrap transaction has succeeded; before it "
                  "nothing is stored and nothing accepted; after it the stored cluster meta, store and region are exactly "
                  "those of that request's well-formed payload and it is the only request answered ok "
                  "(at_most_one_ok_answer over the answers of a history); "
                  "loser_changes_nothing (every other step leaves the records untouched); malformed_payload_rejected + "
                  "accepted_is_well_formed; foreign_cluster_id_refused (+ _config: PutClusterConfig header and body, + _tso: every request of a stream); cluster_id_agreement (all racers get the first "
                  "committed value, the key never changes); checkReq_iff_wellFormed ties the modelled check to the "
                  "specification's notion of a well-formed payload. The structure the model relies on (both transactions "
                  "guarded by CreateRevision=0, payload checked before the transaction, validateRequest before "
                  "bootstrapCluster, the list of handlers without validateRequest) is re-extracted from the source on every "
                  "run. The model is tied to the handlers by differential execution and the decidable specification "
                  "Spec.C20.Holds judges the implementation's responses and stored records.",
    "level_note": "Trusted: Lean kernel + 3 standard axioms; hand-written model tied by correspondence (all commit orders "
                  "of <= 3 racing requests, statistical beyond); the harness and its transaction gate; the model merges "
                  "transaction and raft-cluster start of one request into consecutive steps when replaying (the theorem "
                  "covers the split); etcd executes a transaction atomically. The same decidable Spec.C20.Holds that is "
                  "proved of every model history (C20_holds) is what the monitor evaluates on implementation traces.",
    "technique": "Lean 4 inductive invariant over micro-step histories + differential correspondence with gated "
                 "transactions + decidable specification as monitor",
    "assumptions": [
        "etcd executes a transaction atomically; a Commit error may come with or without effect (both modelled)",
        "all members hold the same cluster id (cluster_id_agreement) and therefore the same root path",
        "un-bootstrapping between sequences (stop raft clusters, delete the raft prefix) is harness machinery; "
        "region storage is switched off so that every start reloads regions from etcd",
        "cluster.Start succeeds once the records are stored (its storage errors are not injected)",
    ],
}
