def overlay(vlib):
    return vlib.make_overlay("tso", ["server/tso/tso.go", "server/tso/global_allocator.go"], "tso")


def nontrivial(seq):
    grants = sum(1 for _, o in seq if o.startswith("ts "))
    events = sum(1 for op, o in seq if op.split()[0] in ("lead", "setts", "gupdate", "gsync", "resetmem", "expire")
                 or o.startswith("err-"))
    return grants >= 2 and events >= 2


LEAN_FILES = ["PdModel/Model/Tso.lean", "PdModel/Lemmas/Tso.lean", "PdModel/Lemmas/TsoObs.lean",
              "PdModel/Props/C01.lean", "PdModel/Props/C02.lean", "PdModel/Spec/C01.lean", "PdModel/Spec/C02.lean",
              "PdModel/Driver/Tso.lean"]

COMMON = {
    "area": "tso",
    "harness": "tso",
    "overlay": overlay,
    "lean_files": LEAN_FILES,
    "gen": {
        "quick": {"args": ["-n", "120", "-len", "60"], "streams": 4},
        "thorough": {"args": ["-n", "600", "-len", "90"], "streams": 16},
    },
    "search": {"args": ["-n", "300", "-len", "80"], "streams": 8},
    "nontrivial": nontrivial,
    "rule": "sequence = reset(saveInterval, maxResetGap) + random interleaving, on 1-3 simulated PD members sharing one "
            "embedded etcd and one leader key, of GenerateTSO(count in 1..2^18), UpdateTSO / Initialize (whole, or parked "
            "before their window-save transaction and released later with a fault flag), SetTSO around the current time, "
            "the MaxTS path (resetUserTimestamp with ignoreSmaller), memory resets, leadership hand-overs, local lease expiry, "
            "resign, deletion of the leader record, another allocator's window under the same root, GenerateTSO calls "
            "during whose k-th sleep other ops run (gettsx), and the real pd client in front of a member's allocator with "
            "queued requests whose callers give up; one third of the sequences drive LocalTSOAllocators with 1-4 suffix "
            "bits; every clock reading is injected per op "
            "(member skews up to +-1h, jumps +-1h); window writers issued behind a parked one must block. "
            "non-trivial = at least two grants and two of (hand-over, SetTSO, gated call, memory reset, lease expiry, error); "
            "distinct = distinct op sequence",
    "model_text": "PdModel/Model/Tso.lean: timestampOracle (generateTSO/getTS retry loop, UpdateTimestamp U1;U2;U3, "
                  "SyncTimestamp S1;S2;S3 with loadTimestamp over all windows of the root, resetUserTimestamp in both modes, "
                  "ResetTimestamp, suffix differentiation) for any number of members on one stored window guarded by the "
                  "leader record; constants regenerated from server/tso/tso.go",
    "assumptions": [
        "a member that wins a campaign starts a fresh term: its allocator was reset at the end of its previous term and no "
        "window write of an earlier term is still in flight (DESIGN section 5)",
        "local lease expiry precedes server-side expiry (bounded clock rates): when a member wins, every other member's "
        "leadership check is already false",
        "one GenerateTSO call (generateTSO + its checks) is one atomic step: it does not span a complete hand-over away "
        "from and back to the same member",
        "UpdateTSO is only driven by the updater daemon, which skips uninitialised allocators and allocators whose "
        "leadership check fails; an UpdateTSO/Initialize error makes the caller reset the allocator group (both "
        "emulated by the harness as the production callers do it)",
        "theorems exclude a SetTSO whose save is applied but reported as failed (Op.faithful; known finding F16)",
        "saveInterval > 1 ms (UpdateTimestampGuard); 64-bit wrap-around not modelled",
        "the clock is injected with go build -overlay (time.Now/Since/Sleep tokens of tso.go and global_allocator.go), "
        "nothing in /repo is edited",
    ],
    "trusted_base_extra": ["harness/cmd/clockoverlay (token replacement) and the two add-only accessor files under harness/overlay/tso"],
}

SPEC = dict(COMMON)
SPEC.update({
    "id": "C01",
    "sig_prefix": "C01.",
    "lean_targets": ["PdModel.Props.C01", "Audit.C01"],
    "audit": "Audit/C01.lean",
    "level_text": "Theorem C01_holds (Lean 4, kernel-checked; any number of members, any interleaving of grants with the "
                  "micro-steps of window updates/syncs, SetTSO, resets, hand-overs, any clock readings, any history length): "
                  "the granted ranges are pairwise disjoint and strictly increase along the lock order (which extends "
                  "real time), every logical part fits 18 bits; compose_strict_mono for the 64-bit composition. Tied to "
                  "server/tso by differential execution of real allocators on embedded etcd with an injected clock and "
                  "gated/faulted save transactions; the proved checkers monitor the implementation's outputs. Scope: one "
                  "allocator (global without dc-locations, or one local allocator); the global allocator in local-TSO "
                  "mode is C05.",
    "level_note": "Trusted: Lean kernel + 3 standard axioms; hand-written model tied by correspondence (statistical beyond "
                  "the generated histories); clock overlay; lease/term assumptions listed in the evidence; extracted "
                  "constants and lock facts via factgen.",
    "technique": "Lean 4 inductive invariant over interleaved op histories + differential correspondence with injected clock + verified monitor",
    # the C01 clauses of the global allocator in local-TSO mode, of the Tso gRPC handler and of the pd client against a
    # real server are monitored in the tsoglobal harness (signatures C01.global-*): a short run of it belongs to this check
    "also": [{"area": "tsoglobal", "harness": "tsoglobal",
              "gen": {"quick": {"args": ["-n", "8", "-len", "24"], "streams": 1},
                      "thorough": {"args": ["-n", "60", "-len", "40"], "streams": 2}}}],
})
