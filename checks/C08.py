import re


def nontrivial(seq):
    """a block of builds is non-trivial if it contains operators with several steps and rejected requests"""
    multi = any(o.startswith("ok ") and "," in o for _, o in seq)
    err = any(o.startswith("err ") for _, o in seq)
    return multi and err


def coverage_extra(results, vlib):
    """what the generated builds looked like, and how many hit the two known classes"""
    sig = {}
    kinds = {}
    errs = {}
    steps = {}
    nstores = {}
    classes = {"exhaustive-up-stores": 0, "random": 0, "joint-origin": 0, "store-states": 0}
    builds = 0
    for r in results:
        if "crash" in r:
            continue
        for f in r["fails"]:
            s = vlib.sig_of(f)
            sig[s] = sig.get(s, 0) + 1
        import os
        if not os.path.exists(r["trace"]):
            continue
        states = False
        for op, obs in vlib.read_trace(r["trace"]):
            w = op.split(" ")
            if w[0] == "reset":
                st = [x for x in w if x.startswith("stores=")]
                states = bool(st) and any(not x.endswith(":u:-:-") for x in st[0][7:].split(";"))
                n = len(st[0][7:].split(";")) if st else 0
                nstores[n] = nstores.get(n, 0) + 1
                continue
            builds += 1
            kinds[w[0]] = kinds.get(w[0], 0) + 1
            if obs.startswith("err "):
                errs[obs[4:]] = errs.get(obs[4:], 0) + 1
            else:
                for s in obs.split("steps=")[-1].split(","):
                    k = s.split(":")[0]
                    steps[k] = steps.get(k, 0) + 1
            rr = [x for x in w if x.startswith("r=")]
            if rr and re.search(r"\d[id]\d", rr[0]):
                classes["joint-origin"] += 1
            if states:
                classes["store-states"] += 1
    return {"builds": builds, "monitor_sig_counts": sig, "request_kinds": kinds, "error_kinds": errs,
            "step_kinds": steps, "stores_per_cluster": nstores, "input_classes": classes,
            "known_finding_hits": {"F5a": sig.get("C08.nojoint-addlearner-on-occupied-store", 0),
                                   "F5b": sig.get("C08.nojoint-voters-below-min", 0)}}


SPEC = {
    "id": "C08",
    "area": "builder",
    "harness": "builder",
    "lean_targets": ["PdModel.Props.C08", "Audit.C08"],
    "audit": "Audit/C08.lean",
    "lean_files": ["PdModel/Model/Steps.lean", "PdModel/Model/Builder.lean", "PdModel/Spec/C08.lean",
                   "PdModel/Lemmas/Builder.lean", "PdModel/Lemmas/BuilderJoint.lean", "PdModel/Lemmas/BuilderJoint2.lean", "PdModel/Lemmas/BuilderCalls.lean", "PdModel/Lemmas/BuilderLeave.lean", "PdModel/Lemmas/BuilderExec.lean", "PdModel/Lemmas/BuilderDiff.lean", "PdModel/Lemmas/BuilderSingle.lean", "PdModel/Props/C08.lean", "PdModel/Driver/Builder.lean"],
    "gen": {
        # exhaustive <= 5 stores (3 configurations, split over the streams) + random 6-8 stores
        "quick": {"args": ["-k", "5", "-parts", "8", "-n", "150", "-len", "40"], "streams": 8},
        "thorough": {"args": ["-k", "5", "-parts", "16", "-n", "1500", "-len", "40"], "streams": 16},
    },
    "search": {"args": ["-k", "0", "-n", "600", "-len", "40"], "streams": 8},
    "nontrivial": nontrivial,
    "coverage_extra": coverage_extra,
    "rule": "sequence = `reset` (cluster: feature level, joint option, stores with state/flags/labels) + builds on it. "
            "Exhaustive part: every origin in {none,voter,learner}^k with every voter as leader x every target in "
            "{none,voter,learner}^k, for (joint supported+on, supported+off, unsupported), k=5 (both tiers; the thorough tier adds 10x random), "
            "plus every requested leader and the light-weight/forced variants for k=3. Random part: 6-8 (sometimes "
            "2-5) stores with up/offline/tombstone/down/disconnected/busy/evicted/reject-leader/missing stores and "
            "0-3 location labels, placement rules off / default rule / zone-constrained rules; requests = SetPeers+SetLeader+flags+expected roles, chains of the single recording "
            "calls, every Create*Operator helper, leave-joint; every fifth sequence is the malformed stream (store 0, "
            "duplicate stores, joint roles in targets, leader not a peer). non-trivial = the block has multi-step "
            "operators and rejected requests; distinct = distinct op sequence",
    "model_text": "PdModel/Model/Builder.lean: function-by-function translation of builder.go (recording calls, "
                  "prepareBuild, both step builders, peerPlan with the five planners and six preferences, allowLeader) "
                  "and of the Create*Operator helpers; PdModel/Model/Steps.lean: CheckSafety and effect of every step "
                  "kind of step.go",
    "level_text": "Theorems (Lean 4, kernel-checked, no bound on stores/peers, all cluster states, flags and allocator inputs): "
                  "build_joint_safe / buildWith_joint_safe - every operator the joint-consensus builder returns for "
                  "NewBuilder(region).<any recording calls>.Build() on a well-formed region is a SafePlan (every step's "
                  "CheckSafety holds when its turn comes, leader never removed/demoted, transfers only to full voters, one "
                  "peer per store, voters >= min(origin, target), final peers/roles/leader = requested); "
                  "build_leave_joint_safe for CreateLeaveJointStateOperator; build_single_change_safe / "
                  "buildWith_single_change_safe - the non-joint builder (peerPlan, planners, comparePlan, final transfer) "
                  "whenever at most one peer change is pending, which is the only way it runs while joint consensus is on; "
                  "checkSafePlan_iff for the checker. The non-joint greedy builder with several pending changes is not "
                  "proved: it is tied by "
                  "exhaustive enumeration <= 5 stores (model = code on 1.29M builds, 0 disagreements) with the proved "
                  "checker as monitor; two input classes on which the pinned builder is unsafe are proved counterexamples "
                  "(F5a, F5b) and reported as known findings.",
    "level_note": "Trusted: Lean kernel + 3 standard axioms; the hand-written model of builder.go/step.go (tied by exact "
                  "step-list comparison on exhaustive small domains and random larger ones); Steps.apply as the semantics "
                  "of a store executing a step; harness canonicalisation of allocated peer ids; placement rules enter as a "
                  "per-build verdict computed by the real FitRegion/MatchLabelConstraints. Not proved: build_nojoint_safe_partial for two or more "
                  "pending changes without joint consensus (see docs/C08.md).",
    "technique": "Lean 4 theorems over a functional translation of the builder + exhaustive/differential correspondence + verified monitor",
    "assumptions": [
        "a store executes a step as Steps.apply describes (faithful TiKV); peer ids of new peers come from the id allocator (an input)",
        "the allocation order of new peer ids inside prepareBuild (Go map iteration) is canonicalised by the harness to store order",
        "placement rules enter through two inputs of allowLeader per build: the number of rules fitted to the region and the stores matching a leader/voter rule; the harness computes them with the real FitRegion / MatchLabelConstraints and writes them into the op line (a quarter of the random clusters have rules on)",
        "origin regions are well-formed (one peer per store, leader is a non-learner peer); a region inside a joint state is only asked to leave it or to move its leader",
    ],
}
