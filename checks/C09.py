def nontrivial(seq):
    """a sequence is non-trivial if operators were admitted, finished or were cancelled, and commands were sent"""
    ops = [op.split(" ")[0] for op, _ in seq]
    sent = any(" m=" in o and " m=- " not in o for _, o in seq)
    ended = any((":OK" in o) or (":X" in o) for _, o in seq)
    return sent and ended and "hb" in ops and "exec" in ops


def coverage_extra(results, vlib):
    import os
    sig = {}
    status = {}
    cmds = {}
    results_ = {}
    for r in results:
        if "crash" in r:
            continue
        for f in r["fails"]:
            s = vlib.sig_of(f)
            sig[s] = sig.get(s, 0) + 1
        if not os.path.exists(r["trace"]):
            continue
        last = {}
        for op, obs in vlib.read_trace(r["trace"]):
            w = op.split(" ")[0]
            if w == "reset":
                last = {}
            if " st=" not in obs:
                continue
            res = obs.split(" ")[0]
            results_[w + ":" + res] = results_.get(w + ":" + res, 0) + 1
            for part in obs.split(" "):
                if part.startswith("m=") and part != "m=-":
                    for m in part[2:].split(";"):
                        k = m.split("/")[-1].split(":")[0]
                        cmds[k] = cmds.get(k, 0) + 1
                if part.startswith("st=") and part != "st=-":
                    for x in part[3:].split(";"):
                        i, s = x.split(":")
                        if last.get(i) != s:
                            key = "%s>%s" % (last.get(i, "C"), s)
                            status[key] = status.get(key, 0) + 1
                            last[i] = s
    return {"monitor_sig_counts": sig, "status_moves_seen": status, "commands_seen": cmds,
            "event_results": results_}


SPEC = {
    "id": "C09",
    "area": "opctl",
    "harness": "opctl",
    "lean_targets": ["PdModel.Props.C09", "Audit.C09"],
    "audit": "Audit/C09.lean",
    "lean_files": ["PdModel/Model/Steps.lean", "PdModel/Model/OpCtl.lean", "PdModel/Model/StoreSim.lean",
                   "PdModel/Spec/C09.lean", "PdModel/Lemmas/OpCtl.lean", "PdModel/Lemmas/OpCtlInv.lean", "PdModel/Lemmas/OpCtlRecords.lean", "PdModel/Lemmas/OpCtlRecRun.lean", "PdModel/Props/C09.lean",
                   "PdModel/Driver/OpCtl.lean"],
    "gen": {
        "quick": {"args": ["-n", "160", "-len", "110"], "streams": 8},
        "thorough": {"args": ["-n", "1500", "-len", "140", "-sleepseqs", "2"], "streams": 16},
    },
    "search": {"args": ["-n", "300", "-len", "120"], "streams": 8},
    "nontrivial": nontrivial,
    "coverage_extra": coverage_extra,
    "rule": "sequence = reset(max waiting) + 1-4 regions (1-4 peers on 9 stores) + 20-110 events: make an operator "
            "(steps from the real builder on the simulated region, joint or not, or hand-made incl. nonsense steps, "
            "merge pairs, split) and AddOperator / AddWaitingOperator(1-3 operators, merge pairs); "
            "PromoteWaitingOperator; the store executes the last command it received; region heartbeat (cache + "
            "Dispatch); PushOperators; RemoveOperator; make an operator old (expire / timeout through "
            "SetOperatorStatusReachTime); the region disappears; in every third sequence also foreign events (peer "
            "appears/disappears, leader moves, range changes) and operators created with another epoch. "
            "every fourth sequence is a faithful walk: builder-made operators for all three feature levels (joint on / off / unsupported, the last giving RemovePeer+AddLearner on one store) with targets that change roles in place are executed step by step, with a heartbeat after every execution while the new peer is still pending and another after it caught up, nothing else touching the region - no operator may be cancelled there. "
            "`influence` events (GetOpInfluence: statuses turn lazily) and the shape 'operator ends lazily while registered, then a higher-priority operator is admitted for the same region before the next dispatch'; the record of a region is observed even while another operator runs there. "
            "Concurrent stream: `race` events (about every 12th event) start a never-offered operator and let 2-6 goroutines issue competing end transitions (Cancel / Replace / CheckTimeout / CheckSuccess) at once, 10 trials on fresh copies; exactly one may succeed and the remembered status must be the final one. "
            "non-trivial = commands were sent, an operator finished or was cancelled, heartbeats and executions "
            "happened; distinct = distinct op sequence",
    "model_text": "PdModel/Model/OpCtl.lean: operator_controller.go (AddOperator, AddWaitingOperator, "
                  "PromoteWaitingOperator, Dispatch, checkStaleOperator, PushOperators, RemoveOperator, buryOperator, "
                  "records, waiting buckets), operator.go (Check, CheckSuccess/Expired/Timeout, ConfVerChanged), "
                  "status_tracker.go over the extracted validTrans matrix; Model/Steps.lean for step.go; "
                  "Model/StoreSim.lean = the store",
    "level_text": "Theorems about the controller model for every event list from any state (Lean 4, kernel-checked): "
                  "status_moves_only_along_validTrans (statuses follow the matrix extracted from status.go, which is proved "
                  "equal to the stated one; operators keep region/epoch/steps), one_operator_per_region (a STARTED operator "
                  "is the one registered for its region, so two STARTED operators never share a region), "
                  "leaving_running_set_is_ended (+ ..._is_recorded_at_sites_partial: every removeOperatorLocked+bury site ends and records the operator; records_always_name_ended_operators for every run, recorded_region_stays_recorded, removed_operator_stays_accounted_for), admit_only_equal_epoch, "
                  "command_addressed_to_current_leader_with_current_epoch, stale_operator_cancelled_at_heartbeat (failed "
                  "CheckSafety or conf-version delta above ConfVerChanged => CANCELED at that heartbeat, whatever is "
                  "promoted afterwards). The model is tied to operator_controller.go / operator.go / status_tracker.go by "
                  "differential execution against the real controller with real heartbeat streams (2.6M events, 0 "
                  "disagreements) and the proved monitor Spec.C09.checkEvent judges the implementation's observations.",
    "level_note": "Trusted: Lean kernel + 3 standard axioms; hand-written controller model; Model/StoreSim.lean (TiKV is "
                  "modelled, compared with the Go simulator on every exec event); expiry/timeout driven through "
                  "SetOperatorStatusReachTime, notifier-queue due times exercised by real sleeps in the thorough tier only; store limits not exercised. Not "
                  "proved: own_steps_never_stale for builder-made operators (monitored on every faithful sequence; false "
                  "for hand-made operators that undo their own step: known finding F21 with a proved counterexample), "
                  "'remembered in the records' as an invariant (monitored).",
    "technique": "Lean 4 invariants over the controller model + differential correspondence with the real controller, heartbeat streams and a store simulator + verified monitor",
    "assumptions": [
        "the store executes commands as Model/StoreSim.lean describes (compared with the Go simulator on every exec event); foreign changes are explicit events",
        "expiry / timeout are driven through operator.SetOperatorStatusReachTime (the wall clock is kept out: reach times are pushed one hour into the future); notifier-queue entries only become due through the explicit `sleep` event (real sleep, thorough tier only); otherwise the events of a sequence happen within milliseconds",
        "the random bucket choice of the waiting queue is an input (global math/rand is seeded per event and the values are written into the op line)",
        "store limits are not exercised (regions are empty, every step cost is 0)",
    ],
}
