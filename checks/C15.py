def nontrivial(seq):
    """a sequence counts when it exercises concurrency or the service table beyond a single call"""
    ops = [op.split()[0] for op, _ in seq]
    obs = [o for _, o in seq]
    gated = ops.count("upd") >= 2 and any(o.startswith(("blocked", "parked-save")) for o in obs)
    burst = "burst" in ops
    svc = ops.count("usp") >= 3 and any(o.startswith("ok ") for (op, _), o in zip(seq, obs) if op.startswith("usp"))
    race = ops.count("gusp") >= 2 and any(o.startswith("blocked") for o in obs)
    lead = ops.count("lead") >= 2 and "set" in ops
    bulk = "bulk" in ops
    return gated or burst or svc or race or lead or bulk


def coverage_extra(results, vlib):
    """input distribution of the generated traces"""
    import collections
    outs = collections.Counter()
    ids = collections.Counter()
    ttl = collections.Counter()
    sched = 0
    for r in results:
        if "crash" in r:
            continue
        for op, o in vlib.read_trace(r["trace"]):
            w = op.split()
            first = o.split(" @")[0].split()
            key = w[0] + ":" + (first[0] if first else "?")
            outs[key] += 1
            if w[0] == "usp":
                ids["valid-id" if ("/" not in w[1] and w[1] not in ("-", ".", "..")) else "malformed-id"] += 1
                t = int(w[2])
                ttl["ttl<=0" if t <= 0 else "ttl-small" if t < 10**6 else "ttl-huge"] += 1
                if len(w) == 6:
                    ttl["with-failing-write"] += 1
            if w[0] == "upd":
                sched += 1
    return {"outcome_histogram": dict(sorted(outs.items())), "service_id_classes": dict(ids),
            "ttl_classes": dict(ttl), "gated_requests": sched}


SPEC = {
    "id": "C15",
    "area": "gcsafepoint",
    "harness": "gcsafepoint",
    "lean_targets": ["PdModel.Props.C15", "Audit.C15"],
    "audit": "Audit/C15.lean",
    "lean_files": ["PdModel/Model/GcSafePoint.lean", "PdModel/Lemmas/GcSafePoint.lean", "PdModel/Lemmas/GcService.lean",
                   "PdModel/Props/C15.lean", "PdModel/Spec/C15.lean", "PdModel/Driver/GcSafePoint.lean"],
    "gen": {
        "quick": {"args": ["-n", "40", "-len", "28", "-streams", "4", "-maxsec", "40"], "streams": 4},
        "thorough": {"args": ["-n", "550", "-len", "40", "-streams", "16", "-maxsec", "320"], "streams": 16},
    },
    "search": {"args": ["-n", "150", "-len", "36", "-streams", "8", "-maxsec", "60"], "streams": 8},
    "nontrivial": nontrivial,
    "coverage_extra": coverage_extra,
    "rule": "in-process PD server, real gRPC handlers. (1) every interleaving of 2 and of 3 concurrent UpdateGCSafePoint "
            "requests at Load/Save granularity (6 + 90 schedules, eager and lazy start, several value assignments, "
            "pre-set safe point) replayed with gates on server.GetStorage().Base; (2) random gated histories of 2-6 "
            "requests with storage faults (error before / after effect), `cancel` of a request's own context while its storage access is parked (a write handed to another goroutine is still gated and may outlive the answer), sets, gets and free-running bursts of 2-8 "
            "concurrent updates; (3) random service histories: registrations, renewals, ttl<=0 removals, expiry by "
            "moving the TSO, legacy raw records (finite or missing gc_worker), API deletes, failing n-th storage "
            "write, malformed ids (empty, '..', 'a/../b', 'a//b'), boundary TTLs (MaxInt64, MaxInt64-now+-2, MinInt64) "
            "and safe points up to MaxUint64; (4) 2-3 service requests in flight together (gusp/sstep: first parked before the "
            "handler's own save, the others blocked on serviceSafePointLock); (5) bulk: 95-205 registrations with ids "
            "extending one another around key positions 100 and 200, then minimum / list / pruning; (6) one stream on "
            "TWO servers: set/get/burst at the current leader while the leadership moves back and forth. non-trivial = >=2 gated requests with a blocked/parked-save step, or a "
            "burst, or >=3 service requests with an ok answer; distinct = distinct op sequence",
    "model_text": "PdModel/Model/GcSafePoint.lean: begin/acquire/load/save micro-steps of Server.UpdateGCSafePoint "
                  "(atomic flag regenerated from the source), GetGCSafePoint; UpdateServiceGCSafePoint = uspRemove, "
                  "loadMin (scan with expiry pruning and gc_worker repair, initGC), uspSave, uspReload over a key-ordered "
                  "table with `now` and the failing write as inputs",
    "level_text": "Theorem cluster_safepoint_monotone (Lean 4, kernel-checked): for every list of micro-steps (any number of "
                  "requests, any values, any interleaving of mutex acquisitions, loads and saves, any storage fault) of the "
                  "handler whose load-compare-save is one critical section, the stored safe point never decreases and every "
                  "response is >= every value acknowledged before the request began; the critical section is re-extracted "
                  "from server/grpc_service.go on every run (handler_is_atomic); cluster_safepoint_counterexample shows the "
                  "4-step race of the unlocked handler. Theorems min_not_above_live, below_min_not_recorded, del_keeps_gc_worker, usp_keeps_gc_worker, "
                  "gc_worker_always_present_infinite, expired_or_nonpositive_ttl_gone, invalid_id_never_recorded, "
                  "service_safepoints_hold: for every table, request, time and (where stated) failing write. The model is "
                  "tied to the handlers by differential execution on an in-process server (gated schedules exhaustively "
                  "for <= 3 requests) and the proved checkers Spec.C15.okNext / svcCheck judge the implementation's outputs.",
    "level_note": "Trusted: Lean kernel + 3 standard axioms; hand-written model tied by correspondence (exhaustive for the "
                  "schedules of <= 3 requests, statistical beyond); factgen kinds gcsp_locked_calls / locked_func; the gates "
                  "and the goroutine wait-state inspection of the harness; Go's sync.Mutex handing the lock to the "
                  "longest waiter when no new request arrives (used by the correspondence only, the theorem allows any "
                  "grant order); uint64/int64 overflow outside the handler's own MaxInt64 clamp not modelled; "
                  "below_min_not_recorded and the expiry clause assume no failing storage write (a failing Remove is "
                  "ignored by the code).",
    "technique": "Lean 4 inductive invariant over micro-step histories + differential correspondence with gated schedules "
                 "+ verified monitor",
    "assumptions": [
        "one storage access (kv.Base Load / Save / Remove / LoadRange) is atomic",
        "Go's sync.Mutex is a mutual-exclusion lock; which waiter gets it is arbitrary in the theorem",
        "the time the handler reads from the TSO is an input (any int64 second); the TSO itself is C01's subject",
        "service ids are compared as strings; etcd key order = byte order of the id (ASCII ids in the generators)",
        "a failing write returns an error without effect, except SaveGCSafePoint which may also fail after its effect",
    ],
}
