def nontrivial(seq):
    # a sequence is non-trivial when a checker proposed an operator that adds or removes a peer
    return any(op.startswith("check ") and " op " in (" " + obs) and ("al:" in obs or "rp:" in obs or "ap:" in obs)
               for op, obs in seq)


def coverage_extra(results, vlib):
    import re
    descs, kinds, forced = {}, {"replica": 0, "rule": 0}, 0
    none = 0
    filters_lines = stores_judged = 0
    for r in results:
        if "crash" in r:
            continue
        for op, obs in vlib.read_trace(r["trace"]):
            if op.startswith("filters"):
                filters_lines += 1
                stores_judged += len(obs.split())
            if not op.startswith("check "):
                continue
            kinds[op.split()[1]] = kinds.get(op.split()[1], 0) + 1
            m = re.search(r"(?:^|\| )op (\S+) ", obs)
            if m:
                descs[m.group(1)] = descs.get(m.group(1), 0) + 1
            elif obs.endswith("none"):
                none += 1
    return {"operator_histogram": descs, "checks_by_checker": kinds, "checks_proposing_nothing": none,
            "filter_comparisons": {"lines": filters_lines, "store_verdict_vectors": stores_judged,
                                   "verdicts_per_store": "32 StoreStateFilter + 7 fixed + isolation + 2 per region store + 1 per rule"}}


SPEC = {
    "id": "C10",
    "area": "checkers",
    "harness": "checkers",
    "lean_targets": ["PdModel.Props.C10", "Audit.C10"],
    "audit": "Audit/C10.lean",
    "lean_files": ["PdModel/Model/Filters.lean", "PdModel/Model/Checkers.lean", "PdModel/Lemmas/Checkers.lean",
                   "PdModel/Lemmas/CheckersSites.lean", "PdModel/Props/C10.lean", "PdModel/Spec/C10.lean",
                   "PdModel/Driver/Checkers.lean", "PdModel/Driver/ClusterParse.lean"],
    "gen": {
        "quick": {"args": ["-n", "700"], "streams": 8},
        "thorough": {"args": ["-n", "12000"], "streams": 16},
    },
    "search": {"args": ["-n", "1500"], "streams": 8},
    "nontrivial": nontrivial,
    "coverage_extra": coverage_extra,
    "rule": "sequence = reset + one random cluster description (3-10 stores: state, heartbeat age around the "
            "disconnect/down thresholds, busy, paused, add/remove limit, snapshot and pending-peer counts around their "
            "limits, capacity/free space around the low-space ratio, region count around 30, zone/rack/host labels, "
            "engine/specialUse/exclusive labels, label KEYS sometimes capitalised or upper-case (Zone / ZONE); options: max-replicas 1-5, 0-3 location labels, isolation level, "
            "low-space ratio, limits, reject-leader property (0-3 entries, also several on one key), feature switches, joint consensus on/off; one region "
            "of 1-6 peers with learners, leader, down and pending lists; 0-4 placement rules) + `filters` (every "
            "filter's verdict on every store) + `check replica` + `check ctl` (CheckerController.CheckRegion) + `check ctlx` "
            "(the controller is created in the other placement-rules mode and the mode is switched online before the "
            "call) + `check rule` + `check ctl` + `check ctlx` with placement rules on, sometimes repeated after degrading a "
            "store; every fourth stream is the malformed stream (unknown stores, joint-state roles, learner or "
            "missing leader, isolation level that is not a location label, tiny clusters); non-trivial = some "
            "checker proposed an operator that adds or removes a peer; distinct = distinct op sequence",
    "model_text": "PdModel/Model/Filters.lean + PdModel/Model/Checkers.lean: every filter of "
                  "server/schedule/filter/filters.go as a predicate on a store record (StoreStateFilter from the "
                  "extracted condition table), ReplicaStrategy.SelectStoreToAdd/Fix/Improve/Remove, "
                  "ReplicaChecker.Check, RuleChecker.Check (region fit as input), LearnerChecker.Check and "
                  "CheckerController.CheckRegion as functions returning all "
                  "possible outcomes; step order of replacements as emitted by the operator builder",
    "level_text": "Theorems (Lean 4, kernel-checked, for every cluster, region, configuration, region fit, every pick among "
                  "equally ranked candidates and every builder answer): add_target_good, "
                  "repair_adds_only_good_targets, shrink_only_when_allowed, repair_liveness hold in full; "
                  "C10_holds_partial / replace_is_add_then_remove_partial hold for replacements the builder can pair "
                  "or builds with joint consensus, replace_order_counterexample proves the property false on the "
                  "pinned code otherwise (known finding F19). The condition table of StoreStateFilter and the list of "
                  "operator-creating call sites with their guarding filters are regenerated from the source on every "
                  "run and re-checked (cond_table_as_expected, checker_sites_guarded). The model is tied to the code by "
                  "differential execution of the real checkers and all filters on mockcluster (outcome must be one of "
                  "the model's outcomes; every filter verdict exact) and the proved checker Spec.C10.check judges every "
                  "operator the implementation returns.",
    "level_note": "Trusted: Lean kernel + 3 standard axioms; hand-written model tied by correspondence on generated "
                  "clusters (statistical beyond them); FitRegion (C12) and the operator builder's step planning (C08) "
                  "are inputs/abstracted (builder acceptance of non-add requests is nondeterministic in the model; "
                  "the step order of replacements is modelled and compared); float scores are an arbitrary choice; label "
                  "keys are looked up case-insensitively on ASCII (Unicode folding is not modelled); the rule checker's offline-leader recorder is always fresh.",
    "technique": "Lean 4 theorems over all outcomes of a nondeterministic functional model + extracted tables + "
                 "differential correspondence + verified monitor",
    "assumptions": [
        "store ids in the cluster view are distinct and a region has at most one peer per store (theorem hypotheses WF)",
        "the region fit given to the rule checker only mentions peers of the region (FitWF; FitRegion is property C12)",
        "label keys and values are ASCII: strings.EqualFold is modelled as ASCII case folding (store label keys are generated in mixed case)",
        "DownTime() = whole seconds since the last heartbeat plus a fraction below one second",
        "region and leader scores (floats) only order candidates: any survivor may be picked",
        "the low-space comparison is exact for the generated capacities (powers of two) and ratios (k/8)",
    ],
}
