def nontrivial(seq):
    obs = [o for _, o in seq]
    ok = sum(1 for (op, _), o in zip(seq, obs) if op.startswith("hb ") and o.startswith("ok "))
    stale = sum(1 for (op, _), o in zip(seq, obs) if op.startswith("hb ") and o.startswith("stale "))
    multi = any(";" in o.split(" M=")[0] for o in obs if " S=" in o)
    return ok >= 5 and stale >= 1 and multi


def coverage_extra(results, vlib):
    dist = {}
    for r in results:
        if "crash" in r:
            continue
        try:
            for l in open(r["trace"], errors="replace"):
                if l.startswith("# distribution:"):
                    for kv in l.split(":", 1)[1].split():
                        k, v = kv.split("=")
                        dist[k] = dist.get(k, 0) + int(v)
        except OSError:
            pass
    return {"input_distribution": dist}


SPEC = {
    "id": "C06",
    "area": "regioncache",
    "harness": "regioncache",
    "lean_targets": ["PdModel.Props.C06", "Audit.C06"],
    "audit": "Audit/C06.lean",
    "lean_files": ["PdModel/Model/RegionCache.lean", "PdModel/Model/RegionTree.lean", "PdModel/Lemmas/RegionCache.lean",
                   "PdModel/Props/C06.lean", "PdModel/Spec/C06.lean", "PdModel/Model/TikvSim.lean", "PdModel/Lemmas/TikvSim.lean", "PdModel/Driver/RegionCache.lean",
                   "PdModel/Driver/RegionText.lean"],
    "gen": {
        "quick": {"args": ["-n", "250", "-len", "160", "-conc"], "streams": 8},
        "thorough": {"args": ["-n", "1200", "-len", "200", "-conc", "-race", "150", "-scanrace", "3", "-scanpasses", "60"], "streams": 16},
    },
    "search": {"args": ["-n", "60", "-len", "200", "-conc"], "streams": 8},
    "nontrivial": nontrivial,
    "coverage_extra": coverage_extra,
    "rule": "sequence = reset + 80-160 steps on a real RaftCluster (exported constructors, memory storage) driven through "
            "processRegionHeartbeat: 3 of 5 sequences are legitimate TiKV histories (a simulator: split with either half keeping the "
            "id, merge in either direction, conf change, leader change, size/flow/pending/down changes, periodic heartbeats) whose "
            "heartbeats are delivered from a pool in shuffled order, with duplicates (1 in 4 kept for later) and long delays; 1 of 5 "
            "mixes arbitrary heartbeats in; 1 of 5 is an arbitrary (illegitimate) stream over 8 ids; key spaces of 40 and 10^6 keys; "
            "after every heartbeat the answer, the whole served set (ScanRegions) and the whole stored set (LoadRegions) are "
            "compared, plus GetRegion / GetRegionByKey on boundary keys / LoadRegion; 1 sequence in 6 runs on the real leveldb-backed core.RegionStorage with its write batch (explicit flush ops, "
            "M = what is on disk, reload = CheckAndPutRegion of every stored region into a fresh cache); in the other sequences "
            "1 delivery in 10 is HELD at its first storage write by a gated kv.Base while 1-3 other heartbeats (a newer one of "
            "the same region with preference) are handled, then released; 1 delivery in 12 has its SaveRegion FAIL (gate fail mode; the pinned code logs and carries on); pd's log "
            "entries are rendered into a discard sink (from debug level in a third of the sequences, else from error level), "
            "so Stringer log fields run; every second stream runs one sequence through Server.RegionHeartbeat of an in-process "
            "PD server (in-memory gRPC server streams, one per store, stores re-open their stream and the first message on a "
            "new stream is often outdated; observed: on which stream an error answer arrives); a panic anywhere on the path is "
            "recovered and reported (sig=C06.heartbeat-path-panicked); a third of the sequences end with a `race` op (30 rounds, 150 thorough, of 8 concurrent heartbeats of ONE region with "
            "ever higher versions while a client polls GetRegion: the version never goes back, the highest is served at the end); "
            "every stream ends with `scanrace` (300 / 200 / 420 contiguous regions, one goroutine merging and splitting pairs "
            "around positions 128 / 256 / 384 through processRegionHeartbeat while three goroutines call ScanRegions over "
            "everything; the first two neighbouring entries of an answer that are not disjoint / in order are reported and "
            "judged by Spec.C06.ScanAnswerOk); every 4th sequence also delivers batches of 2-5 "
            "heartbeats from concurrent goroutines (judged by the monitor: explained by some one-at-a-time order); non-trivial = "
            "at least 5 accepted and 1 rejected heartbeat and at least two regions served at once; distinct = distinct op sequence",
    "model_text": "PdModel/Model/RegionCache.lean: PreCheckPutRegion/getRelevantRegions, the flag computation, the locked "
                  "re-check + PutRegion, the storage deletes/save of processRegionHeartbeat as three atomic sections per stream, over "
                  "the RegionsInfo model of C07; Model/TikvSim.lean for legitimate histories; lock structure regenerated from "
                  "server/cluster/cluster.go",
    "level_text": "Theorems in Lean 4 (kernel-checked, unbounded histories / streams / interleavings): no_overlap_inv (invariant of "
                  "SetRegion via the C07 refinement), per_id_monotone (version, conf-version, term when reported, while the id stays "
                  "cached), error_iff_must_reject + stale_rejected_unchanged + older_than_overlap_rejected_unchanged (PreCheckPutRegion "
                  "answers stale exactly for heartbeats staler than the cached same id or older than a cached overlapping region, and "
                  "then nothing changes), displaced_removed_cache, displaced_removed_storage (one at a time), concurrent_is_sequential "
                  "(every interleaving of the check / locked / storage sections of any number of streams is explained by handling the "
                  "heartbeats one at a time in linearization order; the lock structure is the extracted fact recheckAndPutIsOneSection), "
                  "per_key_version_monotone, step_ok_partial (the monitor predicate Spec.C06.StepOk holds for the model except for the "
                  "F18 case), legit_history_never_regresses_partial / legit_inorder_never_regresses (per-id in-order delivery of any "
                  "TikvSim history; epochs per id only grow: TikvSim.delivered_ordered) and "
                  "legit_history_regress_counterexample (by decide on a legitimate TiKV history). Tied to the code by differential "
                  "execution of the real processRegionHeartbeat and by Spec.C06 monitoring the implementation's reports.",
    "level_note": "PARTIAL: the clause 'never goes back ... for a region id' is proved while the id stays cached and, across a "
                  "displacement, only for per-id in-order delivery; with reordered heartbeats the pinned code violates it (known "
                  "finding F18, witness in corpus/C06, counterexample theorem). Trusted: Lean kernel + 3 axioms; hand-written model "
                  "tied by correspondence (exact on generated histories, statistical beyond); TiKV is modelled (TikvSim); heartbeats "
                  "are well-formed regions (start < end or unbounded end) - a heartbeat with an inverted range is outside the "
                  "property's domain and does corrupt the real tree (docs/C06.md); concurrent batches on the real code are judged by "
                  "the monitor only (schedules not controlled); the batched region storage (RegionStorage.save/remove/flush), reload and the "
                  "held-heartbeat steps and the server-stream answers are modelled and monitored (StepOkBatched / FlushOk / GateOk / ReleaseOk "
                  "/ StreamOk / RaceOk / ScanAnswerOk) but have no theorem; that the error answer goes back on the sender's stream additionally rests on the "
                  "call-order facts of error_answer_goes_to_the_sender; "
                  "RegionStorage's 3 s background flush timer is not modelled (a sequence never idles that long); storage errors are not injected; the -race build is not used.",
    "technique": "Lean 4 refinement + invariant proofs over heartbeat histories and interleavings + differential correspondence + verified monitor",
    "assumptions": [
        "heartbeats are well-formed regions (real key range, one peer per store, pending peers on peer stores)",
        "one atomic step = PreCheckPutRegion+flag computation / the c.Lock() section / the storage writes (lock structure re-extracted on every run)",
        "TiKV's legitimate behaviour is modelled by a simulator (split: both halves version+1, merge: max+1, conf change: conf-version+1, leader change: term+1)",
        "storage operations succeed (a failing DeleteRegion/SaveRegion is only logged by the code)",
    ],
}
