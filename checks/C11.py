def nontrivial(seq):
    # non-trivial: some scatter or scheduler call produced an operator that moves a peer or the leader
    return any((op.startswith("scatter ") or op.startswith("sched ")) and " steps=" in obs for op, obs in seq)


def coverage_extra(results, vlib):
    import re
    scat = {"op": 0, "none": 0, "err:not-replicated": 0, "err:no-leader": 0, "other": 0}
    sched, moved, stayed = {}, 0, 0
    for r in results:
        if "crash" in r:
            continue
        for op, obs in vlib.read_trace(r["trace"]):
            if op.startswith("scatter "):
                res = obs.split(" | ")[-1]
                k = "op" if res.startswith("op ") else res.split()[0] if res.split() and res.split()[0] in scat else "other"
                scat[k] += 1
                if res.startswith("op "):
                    moved += len(re.findall(r"\ball?:", res))
            elif op.startswith("sched "):
                t = op.split()[1]
                d = sched.setdefault(t, {"calls": 0, "operators": 0})
                d["calls"] += 1
                d["operators"] += obs.count("op ")
    return {"scatter_results": scat, "scatter_peers_moved": moved, "scheduler_calls": sched}


SPEC = {
    "id": "C11",
    "area": "scatter",
    "harness": "scatter",
    "lean_targets": ["PdModel.Props.C11", "Audit.C11"],
    "audit": "Audit/C11.lean",
    "lean_files": ["PdModel/Model/Filters.lean", "PdModel/Model/Scatter.lean", "PdModel/Lemmas/Scatter.lean",
                   "PdModel/Lemmas/Checkers.lean", "PdModel/Lemmas/CheckersSites.lean", "PdModel/Props/C11.lean",
                   "PdModel/Spec/C10.lean", "PdModel/Spec/C11.lean", "PdModel/Driver/Scatter.lean",
                   "PdModel/Driver/ClusterParse.lean"],
    "gen": {
        "quick": {"args": ["-n", "220"], "streams": 8},
        "thorough": {"args": ["-n", "2500"], "streams": 16},
    },
    "search": {"args": ["-n", "600"], "streams": 8},
    "nontrivial": nontrivial,
    "coverage_extra": coverage_extra,
    "rule": "(about 1 in 80 scatter ops is `scatteraged`: a store crosses the disconnect time between two looks of the long-lived scatterer at the same StoreInfo object, 0.45 s of real time) sequence = reset + one random cluster (max-replicas 1-5, 0-2 location labels, placement rules on/off, "
            "joint consensus on/off, reject-leader property with 0-3 entries – same key with different values and different keys, so that stores match only a later entry; max-replicas+1 .. 10 stores, a third of them offline / "
            "down / disconnected / busy / with snapshots in flight or pending peers in two thirds of the clusters, optional TiFlash stores with a learner rule, "
            "zone/host labels, region counts and sizes; with placement rules either a TiFlash learner rule or an "
            "unconstrained learner rule, i.e. regions with a learner on an ordinary store) + 2-6 fully replicated "
            "regions + in half of the sequences a `put` history (RegionScatterer.Put) that leaves one store of a "
            "region – its learner's when there is one – as the only store below the maximum, with the left-out store "
            "often taking the leaders, followed by `dry=1` scatters of that region (history restored afterwards, so the "
            "same decision is taken under several map iteration orders) + 0-3 random `put`s + 4-14 `scatter` calls "
            "(a quarter of them preceded by 1-3 dry repetitions) over "
            "random regions and groups g1/g2/none on ONE RegionScatterer (its counters accumulate; a produced operator "
            "is usually applied to the region description before the next call) with `counters` dumps + 1-3 `scatter2` "
            "(two overlapping requests on the one scatterer: X is parked on its own goroutine inside selectCandidates, "
            "right after it built its filter list, Y runs completely, X is released) + 2-5 calls "
            "of balance-region / balance-leader / shuffle-region / shuffle-leader / evict-leader / grant-leader / label "
            "/ scatter-range (6 Schedule rounds each) and, in half of the sequences, hot-region and shuffle-hot-region "
            "with injected store and region read/write flow; every fourth stream is the malformed stream (regions with a "
            "wrong number of peers, learners on ordinary stores, no leader); non-trivial = some call produced an "
            "operator; distinct = distinct op sequence",
    "model_text": "PdModel/Model/Scatter.lean: RegionScatterer.scatterRegion exactly – engine grouping, the peer loops in "
                  "the reported map iteration order, selectCandidates (history counters, excluded/engine/state/safeguard "
                  "filters), selectStore, the target map keyed by store, selectAvailableLeaderStores, the leader asked of "
                  "the builder, Put on both paths; PdModel/Model/Filters.lean for the filters; schedulers through the "
                  "extracted call-site table",
    "level_text": "Theorems (Lean 4, kernel-checked): scatter_preserves_counts and scatter_targets_good for every counter "
                  "history, store order, map iteration order, safeguard verdict and cluster – the requested placement has "
                  "one entry per peer, same roles, pairwise different stores, new stores are up and outside the region "
                  "(this needs the F4 repair, scatter_counterexample shows the unrepaired code losing a replica); "
                  "move_peer_preserves, transfer_leader_to_voter, forced_transfer_ok prove Spec.C11.Holds for the operator "
                  "shapes of the scheduler call sites from the filters that scheduler_sites_guarded (regenerated call-site "
                  "table, by decide) finds at every site. The scatter model is tied to the code by exact differential "
                  "execution (request and counters) on a live RegionScatterer; every operator of scatter and of eight "
                  "schedulers is judged by the proved checker Spec.C11.check.",
    "level_note": "Trusted: Lean kernel + 3 standard axioms; hand-written model tied by correspondence (statistical); the "
                  "operator builder (C08) turns the requested placement into steps – its step order and leader plan are "
                  "judged by the monitor only (known finding F20 lives there); the rule-fit safeguard and FitRegion are "
                  "inputs; schedulers are not modelled function by function (call-site table + filter models + monitor); "
                  "counter TTL (3 min) is not modelled.",
    "technique": "Lean 4 loop invariant over all iteration orders/histories + extracted call-site table + exact "
                 "differential correspondence + verified monitor",
    "assumptions": [
        "a region has at most one peer per store and every peer's store is known to the cluster (scatterRegion "
        "dereferences the store record)",
        "the special engines are exactly {tiflash} (allSpeicalEngines); a store is ordinary or TiFlash",
        "the history counters do not expire during a sequence (TTL 3 minutes)",
        "Go map iteration visits every key exactly once (OrdersOK); the order itself is arbitrary",
        "overlapping scatter requests are exercised at one gate only (GetStores in selectCandidates of the first peer "
        "placed); there the interleaving equals `Y then X` because nothing X did before the gate reads a counter – "
        "other interleavings and the unlocked specialEngines map are not explored",
        "no region has a peer on a tombstone store (PD buries a store only when it holds no peer): needed for the "
        "forced-leader clause only",
        "label keys and values are ASCII: strings.EqualFold is modelled as ASCII case folding (store label keys are generated in mixed case)",
    ],
}
