def nontrivial(seq):
    """a sequence that fits >= 2 rules at once with something for the order to decide (a role mismatch,
    an isolation score, an orphan) and also one where some rule stays partly empty"""
    rich = partial = False
    for op, obs in seq:
        if op != "fit" or not obs.startswith("F="):
            continue
        f = obs.split(" ")[0][2:]
        rfs = [x for x in f.split(";") if x and x != "-"]
        if len(rfs) >= 2:
            parts = [x.split("/") for x in rfs]
            if any(len(p) == 3 and (p[1] != "-" or p[2] not in ("0", "")) for p in parts) or " O=-" not in obs:
                rich = True
            if any(len(p) == 3 and p[0] == "-" for p in parts) or " S=0" in obs:
                partial = True
    return rich and partial


def coverage_extra(results, vlib):
    """input distribution printed by the generator (`# distribution ...` comment lines) and result classes"""
    dist = {}
    classes = {"fits": 0, "satisfied": 0, "with_orphans": 0, "with_mismatch": 0, "with_score": 0,
               "cmp": 0, "cmp_-1": 0, "cmp_0": 0, "cmp_1": 0, "rules_0": 0}
    for r in results:
        if "crash" in r:
            continue
        try:
            for l in open(r["trace"], errors="replace"):
                if l.startswith("# distribution "):
                    for kv in l.split()[2:]:
                        k, v = kv.rsplit("=", 1)
                        dist[k] = dist.get(k, 0) + int(v)
                elif l.startswith("fit => "):
                    classes["fits"] += 1
                    o = l.split(" => ", 1)[1]
                    classes["satisfied"] += " S=1" in o
                    classes["with_orphans"] += " O=-" not in o
                    f = o.split(" ")[0][2:]
                    if f == "-":
                        classes["rules_0"] += 1
                    ps = [x.split("/") for x in f.split(";") if "/" in x]
                    classes["with_mismatch"] += any(p[1] != "-" for p in ps)
                    classes["with_score"] += any(p[2] != "0" for p in ps)
                elif l.startswith("cmp "):
                    classes["cmp"] += 1
                    v = l.strip().split(" => ")[-1]
                    if v in ("-1", "0", "1"):
                        classes["cmp_" + v] += 1
        except OSError:
            pass
    return {"input_distribution": dist, "result_classes": classes}


SPEC = {
    "id": "C12",
    "area": "fit",
    "harness": "fit",
    "lean_targets": ["PdModel.Props.C12", "Audit.C12"],
    "audit": "Audit/C12.lean",
    "lean_files": ["PdModel/Model/Fit.lean", "PdModel/Spec/C12.lean", "PdModel/Lemmas/FitOrder.lean",
                   "PdModel/Lemmas/FitBasic.lean", "PdModel/Lemmas/FitSearch.lean", "PdModel/Lemmas/FitRun.lean", "PdModel/Lemmas/FitState.lean",
                   "PdModel/Props/C12.lean", "PdModel/Driver/Fit.lean"],
    "gen": {
        # random worlds (every fifth sequence from the malformed stream) + a sampled slice of the exhaustive
        # small domain (3 stores x <=3 peers x 168 single rules + 400 rule pairs per world)
        "quick": {"args": ["-n", "1500", "-fits", "8", "-exh", "8", "-sample", "60"], "streams": 8},
        "thorough": {"args": ["-n", "6000", "-fits", "10", "-exh", "16", "-sample", "1"], "streams": 16},
    },
    "search": {"args": ["-n", "3000", "-fits", "10"], "streams": 8},
    "nontrivial": nontrivial,
    "coverage_extra": coverage_extra,
    "rule": "sequence = reset + 3-10 stores (location labels zone/rack/host with 2-4 values, extra labels, exclusive "
            "labels $x/$y/engine/exclusive, mixed case, empty and duplicate labels) + regions of 0-6 peers (learners, "
            "leader, sometimes none) + rule lists of 0-4 rules (roles, counts 0-5, 0-2 constraints "
            "in/notIn/exists/notExists, one value list in five containing the empty string, 0-3 location labels in any order) + 2-8 FitRegion calls with changing "
            "regions/rules + CompareRegionFit on pairs of the remembered fits; every fifth sequence is from the "
            "malformed stream (invalid role/op strings, count 0, peers on unknown stores, leader that is a learner or "
            "nobody); plus the exhaustive small domain (3 stores x 4 label layouts each, every placement of <= 3 "
            "voter/learner peers and leader choice, 168 single rules and 400 rule pairs), sampled in the quick tier and "
            "complete in the thorough tier; non-trivial = a fit of >= 2 rules with a mismatch, score or orphan to "
            "decide and a fit with a partly empty rule; distinct = distinct op sequence",
    "model_text": "PdModel/Model/Fit.lean: FitRegion translated function by function (label matching with exclusive "
                  "labels, loose/strict roles, isolation score as exact Nat, fitRule/enumPeers/compareBest with bestFit "
                  "threaded; the selected flags both as mutated-and-restored state (fitRuleS, run by the driver) and as the set "
                  "passed down the recursion path (fitRule, used in the proofs; fit_stateful_eq), IsSatisfied, CompareRegionFit); "
                  "replicaBaseScore, legacyExclusiveLabels and the role/op strings regenerated from the source",
    "level_text": "Theorems (Lean 4, kernel-checked, no bound on stores, peers, rules, counts or labels): fit_holds "
                  "= for every input the result is a valid assignment (eligible, distinct, unshared peers, <= count), "
                  "orphans/mismatches/scores exact, satisfied flag exact, and no valid assignment is better under the "
                  "documented lexicographic order (fitRule_spec: induction over the rule index with the generalised "
                  "statement about completions of a prefix); fit_partition_perm, satisfied_iff, "
                  "compare_total_preorder, compareRegionFit_eq; Spec.C12.check_iff makes the brute-force checker "
                  "(enumeration of all valid assignments) a decision procedure for the property. The model is tied to "
                  "fit.go by differential execution on generated and exhaustive small inputs, and the proved checker "
                  "judges the implementation's own results (brute-force optimality up to 700 assignments per fit).",
    "level_note": "Trusted: Lean kernel + 3 standard axioms; hand-written model (tied by correspondence, exact on the "
                  "exhaustive small domain in the thorough tier, statistical beyond); float scores are exact integers "
                  "only for <= 7 location labels (stated, harness reports non-integers); strings.EqualFold modelled as "
                  "ASCII case folding; distinct peer ids assumed (sort.Slice is unstable otherwise); bestFit.RuleFits is "
                  "modelled as the suffix belonging to the remaining rules.",
    "technique": "Lean 4 proof by induction over the rule list with a generalised completion statement + loop invariant "
                 "of the combination enumerator + differential correspondence + verified brute-force monitor",
    "assumptions": [
        "peer ids of a region are pairwise distinct (the Go code sorts them with an unstable sort)",
        "label keys/values are ASCII: strings.EqualFold is modelled as ASCII lower-casing",
        "at most 7 location labels: the float64 isolation score is then an exact integer (the harness flags non-integers)",
        "rule counts are non-negative (a negative count makes the Go search return nil rule fits)",
        "the StoreSet is consistent: GetStore(id) returns a member of GetStores() (then checkRule is redundant)",
    ],
}
