def overlay(vlib):
    return vlib.make_overlay("tso", ["server/tso/tso.go", "server/tso/global_allocator.go"], "tso")


def nontrivial(seq):
    ops = [op.split()[0] for op, _ in seq]
    if "burst" in ops or ("req" in ops and "setts" in ops):
        return True
    if "gchecker" in ops or ops.count("slead") >= 2:
        return True
    return False


SPEC = {
    "id": "C05",
    "area": "tsoglobal",
    "harness": "tsoglobal",
    "overlay": overlay,
    "sig_prefix": ("C05.", "C01.global-"),
    "lean_targets": ["PdModel.Props.C05", "Audit.C05"],
    "audit": "Audit/C05.lean",
    "lean_files": ["PdModel/Model/TsoGlobal.lean", "PdModel/Lemmas/TsoGlobal.lean", "PdModel/Props/C05.lean",
                   "PdModel/Spec/C05.lean", "PdModel/Driver/TsoGlobal.lean"],
    "gen": {
        "quick": {"args": ["-n", "40", "-len", "30"], "streams": 2},
        "thorough": {"args": ["-n", "400", "-len", "50", "-cluster", "25"], "streams": 8},
    },
    "search": {"args": ["-n", "80", "-len", "40"], "streams": 4},
    "nontrivial": nontrivial,
    "rule": "three parts per run: (A) CalSuffixBits for 0..40 and 200 random values below 2^20, differentiateLogical on 300 "
            "random inputs, compared exactly; (B) suffix assignment: 1-3 AllocatorManagers with real members on one embedded "
            "etcd, dcs joining/leaving, PD leadership moving, ClusterDCLocationChecker whole or parked before its create "
            "transaction, compared exactly (etcd suffix table after every op); (C) one in-process PD server with local TSO, "
            "leading the global allocator and two local allocators (SyncMaxTS over real gRPC to itself), injected frozen "
            "clock: sequential local/global requests and SetTSO compared exactly incl. all three memories, concurrent bursts "
            "of 2-6 global and 0-4 local requests per dc judged by the proved checker. non-trivial = a sequence with a burst, "
            "or requests after a SetTSO, or a parked checker / two leadership moves; distinct = distinct op sequence",
    "model_text": "PdModel/Model/TsoGlobal.lean: GenerateTSO with dc-locations (estimate, two rounds of SyncMaxTS check, "
                  "collect, write rounds, persist, return), the SyncMaxTS handler per server, WriteTSO, differentiateLogical, "
                  "CalSuffixBits, getOrCreateLocalTSOSuffix",
    "level_text": "Theorem C05_holds (Lean 4, kernel-checked; any number of dcs, any placement of allocator leaders on "
                  "servers, any interleaving of local requests, forward moves of every memory and the steps of global "
                  "requests incl. aborted attempts, no bound on the history): timestamps of different allocators differ, a "
                  "global timestamp exceeds every local one whose request completed before it began, every local timestamp "
                  "requested after a global one was returned exceeds it, global timestamps are distinct and real-time ordered; "
                  "suffix_stable_unique / suffix_never_changes / width_fits for clause (d). The two defects of the pinned tree "
                  "(F11 duplicate global timestamps, F17 unguarded suffix creation) are shown by decide on the un-fixed "
                  "variants and repaired by fix commits. Tied to the code by exact differential execution (pure functions, "
                  "suffix assignment on embedded etcd with gated transactions, an in-process server with an injected clock) "
                  "and by the proved checker on concurrent bursts.",
    "level_note": "Trusted: Lean kernel + 3 standard axioms; the handler invocation of one server is one atomic step in "
                  "the model; single-allocator behaviour (windows, leases) is abstracted to 'memory only moves forward' "
                  "(that is C01-C03); all servers use the same suffix width (a server that has not refreshed maxSuffix is "
                  "outside the hypothesis); math.Log2/Ceil on float64 is tied only by correspondence; the first dc joining a "
                  "cluster that has served global timestamps in normal mode is not modelled.",
    "technique": "Lean 4 inductive invariant over interleaved protocol steps + exact differential correspondence on an in-process server + verified monitor on concurrent bursts",
    "assumptions": [
        "the SyncMaxTS handler invocation of one server is atomic with respect to local requests on that server",
        "global requests are serialised by the sync mutex (fix F11; lock fact re-extracted on every run)",
        "suffix creation is leader-guarded (fix F17) and a member that wins the PD leadership has no create transaction "
        "of an earlier term in flight",
        "all participants use the same suffix width",
    ],
    "trusted_base_extra": ["harness/cmd/clockoverlay and the accessor files under harness/overlay/tso",
                           "the in-process PD server harness (server.NewTestSingleConfig)"],
}
