import os
import re


def overlay(vlib):
    """generate the -overlay file that injects the lease clock (copy of server/election/lease.go with the
    tokens time.Now() replaced by verifNow(); the generator checks that nothing else differs)"""
    d = vlib.gomod_dir()
    tag = os.path.basename(d)
    exe = os.path.join(vlib.BUILD, "bin", tag, "election-overlaygen")
    os.makedirs(os.path.dirname(exe), exist_ok=True)
    with vlib.Lock("gobuild"):
        rc, o = vlib.sh(["go", "build", "-modfile=" + os.path.join(d, "go.mod"), "-o", exe, "./cmd/election/overlaygen"],
                        cwd=vlib.HARNESS, env=vlib.GOENV, timeout=600)
    if rc != 0:
        return None, "overlay generator does not build:\n" + o
    out = os.path.join(vlib.BUILD, "overlay-election-" + tag)
    rc, o = vlib.sh([exe, "-repo", vlib.REPO, "-out", out], timeout=120)
    if rc != 0:
        return None, "overlay generation failed:\n" + o
    return os.path.join(out, "overlay.json"), ""


def _out(obs):
    return obs.split(" | ")[0]


def _kind(obs):
    return _out(obs).split(" ")[0]


def nontrivial(seq):
    won = any(op.split()[0] in ("campaign", "finish") and _out(o) == "ok" for op, o in seq)
    rejected = any(op.split()[0] in ("campaign", "finish", "write") and _out(o) in ("conflict", "err", "noop") for op, o in seq)
    return won and rejected


def coverage_extra(results, vlib):
    """distribution of (op, outcome) pairs, separately for the faithful and the malformed stream"""
    dist = {"faithful": {}, "malformed": {}}
    for r in results:
        if "crash" in r or not os.path.exists(r["trace"]):
            continue
        mode = "faithful"
        for op, obs in vlib.read_trace(r["trace"]):
            w = op.split()
            if w[0] == "reset":
                mode = "malformed" if len(w) > 1 and w[1] == "malformed" else "faithful"
                continue
            k = w[0]
            if k == "write":
                k += ":" + w[2].split(":")[0]
            k += "=" + _kind(obs)
            dist[mode][k] = dist[mode].get(k, 0) + 1
    return {"outcome_distribution": dist}


SPEC = {
    "id": "C03",
    "area": "election",
    "harness": "election",
    "overlay": overlay,
    "lean_targets": ["PdModel.Props.C03", "Audit.C03"],
    "audit": "Audit/C03.lean",
    "lean_files": ["PdModel/Model/Election.lean", "PdModel/Lemmas/Election.lean", "PdModel/Props/C03.lean",
                   "PdModel/Spec/C03.lean", "PdModel/Driver/Election.lean"],
    "gen": {
        "quick": {"args": ["-n", "70", "-len", "50", "-srv"], "streams": 4},
        "thorough": {"args": ["-n", "500", "-len", "70", "-real", "-srv"], "streams": 16},
    },
    "search": {"args": ["-n", "150", "-len", "60", "-srv"], "streams": 8},
    "nontrivial": nontrivial,
    "coverage_extra": coverage_extra,
    "rule": "sequence = reset + 2-5 contenders (real member.Member + Leadership + global TSO allocator + id allocator + "
            "encryption key manager each) for 1-2 leaderships on one embedded etcd, then a random interleaving of campaign "
            "(whole / parked between Grant and transaction, with injected transaction errors, failing Grant, failing Revoke, "
            "extra comparisons), CheckLeader/WatchLeader, keep-alive ticks, local clock readings, server-side lease loss, Reset, DeleteLeaderKey, "
            "Reset / ResetLeader parked around the Revoke request of lease.Close (before it is sent / after etcd applied it), "
            "step-down, crash, the six guarded writes, id Alloc, timestamp / IsLeader requests and raw etcd transactions; even streams "
            "are faithful executions (leader-loop call order, monotone clocks, lease loss only after local expiry), odd streams "
            "are malformed (anything at any time); a quarter of the sequences start with the scripted take-over scenario (holder "
            "loses its lease in one of five ways, another contender takes over, the former holder tries every write and "
            "request); stream 0 also runs the server-level check serverhb once (region heartbeat on an existing stream right "
            "after the leader resigned); non-trivial = at least one successful campaign and at least one rejected "
            "campaign or guarded write; distinct = distinct op sequence",
    "model_text": "PdModel/Model/Election.lean: etcd (keys with leases, atomic transactions, lease revocation) + per contender "
                  "lease view / leader value / leader cache / TSO-memory flag; one step per call of Campaign (or its two "
                  "halves), KeepAlive tick, Reset, DeleteLeaderKey, guarded write, step-down, crash",
    "level_text": "Lean 4 theorems (kernel-checked, for every op history of any number of contenders): campaign_iff_absent, "
                  "single_holder, guarded_write_iff_owner, rejected_write_unchanged, cannot_extend_lost_window, "
                  "expired_or_resigned_serves_nothing / serving_is_holder (under the stated clock and leader-loop "
                  "assumptions). The model is tied to the Go code by differential execution of the real election, member, "
                  "tso, id and encryptionkm code on embedded etcd (whole state compared after every op) and the proved "
                  "checkers of Spec.C03 monitor the implementation's own reports.",
    "level_note": "Trusted: Lean kernel + 3 standard axioms; hand-written model (tied by correspondence on generated histories, "
                  "statistical beyond them); the etcd model (validated against the embedded etcd by raw transactions on every "
                  "run); lease timing assumption (local expiry never later than server expiry); the leader loop of "
                  "server/server.go is represented by call-order assumptions checked structurally by factgen, not executed.",
    "technique": "Lean 4 inductive invariants over op histories + differential correspondence + verified monitor",
    "assumptions": [
        "bounded-rate clocks: a lease is lost on the etcd side only after the holder's local view has expired; local clock readings are monotone",
        "the leader loop calls Campaign only after its step-down has cleared the leader cache and the TSO memory, and keeps alive / enables service / initialises TSO only after a successful Campaign (checked structurally on server/server.go)",
        "the delivery of a keep-alive answer is atomic with the request (goroutine scheduling inside lease.KeepAlive is not modelled)",
        "etcd executes a transaction atomically; a Commit error may come with or without effect (both modelled)",
    ],
}
