import PdModel.Driver.Rules
def main : IO UInt32 := PdModel.Driver.Rules.main
