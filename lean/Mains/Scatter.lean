import PdModel.Driver.Scatter
def main : IO UInt32 := PdModel.Driver.Scatter.main
