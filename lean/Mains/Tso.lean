import PdModel.Driver.Tso
def main : IO UInt32 := PdModel.Driver.Tso.main
