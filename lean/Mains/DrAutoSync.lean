import PdModel.Driver.DrAutoSync
def main : IO UInt32 := PdModel.Driver.DrAutoSync.main
