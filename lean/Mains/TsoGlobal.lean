import PdModel.Driver.TsoGlobal
def main : IO UInt32 := PdModel.Driver.TsoGlobal.main
