import PdModel.Driver.Checkers
def main : IO UInt32 := PdModel.Driver.Checkers.main
