import PdModel.Driver.RegionCache
def main : IO UInt32 := PdModel.Driver.RegionCache.main
