import PdModel.Driver.StorageLoad
def main : IO UInt32 := PdModel.Driver.StorageLoad.main
