import PdModel.Driver.IdAlloc
def main : IO UInt32 := PdModel.Driver.IdAlloc.main
