import PdModel.Driver.Config
def main : IO UInt32 := PdModel.Driver.Config.main
