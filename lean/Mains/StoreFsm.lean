import PdModel.Driver.StoreFsm
def main : IO UInt32 := PdModel.Driver.StoreFsm.main
