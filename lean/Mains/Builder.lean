import PdModel.Driver.Builder
def main : IO UInt32 := PdModel.Driver.Builder.main
