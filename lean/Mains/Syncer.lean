import PdModel.Driver.Syncer
def main : IO UInt32 := PdModel.Driver.Syncer.main
