import PdModel.Driver.RegionTree
def main : IO UInt32 := PdModel.Driver.RegionTree.main
