import PdModel.Driver.OpCtl
def main : IO UInt32 := PdModel.Driver.OpCtl.main
