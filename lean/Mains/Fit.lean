import PdModel.Driver.Fit
def main : IO UInt32 := PdModel.Driver.Fit.main
