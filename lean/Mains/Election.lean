import PdModel.Driver.Election
def main : IO UInt32 := PdModel.Driver.Election.main
