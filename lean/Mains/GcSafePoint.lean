import PdModel.Driver.GcSafePoint
def main : IO UInt32 := PdModel.Driver.GcSafePoint.main
