import PdModel.Driver.Bootstrap
def main : IO UInt32 := PdModel.Driver.Bootstrap.main
