import PdModel.Props.C12
open PdModel.Fit PdModel.Spec
#print axioms fit_holds
#print axioms fitRegion_holds
#print axioms fit_partition
#print axioms fit_partition_perm
#print axioms fit_optimal
#print axioms satisfied_iff
#print axioms compare_total_preorder
#print axioms compareRegionFit_eq
#print axioms fitRule_spec
#print axioms run_all_some
#print axioms mkCtx_wf
#print axioms sortPeers_perm
#print axioms fit_stateful_eq
#print axioms fitS_holds
#print axioms fit_facts
#print axioms C12.check_iff
