import PdModel.Props.C14
open PdModel.StoreFsm PdModel.Spec
#print axioms C14_holds
#print axioms C14_step
#print axioms inv_reachable
#print axioms state_moves_only_forward
#print axioms stored_moves_only_forward
#print axioms tombstone_refused_at_rpc
#print axioms bury_only_empty
#print axioms live_addresses_unique
#print axioms success_stored_eq_served
#print axioms failed_write_served_unchanged
#print axioms offline_can_return_to_up
#print axioms destroyed_never_returns
#print axioms C14.checkStep_iff
#print axioms C14.check_iff
#print axioms store_code_structure_as_modelled
