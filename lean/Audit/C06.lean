import PdModel.Props.C06
open PdModel.RegionCache PdModel.Spec
#print axioms no_overlap_inv
#print axioms per_id_monotone
#print axioms stale_rejected_unchanged
#print axioms older_than_overlap_rejected_unchanged
#print axioms error_iff_must_reject
#print axioms served_after
#print axioms displaced_removed_cache
#print axioms displaced_removed_storage
#print axioms concurrent_is_sequential
#print axioms per_key_version_monotone
#print axioms step_ok_partial
#print axioms legit_history_never_regresses_partial
#print axioms legit_inorder_never_regresses
#print axioms legit_history_regress_counterexample
#print axioms heartbeat_sections
#print axioms C06.check_iff
