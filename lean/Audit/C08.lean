import PdModel.Props.C08
open PdModel.Builder PdModel.Spec
#print axioms C08.checkSafePlan_iff
#print axioms C08.wellFormed_iff
#print axioms C08.stepsSafe_append
#print axioms build_joint_safe
#print axioms buildWith_joint_safe
#print axioms recorded_of_calls
#print axioms build_leave_joint_safe
#print axioms build_single_change_safe
#print axioms buildWith_single_change_safe
#print axioms joint_core_safe
#print axioms builder_structure_as_modelled
#print axioms build_nojoint_counterexample_occupied
#print axioms build_nojoint_counterexample_voters
