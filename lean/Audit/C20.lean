import PdModel.Props.C20
open PdModel.Bootstrap PdModel.Spec
#print axioms bootstrap_exactly_once
#print axioms at_most_one_ok_answer
#print axioms loser_changes_nothing
#print axioms inv_reachable
#print axioms malformed_payload_rejected
#print axioms accepted_is_well_formed
#print axioms uncontended_bootstrap_succeeds
#print axioms foreign_cluster_id_refused
#print axioms cluster_id_agreement
#print axioms checkReq_iff_wellFormed
#print axioms bootstrap_structure
#print axioms handlers_validate_requests
#print axioms C20.check_iff
#print axioms C20.idCheck_iff
