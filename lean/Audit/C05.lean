import PdModel.Props.C05
open PdModel.TsoGlobal PdModel.Spec
#print axioms C05_holds
#print axioms inv_step
#print axioms differentiate_lt
#print axioms differentiate_injective
#print axioms differentiate_mod
#print axioms width_fits
#print axioms width_le_max
#print axioms suffix_stable_unique
#print axioms suffix_never_changes
#print axioms suffix_counterexample_unguarded
#print axioms global_duplicate_without_serialisation
#print axioms C05.check_iff
#print axioms tsoglobal_structure_facts
