import PdModel.Props.C18
open PdModel.Config PdModel.Spec
#print axioms C18_holds
#print axioms C18_holds_extracted
#print axioms C18_step
#print axioms rejected_leaves_served_unchanged
#print axioms accepted_is_stored
#print axioms accepted_is_reloaded
#print axioms reload_serves_storage
#print axioms foreign_write_keeps_served
#print axioms normalise_of_accepted_sched
#print axioms accepted_in_domain
#print axioms out_of_domain_sched_rejected
#print axioms domain_invariant
#print axioms default_schedulers_registered
#print axioms C18.checkStep_iff
#print axioms C18.check_iff
#print axioms setters_validate_swap_persist_in_this_order
