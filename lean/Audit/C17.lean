import PdModel.Props.C17
open PdModel.StorageLoad PdModel.PadKey PdModel.Spec
#print axioms padded_key_order
#print axioms kv_history
#print axioms load_stores_exact_once_partial
#print axioms load_regions_exact_once_partial
#print axioms load_regions_exact_once_extracted_partial
#print axioms tolerable_extracted
#print axioms load_max_id_counterexample
#print axioms prune_storage_eq_cache_partial
#print axioms load_regions_once_flag
#print axioms flush_makes_saved_visible
#print axioms saved_not_deleted_exact_region_backend_partial
#print axioms stop_keeps_flushed
#print axioms reachable_rsinv
#print axioms delete_then_flush_unfixed_counterexample
#print axioms weights_round_trip
#print axioms limits_sane
#print axioms keyLtId_eq_fast
#print axioms C17.checkLoad_iff
#print axioms C17.checkDigest_of_exact
#print axioms C17.checkAfterStop_iff
#print axioms C17.checkPrune_iff
