import PdModel.Props.C01
open PdModel.Tso PdModel.Spec
#print axioms C02_holds
#print axioms C02_holds_extracted
#print axioms granted_below_stored
#print axioms stored_monotone_step
#print axioms failed_save_keeps_memory
#print axioms window_counterexample_unserialised
#print axioms stored_window_counterexample_errAfter
#print axioms tso_structure_facts
#print axioms C02.check_iff
#print axioms sync_above_other_windows
