import PdModel.Props.C10
open PdModel.Checkers PdModel.Spec
#print axioms add_target_good
#print axioms add_target_good_choice
#print axioms repair_adds_only_good_targets
#print axioms shrink_only_when_allowed
#print axioms C10_holds_partial
#print axioms replace_is_add_then_remove_partial
#print axioms replace_order_counterexample
#print axioms repair_liveness
#print axioms replicaCheck_sound
#print axioms ruleCheck_sound
#print axioms controllerCheck_sound
#print axioms cond_table_as_expected
#print axioms constants_as_modelled
#print axioms checker_sites_guarded
#print axioms C10.check_iff
#print axioms C10.checkLive_iff
