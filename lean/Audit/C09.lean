import PdModel.Props.C09
open PdModel.OpCtl PdModel.Spec
#print axioms C09.complaints_nil_iff
#print axioms C09.checkEvent_ok_iff
#print axioms validTrans_is_the_stated_matrix
#print axioms status_moves_are_atomic_sections
#print axioms to_moves_along_validTrans
#print axioms end_status_is_final
#print axioms status_moves_only_along_validTrans
#print axioms reach_from_end
#print axioms reach_from_started
#print axioms one_operator_per_region
#print axioms leaving_running_set_is_ended
#print axioms inv_runEv
#print axioms admit_only_equal_epoch
#print axioms command_addressed_to_current_leader_with_current_epoch
#print axioms stale_operator_cancelled_at_heartbeat
#print axioms own_steps_stale_counterexample
