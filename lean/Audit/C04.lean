import PdModel.Props.C04
open PdModel.IdAlloc PdModel.Spec
#print axioms C04_holds
#print axioms C04_holds_extracted
#print axioms inv_reachable
#print axioms events_eq_granted
#print axioms failed_condition_cannot_extend
#print axioms non_leader_cannot_extend
#print axioms lost_race_cannot_extend
#print axioms stored_monotone
#print axioms C04.check_iff
#print axioms id_alloc_sections_locked
