import PdModel.Props.C15
open PdModel.GcSafePoint PdModel.Spec
#print axioms cluster_safepoint_monotone
#print axioms cluster_safepoint_monotone_extracted
#print axioms handler_is_atomic
#print axioms inv_reachable
#print axioms stored_never_decreases
#print axioms cluster_safepoint_counterexample
#print axioms min_not_above_live
#print axioms below_min_not_recorded
#print axioms gc_worker_always_present_infinite
#print axioms expired_or_nonpositive_ttl_gone
#print axioms invalid_id_never_recorded
#print axioms service_safepoints_hold
#print axioms service_update_is_one_section
#print axioms C15.check_iff
#print axioms C15.holds_snoc
#print axioms C15.svcCheck_iff
