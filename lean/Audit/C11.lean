import PdModel.Props.C11
open PdModel.Scatter PdModel.Spec
#print axioms scatter_preserves_counts
#print axioms scatter_targets_good
#print axioms scatter_leader_voter
#print axioms scatter_counterexample
#print axioms scatter_leader_counterexample
#print axioms plan_inv
#print axioms move_peer_preserves
#print axioms transfer_leader_to_voter
#print axioms forced_transfer_ok
#print axioms scheduler_sites_guarded
#print axioms scatter_excludes_every_other_peer
#print axioms C11.check_iff
