import PdModel.Props.C01
open PdModel.Tso PdModel.Spec
#print axioms C01_holds
#print axioms C01_holds_extracted
#print axioms events_eq_grants
#print axioms inv_run
#print axioms inv_step
#print axioms tso_structure_facts
#print axioms C01.check_iff
#print axioms C01.holds_of_linearisation
#print axioms C01.compose_strict_mono
#print axioms client_batch_exact
#print axioms tsLessEqual_iff
#print axioms C01.composeBV_eq
#print axioms getTSLoop_succ
