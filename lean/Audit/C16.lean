import PdModel.Props.C16
open PdModel.Syncer PdModel.HistoryBuf PdModel.Spec
#print axioms records_from_exact
#print axioms records_from_ok
#print axioms restart_lag_le_flush
#print axioms restart_lag_extracted
#print axioms restart_lag_unfixed_counterexample
#print axioms full_sync_messages_exact
#print axioms full_sync_messages_exact_extracted
#print axioms leader_cache_consistent
#print axioms full_sync_follower_eq_leader
#print axioms full_sync_into_follower
#print axioms incremental_sync_follower_eq_leader
#print axioms broadcast_messages_exact
#print axioms merged_broadcast_exact
#print axioms leaderPutsMsgs_square
#print axioms broadcast_follower_eq_leader
#print axioms failed_save_keeps_cache
#print axioms full_sync_unfixed_counterexample
#print axioms history_sections_locked
#print axioms C16.checkRecordsFrom_iff
#print axioms C16.checkRestartLag_iff
#print axioms C16.checkConverged_iff
#print axioms C16.checkHeld_iff
#print axioms C16.checkBroadcast_iff
