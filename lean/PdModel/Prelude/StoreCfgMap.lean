/-
Association lists keyed by natural numbers, with the handful of lookup lemmas the store
life-cycle (C14) and configuration (C18) developments need.  Core Lean only.
-/
namespace PdModel.AMap

abbrev AMap (α : Type) := List (Nat × α)

variable {α : Type}

def get : AMap α → Nat → Option α
  | [], _ => none
  | (k', v) :: t, k => if k' = k then some v else get t k

def del : AMap α → Nat → AMap α
  | [], _ => []
  | (k', v) :: t, k => if k' = k then del t k else (k', v) :: del t k

def put (m : AMap α) (k : Nat) (v : α) : AMap α := (k, v) :: del m k

def keys (m : AMap α) : List Nat := m.map (·.1)

@[simp] theorem get_nil (k : Nat) : get ([] : AMap α) k = none := rfl

theorem get_cons (k' : Nat) (v : α) (t : AMap α) (k : Nat) :
    get ((k', v) :: t) k = if k' = k then some v else get t k := rfl

theorem del_cons (k' : Nat) (v : α) (t : AMap α) (k : Nat) :
    del ((k', v) :: t) k = if k' = k then del t k else (k', v) :: del t k := rfl

theorem get_del_eq (m : AMap α) (k : Nat) : get (del m k) k = none := by
  induction m with
  | nil => rfl
  | cons p t ih =>
    obtain ⟨k', v⟩ := p
    rw [del_cons]
    by_cases h : k' = k
    · simp only [h, if_true]; exact ih
    · simp only [h, if_false, get_cons]; exact ih

theorem get_del_ne (m : AMap α) (k j : Nat) (h : j ≠ k) : get (del m k) j = get m j := by
  induction m with
  | nil => rfl
  | cons p t ih =>
    obtain ⟨k', v⟩ := p
    rw [del_cons]
    by_cases h' : k' = k
    · have : k' ≠ j := by intro e; exact h (e ▸ h')
      simp only [h', if_true, get_cons]
      rw [ih]
      have : k ≠ j := fun e => h e.symm
      simp [this]
    · simp only [h', if_false, get_cons]
      rw [ih]

theorem get_put_eq (m : AMap α) (k : Nat) (v : α) : get (put m k v) k = some v := by
  simp [put, get_cons]

theorem get_put_ne (m : AMap α) (k j : Nat) (v : α) (h : j ≠ k) : get (put m k v) j = get m j := by
  have : k ≠ j := fun e => h e.symm
  simp [put, get_cons, this, get_del_ne m k j h]

theorem get_put (m : AMap α) (k j : Nat) (v : α) :
    get (put m k v) j = if j = k then some v else get m j := by
  by_cases h : j = k
  · subst h; simp [get_put_eq]
  · simp [h, get_put_ne m k j v h]

theorem get_del (m : AMap α) (k j : Nat) :
    get (del m k) j = if j = k then none else get m j := by
  by_cases h : j = k
  · subst h; simp [get_del_eq]
  · simp [h, get_del_ne m k j h]

theorem mem_of_get (m : AMap α) (k : Nat) (v : α) (h : get m k = some v) : (k, v) ∈ m := by
  induction m with
  | nil => simp at h
  | cons p t ih =>
    obtain ⟨k', v'⟩ := p
    rw [get_cons] at h
    by_cases h' : k' = k
    · simp [h'] at h; subst h; subst h'; exact List.mem_cons_self
    · simp [h'] at h; exact List.mem_cons_of_mem _ (ih h)

theorem get_none_of_not_mem_keys (m : AMap α) (k : Nat) (h : k ∉ keys m) : get m k = none := by
  induction m with
  | nil => rfl
  | cons p t ih =>
    obtain ⟨k', v'⟩ := p
    simp only [keys, List.map_cons, List.mem_cons, not_or] at h
    rw [get_cons]
    have : k' ≠ k := fun e => h.1 e.symm
    simp [this]
    exact ih h.2

theorem mem_keys_of_get (m : AMap α) (k : Nat) (v : α) (h : get m k = some v) : k ∈ keys m := by
  have := mem_of_get m k v h
  exact List.mem_map.2 ⟨(k, v), this, rfl⟩

/-- map the values (the function may look at the key) -/
def mapVal {β : Type} (f : Nat → α → β) (m : AMap α) : AMap β := m.map (fun p => (p.1, f p.1 p.2))

theorem get_mapVal {β : Type} (f : Nat → α → β) (m : AMap α) (k : Nat) :
    get (mapVal f m) k = (get m k).map (f k) := by
  induction m with
  | nil => rfl
  | cons p t ih =>
    obtain ⟨k', v⟩ := p
    simp only [mapVal, List.map_cons, get_cons]
    by_cases h : k' = k
    · subst h; simp
    · simp only [h, if_false]; exact ih

theorem keys_mapVal {β : Type} (f : Nat → α → β) (m : AMap α) : keys (mapVal f m) = keys m := by
  simp [keys, mapVal, List.map_map, Function.comp_def]

/-- `∀ k v, get m k = some v → P k v` as a check over the keys -/
def allGet (m : AMap α) (p : Nat → α → Bool) : Bool :=
  (keys m).all (fun k => match get m k with | some v => p k v | none => true)

theorem allGet_iff (m : AMap α) (p : Nat → α → Bool) :
    allGet m p = true ↔ ∀ k v, get m k = some v → p k v = true := by
  unfold allGet
  simp only [List.all_eq_true]
  constructor
  · intro h k v hk
    have := h k (mem_keys_of_get m k v hk)
    simpa [hk] using this
  · intro h k _
    cases hk : get m k with
    | none => rfl
    | some v => exact h k v hk

end PdModel.AMap
