import PdModel.Model.OpCtl
import PdModel.Lemmas.OpCtl

/-!
Records (`oc.records`, the "recently finished operator of a region" cache) – lemmas about the sites
where an operator leaves the running map: `buryOperator`, `RemoveOperator`, the replacement branch of
`addOperatorLocked`.  Used by `Props/C09.lean` (`…_recorded_at_sites_partial`).
-/

namespace PdModel.OpCtl
open PdModel.Spec

/-- every record names an existing operator of that region in an end status -/
def RecInv (c : Ctl) : Prop :=
  ∀ r id, (r, id) ∈ c.records → ∃ o, c.getOp id = some o ∧ o.region = r ∧ o.status.isEnd = true

/-- the record of a region, as `GetRecords`/`GetOperatorStatus` look it up -/
def Ctl.recordOn (c : Ctl) (r : Nat) : Option Nat := (c.records.find? (fun x => x.1 == r)).map (·.2)

theorem reach_end_eq {a b : Status} (h : Reach a b) (ha : a.isEnd = true) : b = a := by
  cases h with
  | refl => rfl
  | step hs _ =>
    exfalso
    revert hs
    cases a <;> rename_i m <;> cases m <;> first | (intro hs; cases hs) | (exfalso; revert ha; decide)

theorem canceled_isEnd_of_to (o : Op) (h : o.status.isEnd = false) :
    (o.to .canceled).1.status.isEnd = true := by
  unfold Op.to
  have hm : canMove o.status .canceled = true := by
    rw [canMove_eq_allowed]
    cases hs : o.status <;> rw [hs] at h <;> first | rfl | (exact absurd h (by decide))
  rw [if_pos hm]
  rfl

/-- the operator `bury` stores: cancelled first when it is still live -/
def buried (o : Op) : Op := if !o.status.isEnd then (o.to .canceled).1 else o

theorem buried_isEnd (o : Op) : (buried o).status.isEnd = true := by
  unfold buried
  cases h : o.status.isEnd
  · simpa using canceled_isEnd_of_to o h
  · simpa using h

theorem buried_rel (o : Op) : Rel o (buried o) := by
  unfold buried
  split
  · exact rel_to o .canceled
  · exact Rel.refl o

theorem bury_eq (c : Ctl) (id : Nat) (o : Op) (h : c.getOp id = some o) :
    bury c id = { c.setOp (buried o) with
                  records := ((buried o).region, id) :: (c.setOp (buried o)).records.filter (fun x => x.1 != (buried o).region) } := by
  unfold bury
  rw [h]
  rfl

/-- **buryOperator records the operator in an end status**: after `bury` the operator is ended, keeps
    its region, and is the record of its region. -/
theorem bury_records (c : Ctl) (id : Nat) (o : Op) (h : c.getOp id = some o) :
    ∃ o', (bury c id).getOp id = some o' ∧ o'.status.isEnd = true ∧ o'.region = o.region ∧
      (bury c id).recordOn o.region = some id := by
  have hid : o.id = id := getOp_some h
  have hreg : (buried o).region = o.region := (buried_rel o).region
  have hbid : (buried o).id = o.id := (buried_rel o).id
  refine ⟨buried o, ?_, buried_isEnd o, hreg, ?_⟩
  · rw [bury_eq c id o h]
    show (c.setOp (buried o)).getOp id = _
    rw [getOp_setOp, h]
    simp [hbid]
  · rw [bury_eq c id o h]
    unfold Ctl.recordOn
    simp [hreg]

/-- `bury` keeps `RecInv`: the new record is ended, older ones stay (an ended operator cannot move). -/
theorem recInv_bury (c : Ctl) (id : Nat) (hi : RecInv c) : RecInv (bury c id) := by
  cases h : c.getOp id with
  | none => unfold bury; rw [h]; exact hi
  | some o =>
    intro r k hk
    have hle := le_bury c id
    rw [bury_eq c id o h] at hk
    simp only [List.mem_cons, List.mem_filter] at hk
    rcases hk with hk | ⟨hk, _⟩
    · obtain ⟨o', g, he, hr, _⟩ := bury_records c id o h
      have hreg : (buried o).region = o.region := (buried_rel o).region
      cases hk
      exact ⟨o', g, by rw [hr, hreg], he⟩
    · have hk' : (r, k) ∈ c.records := hk
      obtain ⟨x, gx, rx, ex⟩ := hi r k hk'
      obtain ⟨x', gx', rel⟩ := hle.some k x gx
      refine ⟨x', gx', by rw [rel.region, rx], ?_⟩
      have := reach_end_eq rel.status ex
      rw [this]; exact ex

/-- a step that changes no record and moves statuses only along the matrix keeps `RecInv` -/
theorem recInv_of_le (c c' : Ctl) (hle : Le c c') (hrec : c'.records = c.records) (hi : RecInv c) :
    RecInv c' := by
  intro r k hk
  rw [hrec] at hk
  obtain ⟨x, gx, rx, ex⟩ := hi r k hk
  obtain ⟨x', gx', rel⟩ := hle.some k x gx
  refine ⟨x', gx', by rw [rel.region, rx], ?_⟩
  have hreach := rel.status
  have := reach_end_eq hreach ex
  rw [this]; exact ex

theorem find_filter_ne_none (l : List (Nat × Nat)) (r : Nat) :
    (l.filter (fun x => x.1 != r)).find? (fun x => x.1 == r) = none := by
  rw [List.find?_eq_none]
  intro x hx
  have := (List.mem_filter.1 hx).2
  simpa using this

theorem bury_running (c : Ctl) (id : Nat) : (bury c id).running = c.running := by
  unfold bury
  split
  · rfl
  · rfl

theorem removeOperator_eq_run (c : Ctl) (id : Nat) (o : Op) (h : c.getOp id = some o)
    (hrun : c.runningOn o.region = some o.id) :
    removeOperator c id =
      (bury (({ c with running := c.running.filter (fun x => x.1 != o.region) } : Ctl).setOp (o.to .canceled).1) id, true) := by
  unfold removeOperator removeLocked
  rw [h]
  simp [hrun]

theorem removeOperator_eq_norun (c : Ctl) (id : Nat) (o : Op) (h : c.getOp id = some o)
    (hrun : c.runningOn o.region ≠ some o.id) : removeOperator c id = (c, false) := by
  unfold removeOperator removeLocked
  rw [h]
  simp [hrun]

/-- **RemoveOperator**: when it reports success the operator has left the running map of its region,
    is in an end status and is the record of its region. -/
theorem removeOperator_recorded (c : Ctl) (id : Nat) (o : Op) (h : c.getOp id = some o)
    (hr : (removeOperator c id).2 = true) :
    ∃ o', (removeOperator c id).1.getOp id = some o' ∧ o'.status.isEnd = true ∧ o'.region = o.region ∧
      (removeOperator c id).1.recordOn o.region = some id ∧
      (removeOperator c id).1.runningOn o.region = none := by
  by_cases hrun : c.runningOn o.region = some o.id
  · rw [removeOperator_eq_run c id o h hrun]
    obtain ⟨c1, hc1⟩ : ∃ c1 : Ctl, c1 = { c with running := c.running.filter (fun x => x.1 != o.region) } := ⟨_, rfl⟩
    rw [← hc1]
    have hg1 : c1.getOp id = some o := by rw [hc1]; exact h
    have hrel : Rel o (o.to .canceled).1 := rel_to o .canceled
    have hg2 : (c1.setOp (o.to .canceled).1).getOp id = some (o.to .canceled).1 := by
      rw [getOp_setOp, hg1]; simp [hrel.id]
    obtain ⟨o', g, he, hreg, hrec⟩ := bury_records _ id _ hg2
    rw [hrel.region] at hreg hrec
    refine ⟨o', g, he, hreg, hrec, ?_⟩
    unfold Ctl.runningOn
    rw [bury_running]
    show (c1.running.find? _).map _ = none
    rw [hc1]
    simp only [find_filter_ne_none, Option.map_none]
  · rw [removeOperator_eq_norun c id o h hrun] at hr
    cases hr

/-- **replacement in addOperatorLocked**: the operator that ran on the region is taken out of the
    running map, ends (REPLACED, or CANCELED by `bury` if that move is refused) and is recorded. -/
theorem replaceOld_recorded (c : Ctl) (region oldId : Nat) (old : Op)
    (hrun : c.runningOn region = some oldId) (hg : c.getOp oldId = some old) (hreg : old.region = region) :
    ∃ o', (replaceOld c region).getOp oldId = some o' ∧ o'.status.isEnd = true ∧ o'.region = region ∧
      (replaceOld c region).recordOn region = some oldId ∧
      (replaceOld c region).runningOn region = none := by
  have hid : old.id = oldId := getOp_some hg
  have hrm : removeLocked c old = ({ c with running := c.running.filter (fun x => x.1 != region) }, true) := by
    unfold removeLocked
    rw [hreg, hrun, hid]
    simp
  have heq : replaceOld c region =
      bury (({ c with running := c.running.filter (fun x => x.1 != region) } : Ctl).setOp (old.to .replaced).1) oldId := by
    unfold replaceOld
    rw [hrun]
    simp only
    rw [hg]
    simp only
    rw [hrm]
  rw [heq]
  obtain ⟨c1, hc1⟩ : ∃ c1 : Ctl, c1 = { c with running := c.running.filter (fun x => x.1 != region) } := ⟨_, rfl⟩
  rw [← hc1]
  have hg1 : c1.getOp oldId = some old := by rw [hc1]; exact hg
  have hrel : Rel old (old.to .replaced).1 := rel_to old .replaced
  have hg2 : (c1.setOp (old.to .replaced).1).getOp oldId = some (old.to .replaced).1 := by
    rw [getOp_setOp, hg1]; simp [hrel.id]
  obtain ⟨o', g, he, hr', hrec⟩ := bury_records _ oldId _ hg2
  rw [hrel.region, hreg] at hr' hrec
  refine ⟨o', g, he, hr', hrec, ?_⟩
  unfold Ctl.runningOn
  rw [bury_running]
  show (c1.running.find? _).map _ = none
  rw [hc1]
  simp only [find_filter_ne_none, Option.map_none]

/-- the common shape of every site that takes an operator out of the running map
    (`RemoveOperator`, the replacement in `addOperatorLocked`, the stale / timeout branches of `Dispatch`
    and `PushOperators`): `removeOperatorLocked(op)` succeeded, then a status move, then `buryOperator(op)`.
    Whatever move `dst` is attempted (and whether or not it is allowed), afterwards the operator is in an
    end status, is the record of its region and the region has no running operator. -/
theorem leave_site_recorded (c : Ctl) (o : Op) (dst : Status) (hg : c.getOp o.id = some o)
    (hrm : (removeLocked c o).2 = true) :
    ∃ o', (bury ((removeLocked c o).1.setOp (o.to dst).1) o.id).getOp o.id = some o' ∧
      o'.status.isEnd = true ∧ o'.region = o.region ∧
      (bury ((removeLocked c o).1.setOp (o.to dst).1) o.id).recordOn o.region = some o.id ∧
      (bury ((removeLocked c o).1.setOp (o.to dst).1) o.id).runningOn o.region = none := by
  have hrun : c.runningOn o.region = some o.id := by
    unfold removeLocked at hrm
    by_cases h : c.runningOn o.region = some o.id
    · exact h
    · simp [h] at hrm
  have heq : (removeLocked c o).1 = { c with running := c.running.filter (fun x => x.1 != o.region) } := by
    unfold removeLocked; simp [hrun]
  rw [heq]
  obtain ⟨c1, hc1⟩ : ∃ c1 : Ctl, c1 = { c with running := c.running.filter (fun x => x.1 != o.region) } := ⟨_, rfl⟩
  rw [← hc1]
  have hg1 : c1.getOp o.id = some o := by rw [hc1]; exact hg
  have hrel : Rel o (o.to dst).1 := rel_to o dst
  have hg2 : (c1.setOp (o.to dst).1).getOp o.id = some (o.to dst).1 := by
    rw [getOp_setOp, hg1]; simp [hrel.id]
  obtain ⟨o', g, he, hr', hrec⟩ := bury_records _ o.id _ hg2
  rw [hrel.region] at hr' hrec
  refine ⟨o', g, he, hr', hrec, ?_⟩
  unfold Ctl.runningOn
  rw [bury_running]
  show (c1.running.find? _).map _ = none
  rw [hc1]
  simp only [find_filter_ne_none, Option.map_none]

end PdModel.OpCtl
