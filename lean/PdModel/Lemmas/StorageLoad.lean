import PdModel.Model.StorageLoad
set_option linter.unusedSimpArgs false
set_option linter.unusedVariables false
/-! Paging lemmas for C17: a page is a prefix of what is left, and paging is transparent. -/
namespace PdModel.StorageLoad
open PdModel.SyncRegion PdModel.PadKey

variable {V : Type}

/-- the kv is in strictly ascending id order (what `kvSave` maintains) -/
def Sorted (kv : KV V) : Prop := kv.Pairwise (fun a b => a.1 < b.1)

/-- every id is below `MaxUint64` -/
def Bounded (kv : KV V) : Prop := ∀ e ∈ kv, e.1 < maxU64

/-- the items with id ≥ n -/
def fromId (kv : KV V) (n : Nat) : KV V := kv.filter (fun e => decide (n ≤ e.1))

theorem maxU64_lt : maxU64 < 10 ^ 20 := by decide

theorem loadRange_eq (kv : KV V) (hb : Bounded kv) (next limit : Nat) (hn : next ≤ maxU64) (hl : 0 < limit) :
    loadRange kv next maxU64 limit = (fromId kv next).take limit := by
  unfold loadRange fromId
  have hl' : limit ≠ 0 := by omega
  simp only [hl', if_false]
  congr 1
  apply List.filter_congr
  intro e he
  have h1 := hb e he
  have hm := maxU64_lt
  rw [keyLtId_eq e.1 next (by omega) (by omega), keyLtId_eq e.1 maxU64 (by omega) hm]
  by_cases h : next ≤ e.1
  · have : ¬ e.1 < next := by omega
    simp [h, this, h1]
  · have : e.1 < next := by omega
    simp [h, this]

theorem sorted_filter (kv : KV V) (h : Sorted kv) (p : Nat × V → Bool) : Sorted (kv.filter p) :=
  List.Pairwise.filter _ h

theorem bounded_filter (kv : KV V) (h : Bounded kv) (p : Nat × V → Bool) : Bounded (kv.filter p) :=
  fun e he => h e (List.mem_filter.1 he).1

/-- in a sorted list the first `n` items end with the largest id among them, and everything after is larger -/
theorem sorted_take_last (l : KV V) (hs : Sorted l) (n : Nat) (hn : 0 < n) (hle : n ≤ l.length) :
    ∃ eL : Nat × V, (l.take n).getLast? = some eL ∧ (∀ x ∈ l.take n, x.1 ≤ eL.1) ∧
      (∀ x ∈ l.drop n, eL.1 < x.1) := by
  have hne : l.take n ≠ [] := by
    intro h
    have : (l.take n).length = 0 := by rw [h]; rfl
    rw [List.length_take] at this
    omega
  obtain ⟨eL, hL⟩ : ∃ eL, (l.take n).getLast? = some eL := by
    cases h : (l.take n).getLast? with
    | none => exact absurd (List.getLast?_eq_none_iff.1 h) hne
    | some e => exact ⟨e, rfl⟩
  have hmem : eL ∈ l.take n := List.mem_of_getLast? hL
  have hsplit : l.take n ++ l.drop n = l := List.take_append_drop n l
  have hs' : (l.take n ++ l.drop n).Pairwise (fun a b => a.1 < b.1) := by rw [hsplit]; exact hs
  rw [List.pairwise_append] at hs'
  refine ⟨eL, hL, ?_, fun x hx => hs'.2.2 eL hmem x hx⟩
  -- within the prefix: it is `init ++ [eL]`
  obtain ⟨ini, hini⟩ : ∃ ini, l.take n = ini ++ [eL] := by
    have := List.getLast?_eq_some_iff.1 hL
    exact this
  intro x hx
  rw [hini] at hx hs'
  have hp := hs'.1
  rw [List.pairwise_append] at hp
  rcases List.mem_append.1 hx with h | h
  · exact Nat.le_of_lt (hp.2.2 x h eL (by simp))
  · simp at h; subst h; exact Nat.le_refl _

theorem fromId_fromId (kv : KV V) (a b : Nat) (h : a ≤ b) : fromId (fromId kv a) b = fromId kv b := by
  unfold fromId
  rw [List.filter_filter]
  apply List.filter_congr
  intro e _
  by_cases hb : b ≤ e.1
  · have : a ≤ e.1 := by omega
    simp [hb, this]
  · simp [hb]

/-- after a full page the rest is what the page did not contain -/
theorem fromId_after_page (l : KV V) (hs : Sorted l) (n : Nat) (hn : 0 < n) (hle : n ≤ l.length) (next : Nat) :
    fromId l (nextAfter (l.take n) next) = l.drop n ∧
    (∀ x ∈ l.take n, x.1 < nextAfter (l.take n) next) := by
  obtain ⟨eL, hL, h1, h2⟩ := sorted_take_last l hs n hn hle
  have hna : nextAfter (l.take n) next = eL.1 + 1 := by simp [nextAfter, hL]
  rw [hna]
  refine ⟨?_, fun x hx => by have := h1 x hx; omega⟩
  unfold fromId
  conv => lhs; rw [← List.take_append_drop n l]
  rw [List.filter_append]
  have e1 : (l.take n).filter (fun e => decide (eL.1 + 1 ≤ e.1)) = [] := by
    rw [List.filter_eq_nil_iff]
    intro x hx
    have := h1 x hx
    simp; omega
  have e2 : (l.drop n).filter (fun e => decide (eL.1 + 1 ≤ e.1)) = l.drop n := by
    rw [List.filter_eq_self]
    intro x hx
    have := h2 x hx
    simp; omega
  rw [e1, e2]; rfl

/-! ### the callback's deletions -/

theorem kvRemove_foldl_filter (ds : List Nat) (kv : KV V) :
    ds.foldl kvRemove kv = kv.filter (fun e => !ds.contains e.1) := by
  induction ds generalizing kv with
  | nil => simp only [List.foldl_nil]; symm; rw [List.filter_eq_self]; intro a _; rfl
  | cons d ds ih =>
    simp only [List.foldl_cons]
    rw [ih]
    unfold kvRemove
    rw [List.filter_filter]
    apply List.filter_congr
    intro e _
    by_cases h : e.1 = d
    · simp [h]
    · simp [h, List.contains_cons]

/-- What the paging argument needs from a callback: on the items it can meet (`P`), in a state that only
    knows ids below the current one (`J`), it only names ids up to the item it was given, and afterwards
    only knows ids up to that item. -/
structure CbInv {σ : Type} (f : σ → Nat × V → σ × List Nat) (P : Nat × V → Prop) (J : σ → Nat → Prop) : Prop where
  mono : ∀ (s : σ) (b b' : Nat), J s b → b ≤ b' → J s b'
  dels : ∀ (s : σ) (e : Nat × V), P e → J s e.1 → ∀ d ∈ (f s e).2, d ≤ e.1
  step : ∀ (s : σ) (e : Nat × V), P e → J s e.1 → J (f s e).1 (e.1 + 1)

/-- processing a page (ascending ids in `[n0, b)`) leaves the items from `b` on alone -/
theorem page_fold_frame {σ : Type} (f : σ → Nat × V → σ × List Nat) (P : Nat × V → Prop) (J : σ → Nat → Prop)
    (hf : CbInv f P J) (page : KV V) (b : Nat) :
    ∀ (n0 : Nat) (s : LoadSt V σ), Sorted page → (∀ x ∈ page, P x ∧ n0 ≤ x.1 ∧ x.1 < b) → n0 ≤ b → J s.cb n0 →
      fromId (page.foldl (pageStep f) s).kv b = fromId s.kv b ∧
      (∀ e ∈ (page.foldl (pageStep f) s).kv, e ∈ s.kv) ∧
      (Sorted s.kv → Sorted (page.foldl (pageStep f) s).kv) ∧
      J (page.foldl (pageStep f) s).cb b := by
  induction page with
  | nil => intro n0 s _ _ hn hj; exact ⟨rfl, fun e he => he, id, hf.mono _ _ _ hj hn⟩
  | cons e page ih =>
    intro n0 s hsp hp hn hj
    simp only [List.foldl_cons]
    have hpe := hp e (by simp)
    have hje : J s.cb e.1 := hf.mono _ _ _ hj hpe.2.1
    rw [Sorted, List.pairwise_cons] at hsp
    have hj1 : J (pageStep f s e).cb (e.1 + 1) := hf.step s.cb e hpe.1 hje
    obtain ⟨h1, h2, h3, h4⟩ := ih (e.1 + 1) (pageStep f s e) hsp.2
      (fun x hx => ⟨(hp x (by simp [hx])).1, hsp.1 x hx, (hp x (by simp [hx])).2.2⟩) (by omega) hj1
    have hkv : (pageStep f s e).kv = s.kv.filter (fun x => !(f s.cb e).2.contains x.1) := by
      simp only [pageStep]; exact kvRemove_foldl_filter _ _
    refine ⟨?_, fun x hx => ?_, fun hs => h3 (by rw [hkv]; exact sorted_filter _ hs _), h4⟩
    · rw [h1, hkv]
      unfold fromId
      rw [List.filter_filter]
      apply List.filter_congr
      intro x _
      by_cases hx : b ≤ x.1
      · have hnot : (f s.cb e).2.contains x.1 = false := by
          rw [Bool.eq_false_iff]
          intro hc
          have hmem : x.1 ∈ (f s.cb e).2 := by simpa using hc
          have := hf.dels s.cb e hpe.1 hje x.1 hmem
          omega
        rw [hnot]; simp [hx]
      · simp [hx]
    · have := h2 x hx
      rw [hkv] at this
      exact (List.mem_filter.1 this).1

/-! ### tolerable error patterns -/

/-- the failing LoadRange calls never push the page size below the minimum -/
def Tolerable (minLimit : Nat) : Nat → List Bool → Prop
  | _, [] => True
  | limit, true :: es => limit / 2 ≥ minLimit ∧ Tolerable minLimit (limit / 2) es
  | limit, false :: es => Tolerable minLimit limit es

theorem tolerable_tail (minLimit limit : Nat) (errs : List Bool) (h : Tolerable minLimit limit errs)
    (hh : errs.headD false = false) : Tolerable minLimit limit errs.tail := by
  cases errs with
  | nil => trivial
  | cons b es =>
    cases b with
    | true => simp at hh
    | false => exact h

theorem pageFold_readable {σ : Type} (f : σ → Nat × V → σ × List Nat) (bad : Nat × V → Bool) (page : KV V) :
    ∀ s : LoadSt V σ, (∀ e ∈ page, bad e = false) → pageFold f bad s page = (page.foldl (pageStep f) s, false) := by
  induction page with
  | nil => intro s _; rfl
  | cons e page ih =>
    intro s h
    simp only [pageFold, h e (by simp), Bool.false_eq_true, if_false, List.foldl_cons]
    exact ih _ (fun x hx => h x (by simp [hx]))

/-- **paging is transparent**: with a tolerable error pattern and enough fuel the loop of `loadRegions`
    ends without error in the state reached by handing every remaining item, in key order, to the callback -/
theorem loadRegionsLoop_spec {σ : Type} (f : σ → Nat × V → σ × List Nat) (bad : Nat × V → Bool)
    (P : Nat × V → Prop) (J : σ → Nat → Prop) (hf : CbInv f P J) (minLimit : Nat) (hmin : 0 < minLimit) :
    ∀ (fuel next limit : Nat) (errs : List Bool) (s : LoadSt V σ),
      Sorted s.kv → Bounded s.kv → (∀ e ∈ s.kv, P e ∧ bad e = false) → J s.cb next →
      next ≤ maxU64 → 0 < limit → Tolerable minLimit limit errs →
      (fromId s.kv next).length + errs.length < fuel →
      loadRegionsLoop f bad minLimit fuel next limit errs s =
        some (false, (fromId s.kv next).foldl (pageStep f) s) := by
  intro fuel
  induction fuel with
  | zero => intro next limit errs s _ _ _ _ _ _ _ hfu; omega
  | succ fuel ih =>
    intro next limit errs s hs hb hP hJ hn hl ht hfu
    unfold loadRegionsLoop
    by_cases he : errs.headD false = true
    · -- a failing call: halve and retry
      obtain ⟨b, es, rfl⟩ : ∃ b es, errs = b :: es := by
        cases errs with
        | nil => simp at he
        | cons b es => exact ⟨b, es, rfl⟩
      simp only [List.headD_cons] at he
      subst he
      simp only [List.headD_cons, if_true, List.tail_cons]
      obtain ⟨h1, h2⟩ := ht
      rw [if_pos h1]
      exact ih next (limit / 2) es s hs hb hP hJ hn (by omega) h2 (by simp at hfu; omega)
    · have he' : errs.headD false = false := by simpa using he
      simp only [he', Bool.false_eq_true, if_false]
      rw [loadRange_eq s.kv hb next limit hn hl]
      generalize hl0 : fromId s.kv next = l at *
      have hsl : Sorted l := by rw [← hl0]; exact sorted_filter _ hs _
      have hlmem : ∀ x ∈ l, x ∈ s.kv ∧ next ≤ x.1 := by
        intro x hx; rw [← hl0] at hx
        have := List.mem_filter.1 hx
        exact ⟨this.1, by simpa using this.2⟩
      rw [pageFold_readable f bad (l.take limit) s
        (fun x hx => (hP x (hlmem x (List.mem_of_mem_take hx)).1).2)]
      simp only [Bool.false_eq_true, if_false]
      by_cases hshort : (l.take limit).length < limit
      · rw [if_pos hshort]
        have : l.take limit = l := by
          rw [List.length_take] at hshort
          exact List.take_of_length_le (by omega)
        rw [this]
      · rw [if_neg hshort]
        have hlen : limit ≤ l.length := by
          rw [List.length_take] at hshort; omega
        obtain ⟨hrest, hbelow⟩ := fromId_after_page l hsl limit hl hlen next
        obtain ⟨eL, hL, _, _⟩ := sorted_take_last l hsl limit hl hlen
        have hmemL : eL ∈ l := List.mem_of_mem_take (List.mem_of_getLast? hL)
        have hna : nextAfter (l.take limit) next = eL.1 + 1 := by simp [nextAfter, hL]
        have hge : next ≤ eL.1 := (hlmem eL hmemL).2
        have hlt : eL.1 < maxU64 := hb eL (hlmem eL hmemL).1
        rw [hna] at hrest hbelow ⊢
        have hpage : ∀ x ∈ l.take limit, P x ∧ next ≤ x.1 ∧ x.1 < eL.1 + 1 := by
          intro x hx
          have hm := hlmem x (List.mem_of_mem_take hx)
          exact ⟨(hP x hm.1).1, hm.2, hbelow x hx⟩
        have hspage : Sorted (l.take limit) := by
          have : (l.take limit ++ l.drop limit).Pairwise (fun a b => a.1 < b.1) := by
            rw [List.take_append_drop]; exact hsl
          exact (List.pairwise_append.1 this).1
        obtain ⟨hfr, hsub, hs', hJ'⟩ :=
          page_fold_frame f P J hf (l.take limit) (eL.1 + 1) next s hspage hpage (by omega) hJ
        have hrest' : fromId (List.foldl (pageStep f) s (l.take limit)).kv (eL.1 + 1) = l.drop limit := by
          rw [hfr, ← hrest, ← hl0]
          exact (fromId_fromId s.kv next (eL.1 + 1) (by omega)).symm
        rw [ih (eL.1 + 1) limit errs.tail _ (hs' hs) (fun e he => hb e (hsub e he))
          (fun e he => hP e (hsub e he)) hJ' (by omega) hl (tolerable_tail _ _ _ ht he')
          (by rw [hrest']; simp [List.length_drop]; cases errs <;> simp at hfu ⊢ <;> omega)]
        rw [hrest', ← List.foldl_append, List.take_append_drop]

/-! ### LoadStores -/

theorem loadStoresLoop_spec (limit : Nat) (hl : 0 < limit) (kv : KV V) (hs : Sorted kv) (hb : Bounded kv) :
    ∀ (fuel next : Nat) (errs : List Bool) (acc : List (Nat × V)),
      (∀ b ∈ errs, b = false) → next ≤ maxU64 → (fromId kv next).length < fuel →
      loadStoresLoop kv limit fuel next errs acc = some (false, acc ++ fromId kv next) := by
  intro fuel
  induction fuel with
  | zero => intro next errs acc _ _ hfu; omega
  | succ fuel ih =>
    intro next errs acc he hn hfu
    unfold loadStoresLoop
    have he' : errs.headD false = false := by
      cases errs with
      | nil => rfl
      | cons b es => exact he b (by simp)
    simp only [he', Bool.false_eq_true, if_false]
    rw [loadRange_eq kv hb next limit hn hl]
    generalize hl0 : fromId kv next = l at *
    have hsl : Sorted l := by rw [← hl0]; exact sorted_filter _ hs _
    have hlmem : ∀ x ∈ l, x ∈ kv ∧ next ≤ x.1 := by
      intro x hx; rw [← hl0] at hx
      have := List.mem_filter.1 hx
      exact ⟨this.1, by simpa using this.2⟩
    by_cases hshort : (l.take limit).length < limit
    · rw [if_pos hshort]
      have : l.take limit = l := by
        rw [List.length_take] at hshort
        exact List.take_of_length_le (by omega)
      rw [this]
    · rw [if_neg hshort]
      have hlen : limit ≤ l.length := by
        rw [List.length_take] at hshort; omega
      obtain ⟨hrest, _⟩ := fromId_after_page l hsl limit hl hlen next
      obtain ⟨eL, hL, _, _⟩ := sorted_take_last l hsl limit hl hlen
      have hmemL : eL ∈ l := List.mem_of_mem_take (List.mem_of_getLast? hL)
      have hna : nextAfter (l.take limit) next = eL.1 + 1 := by simp [nextAfter, hL]
      have hge : next ≤ eL.1 := (hlmem eL hmemL).2
      have hlt : eL.1 < maxU64 := hb eL (hlmem eL hmemL).1
      rw [hna] at hrest ⊢
      have hrest' : fromId kv (eL.1 + 1) = l.drop limit := by
        rw [← hrest, ← hl0]
        exact (fromId_fromId kv next (eL.1 + 1) (by omega)).symm
      rw [ih (eL.1 + 1) errs.tail _ (fun b hb' => he b (List.mem_of_mem_tail hb')) (by omega)
        (by rw [hrest']; simp [List.length_drop]; omega)]
      rw [hrest', List.append_assoc, List.take_append_drop]

theorem fromId_zero (kv : KV V) : fromId kv 0 = kv := by
  unfold fromId
  rw [List.filter_eq_self]
  intro a _; simp

end PdModel.StorageLoad
