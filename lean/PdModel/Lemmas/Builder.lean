import PdModel.Model.Builder
import PdModel.Spec.C08
set_option linter.unusedSimpArgs false
set_option linter.unusedVariables false
/-! Lemmas for C08: peersMap facts, the effect of step batches on a region, counting voters. -/
namespace PdModel.Builder
open PdModel.Steps PdModel.Spec PdModel.Spec.C08

/-! ### peersMap -/

def stores (l : List Peer) : List Nat := l.map (·.store)

theorem mem_stores {l : List Peer} {s : Nat} : s ∈ stores l ↔ ∃ p ∈ l, p.store = s := by
  simp [stores]

theorem pmGet_some {l : List Peer} {s : Nat} {p : Peer} (h : pmGet l s = some p) :
    p ∈ l ∧ p.store = s := by
  unfold pmGet at h
  exact ⟨List.mem_of_find?_eq_some h, by simpa using List.find?_some h⟩

theorem pmGet_none {l : List Peer} {s : Nat} : pmGet l s = none ↔ s ∉ stores l := by
  unfold pmGet
  simp only [List.find?_eq_none, beq_iff_eq, mem_stores, not_exists, not_and]

theorem pmGet_of_mem {l : List Peer} {p : Peer} (hn : (stores l).Nodup) (hp : p ∈ l) :
    pmGet l p.store = some p := by
  induction l with
  | nil => cases hp
  | cons q rest ih =>
    simp only [stores, List.map_cons, List.nodup_cons] at hn
    rcases List.mem_cons.1 hp with rfl | hp'
    · simp [pmGet]
    · have : q.store ≠ p.store := fun e => hn.1 (e ▸ List.mem_map.2 ⟨p, hp', rfl⟩)
      have h2 := ih hn.2 hp'
      unfold pmGet at h2 ⊢
      rw [List.find?_cons_of_neg (by simpa using this)]
      exact h2

theorem pmHas_iff {l : List Peer} {s : Nat} : pmHas l s = true ↔ s ∈ stores l := by
  simp [pmHas, mem_stores]

theorem pmHas_false {l : List Peer} {s : Nat} : pmHas l s = false ↔ s ∉ stores l := by
  rw [← pmHas_iff]; simp

theorem pmSet_fresh {l : List Peer} {p : Peer} (h : p.store ∉ stores l) : pmSet l p = l ++ [p] := by
  unfold pmSet
  simp [pmHas_false.2 h]

theorem foldl_pmSet_fresh (l xs : List Peer) (hf : ∀ x ∈ xs, x.store ∉ stores l)
    (hn : (stores xs).Nodup) : xs.foldl pmSet l = l ++ xs := by
  induction xs generalizing l with
  | nil => simp
  | cons x rest ih =>
    simp only [stores, List.map_cons, List.nodup_cons] at hn
    simp only [List.foldl_cons]
    rw [pmSet_fresh (hf x (List.mem_cons_self ..))]
    rw [ih (l ++ [x]) ?_ hn.2]
    · simp
    · intro y hy
      simp only [stores, List.map_append, List.map_cons, List.map_nil, List.mem_append,
        List.mem_singleton, not_or]
      refine ⟨hf y (List.mem_cons_of_mem _ hy), ?_⟩
      intro e
      exact hn.1 (e ▸ List.mem_map.2 ⟨y, hy, rfl⟩)

/-! ### sorting ids -/

theorem mem_insertSorted {x y : Nat} {l : List Nat} : y ∈ insertSorted x l ↔ y = x ∨ y ∈ l := by
  induction l with
  | nil => simp [insertSorted]
  | cons z rest ih =>
    simp only [insertSorted]
    split
    · simp
    · simp only [List.mem_cons, ih]
      constructor
      · rintro (h | h | h) <;> simp [h]
      · rintro (h | h | h) <;> simp [h]

theorem mem_sortIds {y : Nat} {l : List Nat} : y ∈ sortIds l ↔ y ∈ l := by
  induction l with
  | nil => simp [sortIds]
  | cons z rest ih =>
    simp only [sortIds, List.foldr_cons] at ih ⊢
    rw [mem_insertSorted, ih]; simp

theorem nodup_insertSorted {x : Nat} {l : List Nat} (hx : x ∉ l) (hn : l.Nodup) :
    (insertSorted x l).Nodup := by
  induction l with
  | nil => simp [insertSorted]
  | cons z rest ih =>
    simp only [List.nodup_cons] at hn
    simp only [List.mem_cons, not_or] at hx
    simp only [insertSorted]
    split
    · simp only [List.nodup_cons, List.mem_cons, not_or]
      exact ⟨⟨hx.1, hx.2⟩, hn.1, hn.2⟩
    · simp only [List.nodup_cons, mem_insertSorted, not_or]
      exact ⟨⟨fun e => hx.1 e.symm, hn.1⟩, ih hx.2 hn.2⟩

theorem nodup_sortIds {l : List Nat} (hn : l.Nodup) : (sortIds l).Nodup := by
  induction l with
  | nil => simp [sortIds]
  | cons z rest ih =>
    simp only [List.nodup_cons] at hn
    simp only [sortIds, List.foldr_cons]
    exact nodup_insertSorted (by rw [← sortIds, mem_sortIds]; exact hn.1) (ih hn.2)

theorem stores_filterMap_pmGet (l : List Peer) (ids : List Nat) (h : ∀ i ∈ ids, i ∈ stores l) :
    stores (ids.filterMap (pmGet l)) = ids := by
  induction ids with
  | nil => simp [stores]
  | cons i rest ih =>
    have hi := h i (List.mem_cons_self ..)
    cases hg : pmGet l i with
    | none => exact absurd hi (pmGet_none.1 hg)
    | some p =>
      simp only [List.filterMap_cons, hg, stores, List.map_cons]
      have := ih (fun j hj => h j (List.mem_cons_of_mem _ hj))
      simp only [stores] at this
      rw [this, (pmGet_some hg).2]

theorem stores_pmSorted (l : List Peer) : stores (pmSorted l) = sortIds (stores l) := by
  unfold pmSorted pmIds
  exact stores_filterMap_pmGet l _ (fun i hi => by rw [← stores] at hi; exact mem_sortIds.1 hi)

theorem nodup_pmSorted {l : List Peer} (hn : (stores l).Nodup) : (stores (pmSorted l)).Nodup := by
  rw [stores_pmSorted]; exact nodup_sortIds hn

theorem mem_pmSorted_mem {l : List Peer} {p : Peer} (h : p ∈ pmSorted l) : p ∈ l := by
  unfold pmSorted at h
  obtain ⟨i, _, hi⟩ := List.mem_filterMap.1 h
  exact (pmGet_some hi).1

theorem mem_pmSorted {l : List Peer} {p : Peer} (hn : (stores l).Nodup) : p ∈ pmSorted l ↔ p ∈ l := by
  refine ⟨mem_pmSorted_mem, fun h => ?_⟩
  unfold pmSorted
  refine List.mem_filterMap.2 ⟨p.store, ?_, pmGet_of_mem hn h⟩
  unfold pmIds
  exact mem_sortIds.2 (List.mem_map.2 ⟨p, h, rfl⟩)

/-! ### regions: lookups, counting -/

theorem storePeer_eq_pmGet (r : Region) (s : Nat) : storePeer r s = pmGet r.peers s := rfl

def plainRoles (l : List Peer) : Prop := ∀ p ∈ l, p.role = .voter ∨ p.role = .learner

def votersOf (l : List Peer) : Nat := l.countP (fun p => p.role == .voter)

def asLearner (p : Peer) : Peer := ⟨p.store, p.id, .learner⟩

theorem plain_counts {l : List Peer} (h : plainRoles l) (x : Nat) :
    oldVoters ⟨l, x⟩ = votersOf l ∧ newVoters ⟨l, x⟩ = votersOf l ∧ countJoint ⟨l, x⟩ = 0 := by
  refine ⟨?_, ?_, ?_⟩
  · exact List.countP_congr (fun p hp => by rcases h p hp with e | e <;> simp [e])
  · exact List.countP_congr (fun p hp => by rcases h p hp with e | e <;> simp [e])
  · simp only [countJoint, List.countP_eq_zero]
    intro p hp; rcases h p hp with e | e <;> simp [e, isJointRole]

theorem plain_voterCount {l : List Peer} (h : plainRoles l) (x : Nat) :
    voterCount ⟨l, x⟩ = votersOf l := by
  obtain ⟨a, b, _⟩ := plain_counts h x
  simp [voterCount, a, b]

theorem onePerStore_iff (r : Region) : onePerStore r ↔ (stores r.peers).Nodup := Iff.rfl

theorem apply_addStep (lw : Bool) (a : Peer) (r : Region) :
    apply r (addStep lw a) = ⟨r.peers ++ [asLearner a], r.leader⟩ := by
  unfold addStep; split <;> rfl

theorem voters_append_learner (l : List Peer) (x : Nat) (a : Peer) :
    voterCount ⟨l ++ [asLearner a], x⟩ = voterCount ⟨l, x⟩ := by
  simp [voterCount, oldVoters, newVoters, asLearner, List.countP_append]

theorem adds_safe (m : Nat) (lw : Bool) (A : List Peer) (r : Region)
    (hn : (stores r.peers).Nodup) (hA : (stores A).Nodup)
    (hd : ∀ a ∈ A, a.store ∉ stores r.peers) (hm : m ≤ voterCount r) :
    StepsSafe m r (A.map (addStep lw)) ∧
    run r (A.map (addStep lw)) = ⟨r.peers ++ A.map asLearner, r.leader⟩ := by
  induction A generalizing r with
  | nil => simp [StepsSafe, run]
  | cons a rest ih =>
    simp only [stores, List.map_cons, List.nodup_cons] at hA
    have ha := hd a (List.mem_cons_self ..)
    have hn' : (stores (r.peers ++ [asLearner a])).Nodup := by
      simp only [stores, List.map_append, List.map_cons, List.map_nil]
      rw [List.nodup_append]
      refine ⟨hn, by simp, ?_⟩
      intro x hx y hy
      simp only [List.mem_singleton] at hy
      subst hy
      intro e; subst e
      exact ha hx
    have hd' : ∀ b ∈ rest, b.store ∉ stores (r.peers ++ [asLearner a]) := by
      intro b hb
      simp only [stores, List.map_append, List.map_cons, List.map_nil, List.mem_append,
        List.mem_singleton, not_or]
      refine ⟨hd b (List.mem_cons_of_mem _ hb), ?_⟩
      intro e
      exact hA.1 (by simp only [asLearner] at e; exact e ▸ List.mem_map.2 ⟨b, hb, rfl⟩)
    have hm' : m ≤ voterCount ⟨r.peers ++ [asLearner a], r.leader⟩ := by
      rw [voters_append_learner]; exact hm
    obtain ⟨h1, h2⟩ := ih ⟨r.peers ++ [asLearner a], r.leader⟩ hn' hA.2 hd' hm'
    simp only [List.map_cons, StepsSafe, run, List.foldl_cons, apply_addStep]
    refine ⟨⟨?_, h1⟩, ?_⟩
    · refine ⟨?_, ?_, ?_, by rw [apply_addStep]; exact hn', by rw [apply_addStep]; exact hm'⟩
      · have hnone : storePeer r a.store = none := pmGet_none.2 ha
        unfold addStep; split <;> simp [checkSafety, hnone]
      · unfold addStep; split <;> rfl
      · unfold addStep; split <;> rfl
    · simp only [run] at h2
      rw [h2]; simp

/-! ### entering and leaving a joint state -/

def inItems (l : List Item) (s : Nat) : Bool := l.any (fun it => it.store == s)

theorem inItems_iff {l : List Item} {s : Nat} : inItems l s = true ↔ ∃ it ∈ l, it.store = s := by
  simp [inItems]

def enterF (P D : List Item) (p : Peer) : Peer :=
  if inItems D p.store then { p with role := .demoting }
  else if inItems P p.store then { p with role := .incoming } else p

theorem enterF_store (P D : List Item) (p : Peer) : (enterF P D p).store = p.store := by
  unfold enterF; repeat' split
  all_goals rfl

theorem enterF_id (P D : List Item) (p : Peer) : (enterF P D p).id = p.id := by
  unfold enterF; repeat' split
  all_goals rfl

theorem apply_enter (r : Region) (P D : List Item) :
    apply r (.enter P D) = ⟨r.peers.map (enterF P D), r.leader⟩ := by
  simp only [apply, setRoles, List.map_map]
  congr 1
  apply List.map_congr_left
  intro p _
  simp only [Function.comp, enterF, inItems]
  by_cases hP : (P.any fun it => it.store == p.store) = true <;>
  by_cases hD : (D.any fun it => it.store == p.store) = true <;> simp [hP, hD]

def leaveF (p : Peer) : Peer := { p with role := leaveRole p.role }

theorem apply_leave (r : Region) (P D : List Item) :
    apply r (.leave P D) = ⟨r.peers.map leaveF, r.leader⟩ := rfl

theorem pmGet_map {f : Peer → Peer} (hf : ∀ p, (f p).store = p.store) (l : List Peer) (s : Nat) :
    pmGet (l.map f) s = (pmGet l s).map f := by
  unfold pmGet
  rw [List.find?_map]
  congr 1
  simp only [Function.comp_def, hf]

theorem stores_map {f : Peer → Peer} (hf : ∀ p, (f p).store = p.store) (l : List Peer) :
    stores (l.map f) = stores l := by
  simp [stores, List.map_map, Function.comp_def, hf]

/-- all promote items name learners with the right id, all demote items name voters: the scan
    succeeds and reports "not in joint state" only -/
theorem enterScan_plain (r : Region) (P D : List Item)
    (hP : ∀ it ∈ P, ∃ p, storePeer r it.store = some p ∧ p.id = it.id ∧ p.role = .learner)
    (hD : ∀ it ∈ D, ∃ p, storePeer r it.store = some p ∧ p.id = it.id ∧ p.role = .voter) :
    ∃ n, enterScan r P D = some (false, n) := by
  induction P with
  | nil =>
    induction D with
    | nil => exact ⟨false, by simp [enterScan]⟩
    | cons d ds ih =>
      obtain ⟨p, h1, h2, h3⟩ := hD d (List.mem_cons_self ..)
      obtain ⟨n, hn⟩ := ih (fun it hit => hD it (List.mem_cons_of_mem _ hit))
      refine ⟨true, ?_⟩
      simp [enterScan, h1, idOf, roleOf, h2, h3, hn]
  | cons q qs ih =>
    obtain ⟨p, h1, h2, h3⟩ := hP q (List.mem_cons_self ..)
    obtain ⟨n, hn⟩ := ih (fun it hit => hP it (List.mem_cons_of_mem _ hit))
    refine ⟨true, ?_⟩
    simp [enterScan, h1, idOf, roleOf, h2, h3, hn]

theorem leaveScan_joint (r : Region) (P D : List Item)
    (hP : ∀ it ∈ P, ∃ p, storePeer r it.store = some p ∧ p.id = it.id ∧ p.role = .incoming)
    (hD : ∀ it ∈ D, ∃ p, storePeer r it.store = some p ∧ p.id = it.id ∧ p.role = .demoting ∧
      it.store ≠ r.leader) :
    ∃ j, leaveScan r P D = some (j, false, false) := by
  induction P with
  | nil =>
    induction D with
    | nil => exact ⟨false, by simp [leaveScan]⟩
    | cons d ds ih =>
      obtain ⟨p, h1, h2, h3, h4⟩ := hD d (List.mem_cons_self ..)
      obtain ⟨n, hn⟩ := ih (fun it hit => hD it (List.mem_cons_of_mem _ hit))
      refine ⟨true, ?_⟩
      simp [leaveScan, h1, idOf, roleOf, h2, h3, hn, h4]
  | cons q qs ih =>
    obtain ⟨p, h1, h2, h3⟩ := hP q (List.mem_cons_self ..)
    obtain ⟨n, hn⟩ := ih (fun it hit => hP it (List.mem_cons_of_mem _ hit))
    refine ⟨true, ?_⟩
    simp [leaveScan, h1, idOf, roleOf, h2, h3, hn]

theorem checkSafety_enter (r : Region) (P D : List Item) (hj : countJoint r = 0)
    (hP : ∀ it ∈ P, ∃ p, storePeer r it.store = some p ∧ p.id = it.id ∧ p.role = .learner)
    (hD : ∀ it ∈ D, ∃ p, storePeer r it.store = some p ∧ p.id = it.id ∧ p.role = .voter) :
    checkSafety r (.enter P D) = true := by
  obtain ⟨n, hn⟩ := enterScan_plain r P D hP hD
  simp [checkSafety, hn, hj]

theorem checkSafety_leave (r : Region) (P D : List Item) (hj : countJoint r = P.length + D.length)
    (hP : ∀ it ∈ P, ∃ p, storePeer r it.store = some p ∧ p.id = it.id ∧ p.role = .incoming)
    (hD : ∀ it ∈ D, ∃ p, storePeer r it.store = some p ∧ p.id = it.id ∧ p.role = .demoting ∧
      it.store ≠ r.leader) :
    checkSafety r (.leave P D) = true := by
  obtain ⟨n, hn⟩ := leaveScan_joint r P D hP hD
  simp [checkSafety, hn, hj]

/-! ### the joint transition as a whole -/

/-- the target wants a voter on store `s` -/
def finV (T : List Peer) (s : Nat) : Bool := T.any (fun n => n.store == s && n.role == .voter)

theorem finV_iff {T : List Peer} {s : Nat} : finV T s = true ↔ ∃ n ∈ T, n.store = s ∧ n.role = .voter := by
  simp [finV]

theorem finV_of_mem {T : List Peer} (hn : (stores T).Nodup) {n : Peer} (h : n ∈ T) :
    finV T n.store = true ↔ n.role = .voter := by
  rw [finV_iff]
  constructor
  · rintro ⟨n', h', e, r⟩
    have h1 := pmGet_of_mem hn h
    have h2 := pmGet_of_mem hn h'
    rw [e, h1] at h2
    cases h2; exact r
  · intro r; exact ⟨n, h, rfl, r⟩

/-- what the joint-consensus builder knows when it enters the joint state: `S` = current peers
    (origin + added learners), `T` = target peers, `P`/`D` = the promote / demote items -/
structure JointCtx (S T : List Peer) (P D : List Item) : Prop where
  nodupS : (stores S).Nodup
  plainS : plainRoles S
  nodupT : (stores T).Nodup
  plainT : plainRoles T
  subT   : ∀ n ∈ T, n.store ∈ stores S
  pMem   : ∀ p ∈ S, (inItems P p.store = true ↔ (p.role = .learner ∧ finV T p.store = true))
  dMem   : ∀ p ∈ S, (inItems D p.store = true ↔ (p.role = .voter ∧ finV T p.store = false))
  pIn    : ∀ it ∈ P, ∃ p ∈ S, p.store = it.store ∧ p.id = it.id
  dIn    : ∀ it ∈ D, ∃ p ∈ S, p.store = it.store ∧ p.id = it.id
  nodupP : (P.map (·.store)).Nodup
  nodupD : (D.map (·.store)).Nodup

section
variable {S T : List Peer} {P D : List Item}

theorem enterF_role (h : JointCtx S T P D) {p : Peer} (hp : p ∈ S) :
    (enterF P D p).role =
      if finV T p.store then (if p.role = .learner then .incoming else .voter)
      else (if p.role = .voter then .demoting else .learner) := by
  have h1 := h.pMem p hp
  have h2 := h.dMem p hp
  unfold enterF
  rcases h.plainS p hp with e | e <;> cases hf : finV T p.store <;>
    cases hP : inItems P p.store <;> cases hD : inItems D p.store <;> simp_all

theorem leave_enter_role (h : JointCtx S T P D) {p : Peer} (hp : p ∈ S) :
    (leaveF (enterF P D p)).role = if finV T p.store then .voter else .learner := by
  simp only [leaveF, enterF_role h hp]
  rcases h.plainS p hp with e | e <;> cases hf : finV T p.store <;> simp [e, leaveRole]

theorem leaveF_store (p : Peer) : (leaveF p).store = p.store := rfl

theorem itemP_peer (h : JointCtx S T P D) {it : Item} (hit : it ∈ P) :
    ∃ p, pmGet S it.store = some p ∧ p.id = it.id ∧ p.role = .learner ∧ finV T p.store = true := by
  obtain ⟨p, hp, hs, hid⟩ := h.pIn it hit
  have := (h.pMem p hp).1 (inItems_iff.2 ⟨it, hit, hs.symm⟩)
  exact ⟨p, hs ▸ pmGet_of_mem h.nodupS hp, hid, this.1, this.2⟩

theorem itemD_peer (h : JointCtx S T P D) {it : Item} (hit : it ∈ D) :
    ∃ p, pmGet S it.store = some p ∧ p.id = it.id ∧ p.role = .voter ∧ finV T p.store = false := by
  obtain ⟨p, hp, hs, hid⟩ := h.dIn it hit
  have := (h.dMem p hp).1 (inItems_iff.2 ⟨it, hit, hs.symm⟩)
  exact ⟨p, hs ▸ pmGet_of_mem h.nodupS hp, hid, this.1, this.2⟩

theorem old_after_enter (h : JointCtx S T P D) (x : Nat) :
    oldVoters ⟨S.map (enterF P D), x⟩ = votersOf S := by
  simp only [oldVoters, votersOf, List.countP_map]
  apply List.countP_congr
  intro p hp
  simp only [Function.comp, enterF_role h hp]
  rcases h.plainS p hp with e | e <;> cases hf : finV T p.store <;> simp [e]

theorem new_after_enter (h : JointCtx S T P D) (x : Nat) :
    newVoters ⟨S.map (enterF P D), x⟩ = S.countP (fun p => finV T p.store) := by
  simp only [newVoters, List.countP_map]
  apply List.countP_congr
  intro p hp
  simp only [Function.comp, enterF_role h hp]
  rcases h.plainS p hp with e | e <;> cases hf : finV T p.store <;> simp [e]

theorem target_voters_le (h : JointCtx S T P D) :
    votersOf T ≤ S.countP (fun p => finV T p.store) := by
  simp only [votersOf, List.countP_eq_length_filter]
  have e1 : (T.filter (fun p => p.role == .voter)).length = (stores (T.filter (fun p => p.role == .voter))).length := by
    simp [stores]
  have e2 : (S.filter (fun p => finV T p.store)).length = (stores (S.filter (fun p => finV T p.store))).length := by
    simp [stores]
  rw [e1, e2]
  apply List.Nodup.length_le_of_subset
  · exact List.Nodup.sublist (List.Sublist.map _ List.filter_sublist) h.nodupT
  · intro s hs
    obtain ⟨n, hn, rfl⟩ := mem_stores.1 hs
    simp only [List.mem_filter, beq_iff_eq] at hn
    obtain ⟨p, hp, hps⟩ := mem_stores.1 (h.subT n hn.1)
    refine mem_stores.2 ⟨p, ?_, hps⟩
    simp only [List.mem_filter]
    exact ⟨hp, by rw [hps]; exact (finV_of_mem h.nodupT hn.1).2 hn.2⟩

theorem joint_count (h : JointCtx S T P D) (x : Nat) :
    countJoint ⟨S.map (enterF P D), x⟩ = P.length + D.length := by
  have hc : countJoint ⟨S.map (enterF P D), x⟩ =
      (stores (S.filter (fun p => inItems P p.store || inItems D p.store))).length := by
    have : countJoint ⟨S.map (enterF P D), x⟩ =
        S.countP (fun p => inItems P p.store || inItems D p.store) := by
      simp only [countJoint, List.countP_map]
      apply List.countP_congr
      intro p hp
      have h1 := h.pMem p hp
      have h2 := h.dMem p hp
      simp only [Function.comp, enterF_role h hp]
      rcases h.plainS p hp with e | e <;> cases hf : finV T p.store <;>
        cases hP : inItems P p.store <;> cases hD : inItems D p.store <;> simp_all [isJointRole]
    rw [this, List.countP_eq_length_filter]
    simp [stores]
  rw [hc]
  have hl : P.length + D.length = (P.map (·.store) ++ D.map (·.store)).length := by simp
  rw [hl]
  apply List.Perm.length_eq
  rw [List.perm_ext_iff_of_nodup]
  · intro s
    simp only [mem_stores, List.mem_filter, Bool.or_eq_true, List.mem_append, List.mem_map]
    constructor
    · rintro ⟨p, ⟨hp, hpd⟩, rfl⟩
      rcases hpd with hh | hh
      · obtain ⟨it, hit, e⟩ := inItems_iff.1 hh; exact Or.inl ⟨it, hit, e⟩
      · obtain ⟨it, hit, e⟩ := inItems_iff.1 hh; exact Or.inr ⟨it, hit, e⟩
    · rintro (⟨it, hit, rfl⟩ | ⟨it, hit, rfl⟩)
      · obtain ⟨p, hp, hs, _⟩ := h.pIn it hit
        exact ⟨p, ⟨hp, Or.inl (inItems_iff.2 ⟨it, hit, hs.symm⟩)⟩, hs⟩
      · obtain ⟨p, hp, hs, _⟩ := h.dIn it hit
        exact ⟨p, ⟨hp, Or.inr (inItems_iff.2 ⟨it, hit, hs.symm⟩)⟩, hs⟩
  · exact List.Nodup.sublist (List.Sublist.map _ List.filter_sublist) h.nodupS
  · rw [List.nodup_append]
    refine ⟨h.nodupP, h.nodupD, ?_⟩
    intro a ha b hb e
    subst e
    obtain ⟨it, hit, rfl⟩ := List.mem_map.1 ha
    obtain ⟨it', hit', e'⟩ := List.mem_map.1 hb
    obtain ⟨p, hg, _, hr, _⟩ := itemP_peer h hit
    obtain ⟨p', hg', _, hr', _⟩ := itemD_peer h hit'
    rw [e', hg] at hg'
    cases hg'
    rw [hr] at hr'; cases hr'

theorem voterCount_leader (l : List Peer) (x y : Nat) : voterCount ⟨l, x⟩ = voterCount ⟨l, y⟩ := rfl

theorem transfer_ok {m : Nat} {r : Region} (f t : Nat) (hfull : isFullVoter r t = true)
    (hn : onePerStore r) (hm : m ≤ voterCount r) : StepOk m r (.transferLeader f t) := by
  refine ⟨?_, rfl, hfull, hn, hm⟩
  unfold isFullVoter at hfull
  simp only [checkSafety]
  split at hfull
  · next p hp =>
    simp only [hp]
    simp only [Bool.or_eq_true, beq_iff_eq] at hfull
    rcases hfull with e | e <;> simp [e]
  · cases hfull

theorem enter_ok (h : JointCtx S T P D) (m x : Nat) (hm : m ≤ min (votersOf S) (votersOf T)) :
    StepOk m ⟨S, x⟩ (.enter P D) := by
  refine ⟨?_, rfl, rfl, ?_, ?_⟩
  · apply checkSafety_enter
    · exact (plain_counts h.plainS x).2.2
    · intro it hit
      obtain ⟨p, h1, h2, h3, _⟩ := itemP_peer h hit
      exact ⟨p, h1, h2, h3⟩
    · intro it hit
      obtain ⟨p, h1, h2, h3, _⟩ := itemD_peer h hit
      exact ⟨p, h1, h2, h3⟩
  · rw [apply_enter, onePerStore_iff]
    simp only [stores_map (enterF_store P D)]
    exact h.nodupS
  · rw [apply_enter]
    simp only [voterCount, old_after_enter h, new_after_enter h]
    have := target_voters_le h
    omega

theorem fullVoter_after_enter (h : JointCtx S T P D) (x t : Nat) (ht : t ∈ stores S)
    (hf : finV T t = true) : isFullVoter ⟨S.map (enterF P D), x⟩ t = true := by
  obtain ⟨p, hp, rfl⟩ := mem_stores.1 ht
  unfold isFullVoter
  rw [storePeer_eq_pmGet, pmGet_map (enterF_store P D), pmGet_of_mem h.nodupS hp]
  simp only [Option.map_some, enterF_role h hp, hf, if_true]
  split <;> simp

theorem leave_ok (h : JointCtx S T P D) (m x : Nat) (hm : m ≤ min (votersOf S) (votersOf T))
    (hx : x ∈ stores S) (hf : finV T x = true) :
    StepOk m ⟨S.map (enterF P D), x⟩ (.leave P D) := by
  refine ⟨?_, ?_, rfl, ?_, ?_⟩
  · apply checkSafety_leave
    · exact joint_count h x
    · intro it hit
      obtain ⟨p, h1, h2, h3, h4⟩ := itemP_peer h hit
      refine ⟨enterF P D p, ?_, by rw [enterF_id]; exact h2, ?_⟩
      · rw [storePeer_eq_pmGet, pmGet_map (enterF_store P D), h1]; rfl
      · have hp := (pmGet_some h1).1
        rw [enterF_role h hp, h4, h3]; simp
    · intro it hit
      obtain ⟨p, h1, h2, h3, h4⟩ := itemD_peer h hit
      refine ⟨enterF P D p, ?_, by rw [enterF_id]; exact h2, ?_, ?_⟩
      · rw [storePeer_eq_pmGet, pmGet_map (enterF_store P D), h1]; rfl
      · have hp := (pmGet_some h1).1
        rw [enterF_role h hp, h4, h3]; simp
      · intro e
        simp only at e
        rw [(pmGet_some h1).2, e, hf] at h4; cases h4
  · exact fullVoter_after_enter h x x hx hf
  · rw [apply_leave, onePerStore_iff]
    simp only [stores_map leaveF_store, stores_map (enterF_store P D)]
    exact h.nodupS
  · rw [apply_leave]
    have hplain : plainRoles ((S.map (enterF P D)).map leaveF) := by
      intro q hq
      simp only [List.mem_map] at hq
      obtain ⟨_, ⟨p, hp, rfl⟩, rfl⟩ := hq
      rw [leave_enter_role h hp]; split <;> simp
    rw [plain_voterCount hplain]
    have : votersOf ((S.map (enterF P D)).map leaveF) = S.countP (fun p => finV T p.store) := by
      simp only [votersOf, List.countP_map]
      apply List.countP_congr
      intro p hp
      simp only [Function.comp, leave_enter_role h hp]
      cases finV T p.store <;> simp
    rw [this]
    have := target_voters_le h
    omega

/-- the state after entering and leaving -/
def afterJoint (P D : List Item) (S : List Peer) : List Peer := (S.map (enterF P D)).map leaveF

theorem afterJoint_stores (S : List Peer) : stores (afterJoint P D S) = stores S := by
  simp only [afterJoint, stores_map leaveF_store, stores_map (enterF_store P D)]

theorem afterJoint_mem (h : JointCtx S T P D) {q : Peer} (hq : q ∈ afterJoint P D S) :
    ∃ p ∈ S, q.store = p.store ∧ q.id = p.id ∧ q.role = if finV T p.store then .voter else .learner := by
  simp only [afterJoint, List.mem_map] at hq
  obtain ⟨_, ⟨p, hp, rfl⟩, rfl⟩ := hq
  exact ⟨p, hp, by simp [leaveF_store, enterF_store], by simp [leaveF, enterF_id], leave_enter_role h hp⟩

theorem afterJoint_plain (h : JointCtx S T P D) : plainRoles (afterJoint P D S) := by
  intro q hq
  obtain ⟨p, _, _, _, hr⟩ := afterJoint_mem h hq
  rw [hr]; split <;> simp

theorem afterJoint_voters (h : JointCtx S T P D) :
    votersOf (afterJoint P D S) = S.countP (fun p => finV T p.store) := by
  simp only [votersOf, afterJoint, List.countP_map]
  apply List.countP_congr
  intro p hp
  simp only [Function.comp, leave_enter_role h hp]
  cases finV T p.store <;> simp

theorem fullVoter_afterJoint (h : JointCtx S T P D) (x t : Nat) (ht : t ∈ stores S)
    (hf : finV T t = true) : isFullVoter ⟨afterJoint P D S, x⟩ t = true := by
  obtain ⟨p, hp, rfl⟩ := mem_stores.1 ht
  unfold isFullVoter afterJoint
  rw [storePeer_eq_pmGet, pmGet_map leaveF_store, pmGet_map (enterF_store P D), pmGet_of_mem h.nodupS hp]
  simp only [Option.map_some, leave_enter_role h hp, hf, if_true]
  simp

end

/-! ### removing learners -/

def rmStep (p : Peer) : Step := .removePeer p.store p.id

theorem removes_safe (m : Nat) (R : List Peer) (r : Region)
    (hn : (stores r.peers).Nodup) (hplain : plainRoles r.peers)
    (hR : ∀ x ∈ R, x.store ≠ r.leader ∧ ∀ p ∈ r.peers, p.store = x.store → p.role = .learner)
    (hm : m ≤ votersOf r.peers) :
    StepsSafe m r (R.map rmStep) ∧
    run r (R.map rmStep) = ⟨r.peers.filter (fun p => !(stores R).contains p.store), r.leader⟩ := by
  induction R generalizing r with
  | nil =>
    cases r
    simp only [List.map_nil, StepsSafe, run, List.foldl_nil, stores, List.contains_nil, Bool.not_false, true_and]
    congr 1
    exact (List.filter_eq_self.2 (fun _ _ => rfl)).symm
  | cons x rest ih =>
    obtain ⟨hx1, hx2⟩ := hR x (List.mem_cons_self ..)
    let r' : Region := ⟨r.peers.filter (fun p => p.store != x.store), r.leader⟩
    have happly : apply r (rmStep x) = r' := rfl
    have hn' : (stores r'.peers).Nodup :=
      List.Nodup.sublist (List.Sublist.map _ List.filter_sublist) hn
    have hplain' : plainRoles r'.peers := fun p hp => hplain p (List.mem_filter.1 hp).1
    have hv : votersOf r'.peers = votersOf r.peers := by
      simp only [votersOf, r', List.countP_filter]
      apply List.countP_congr
      intro p hp
      simp only [Bool.and_eq_true, beq_iff_eq, bne_iff_ne, ne_eq]
      constructor
      · exact fun h => h.1
      · intro h
        refine ⟨h, fun e => ?_⟩
        rw [hx2 p hp e] at h; cases h
    have hR' : ∀ y ∈ rest, y.store ≠ r'.leader ∧ ∀ p ∈ r'.peers, p.store = y.store → p.role = .learner := by
      intro y hy
      obtain ⟨a, b⟩ := hR y (List.mem_cons_of_mem _ hy)
      exact ⟨a, fun p hp => b p (List.mem_filter.1 hp).1⟩
    obtain ⟨h1, h2⟩ := ih r' hn' hplain' hR' (by rw [hv]; exact hm)
    simp only [List.map_cons, StepsSafe, run, List.foldl_cons, happly]
    refine ⟨⟨?_, h1⟩, ?_⟩
    · refine ⟨?_, ?_, rfl, ?_, ?_⟩
      · simpa [rmStep, checkSafety] using hx1
      · simpa [rmStep, leaderKept] using hx1
      · rw [happly]; exact hn'
      · rw [happly, plain_voterCount hplain', hv]; exact hm
    · simp only [run] at h2
      rw [h2]
      simp only [r', List.filter_filter, stores, List.map_cons]
      congr 1
      apply List.filter_congr
      intro p _
      by_cases e : p.store = x.store <;> simp [e, List.contains_cons]

/-! ### the final state -/

def targetOfPeers (T : List Peer) (tl : Nat) : Target := ⟨T.map (fun p => (p.store, p.role)), tl⟩

theorem joint_final {S T : List Peer} {P D : List Item} (h : JointCtx S T P D) (R : List Peer)
    (hR : ∀ p ∈ S, (p.store ∈ stores R ↔ p.store ∉ stores T))
    (t tl : Nat) (ht : t ∈ stores T) (hf : finV T t = true) (htl : tl = 0 ∨ t = tl) :
    Final (targetOfPeers T tl)
      ⟨(afterJoint P D S).filter (fun p => !(stores R).contains p.store), t⟩ := by
  have hmem : ∀ q, q ∈ (afterJoint P D S).filter (fun p => !(stores R).contains p.store) →
      ∃ p ∈ S, q.store = p.store ∧ p.store ∈ stores T ∧
        q.role = if finV T p.store then .voter else .learner := by
    intro q hq
    obtain ⟨hq1, hq2⟩ := List.mem_filter.1 hq
    obtain ⟨p, hp, e1, _, e3⟩ := afterJoint_mem h hq1
    refine ⟨p, hp, e1, ?_, e3⟩
    have : q.store ∉ stores R := by simpa using hq2
    rw [e1] at this
    exact Classical.not_not.1 (fun hc => this ((hR p hp).2 hc))
  refine ⟨?_, ?_, ?_, ?_, htl⟩
  · intro q hq
    obtain ⟨p, hp, e1, hT, e3⟩ := hmem q hq
    obtain ⟨n, hn, hns⟩ := mem_stores.1 hT
    simp only [targetOfPeers, List.mem_map, Prod.mk.injEq]
    refine ⟨n, hn, by rw [e1, hns], ?_⟩
    rw [e3, ← hns, ]
    have := finV_of_mem h.nodupT hn
    rcases h.plainT n hn with e | e
    · rw [this.2 e, e]; rfl
    · have : finV T n.store = false := by
        cases hfv : finV T n.store
        · rfl
        · rw [this.1 hfv] at e; cases e
      rw [this, e]; rfl
  · intro x hx
    simp only [targetOfPeers, List.mem_map] at hx
    obtain ⟨n, hn, rfl⟩ := hx
    obtain ⟨p, hp, hps⟩ := mem_stores.1 (h.subT n hn)
    refine ⟨leaveF (enterF P D p), ?_, by simp [leaveF_store, enterF_store, hps], ?_⟩
    · simp only [List.mem_filter, afterJoint, List.mem_map]
      refine ⟨⟨_, ⟨p, hp, rfl⟩, rfl⟩, ?_⟩
      simp only [leaveF_store, enterF_store, Bool.not_eq_true', List.contains_eq_mem, decide_eq_false_iff_not]
      intro hc
      exact (hR p hp).1 hc (hps ▸ mem_stores.2 ⟨n, hn, rfl⟩)
    · simp only [leave_enter_role h hp, hps]
      have := finV_of_mem h.nodupT hn
      rcases h.plainT n hn with e | e
      · rw [this.2 e, e]; rfl
      · have : finV T n.store = false := by
          cases hfv : finV T n.store
          · rfl
          · rw [this.1 hfv] at e; cases e
        rw [this, e]; rfl
  · rw [onePerStore_iff]
    refine List.Nodup.sublist (List.Sublist.map _ List.filter_sublist) ?_
    rw [← stores, afterJoint_stores]; exact h.nodupS
  · obtain ⟨n, hn, hns⟩ := mem_stores.1 ht
    obtain ⟨p, hp, hps⟩ := mem_stores.1 (h.subT n hn)
    have hq : leaveF (enterF P D p) ∈ (afterJoint P D S).filter (fun p => !(stores R).contains p.store) := by
      simp only [List.mem_filter, afterJoint, List.mem_map]
      refine ⟨⟨_, ⟨p, hp, rfl⟩, rfl⟩, ?_⟩
      simp only [leaveF_store, enterF_store, Bool.not_eq_true', List.contains_eq_mem, decide_eq_false_iff_not]
      intro hc
      exact (hR p hp).1 hc (hps ▸ mem_stores.2 ⟨n, hn, rfl⟩)
    have hnd : (stores ((afterJoint P D S).filter (fun p => !(stores R).contains p.store))).Nodup := by
      refine List.Nodup.sublist (List.Sublist.map _ List.filter_sublist) ?_
      rw [← stores, afterJoint_stores]; exact h.nodupS
    have hg := pmGet_of_mem hnd hq
    simp only [leaveF_store, enterF_store, hps, hns] at hg
    unfold isFullVoter
    rw [storePeer_eq_pmGet]
    simp only [hg, leave_enter_role h hp, hps, hns, hf, if_true]
    simp

/-! ### enter / transfer / leave in the three orders the builder uses -/

inductive MidForm (S T : List Peer) (P D : List Item) (l t : Nat) : List Step → Prop where
  | before (h : ∃ p ∈ S, p.store = t ∧ p.role = .voter) :
      MidForm S T P D l t ((if l != t then [.transferLeader l t] else []) ++ [.enter P D, .leave P D])
  | after (h : finV T l = true) :
      MidForm S T P D l t ([.enter P D, .leave P D] ++ (if l != t then [.transferLeader l t] else []))
  | inside : MidForm S T P D l t [.enter P D, .transferLeader l t, .leave P D]

theorem mid_safe {S T : List Peer} {P D : List Item} (h : JointCtx S T P D) (l t m : Nat)
    (hl : l ∈ stores S) (ht : t ∈ stores T) (hf : finV T t = true)
    (hm : m ≤ min (votersOf S) (votersOf T)) (mid : List Step) (hmid : MidForm S T P D l t mid) :
    StepsSafe m ⟨S, l⟩ mid ∧ run ⟨S, l⟩ mid = ⟨afterJoint P D S, t⟩ := by
  have htS : t ∈ stores S := by
    obtain ⟨n, hn, e⟩ := mem_stores.1 ht; exact e ▸ h.subT n hn
  have hmS : m ≤ voterCount ⟨S, l⟩ := by rw [plain_voterCount h.plainS]; omega
  have hmA : ∀ x, m ≤ voterCount ⟨afterJoint P D S, x⟩ := by
    intro x
    rw [plain_voterCount (afterJoint_plain h), afterJoint_voters h]
    have := target_voters_le h; omega
  have hmE : ∀ x, m ≤ voterCount ⟨S.map (enterF P D), x⟩ := by
    intro x
    simp only [voterCount, old_after_enter h, new_after_enter h]
    have := target_voters_le h; omega
  have hnE : ∀ x, onePerStore ⟨S.map (enterF P D), x⟩ := by
    intro x; rw [onePerStore_iff]; simp only [stores_map (enterF_store P D)]; exact h.nodupS
  have hnA : ∀ x, onePerStore ⟨afterJoint P D S, x⟩ := by
    intro x; rw [onePerStore_iff]; simp only [afterJoint_stores]; exact h.nodupS
  cases hmid with
  | before hv =>
    obtain ⟨p, hp, hps, hpr⟩ := hv
    have hfullS : isFullVoter ⟨S, l⟩ t = true := by
      unfold isFullVoter
      rw [storePeer_eq_pmGet, ← hps, pmGet_of_mem h.nodupS hp]; simp [hpr]
    by_cases e : l = t
    · subst e
      simp only [bne_self_eq_false, Bool.false_eq_true, if_false, List.nil_append, StepsSafe, run,
        List.foldl_cons, List.foldl_nil, apply_enter, apply_leave, and_true]
      exact ⟨⟨enter_ok h m l hm, leave_ok h m l hm hl hf⟩, rfl⟩
    · have : (l != t) = true := by simpa using e
      simp only [this, if_true, List.cons_append, List.nil_append, StepsSafe, run, List.foldl_cons,
        List.foldl_nil, apply_enter, apply_leave, and_true]
      refine ⟨⟨transfer_ok l t hfullS h.nodupS hmS, ?_, ?_⟩, rfl⟩
      · exact enter_ok h m t hm
      · exact leave_ok h m t hm htS hf
  | after hfl =>
    by_cases e : l = t
    · subst e
      simp only [bne_self_eq_false, Bool.false_eq_true, if_false, List.append_nil, StepsSafe, run,
        List.foldl_cons, List.foldl_nil, apply_enter, apply_leave, and_true]
      exact ⟨⟨enter_ok h m l hm, leave_ok h m l hm hl hf⟩, rfl⟩
    · have : (l != t) = true := by simpa using e
      simp only [this, if_true, List.cons_append, List.nil_append, StepsSafe, run, List.foldl_cons,
        List.foldl_nil, apply_enter, apply_leave, and_true]
      refine ⟨⟨enter_ok h m l hm, leave_ok h m l hm hl hfl, ?_⟩, rfl⟩
      exact transfer_ok l t (fullVoter_afterJoint h l t htS hf) (hnA l) (hmA l)
  | inside =>
    simp only [StepsSafe, run, List.foldl_cons, List.foldl_nil, apply_enter, apply_leave, and_true]
    refine ⟨⟨enter_ok h m l hm, ?_, ?_⟩, rfl⟩
    · exact transfer_ok l t (fullVoter_after_enter h l t htS hf) (hnE l) (hmE l)
    · exact leave_ok h m t hm htS hf

theorem joint_core_safe {S T : List Peer} {P D : List Item} (h : JointCtx S T P D) (R : List Peer)
    (hR : ∀ s, s ∈ stores R ↔ (s ∈ stores S ∧ s ∉ stores T))
    (l t tl m : Nat) (hl : l ∈ stores S) (ht : t ∈ stores T) (hf : finV T t = true)
    (htl : tl = 0 ∨ t = tl) (hm : m ≤ min (votersOf S) (votersOf T))
    (mid : List Step) (hmid : MidForm S T P D l t mid) :
    StepsSafe m ⟨S, l⟩ (mid ++ R.map rmStep) ∧
    Final (targetOfPeers T tl) (run ⟨S, l⟩ (mid ++ R.map rmStep)) := by
  obtain ⟨h1, h2⟩ := mid_safe h l t m hl ht hf hm mid hmid
  have hrm := removes_safe m R ⟨afterJoint P D S, t⟩
    (by simp only [afterJoint_stores]; exact h.nodupS) (afterJoint_plain h)
    (by
      intro x hx
      have hxs := (hR x.store).1 (mem_stores.2 ⟨x, hx, rfl⟩)
      refine ⟨fun e => hxs.2 (e ▸ ht), ?_⟩
      intro q hq e
      obtain ⟨p, hp, e1, _, e3⟩ := afterJoint_mem h hq
      rw [e3]
      have : finV T p.store = false := by
        cases hfv : finV T p.store
        · rfl
        · obtain ⟨n, hn, hns, _⟩ := finV_iff.1 hfv
          exact absurd (mem_stores.2 ⟨n, hn, by rw [hns, ← e1, e]⟩) hxs.2
      simp [this])
    (by
      rw [afterJoint_voters h]
      have := target_voters_le h
      show m ≤ List.countP (fun p => finV T p.store) S
      omega)
  refine ⟨(stepsSafe_append m _ mid _).2 ⟨h1, by rw [h2]; exact hrm.1⟩, ?_⟩
  have : run ⟨S, l⟩ (mid ++ R.map rmStep) = run (run ⟨S, l⟩ mid) (R.map rmStep) := by
    simp [run, List.foldl_append]
  rw [this, h2, hrm.2]
  exact joint_final h R (fun p hp => by
    rw [hR p.store]
    exact ⟨fun a => a.2, fun a => ⟨mem_stores.2 ⟨p, hp, rfl⟩, a⟩⟩) t tl ht hf htl

end PdModel.Builder
