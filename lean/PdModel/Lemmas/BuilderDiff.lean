import PdModel.Lemmas.BuilderExec
import PdModel.Lemmas.BuilderJoint2
set_option linter.unusedSimpArgs false
set_option linter.unusedVariables false
/-! What prepareBuild's pending maps contain, for both feature levels (sound and complete). -/
namespace PdModel.Builder
open PdModel.Steps PdModel.Spec PdModel.Spec.C08

section
variable (b0 : B) (rec : Recorded b0)
include rec

theorem diff_remove_sound (o : Peer) (h : o ∈ (diffOrigin (clearPending b0)).toRemove) :
    o ∈ b0.originPeers ∧ (o.store ∉ stores b0.targetPeers ∨
      (b0.allowDemote = false ∧ o.role = .voter ∧ ∃ n ∈ b0.targetPeers, n.store = o.store ∧ n.role = .learner)) := by
  simp only [diffOrigin, List.mem_filter] at h
  obtain ⟨ho, hc⟩ := h
  refine ⟨ho, ?_⟩
  have ho' : o ∈ b0.originPeers := ho
  cases hg : pmGet b0.targetPeers o.store with
  | none => left; exact pmGet_none.1 hg
  | some n0 =>
    right
    have hg' : pmGet (clearPending b0).targetPeers o.store = some n0 := hg
    rw [targetOf_eq _ o n0 hg'] at hc
    simp only [isLearner, Bool.and_eq_true, Bool.not_eq_true', beq_eq_false_iff_ne, ne_eq, beq_iff_eq] at hc
    refine ⟨?_, ?_, n0, (pmGet_some hg).1, (pmGet_some hg).2, hc.1.2⟩
    · have : (clearPending b0).allowDemote = b0.allowDemote := rfl
      rw [← this]; exact hc.2
    · rcases rec.plainO o ho' with e | e
      · exact e
      · exact absurd e hc.1.1

theorem diff_remove_complete (o : Peer) (ho : o ∈ b0.originPeers)
    (h : o.store ∉ stores b0.targetPeers ∨
      (b0.allowDemote = false ∧ o.role = .voter ∧ ∃ n ∈ b0.targetPeers, n.store = o.store ∧ n.role = .learner)) :
    o ∈ (diffOrigin (clearPending b0)).toRemove := by
  simp only [diffOrigin, List.mem_filter]
  refine ⟨ho, ?_⟩
  rcases h with h | ⟨hd, hv, n, hn, hns, hnr⟩
  · rw [targetOf_none (clearPending b0) o (pmGet_none.2 h)]
  · have hg : pmGet (clearPending b0).targetPeers o.store = some n :=
      (pmGet_iff rec.nodupT).2 ⟨hn, hns⟩
    rw [targetOf_eq _ o n hg]
    have : (clearPending b0).allowDemote = false := hd
    simp [isLearner, hv, hnr, this]

theorem diff_promote_iff (n : Peer) :
    n ∈ (diffOrigin (clearPending b0)).toPromote ↔
      ∃ o ∈ b0.originPeers, o.role = .learner ∧ finV b0.targetPeers o.store = true ∧ n = ⟨o.store, o.id, .voter⟩ := by
  simp only [diffOrigin, List.mem_filterMap]
  constructor
  · rintro ⟨o, ho, hc⟩
    have ho' : o ∈ b0.originPeers := ho
    cases hg : pmGet b0.targetPeers o.store with
    | none =>
      have hg' : pmGet (clearPending b0).targetPeers o.store = none := hg
      rw [targetOf_none _ o hg'] at hc; cases hc
    | some n0 =>
      have hg' : pmGet (clearPending b0).targetPeers o.store = some n0 := hg
      rw [targetOf_eq _ o n0 hg'] at hc
      simp only at hc
      by_cases hcond : (isLearner o && !isLearner ⟨o.store, o.id, n0.role⟩) = true
      · rw [if_pos hcond] at hc
        simp only [isLearner, Bool.and_eq_true, beq_iff_eq, Bool.not_eq_true', beq_eq_false_iff_ne, ne_eq] at hcond
        cases hc
        have hv : n0.role = .voter := by
          rcases rec.plainT n0 (pmGet_some hg).1 with e | e
          · exact e
          · exact absurd e hcond.2
        exact ⟨o, ho', hcond.1, finV_iff.2 ⟨n0, (pmGet_some hg).1, (pmGet_some hg).2, hv⟩, by rw [hv]⟩
      · rw [if_neg hcond] at hc; cases hc
  · rintro ⟨o, ho, hl, hf, rfl⟩
    obtain ⟨n0, hn0, hs, hv⟩ := finV_iff.1 hf
    refine ⟨o, ho, ?_⟩
    have hg : pmGet (clearPending b0).targetPeers o.store = some n0 := (pmGet_iff rec.nodupT).2 ⟨hn0, hs⟩
    rw [targetOf_eq _ o n0 hg]
    simp [isLearner, hl, hv]

theorem diff_demote_iff (d : Peer) :
    d ∈ (diffOrigin (clearPending b0)).toDemote ↔
      b0.allowDemote = true ∧ ∃ o ∈ b0.originPeers, o.role = .voter ∧
        (∃ n ∈ b0.targetPeers, n.store = o.store ∧ n.role = .learner) ∧ d = ⟨o.store, o.id, .learner⟩ := by
  simp only [diffOrigin, List.mem_filterMap]
  constructor
  · rintro ⟨o, ho, hc⟩
    have ho' : o ∈ b0.originPeers := ho
    cases hg : pmGet b0.targetPeers o.store with
    | none =>
      have hg' : pmGet (clearPending b0).targetPeers o.store = none := hg
      rw [targetOf_none _ o hg'] at hc; cases hc
    | some n0 =>
      have hg' : pmGet (clearPending b0).targetPeers o.store = some n0 := hg
      rw [targetOf_eq _ o n0 hg'] at hc
      simp only at hc
      by_cases hcond : (!isLearner o && isLearner ⟨o.store, o.id, n0.role⟩ && (clearPending b0).allowDemote) = true
      · rw [if_pos hcond] at hc
        simp only [isLearner, Bool.and_eq_true, beq_iff_eq, Bool.not_eq_true', beq_eq_false_iff_ne, ne_eq] at hcond
        cases hc
        refine ⟨hcond.2, o, ho', ?_, ⟨n0, (pmGet_some hg).1, (pmGet_some hg).2, hcond.1.2⟩, by rw [hcond.1.2]⟩
        rcases rec.plainO o ho' with e | e
        · exact e
        · exact absurd e hcond.1.1
      · rw [if_neg hcond] at hc; cases hc
  · rintro ⟨hd, o, ho, hv, ⟨n, hn, hns, hnr⟩, rfl⟩
    refine ⟨o, ho, ?_⟩
    have hg : pmGet (clearPending b0).targetPeers o.store = some n := (pmGet_iff rec.nodupT).2 ⟨hn, hns⟩
    rw [targetOf_eq _ o n hg]
    have : (clearPending b0).allowDemote = true := hd
    simp [isLearner, hv, hnr, this]

theorem diff_add (nid : Nat) (A : List Peer)
    (hA : allocIds ((pmSorted b0.targetPeers).filter (needAdd (diffOrigin (clearPending b0)))) nid = .ok A) :
    (stores A).Nodup ∧
    (∀ a ∈ A, ∃ n ∈ b0.targetPeers, n.store = a.store ∧ n.role = a.role ∧ needAdd (diffOrigin (clearPending b0)) n = true) ∧
    (∀ n ∈ b0.targetPeers, needAdd (diffOrigin (clearPending b0)) n = true → ∃ a ∈ A, a.store = n.store ∧ a.role = n.role) := by
  have hspec := allocIds_spec _ _ _ hA
  obtain ⟨m1, m2⟩ := map_eq_mem (fun p : Peer => (p.store, p.role)) _ _ hspec
  refine ⟨?_, ?_, ?_⟩
  · have e : stores A = stores ((pmSorted b0.targetPeers).filter (needAdd (diffOrigin (clearPending b0)))) := by
      have := congrArg (List.map Prod.fst) hspec
      simpa [stores, List.map_map, Function.comp_def] using this
    rw [e]
    exact List.Nodup.sublist (List.Sublist.map _ List.filter_sublist) (nodup_pmSorted rec.nodupT)
  · intro a ha
    obtain ⟨n, hn, e⟩ := m1 a ha
    simp only [Prod.mk.injEq] at e
    obtain ⟨hn1, hn2⟩ := List.mem_filter.1 hn
    exact ⟨n, mem_pmSorted_mem hn1, e.1, e.2, hn2⟩
  · intro n hn hneed
    obtain ⟨a, ha, e⟩ := m2 n (List.mem_filter.2 ⟨(mem_pmSorted rec.nodupT).2 hn, hneed⟩)
    simp only [Prod.mk.injEq] at e
    exact ⟨a, ha, e.1, e.2⟩

theorem needAdd_iff (n : Peer) :
    needAdd (diffOrigin (clearPending b0)) n = true ↔
      (n.store ∉ stores b0.originPeers ∨
       (b0.allowDemote = false ∧ n.role = .learner ∧ ∃ o ∈ b0.originPeers, o.store = n.store ∧ o.role = .voter)) := by
  unfold needAdd
  have e1 : (diffOrigin (clearPending b0)).originPeers = b0.originPeers := rfl
  have e2 : (diffOrigin (clearPending b0)).allowDemote = b0.allowDemote := rfl
  rw [e1, e2]
  cases hg : pmGet b0.originPeers n.store with
  | none => simp [pmGet_none.1 hg]
  | some o =>
    have hm := pmGet_some hg
    have hin : n.store ∈ stores b0.originPeers := mem_stores.2 ⟨o, hm.1, hm.2⟩
    simp only [isLearner, Bool.and_eq_true, Bool.not_eq_true', beq_eq_false_iff_ne, ne_eq, beq_iff_eq, hin,
      not_true_eq_false, false_or]
    constructor
    · rintro ⟨⟨hd, ho⟩, hn⟩
      refine ⟨hd, hn, o, hm.1, hm.2, ?_⟩
      rcases rec.plainO o hm.1 with e | e
      · exact e
      · exact absurd e ho
    · rintro ⟨hd, hn, o', ho', hs', hr'⟩
      have : o' = o := by
        have := pmGet_of_mem rec.nodupO ho'
        rw [hs', hg] at this; cases this; rfl
      subst this
      exact ⟨⟨hd, by rw [hr']; simp⟩, hn⟩

end

/-! ### planners -/

theorem pmSorted_nil : pmSorted [] = [] := rfl

theorem pmSorted_single (x : Peer) : pmSorted [x] = [x] := by
  simp [pmSorted, pmIds, sortIds, insertSorted, pmGet]

theorem foldl_keep {α β : Type} (l : List α) (init : β) : l.foldl (fun b _ => b) init = init := by
  induction l with
  | nil => rfl
  | cons _ _ ih => exact ih

theorem comparePlan_mem (b : B) (x y : Plan) : comparePlan b x y = x ∨ comparePlan b x y = y := by
  unfold comparePlan
  split
  · right; rfl
  · split
    · right; rfl
    · left; rfl

theorem foldl_inv {α β : Type} (P : β → Prop) (g : β → α → β) (l : List α) (init : β) (h0 : P init)
    (hs : ∀ acc x, x ∈ l → P acc → P (g acc x)) : P (l.foldl g init) := by
  induction l generalizing init with
  | nil => exact h0
  | cons x rest ih =>
    exact ih (g init x) (hs init x (List.mem_cons_self ..) h0)
      (fun acc y hy => hs acc y (List.mem_cons_of_mem _ hy))

/-- planReplace needs two different kinds of pending work -/
theorem planReplace_empty (b : B) (h1 : b.toDemote = [] ∨ b.toPromote = []) (h2 : b.toAdd = [] ∨ b.toRemove = []) :
    planReplace b = {} := by
  unfold planReplace
  rcases h1 with h1 | h1 <;> rcases h2 with h2 | h2 <;>
    simp [h1, h2, pmSorted_nil, foldl_keep]

/-- a leader the planners may pick: the store of a current peer that may lead -/
def LeaderCand (b : B) (L : Nat) : Prop :=
  L ∈ stores b.cur.peers ∧ allowLeaderOpt b (pmGet b.cur.peers L) = true

theorem leaderCand_voter {b : B} {L : Nat} (hplain : plainRoles b.cur.peers) (h : LeaderCand b L) :
    ∃ p ∈ b.cur.peers, p.store = L ∧ p.role = .voter := by
  obtain ⟨hin, ha⟩ := h
  cases hg : pmGet b.cur.peers L with
  | none => exact absurd hin (pmGet_none.1 hg)
  | some p =>
    rw [hg] at ha
    simp only [allowLeaderOpt] at ha
    refine ⟨p, (pmGet_some hg).1, (pmGet_some hg).2, ?_⟩
    unfold allowLeader at ha
    split at ha
    · cases ha
    · next hne =>
      rcases hplain p (pmGet_some hg).1 with e | e
      · exact e
      · simp [e] at hne

theorem mem_pmIds {l : List Peer} {i : Nat} : i ∈ pmIds l ↔ i ∈ stores l := by
  unfold pmIds; exact mem_sortIds

def DemoteShape (b : B) (plan : Plan) : Prop :=
  plan = {} ∨ ∃ d ∈ pmSorted b.toDemote, ∃ L, LeaderCand b L ∧ L ≠ d.store ∧
    plan = { demote := some d, leaderBeforeRemove := L }

def RemoveShape (b : B) (plan : Plan) : Prop :=
  plan = {} ∨ ∃ r ∈ pmSorted b.toRemove, ∃ L, LeaderCand b L ∧ L ≠ r.store ∧
    plan = { remove := some r, leaderBeforeRemove := L }

def AddShape (b : B) (plan : Plan) : Prop :=
  plan = {} ∨ ∃ a ∈ pmSorted b.toAdd, ∃ L, LeaderCand b L ∧ plan = { add := some a, leaderBeforeAdd := L }

theorem planDemotePeer_spec (b : B) : DemoteShape b (planDemotePeer b) := by
  unfold planDemotePeer
  apply foldl_inv (DemoteShape b)
  · left; rfl
  · intro acc d hd hacc
    apply foldl_inv (DemoteShape b)
    · exact hacc
    · intro acc2 L hL hacc2
      split
      · next hc =>
        simp only [Bool.and_eq_true, bne_iff_ne, ne_eq] at hc
        rcases comparePlan_mem b acc2 { demote := some d, leaderBeforeRemove := L } with e | e
        · rw [e]; exact hacc2
        · rw [e]; right; exact ⟨d, hd, L, ⟨mem_pmIds.1 hL, hc.1⟩, hc.2, rfl⟩
      · exact hacc2

theorem planRemovePeer_spec (b : B) : RemoveShape b (planRemovePeer b) := by
  unfold planRemovePeer
  apply foldl_inv (RemoveShape b)
  · left; rfl
  · intro acc r hr hacc
    apply foldl_inv (RemoveShape b)
    · exact hacc
    · intro acc2 L hL hacc2
      split
      · next hc =>
        simp only [Bool.and_eq_true, bne_iff_ne, ne_eq] at hc
        rcases comparePlan_mem b acc2 { remove := some r, leaderBeforeRemove := L } with e | e
        · rw [e]; exact hacc2
        · rw [e]; right; exact ⟨r, hr, L, ⟨mem_pmIds.1 hL, hc.1⟩, hc.2, rfl⟩
      · exact hacc2

theorem planAddPeer_spec (b : B) : AddShape b (planAddPeer b) := by
  unfold planAddPeer
  apply foldl_inv (AddShape b)
  · left; rfl
  · intro acc a ha hacc
    apply foldl_inv (AddShape b)
    · exact hacc
    · intro acc2 L hL hacc2
      split
      · next hc =>
        rcases comparePlan_mem b acc2 { add := some a, leaderBeforeAdd := L } with e | e
        · rw [e]; exact hacc2
        · rw [e]; right; exact ⟨a, ha, L, ⟨mem_pmIds.1 hL, hc⟩, rfl⟩
      · exact hacc2

end PdModel.Builder
