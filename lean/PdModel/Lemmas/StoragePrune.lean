import PdModel.Lemmas.StorageLoad
import PdModel.Lemmas.SyncRegion
set_option linter.unusedSimpArgs false
set_option linter.unusedVariables false
/-! The prune callback (`CheckAndPutRegion`) satisfies the paging requirements, and handing all stored
    regions to it in id order leaves storage and cache describing the same consistent set. -/
namespace PdModel.StorageLoad
open PdModel.SyncRegion PdModel.PadKey

/-- every stored value carries the id of its key -/
def WellKeyed (kv : KV Meta) : Prop := ∀ e ∈ kv, e.2.id = e.1

/-- the callback's cache only knows ids below `b` -/
def CacheBelow (c : Cache) (b : Nat) : Prop := ∀ r ∈ c, r.md.id < b

theorem putOverlaps_sub (c : Cache) (r : Region) : ∀ x ∈ putOverlaps c r, x ∈ c := by
  intro x hx
  unfold putOverlaps at hx
  split at hx
  · exact (List.mem_filter.1 hx).1
  · cases hx

theorem putRegion_mem (c : Cache) (r x : Region) (hx : x ∈ putRegion c r) : x ∈ c ∨ x = r := by
  unfold putRegion at hx
  rcases List.mem_append.1 hx with h | h
  · exact Or.inl (List.mem_filter.1 h).1
  · exact Or.inr (by simpa using h)

theorem pruneCb_inv : CbInv pruneCb (fun e => e.2.id = e.1) CacheBelow := by
  constructor
  · intro s b b' h hb r hr; have := h r hr; omega
  · intro c e hP hJ d hd
    simp only [pruneCb, checkAndPut] at hd
    split at hd
    · simp at hd; omega
    · simp only [List.mem_map] at hd
      obtain ⟨x, hx, rfl⟩ := hd
      exact Nat.le_of_lt (hJ x (putOverlaps_sub _ _ x hx))
  · intro c e hP hJ r hr
    simp only [pruneCb, checkAndPut] at hr
    split at hr
    · have := hJ r hr; omega
    · rcases putRegion_mem _ _ _ hr with h | h
      · have := hJ r h; omega
      · subst h; simp; omega

/-- invariant of handing the stored regions `pre ++ post` to the callback, after `pre` -/
structure PruneInv (kv0 : KV Meta) (post : KV Meta) (s : LoadSt Meta Cache) : Prop where
  postIn  : ∀ e ∈ post, e ∈ s.kv
  stored  : ∀ e ∈ s.kv, e ∈ post ∨ ({ md := e.2 } : Region) ∈ s.cb
  cached  : ∀ r ∈ s.cb, (r.md.id, r.md) ∈ s.kv ∧ r = { md := r.md }
  below   : ∀ r ∈ s.cb, ∀ e ∈ post, r.md.id < e.1
  sub     : ∀ e ∈ s.kv, e ∈ kv0
  cons    : s.cb.Pairwise Compat

theorem mem_kvRemove_foldl (ds : List Nat) (kv : KV Meta) (e : Nat × Meta) :
    e ∈ ds.foldl kvRemove kv ↔ e ∈ kv ∧ e.1 ∉ ds := by
  rw [kvRemove_foldl_filter, List.mem_filter]
  simp

theorem find_none_of_below (c : Cache) (id : Nat) (h : ∀ r ∈ c, r.md.id < id) : Cache.find c id = none := by
  unfold Cache.find
  rw [List.find?_eq_none]
  intro x hx
  have := h x hx
  simp; omega

theorem prune_step (kv0 : KV Meta) (hs0 : Sorted kv0) (hw : WellKeyed kv0) (e : Nat × Meta) (post : KV Meta)
    (hsp : Sorted (e :: post)) (s : LoadSt Meta Cache) (h : PruneInv kv0 (e :: post) s) :
    PruneInv kv0 post (pageStep pruneCb s e) := by
  have hsp' := hsp
  rw [Sorted, List.pairwise_cons] at hsp'
  have heid : e.2.id = e.1 := hw e (h.sub e (h.postIn e (by simp)))
  have hbelow : ∀ r ∈ s.cb, r.md.id < e.1 := fun r hr => h.below r hr e (by simp)
  -- ids in the current kv are pairwise distinct (sublist of a sorted list is not needed: membership in kv0 + sortedness)
  have hdist : ∀ x ∈ s.kv, ∀ y ∈ s.kv, x.1 = y.1 → x = y := by
    intro x hx y hy hxy
    have hx0 := h.sub x hx
    have hy0 := h.sub y hy
    by_cases hne : x = y
    · exact hne
    · have := pairwise_mem (R := fun a b : Nat × Meta => a.1 ≠ b.1) (fun h => Ne.symm h)
        (List.Pairwise.imp (fun h => Nat.ne_of_lt h) hs0) hx0 hy0 hne
      exact absurd hxy this
  have hfind : Cache.find s.cb e.2.id = none := find_none_of_below _ _ (by rw [heid]; exact hbelow)
  by_cases hst : isStale s.cb { md := e.2 } = true
  · -- stale: the region itself is deleted, the cache is unchanged
    have hstep : pageStep pruneCb s e = { kv := kvRemove s.kv e.2.id, cb := s.cb, loaded := s.loaded ++ [e] } := by
      simp [pageStep, pruneCb, checkAndPut, hst]
    rw [hstep]
    constructor
    · intro x hx
      have hne : x.1 ≠ e.1 := by have := hsp'.1 x hx; omega
      simp only [kvRemove, List.mem_filter, bne_iff_ne, ne_eq]
      exact ⟨h.postIn x (by simp [hx]), by rw [heid]; exact hne⟩
    · intro x hx
      simp only [kvRemove, List.mem_filter, bne_iff_ne, ne_eq] at hx
      rcases h.stored x hx.1 with hp | hc
      · rcases List.mem_cons.1 hp with rfl | hp'
        · exact absurd heid.symm (by simpa using hx.2)
        · exact Or.inl hp'
      · exact Or.inr hc
    · intro r hr
      refine ⟨?_, (h.cached r hr).2⟩
      simp only [kvRemove, List.mem_filter, bne_iff_ne, ne_eq]
      exact ⟨(h.cached r hr).1, by have := hbelow r hr; rw [heid]; simp; omega⟩
    · intro r hr x hx; exact h.below r hr x (by simp [hx])
    · intro x hx
      simp only [kvRemove, List.mem_filter] at hx
      exact h.sub x hx.1
    · exact h.cons
  · -- accepted: the overlapped cached regions go, from cache and storage
    have hst' : isStale s.cb { md := e.2 } = false := by simpa using hst
    have hrc : rangeChanged s.cb { md := e.2 } = true := by unfold rangeChanged; simp [hfind]
    have hov : putOverlaps s.cb { md := e.2 } =
        s.cb.filter (fun x => x.md.id != e.2.id && overlap e.2 x.md) := by
      unfold putOverlaps; simp [hrc]
    have hstep : pageStep pruneCb s e =
        { kv := ((putOverlaps s.cb { md := e.2 }).map (·.md.id)).foldl kvRemove s.kv,
          cb := putRegion s.cb { md := e.2 }, loaded := s.loaded ++ [e] } := by
      simp [pageStep, pruneCb, checkAndPut, hst']
    have hdel : ∀ d ∈ (putOverlaps s.cb { md := e.2 }).map (·.md.id), d < e.1 := by
      intro d hd
      obtain ⟨x, hx, rfl⟩ := List.mem_map.1 hd
      exact hbelow x (putOverlaps_sub _ _ x hx)
    have hcons' : (putRegion s.cb { md := e.2 }).Pairwise Compat := consistent_putRegion _ h.cons _
    have hidc : ∀ x ∈ s.cb, ∀ y ∈ s.cb, x.md.id = y.md.id → x = y := by
      intro x hx y hy hxy
      by_cases hne : x = y
      · exact hne
      · exact absurd hxy (pairwise_mem (fun h => compat_symm h) h.cons hx hy hne).1
    rw [hstep]
    constructor
    · intro x hx
      rw [mem_kvRemove_foldl]
      refine ⟨h.postIn x (by simp [hx]), fun hd => ?_⟩
      have := hdel _ hd
      have := hsp'.1 x hx
      omega
    · intro x hx
      rw [mem_kvRemove_foldl] at hx
      rcases h.stored x hx.1 with hp | hc
      · rcases List.mem_cons.1 hp with rfl | hp'
        · right; unfold putRegion; simp
        · exact Or.inl hp'
      · right
        unfold putRegion
        apply List.mem_append_left
        rw [List.mem_filter]
        refine ⟨hc, ?_⟩
        have hxid : x.2.id = x.1 := hw x (h.sub x hx.1)
        have hlt : x.2.id < e.1 := hbelow _ hc
        -- not overlapping, otherwise its id would have been deleted
        have hno : overlap e.2 x.2 = false := by
          rw [Bool.eq_false_iff]
          intro hov'
          apply hx.2
          rw [hov, List.mem_map]
          refine ⟨{ md := x.2 }, ?_, hxid⟩
          rw [List.mem_filter]
          refine ⟨hc, ?_⟩
          simp [hov']
          omega
        simp [keepOnPut, hno]
        omega
    · intro r hr
      rcases putRegion_mem _ _ _ hr with hc | rfl
      · have hr' : r ∈ s.cb.filter (keepOnPut (rangeChanged s.cb { md := e.2 }) { md := e.2 }) := by
          unfold putRegion at hr
          rcases List.mem_append.1 hr with h1 | h1
          · exact h1
          · have : r = { md := e.2 } := by simpa using h1
            subst this
            have := hbelow _ hc
            simp at this; omega
        refine ⟨?_, (h.cached r hc).2⟩
        rw [mem_kvRemove_foldl]
        refine ⟨(h.cached r hc).1, fun hd => ?_⟩
        rw [hov] at hd
        obtain ⟨x, hx, hxid⟩ := List.mem_map.1 hd
        have hxm := List.mem_filter.1 hx
        have : x = r := hidc x hxm.1 r hc hxid
        subst this
        have hk := (List.mem_filter.1 hr').2
        simp only [keepOnPut, hrc, Bool.true_and, Bool.and_eq_true, Bool.not_eq_true'] at hk
        have := hxm.2
        simp only [Bool.and_eq_true] at this
        rw [hk.2] at this
        exact absurd this.2 (by simp)
      · refine ⟨?_, rfl⟩
        rw [mem_kvRemove_foldl]
        simp only
        refine ⟨?_, fun hd => ?_⟩
        · have := h.postIn e (by simp)
          rw [heid]; exact this
        · have h9 : e.2.id < e.1 := hdel _ hd
          omega
    · intro r hr x hx
      rcases putRegion_mem _ _ _ hr with hc | rfl
      · exact h.below r hc x (by simp [hx])
      · have := hsp'.1 x hx; simp; omega
    · intro x hx
      rw [mem_kvRemove_foldl] at hx
      exact h.sub x hx.1
    · exact hcons'

theorem prune_fold (kv0 : KV Meta) (hs0 : Sorted kv0) (hw : WellKeyed kv0) :
    ∀ (post : KV Meta) (s : LoadSt Meta Cache), Sorted post → PruneInv kv0 post s →
      PruneInv kv0 [] (post.foldl (pageStep pruneCb) s) := by
  intro post
  induction post with
  | nil => intro s _ h; exact h
  | cons e post ih =>
    intro s hsp h
    simp only [List.foldl_cons]
    have hsp' := hsp
    rw [Sorted, List.pairwise_cons] at hsp'
    exact ih _ hsp'.2 (prune_step kv0 hs0 hw e post hsp s h)

theorem prune_init (kv0 : KV Meta) : PruneInv kv0 kv0 { kv := kv0, cb := [], loaded := [] } := by
  constructor
  · intro e he; exact he
  · intro e he; exact Or.inl he
  · intro r hr; cases hr
  · intro r hr; cases hr
  · intro e he; exact he
  · exact List.Pairwise.nil

end PdModel.StorageLoad
