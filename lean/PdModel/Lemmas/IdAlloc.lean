import PdModel.Model.IdAlloc
set_option linter.unusedSimpArgs false
set_option linter.unusedVariables false
/-! Inductive invariant of the id-allocator model and its preservation by every micro-step. -/
namespace PdModel.IdAlloc

structure Inv (s : St) : Prop where
  win   : ∀ (i : Nat) (x : Inst), s.insts[i]? = some x →
            x.base ≤ x.end_ ∧ x.end_ ≤ s.bound ∧ x.last ≤ x.base
  disj  : ∀ (i j : Nat) (x y : Inst), i ≠ j → s.insts[i]? = some x → s.insts[j]? = some y →
            x.end_ ≤ y.base ∨ y.end_ ≤ x.base
  gout  : ∀ g ∈ s.granted, ∀ (i : Nat) (x : Inst), s.insts[i]? = some x →
            g.id ≤ x.base ∨ x.end_ < g.id
  gle   : ∀ g ∈ s.granted, g.prev < g.id ∧ g.id ≤ g.bound ∧ g.bound ≤ s.bound
  glast : ∀ g ∈ s.granted, ∀ (x : Inst), s.insts[g.inst]? = some x → g.id ≤ x.last
  nodup : (s.granted.map (·.id)).Nodup
  incr  : ∀ (i : Nat), ((s.granted.filter (·.inst = i)).map (·.id)).Pairwise (· > ·)
  ginst : ∀ g ∈ s.granted, g.inst < s.insts.length

theorem inv_init (k : Nat) : Inv (init k) := by
  constructor <;> simp [init]

theorem set_cases {α} (l : List α) (i j : Nat) (a b : α)
    (h : (l.set i a)[j]? = some b) : (j = i ∧ b = a) ∨ (j ≠ i ∧ l[j]? = some b) := by
  grind

/-- changing only `pending` of one instance keeps the invariant -/
theorem inv_setPending (s : St) (h : Inv s) (i : Nat) (x : Inst) (p) (hx : s.insts[i]? = some x) :
    Inv (setInst s i { x with pending := p }) := by
  have key : ∀ (j : Nat) (y : Inst), (s.insts.set i { x with pending := p })[j]? = some y →
      ∃ y0 : Inst, s.insts[j]? = some y0 ∧ y.base = y0.base ∧ y.end_ = y0.end_ ∧ y.last = y0.last := by
    intro j y hy
    rcases set_cases _ _ _ _ _ hy with ⟨rfl, rfl⟩ | ⟨_, h2⟩
    · exact ⟨x, hx, rfl, rfl, rfl⟩
    · exact ⟨y, h2, rfl, rfl, rfl⟩
  constructor
  · intro j y hy
    obtain ⟨y0, h0, e1, e2, e3⟩ := key j y hy
    have := h.win j y0 h0
    simp only [setInst, St.bound] at *; omega
  · intro a b y z hab hy hz
    obtain ⟨y0, h0, e1, e2, _⟩ := key a y hy
    obtain ⟨z0, h1, f1, f2, _⟩ := key b z hz
    have := h.disj a b y0 z0 hab h0 h1
    omega
  · intro g hg j y hy
    obtain ⟨y0, h0, e1, e2, _⟩ := key j y hy
    have := h.gout g hg j y0 h0
    omega
  · exact h.gle
  · intro g hg y hy
    obtain ⟨y0, h0, _, _, e3⟩ := key _ y hy
    have := h.glast g hg y0 h0
    omega
  · exact h.nodup
  · exact h.incr
  · intro g hg; simpa [setInst] using h.ginst g hg

theorem inv_rd (s : St) (h : Inv s) (i : Nat) (k : Kind) : Inv (rd s i k) := by
  unfold rd
  split
  · next x hx => exact inv_setPending s h i x _ hx
  · exact h

theorem rd_frame (s : St) (i k) : (rd s i k).stored = s.stored ∧ (rd s i k).step = s.step
    ∧ (rd s i k).leader = s.leader ∧ (rd s i k).granted = s.granted := by
  unfold rd; split <;> simp [setInst]

/-- the stored bound grows: every window and every grant bound stays below it -/
theorem inv_raise (s : St) (h : Inv s) (e : Nat) (he : s.bound ≤ e) :
    Inv { s with stored := some e } := by
  constructor
  · intro i x hx; have := h.win i x hx; simp only [St.bound, Option.getD] at *; omega
  · exact h.disj
  · exact h.gout
  · intro g hg; have := h.gle g hg; simp only [St.bound, Option.getD] at *; omega
  · exact h.glast
  · exact h.nodup
  · exact h.incr
  · exact h.ginst

/-- a successful transaction gives instance `i` the fresh window `(v, v+step]` where `v` was the
    stored bound -/
theorem inv_newWindow (s : St) (h : Inv s) (i : Nat) (x : Inst) (hx : s.insts[i]? = some x) (p) :
    Inv (setInst { s with stored := some (s.bound + s.step) } i
      { x with pending := p, base := s.bound, end_ := s.bound + s.step }) := by
  have h1 := inv_raise s h (s.bound + s.step) (by omega)
  constructor
  · intro j y hy
    rcases set_cases _ _ _ _ _ hy with ⟨rfl, rfl⟩ | ⟨_, h2⟩
    · have := h.win _ x hx; simp only [St.bound, Option.getD, setInst] at *; omega
    · exact h1.win j y h2
  · intro a b y z hab hy hz
    rcases set_cases _ _ _ _ _ hy with ⟨rfl, rfl⟩ | ⟨_, h2⟩ <;>
    rcases set_cases _ _ _ _ _ hz with ⟨rfl, rfl⟩ | ⟨_, h3⟩
    · exact absurd rfl hab
    · have := h.win _ z h3; simp only [St.bound] at *; omega
    · have := h.win _ y h2; simp only [St.bound] at *; omega
    · exact h.disj a b y z hab h2 h3
  · intro g hg j y hy
    rcases set_cases _ _ _ _ _ hy with ⟨rfl, rfl⟩ | ⟨_, h2⟩
    · have := h.gle g hg; simp only [St.bound] at *; omega
    · exact h.gout g hg j y h2
  · exact h1.gle
  · intro g hg y hy
    rcases set_cases _ _ _ _ _ hy with ⟨e, rfl⟩ | ⟨_, h2⟩
    · have := h.glast g hg x (e ▸ hx); simpa using this
    · exact h.glast g hg y h2
  · exact h.nodup
  · exact h.incr
  · intro g hg; simpa [setInst] using h.ginst g hg

end PdModel.IdAlloc

namespace PdModel.IdAlloc

theorem casHolds_stored (s : St) (x : Inst) (v) (h : casHolds s x v = true) :
    s.stored = v ∧ s.leader = x.member := by
  simp [casHolds] at h; exact ⟨h.1.1, h.1.2⟩

theorem inv_cas (s : St) (h : Inv s) (i : Nat) (f : Fault) : Inv (cas s i f).1 := by
  unfold cas
  split
  · exact h
  · next x hx =>
    split
    · exact h
    · next v k hp =>
      split
      · exact inv_setPending s h i x _ hx
      · split
        · next hc =>
          obtain ⟨hs, _⟩ := casHolds_stored s x v hc
          have hv : v.getD 0 = s.bound := by simp [St.bound, hs]
          split
          · have := inv_setPending _ (inv_raise s h (s.bound + s.step) (by omega)) i x none hx
            simpa [hv] using this
          · have := inv_newWindow s h i x hx none
            simpa [hv] using this
        · exact inv_setPending s h i x _ hx

theorem inv_bump (s : St) (h : Inv s) (i : Nat) (x : Inst) (hx : s.insts[i]? = some x)
    (hlt : x.base < x.end_) : Inv (bump s i).1 := by
  unfold bump
  simp only [hx]
  have hw := h.win i x hx
  constructor
  · intro j y hy
    rcases set_cases _ _ _ _ _ hy with ⟨rfl, rfl⟩ | ⟨_, h2⟩
    · simp only [St.bound, setInst] at *; omega
    · exact h.win j y h2
  · intro a b y z hab hy hz
    rcases set_cases _ _ _ _ _ hy with ⟨rfl, rfl⟩ | ⟨_, h2⟩ <;>
    rcases set_cases _ _ _ _ _ hz with ⟨rfl, rfl⟩ | ⟨_, h3⟩
    · exact absurd rfl hab
    · have := h.disj _ _ x z hab hx h3; simp only at *; omega
    · have := h.disj _ _ y x hab h2 hx; simp only at *; omega
    · exact h.disj a b y z hab h2 h3
  · intro g hg j y hy
    simp only [setInst, List.mem_cons] at hg
    rcases hg with rfl | hg
    · rcases set_cases _ _ _ _ _ hy with ⟨rfl, rfl⟩ | ⟨hne, h2⟩
      · simp
      · have := h.disj _ _ x y (Ne.symm hne) hx h2; simp only at *; omega
    · rcases set_cases _ _ _ _ _ hy with ⟨rfl, rfl⟩ | ⟨_, h2⟩
      · have := h.gout g hg _ x hx; simp only at *; omega
      · exact h.gout g hg j y h2
  · intro g hg
    simp only [setInst, List.mem_cons] at hg
    rcases hg with rfl | hg
    · simp only [St.bound, setInst] at *; omega
    · exact h.gle g hg
  · intro g hg y hy
    simp only [setInst, List.mem_cons] at hg
    rcases hg with rfl | hg
    · rcases set_cases _ _ _ _ _ hy with ⟨_, rfl⟩ | ⟨hne, _⟩
      · simp
      · exact absurd rfl hne
    · rcases set_cases _ _ _ _ _ hy with ⟨e, rfl⟩ | ⟨_, h2⟩
      · have := h.glast g hg x (e ▸ hx); simp only at *; omega
      · exact h.glast g hg y h2
  · simp only [setInst, List.map_cons, List.nodup_cons]
    refine ⟨?_, h.nodup⟩
    intro hm
    obtain ⟨g, hg, e⟩ := List.mem_map.1 hm
    have := h.gout g hg i x hx
    omega
  · intro j
    simp only [setInst, List.filter_cons]
    split
    · next hj =>
      simp only [decide_eq_true_eq] at hj
      simp only [List.map_cons, List.pairwise_cons]
      refine ⟨?_, h.incr j⟩
      intro a ha
      obtain ⟨g, hg, rfl⟩ := List.mem_map.1 ha
      simp only [List.mem_filter, decide_eq_true_eq] at hg
      have := h.glast g hg.1 x (by rw [hg.2, ← hj]; exact hx)
      omega
    · exact h.incr j
  · intro g hg
    simp only [setInst, List.mem_cons] at hg
    have hlt : i < s.insts.length := by
      rcases Nat.lt_or_ge i s.insts.length with h' | h'
      · exact h'
      · simp [List.getElem?_eq_none h'] at hx
    rcases hg with rfl | hg
    · simpa [setInst] using hlt
    · simpa [setInst] using h.ginst g hg

theorem cas_step (s : St) (i f) : (cas s i f).1.step = s.step := by
  unfold cas; repeat' split
  all_goals simp [setInst]

/-- what a successful transaction leaves in the instance: a fresh window of `step` ids that starts
    at the bound that was stored before, and the stored bound is its end -/
theorem cas_ok (s : St) (i : Nat) (f : Fault) (h : (cas s i f).2 = .ok) :
    ∃ x : Inst, (cas s i f).1.insts[i]? = some x ∧ x.base = s.bound ∧ x.end_ = s.bound + s.step
      ∧ (cas s i f).1.stored = some x.end_ ∧ s.leader = x.member := by
  unfold cas at h ⊢
  split at h
  · simp at h
  · next x hx =>
    split at h
    · simp at h
    · next v k hp =>
      have hlt : i < s.insts.length := by
        rcases Nat.lt_or_ge i s.insts.length with h' | h'
        · exact h'
        · simp [List.getElem?_eq_none h'] at hx
      simp only [hx, hp]
      split at h
      · simp at h
      · next hf =>
        split at h
        · next hc =>
          obtain ⟨hs, hl⟩ := casHolds_stored s x v hc
          have hv : v.getD 0 = s.bound := by simp [St.bound, hs]
          split at h
          · simp at h
          · next hne =>
            cases f <;> simp_all [setInst]
        · split at h <;> simp at h

/-- anything but `ok` leaves the stored bound and all windows unchanged unless the fault was
    "error after effect" (the transaction did execute) -/
theorem cas_conflict_unchanged (s : St) (i : Nat) (f : Fault) (h : (cas s i f).2 = .conflict) :
    (cas s i f).1.stored = s.stored ∧
    ∀ (j : Nat) (y : Inst), (cas s i f).1.insts[j]? = some y →
      ∃ y0 : Inst, s.insts[j]? = some y0 ∧ y.base = y0.base ∧ y.end_ = y0.end_ := by
  unfold cas at h ⊢
  split at h
  · simp at h
  · next x hx =>
    split at h
    · simp at h
    · next v k hp =>
      simp only [hx, hp]
      split at h
      · simp at h
      · split at h
        · split at h <;> simp at h
        · next hnc =>
          cases f <;> simp_all [setInst] <;>
          · intro j y hy
            rcases set_cases _ _ _ _ _ hy with ⟨rfl, rfl⟩ | ⟨_, h2⟩
            · exact ⟨x, hx, rfl, rfl⟩
            · exact ⟨y, h2, rfl, rfl⟩

theorem inv_finishStep (s : St) (h : Inv s) (hs : 0 < s.step) (i : Nat) (k : Kind) (f : Fault) :
    Inv (finishStep s i k f).1 := by
  unfold finishStep
  have hc := inv_cas s h i f
  have hok := cas_ok s i f
  generalize hco : cas s i f = r at hc hok
  obtain ⟨s1, o⟩ := r
  cases o <;> cases k <;> simp only <;> try exact hc
  obtain ⟨x, hx, hb, he, _⟩ := hok rfl
  exact inv_bump s1 hc i x hx (by omega)

end PdModel.IdAlloc

namespace PdModel.IdAlloc

theorem bump_step (s : St) (i) : (bump s i).1.step = s.step := by
  unfold bump; split <;> simp [setInst]

theorem finishStep_step (s : St) (i k f) : (finishStep s i k f).1.step = s.step := by
  unfold finishStep
  have := cas_step s i f
  generalize cas s i f = r at this
  obtain ⟨s1, o⟩ := r
  cases o <;> cases k <;> simp_all [bump_step]

theorem step_step (s : St) (op : Op) : (step s op).1.step = s.step := by
  cases op <;> simp only [step] <;> repeat' split
  all_goals simp [finishStep_step, bump_step, (rd_frame _ _ _).2.1]

theorem inv_step (s : St) (h : Inv s) (hs : 0 < s.step) (op : Op) : Inv (step s op).1 := by
  cases op with
  | new m =>
    simp only [step]
    have hnew : ∀ (j : Nat) (y : Inst), (s.insts ++ [{ member := m }])[j]? = some y →
        s.insts[j]? = some y ∨ (y.base = 0 ∧ y.end_ = 0 ∧ y.last = 0 ∧ j = s.insts.length) := by
      intro j y hy
      rw [List.getElem?_append] at hy
      split at hy
      · exact Or.inl hy
      · right
        have : j - s.insts.length = 0 := by
          rcases Nat.eq_zero_or_pos (j - s.insts.length) with h0 | h0
          · exact h0
          · have h1 : ([({ member := m } : Inst)] : List Inst).length ≤ j - s.insts.length := by
              simp only [List.length_singleton]; omega
            simp [List.getElem?_eq_none h1] at hy
        simp [this] at hy; subst hy; simp; omega
    constructor
    · intro j y hy
      rcases hnew j y hy with h1 | ⟨a, b, c, _⟩
      · exact h.win j y h1
      · simp only [St.bound]; omega
    · intro a b y z hab hy hz
      rcases hnew a y hy with h1 | ⟨a1, b1, c1, d1⟩ <;> rcases hnew b z hz with h2 | ⟨a2, b2, c2, d2⟩
      · exact h.disj a b y z hab h1 h2
      · omega
      · omega
      · omega
    · intro g hg j y hy
      rcases hnew j y hy with h1 | ⟨a1, b1, c1, d1⟩
      · exact h.gout g hg j y h1
      · have := (h.gle g hg).1; omega
    · exact h.gle
    · intro g hg y hy
      rcases hnew _ y hy with h1 | ⟨a1, b1, c1, d1⟩
      · exact h.glast g hg y h1
      · -- a grant never refers to an instance that does not exist yet
        have := h.ginst g hg; omega
    · exact h.nodup
    · exact h.incr
    · intro g hg; have := h.ginst g hg; simp; omega
  | leader m => exact ⟨h.win, h.disj, h.gout, h.gle, h.glast, h.nodup, h.incr, h.ginst⟩
  | alloc i f =>
    simp only [step]
    split
    · exact h
    · next x hx =>
      split
      · exact h
      · split
        · exact inv_finishStep _ (inv_rd s h i .alloc) (by rw [(rd_frame s i .alloc).2.1]; exact hs) i .alloc f
        · next hn =>
          have := h.win i x hx
          exact inv_bump s h i x hx (by simp [needsRebase] at hn; omega)
  | rebase i f =>
    simp only [step]
    split
    · exact h
    · split
      · exact h
      · exact inv_finishStep _ (inv_rd s h i .rebase) (by rw [(rd_frame s i .rebase).2.1]; exact hs) i .rebase f
  | galloc i =>
    simp only [step]
    split
    · exact h
    · next x hx =>
      split
      · exact h
      · split
        · exact inv_rd s h i .alloc
        · next hn =>
          have := h.win i x hx
          exact inv_bump s h i x hx (by simp [needsRebase] at hn; omega)
  | grebase i =>
    simp only [step]
    split
    · exact h
    · split
      · exact h
      · exact inv_rd s h i .rebase
  | finish i f =>
    simp only [step]
    split
    · exact h
    · split
      · exact h
      · exact inv_finishStep s h hs i _ f
  | stored => exact h

end PdModel.IdAlloc
