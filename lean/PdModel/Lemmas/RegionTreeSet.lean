import PdModel.Lemmas.RegionTreeRefine
set_option linter.unusedSimpArgs false
set_option linter.unusedVariables false
/-!
SetRegion and RemoveRegion refine `Spec.C07.put` / `remove` and preserve `Inv`.
-/
namespace PdModel.RegionTree
open PdModel.Spec.C07 (WFRange WF Overlap OnStore)
open PdModel.Spec

theorem Ordered.congr_keys {acc acc' : Acc} {l : List Nat}
    (hk : ∀ a ∈ l, (acc' a).startKey = (acc a).startKey ∧ (acc' a).endKey = (acc a).endKey)
    (h : Ordered acc l) : Ordered acc' l := by
  refine ⟨?_, ?_⟩
  · refine List.Pairwise.imp_of_mem ?_ h.1
    intro a b ha hb hab
    unfold Before at *
    rw [(hk a ha).2, (hk b hb).1]; exact hab
  · intro a ha
    have := h.2 a ha
    unfold WFRange at *
    rw [(hk a ha).1, (hk a ha).2]; exact this

theorem Ordered.congr {acc acc' : Acc} {l : List Nat} (hk : ∀ a ∈ l, acc' a = acc a)
    (h : Ordered acc l) : Ordered acc' l :=
  h.congr_keys (fun a ha => by rw [hk a ha]; exact ⟨rfl, rfl⟩)

theorem put_filter_id (L : List Region) (r : Region) :
    C07.put (L.filter (fun y => decide (y.id ≠ r.id))) r = C07.put L r := by
  unfold C07.put
  rw [List.filter_filter]
  congr 1
  apply List.filter_congr
  intro y _
  by_cases h : y.id = r.id <;> simp [h]

theorem displaced_filter_id (L : List Region) (r : Region) :
    C07.displaced (L.filter (fun y => decide (y.id ≠ r.id))) r = C07.displaced L r := by
  unfold C07.displaced
  rw [List.filter_filter]
  apply List.filter_congr
  intro y _
  by_cases h : y.id = r.id <;> simp [h]

theorem treeIs_main {s : RegionsInfo} (h : Inv s) : TreeIs s.acc s.tree s.tree.items (fun _ => true) := by
  have : s.tree.items.filter (fun _ => true) = s.tree.items := List.filter_eq_self.2 (fun _ _ => rfl)
  exact ⟨this.symm, this.symm ▸ h.total⟩

/-- what SetRegion gives back for a well-formed region in a state satisfying the invariant -/
structure PutOk (s : RegionsInfo) (r : Region) : Prop where
  inv : Inv (setRegion s r).1
  abs_eq : abs (setRegion s r).1 = C07.put (abs s) r
  out_eq : (setRegion s r).2 = C07.displaced (abs s) r

/-- new id -/
theorem setRegion_new {s : RegionsInfo} {r : Region} (h : Inv s) (hr : WF r)
    (hnone : mapGet s.regions r.id = none) : PutOk s r := by
  have hdet : setRegionDetach s r =
      ({ s with heap := s.heap ++ [r], regions := mapSet s.regions r.id s.heap.length },
        s.heap.length, default, true, true) := by
    unfold setRegionDetach; rw [hnone]
  obtain ⟨s1, hs1⟩ : ∃ s1 : RegionsInfo,
      s1 = { s with heap := s.heap ++ [r], regions := mapSet s.regions r.id s.heap.length } := ⟨_, rfl⟩
  rw [← hs1] at hdet
  have hacc : ∀ a, s1.acc a = if a = s.heap.length then r else s.acc a := by
    intro a; rw [hs1]; exact acc_push s r _ a
  have hlt : ∀ a ∈ s.tree.items, a ≠ s.heap.length := fun a ha e => by
    have := h.map.bound a ha; omega
  have hsame : ∀ a ∈ s.tree.items, s1.acc a = s.acc a := fun a ha => by rw [hacc]; simp [hlt a ha]
  have htree : s1.tree = s.tree := by rw [hs1]
  have hreg : s1.regions = mapSet s.regions r.id s.heap.length := by rw [hs1]
  have hidne : ∀ a ∈ s.tree.items, (s.acc a).id ≠ r.id := by
    intro a ha e
    have := h.map.fwd a ha
    rw [e, hnone] at this; cases this
  have hD : Detached s1 s.heap.length r := by
    refine ⟨by rw [hs1]; exact h.noNil, by rw [hacc]; simp, ?_, by rw [hs1]; simp, ?_, ?_, ?_, ?_, ?_, ?_, ?_, ?_, ?_⟩
    · rw [htree]; intro hx; exact hlt _ hx rfl
    · rw [htree]; exact h.ord.congr hsame
    · rw [htree]; intro a ha; rw [hsame a ha]; exact h.wf a ha
    · rw [htree, h.total]; exact (sumOf_congr hsame).symm
    · rw [htree]; exact subsOk_congr (s := s) (fun role => by rw [hs1]; cases role <;> rfl) hsame h.subs
    · rw [hreg, mapSet_keys]
      have hnotin : r.id ∉ s.regions.map (·.1) := mapGet_none_iff.1 hnone
      simp only [hnotin, if_false]
      rw [List.nodup_append]
      exact ⟨h.map.keys, by simp, by intro a ha b hb e; simp at hb; subst hb; subst e; exact hnotin ha⟩
    · rw [hreg, mapGet_mapSet]; simp
    · rw [htree]; intro a ha
      rw [hreg, mapGet_mapSet, hsame a ha]
      simp [hidne a ha, h.map.fwd a ha]
    · intro id a hg
      rw [hreg, mapGet_mapSet] at hg
      split at hg
      · next e => cases hg; exact Or.inl ⟨rfl, e⟩
      · obtain ⟨h1, h2⟩ := h.map.bwd id a hg
        exact Or.inr ⟨htree ▸ h1, by rw [hsame a h1]; exact h2⟩
    · rw [htree]; intro a ha
      have := h.map.bound a ha
      rw [hs1]; simp; omega
  obtain ⟨f1, f2, f3⟩ := detached_finish hD hr default
  have habs : s1.tree.items.map s1.acc = abs s := by
    rw [htree]; unfold abs; exact List.map_congr_left hsame
  rw [habs] at f2 f3
  have hset : setRegion s r = (setRegionSubs (setRegionMain s1 s.heap.length default r true).1 s.heap.length default r true,
      (setRegionMain s1 s.heap.length default r true).2) := by
    unfold setRegion; rw [hdet]
  exact ⟨by rw [hset]; exact f1, by rw [hset]; exact f2, by rw [hset]; exact f3⟩

theorem abs_filter_ne {s : RegionsInfo} (h : Inv s) {x : Nat} (hx : x ∈ s.tree.items) :
    (s.tree.items.filter (fun a => decide (a ≠ x))).map s.acc =
      (abs s).filter (fun y => decide (y.id ≠ (s.acc x).id)) := by
  unfold abs
  rw [List.filter_map]
  congr 1
  apply List.filter_congr
  intro a ha
  by_cases e : a = x
  · subst e; simp
  · have : (s.acc a).id ≠ (s.acc x).id := fun e' => e (h.map.inj a ha x hx e')
    simp [e, this]

/-- known id, the range has changed -/
theorem setRegion_range {s : RegionsInfo} {r : Region} {x : Nat} (h : Inv s) (hr : WF r)
    (hsome : mapGet s.regions r.id = some x)
    (hrc : (s.acc x).startKey ≠ r.startKey ∨ (s.acc x).endKey ≠ r.endKey) : PutOk s r := by
  obtain ⟨hxU, hxid⟩ := h.map.bwd _ _ hsome
  have hxl := h.map.bound x hxU
  have hrcb : (decide ((s.acc x).startKey ≠ r.startKey) || decide ((s.acc x).endKey ≠ r.endKey)) = true := by
    rcases hrc with h1 | h1 <;> simp [h1]
  obtain ⟨sA, hsA⟩ : ∃ sA : RegionsInfo, sA = { s with tree := s.tree.remove s.acc (s.acc x) } := ⟨_, rfl⟩
  obtain ⟨sB, hsB⟩ : ∃ sB, sB = removeRegionFromSubTree sA (s.acc x) := ⟨_, rfl⟩
  obtain ⟨s1, hs1⟩ : ∃ s1 : RegionsInfo, s1 = { sB with heap := sB.heap.set x r } := ⟨_, rfl⟩
  have hdet : setRegionDetach s r = (s1, x, s.acc x, true, true) := by
    unfold setRegionDetach
    rw [hsome]
    simp only [hrcb, if_true]
    rw [← hsA, ← hsB, ← hs1]
  have hsAacc : sA.acc = s.acc := by rw [hsA]; rfl
  have hrem := Tree.remove_is h.ord h.map.inj hxU (treeIs_main h)
  have hfilt : s.tree.items.filter (fun a => true && decide (a ≠ x)) = s.tree.items.filter (fun a => decide (a ≠ x)) := by
    apply List.filter_congr; intro a _; simp
  obtain ⟨U, hU⟩ : ∃ U, U = s.tree.items.filter (fun a => decide (a ≠ x)) := ⟨_, rfl⟩
  have hAitems : sA.tree.items = U := by rw [hsA, hU, ← hfilt]; exact hrem.1
  have hAtotal : sA.tree.totalSize = sumOf s.acc U := by rw [hsA, hU, ← hfilt]; exact hrem.2
  have hsubsA : SubsOk sA s.tree.items :=
    subsOk_congr (s := s) (fun role => by rw [hsA]; cases role <;> rfl) (fun _ _ => by rw [hsAacc]) h.subs
  have hA := subsOk_removeSub (s := sA) (by rw [hsAacc]; exact h.ord) (by rw [hsAacc]; exact h.map.inj) hxU
    (by rw [hsAacc]; exact h.wf x hxU) hsubsA
  rw [hsAacc, ← hsB, ← hU] at hA
  have hBtree : sB.tree = sA.tree := by rw [hsB]; rfl
  have hBheap : sB.heap = s.heap := by rw [hsB, hsA]; rfl
  have hBacc : sB.acc = s.acc := acc_eq_of_heap hBheap
  have hBreg : sB.regions = s.regions := by rw [hsB, hsA]; rfl
  have hBnil : sB.nilDeref = false := by rw [hsB, hsA]; exact h.noNil
  have h1acc : ∀ a, s1.acc a = if a = x then r else s.acc a := by
    intro a; rw [hs1, acc_set sB x r (by rw [hBheap]; exact hxl), hBacc]
  have h1tree : s1.tree.items = U := by rw [hs1]; show sB.tree.items = U; rw [hBtree, hAitems]
  have h1total : s1.tree.totalSize = sumOf s.acc U := by
    rw [hs1]; show sB.tree.totalSize = _; rw [hBtree, hAtotal]
  have hUmem : ∀ a, a ∈ U ↔ a ∈ s.tree.items ∧ a ≠ x := by
    intro a; rw [hU]; simp [List.mem_filter]
  have hsame : ∀ a ∈ U, s1.acc a = s.acc a := fun a ha => by rw [h1acc]; simp [((hUmem a).1 ha).2]
  have hD : Detached s1 x r := by
    refine ⟨by rw [hs1]; exact hBnil, by rw [h1acc]; simp, ?_, ?_, ?_, ?_, ?_, ?_, ?_, ?_, ?_, ?_, ?_⟩
    · rw [h1tree, hUmem]; exact fun hh => hh.2 rfl
    · rw [hs1]; simp [hBheap, hxl]
    · rw [h1tree]
      have : Ordered s.acc U := by rw [hU]; exact h.ord.filter _ _
      exact this.congr hsame
    · rw [h1tree]; intro a ha; rw [hsame a ha]; exact h.wf a ((hUmem a).1 ha).1
    · rw [h1total, h1tree]; exact (sumOf_congr hsame).symm
    · rw [h1tree]
      exact subsOk_congr (s := sB) (fun role => by rw [hs1]; cases role <;> rfl)
        (fun a ha => by rw [hsame a ha, hBacc]) hA
    · rw [hs1]; show (sB.regions.map (·.1)).Nodup; rw [hBreg]; exact h.map.keys
    · rw [hs1]; show mapGet sB.regions r.id = some x; rw [hBreg]; exact hsome
    · rw [h1tree]; intro a ha
      rw [hsame a ha, hs1]; show mapGet sB.regions _ = _; rw [hBreg]
      exact h.map.fwd a ((hUmem a).1 ha).1
    · intro id a hg
      have hg' : mapGet s.regions id = some a := by rw [hs1] at hg; rw [← hBreg]; exact hg
      obtain ⟨h1, h2⟩ := h.map.bwd id a hg'
      by_cases e : a = x
      · subst e; exact Or.inl ⟨rfl, by rw [← h2, hxid]⟩
      · refine Or.inr ⟨by rw [h1tree, hUmem]; exact ⟨h1, e⟩, ?_⟩
        rw [h1acc]; simp [e, h2]
    · rw [h1tree, hs1]; intro a ha
      simp only [List.length_set, hBheap]
      exact h.map.bound a ((hUmem a).1 ha).1
  obtain ⟨f1, f2, f3⟩ := detached_finish hD hr (s.acc x)
  have habs : s1.tree.items.map s1.acc = (abs s).filter (fun y => decide (y.id ≠ r.id)) := by
    rw [h1tree, List.map_congr_left hsame, hU, abs_filter_ne h hxU, hxid]
  rw [habs] at f2 f3
  rw [put_filter_id] at f2
  rw [displaced_filter_id] at f3
  have hset : setRegion s r = (setRegionSubs (setRegionMain s1 x (s.acc x) r true).1 x (s.acc x) r true,
      (setRegionMain s1 x (s.acc x) r true).2) := by
    unfold setRegion; rw [hdet]
  exact ⟨by rw [hset]; exact f1, by rw [hset]; exact f2, by rw [hset]; exact f3⟩

theorem overlap_congr {y r o : Region} (h1 : r.startKey = o.startKey) (h2 : r.endKey = o.endKey) :
    Overlap y r ↔ Overlap y o := by
  unfold Overlap; rw [h1, h2]

/-- known id, same range -/
theorem setRegion_same {s : RegionsInfo} {r : Region} {x : Nat} (h : Inv s) (hr : WF r)
    (hsome : mapGet s.regions r.id = some x)
    (hk1 : (s.acc x).startKey = r.startKey) (hk2 : (s.acc x).endKey = r.endKey) : PutOk s r := by
  obtain ⟨hxU, hxid⟩ := h.map.bwd _ _ hsome
  have hxl := h.map.bound x hxU
  have hrcb : (decide ((s.acc x).startKey ≠ r.startKey) || decide ((s.acc x).endKey ≠ r.endKey)) = false := by
    simp [hk1, hk2]
  obtain ⟨pc, hpc⟩ : ∃ pc, pc = shouldRemoveFromSubTree r (s.acc x) := ⟨_, rfl⟩
  obtain ⟨s2, hs2⟩ : ∃ s2, s2 = if pc = true then removeRegionFromSubTree s (s.acc x) else s := ⟨_, rfl⟩
  obtain ⟨s1, hs1⟩ : ∃ s1 : RegionsInfo, s1 = { s2 with heap := s2.heap.set x r } := ⟨_, rfl⟩
  have hdet : setRegionDetach s r = (s1, x, s.acc x, false, pc) := by
    unfold setRegionDetach
    rw [hsome]
    simp only [hrcb, Bool.false_eq_true, if_false]
    rw [← hpc, ← hs2, ← hs1]
  have h2heap : s2.heap = s.heap := by rw [hs2]; split <;> rfl
  have h2tree : s2.tree = s.tree := by rw [hs2]; split <;> rfl
  have h2reg : s2.regions = s.regions := by rw [hs2]; split <;> rfl
  have h2nil : s2.nilDeref = false := by rw [hs2]; split <;> exact h.noNil
  have h2acc : s2.acc = s.acc := acc_eq_of_heap h2heap
  have h1acc : ∀ a, s1.acc a = if a = x then r else s.acc a := by
    intro a; rw [hs1, acc_set s2 x r (by rw [h2heap]; exact hxl), h2acc]
  obtain ⟨sM, hsM⟩ : ∃ sM : RegionsInfo, sM = { s1 with tree := s1.tree.updateStat (s.acc x) r } := ⟨_, rfl⟩
  have hmain : setRegionMain s1 x (s.acc x) r false = (sM, []) := by
    unfold setRegionMain; simp only [Bool.not_false, if_true]; rw [hsM]
  have hMacc : sM.acc = s1.acc := by rw [hsM]; rfl
  have hMitems : sM.tree.items = s.tree.items := by
    rw [hsM, hs1]; show s2.tree.items = _; rw [h2tree]
  obtain ⟨fin, hfin⟩ : ∃ fin, fin = setRegionSubs sM x (s.acc x) r pc := ⟨_, rfl⟩
  have hset : setRegion s r = (fin, []) := by
    unfold setRegion; rw [hdet]; simp only; rw [hmain, hfin]
  have hfinacc : fin.acc = s1.acc := by
    rw [hfin]; unfold setRegionSubs; split
    · unfold updateSubTreeStat; rw [mapFams_acc, hMacc]
    · unfold addToSubTrees; rw [mapFams_acc, hMacc]
  have hfintree : fin.tree = sM.tree := by
    rw [hfin]; unfold setRegionSubs; split
    · unfold updateSubTreeStat; rw [mapFams_tree]
    · unfold addToSubTrees; rw [mapFams_tree]
  have hfinreg : fin.regions = s.regions := by
    rw [hfin]; unfold setRegionSubs; split
    · unfold updateSubTreeStat; rw [mapFams_regions, hsM, hs1]; exact h2reg
    · unfold addToSubTrees; rw [mapFams_regions, hsM, hs1]; exact h2reg
  have hfinheap : fin.heap = s.heap.set x r := by
    rw [hfin]; unfold setRegionSubs; split
    · unfold updateSubTreeStat; rw [mapFams_heap, hsM, hs1]; show s2.heap.set x r = _; rw [h2heap]
    · unfold addToSubTrees; rw [mapFams_heap, hsM, hs1]; show s2.heap.set x r = _; rw [h2heap]
  have hfinnil : fin.nilDeref = false := by
    rw [hfin]; unfold setRegionSubs; split
    · unfold updateSubTreeStat; rw [mapFams_nil, hsM, hs1]; exact h2nil
    · unfold addToSubTrees; rw [mapFams_nil, hsM, hs1]; exact h2nil
  have hkeys : ∀ a ∈ s.tree.items, (s1.acc a).startKey = (s.acc a).startKey ∧ (s1.acc a).endKey = (s.acc a).endKey := by
    intro a _; rw [h1acc]; split
    · next e => subst e; exact ⟨hk1.symm, hk2.symm⟩
    · exact ⟨rfl, rfl⟩
  have hord1 : Ordered s1.acc s.tree.items := h.ord.congr_keys hkeys
  have hnd : s.tree.items.Nodup := (h.ord.asc _).nodup _
  -- the sub-trees
  have hsubs : SubsOk fin s.tree.items := by
    rw [hfin]; unfold setRegionSubs
    by_cases hp : pc = true
    · simp only [hp, Bool.not_true, Bool.false_eq_true, if_false]
      have hA := subsOk_removeSub h.ord h.map.inj hxU (h.wf x hxU) h.subs
      have hs2' : s2 = removeRegionFromSubTree s (s.acc x) := by rw [hs2]; simp [hp]
      rw [← hs2'] at hA
      have hB : SubsOk sM (s.tree.items.filter (fun a => decide (a ≠ x))) := by
        apply subsOk_congr (s := s2) (fun role => by rw [hsM, hs1]; cases role <;> rfl) _ hA
        intro a ha
        have : a ≠ x := by simpa using (List.mem_filter.1 ha).2
        rw [hMacc, h1acc, h2acc]; simp [this]
      have hrx : sM.acc x = r := by rw [hMacc, h1acc]; simp
      have := subsOk_add (s := sM) (V := s.tree.items) (x := x) (by rw [hMacc]; exact hord1) hxU
        (by rw [hrx]; exact hr) hB
      rw [hrx] at this
      exact this
    · have hp' : pc = false := by simpa using hp
      simp only [hp', Bool.not_false, if_true]
      have hs2' : s2 = s := by rw [hs2]; simp [hp']
      have hD := subsOk_updateStat (s := s) (r := r) h.ord hxU hxl hr (by rw [← hpc]; exact hp') h.subs
      apply subsOk_congr (s := updateSubTreeStat { s with heap := s.heap.set x r } (s.acc x) r) _ _ hD
      · intro role
        unfold updateSubTreeStat
        rw [mapFams_fam, mapFams_fam]
        have : sM.fam role = ({ s with heap := s.heap.set x r } : RegionsInfo).fam role := by
          rw [hsM, hs1, hs2']; cases role <;> rfl
        rw [this]
      · intro a _
        unfold updateSubTreeStat
        rw [mapFams_acc, mapFams_acc, hMacc, h1acc, acc_set s x r hxl]
  have hfinitems : fin.tree.items = s.tree.items := by rw [hfintree, hMitems]
  have hidne : ∀ a ∈ s.tree.items, a ≠ x → (s.acc a).id ≠ r.id := by
    intro a ha hne e
    exact hne (h.map.inj a ha x hxU (by rw [e, hxid]))
  have hnoov : ∀ a ∈ s.tree.items, a ≠ x → ¬ Overlap (s.acc a) r := by
    intro a ha hne
    rw [overlap_congr hk1.symm hk2.symm]
    rcases h.ord.tri _ ha hxU with e | hb | hb
    · exact absurd e hne
    · exact (before_not_overlap hb).1
    · exact (before_not_overlap hb).2
  refine ⟨?_, ?_, ?_⟩
  · rw [hset]
    refine ⟨hfinnil, ?_, ?_, ?_, ?_, ?_⟩
    · rw [hfinacc, hfinitems]; exact hord1
    · rw [hfinacc, hfinitems]; intro a ha; rw [h1acc]; split
      · exact hr
      · exact h.wf a ha
    · rw [hfintree, hfinacc, hsM]
      show (s1.tree.updateStat (s.acc x) r).totalSize = sumOf s1.acc (s1.tree.updateStat (s.acc x) r).items
      unfold Tree.updateStat
      simp only
      have h1t : s1.tree = s.tree := by rw [hs1]; exact h2tree
      rw [h1t, h.total]
      have hup := sumOf_update (acc := s.acc) (acc' := s1.acc) hnd hxU (fun a ha => by rw [h1acc]; simp [ha])
      rw [h1acc] at hup; simp only [if_true] at hup
      rw [hup]
    · refine ⟨by rw [hfinreg]; exact h.map.keys, ?_, ?_, ?_⟩
      · rw [hfinitems, hfinacc, hfinreg]; intro a ha
        rw [h1acc]; split
        · next e => subst e; exact hsome
        · exact h.map.fwd a ha
      · rw [hfinitems, hfinacc, hfinreg]; intro id a hg
        obtain ⟨g1, g2⟩ := h.map.bwd id a hg
        refine ⟨g1, ?_⟩
        rw [h1acc]; split
        · next e => subst e; rw [← g2, hxid]
        · exact g2
      · rw [hfinitems, hfinheap]; intro a ha; simp only [List.length_set]; exact h.map.bound a ha
    · rw [hfinitems]; exact hsubs
  · rw [hset]
    show abs fin = _
    unfold abs
    rw [hfinitems, hfinacc]
    -- right-hand side: the old version of the region goes, the others stay
    have hkeep : (s.tree.items.map s.acc).filter (fun y => decide (¬ Overlap y r ∧ y.id ≠ r.id)) =
        (s.tree.items.filter (fun a => decide (a ≠ x))).map s1.acc := by
      rw [List.filter_map]
      have : (s.tree.items.filter (fun a => decide (a ≠ x))).map s1.acc =
          (s.tree.items.filter (fun a => decide (a ≠ x))).map s.acc := by
        apply List.map_congr_left; intro a ha
        have : a ≠ x := by simpa using (List.mem_filter.1 ha).2
        rw [h1acc]; simp [this]
      rw [this]
      congr 1
      apply List.filter_congr
      intro a ha
      by_cases e : a = x
      · subst e; simp [hxid]
      · simp [e, hnoov a ha e, hidne a ha e]
    unfold C07.put
    rw [hkeep]
    have hasc1 : Asc s1.acc s.tree.items := hord1.asc _
    have hnew : ∀ b ∈ s.tree.items.filter (fun a => decide (a ≠ x)), (s1.acc b).startKey ≠ (s1.acc x).startKey := by
      intro b hb hk
      obtain ⟨hb1, hb2⟩ := List.mem_filter.1 hb
      have : b ≠ x := by simpa using hb2
      exact this (hasc1.eq_of_key _ hb1 hxU hk)
    have hrx : s1.acc x = r := by rw [h1acc]; simp
    have e := insertItem_eq_insertByKey r ((s.tree.items.filter (fun a => decide (a ≠ x))).map s1.acc)
      (List.pairwise_map.2 (hasc1.filter _ _))
      (by intro y hy; obtain ⟨b, hb, rfl⟩ := List.mem_map.1 hy; have := hnew b hb; rwa [hrx] at this)
    rw [← e, ← hrx, ← map_insertItem]
    congr 1
    apply Asc.ext s1.acc hasc1 ((hasc1.filter _ _).insertItem _ x)
    intro a
    rw [mem_insertItem_of_new s1.acc hnew]
    simp only [List.mem_filter, ne_eq, decide_not, Bool.not_eq_eq_eq_not, Bool.not_true, decide_eq_false_iff_not]
    constructor
    · intro ha
      by_cases e : a = x
      · exact Or.inl e
      · exact Or.inr ⟨ha, e⟩
    · rintro (rfl | ⟨ha, _⟩)
      · exact hxU
      · exact ha
  · rw [hset]
    show ([] : List Region) = _
    unfold C07.displaced abs
    symm
    rw [List.filter_eq_nil_iff]
    intro y hy
    obtain ⟨a, ha, rfl⟩ := List.mem_map.1 hy
    simp only [ne_eq, decide_eq_true_eq, not_and, Decidable.not_not]
    intro hov
    by_cases e : a = x
    · subst e; exact hxid
    · exact absurd hov (hnoov a ha e)

/-- **SetRegion refines `put`** and keeps the invariant, for every state satisfying the invariant and
    every well-formed region -/
theorem setRegion_refines {s : RegionsInfo} {r : Region} (h : Inv s) (hr : WF r) : PutOk s r := by
  cases hg : mapGet s.regions r.id with
  | none => exact setRegion_new h hr hg
  | some x =>
    by_cases hk : (s.acc x).startKey = r.startKey ∧ (s.acc x).endKey = r.endKey
    · exact setRegion_same h hr hg hk.1 hk.2
    · refine setRegion_range h hr hg ?_
      by_cases h1 : (s.acc x).startKey = r.startKey
      · exact Or.inr (fun h2 => hk ⟨h1, h2⟩)
      · exact Or.inl h1

end PdModel.RegionTree
