import PdModel.Model.TsoGlobal
set_option linter.unusedSimpArgs false
set_option linter.unusedVariables false
/-! Order lemmas on timestamps and the inductive invariant of the global-synchronisation model. -/
namespace PdModel.TsoGlobal

theorem tsLe_refl (a : TS) : tsLe a a := Or.inr ⟨rfl, Nat.le_refl _⟩

theorem tsLe_trans {a b c : TS} (h1 : tsLe a b) (h2 : tsLe b c) : tsLe a c := by
  unfold tsLe at *; omega

theorem tsLt_of_le_of_lt {a b c : TS} (h1 : tsLe a b) (h2 : tsLt b c) : tsLt a c := by
  unfold tsLe tsLt at *; omega

theorem tsLt_of_lt_of_le {a b c : TS} (h1 : tsLt a b) (h2 : tsLe b c) : tsLt a c := by
  unfold tsLe tsLt at *; omega

theorem tsLe_of_lt {a b : TS} (h : tsLt a b) : tsLe a b := by
  unfold tsLe tsLt at *; omega

theorem tsLt_trans {a b c : TS} (h1 : tsLt a b) (h2 : tsLt b c) : tsLt a c := by
  unfold tsLt at *; omega

theorem tsLt_of_not_le {a b : TS} (h : ¬ tsLe a b) : tsLt b a := by
  unfold tsLe tsLt at *; omega

theorem tsLe_of_not_lt {a b : TS} (h : ¬ tsLt a b) : tsLe b a := by
  unfold tsLe tsLt at *; omega

theorem tsLt_irrefl (a : TS) : ¬ tsLt a a := by unfold tsLt; omega

theorem tsLe_antisymm {a b : TS} (h1 : tsLe a b) (h2 : tsLe b a) : a = b := by
  unfold tsLe at *
  have h3 : a.1 = b.1 := by omega
  have h4 : a.2 = b.2 := by omega
  exact Prod.ext h3 h4

theorem tsMax_ge_left (a b : TS) : tsLe a (tsMax a b) := by
  unfold tsMax; split
  · assumption
  · exact tsLe_refl a

theorem tsMax_ge_right (a b : TS) : tsLe b (tsMax a b) := by
  unfold tsMax; split
  · exact tsLe_refl b
  · next h => exact tsLe_of_lt (tsLt_of_not_le h)

theorem tsLt_add (a : TS) (c : Nat) (hc : 0 < c) : tsLt a (a.1, a.2 + c) := by
  show a.1 < a.1 ∨ (a.1 = a.1 ∧ a.2 < a.2 + c); omega

theorem bump_gt (ml b : Nat) (m : TS) (c : Nat) (hc : 0 < c) : tsLt m (bump ml b m c) := by
  unfold bump; split
  · show m.1 < m.1 + 1 ∨ (m.1 = m.1 + 1 ∧ m.2 < c); omega
  · exact tsLt_add m c hc

/-- what `maxLocal` computes: an upper bound of the memories of the dcs led by the server, or
    `none` exactly when the server leads no dc -/
theorem foldl_maxLocal (loc : Nat → TS) (l : List Nat) (acc : Option TS) :
    (∀ m, acc = some m → ∃ m', l.foldl (accMax loc) acc = some m' ∧ tsLe m m') ∧
    (∀ d ∈ l, ∃ m', l.foldl (accMax loc) acc = some m' ∧ tsLe (loc d) m') := by
  induction l generalizing acc with
  | nil => exact ⟨fun m h => ⟨m, h, tsLe_refl m⟩, fun d hd => (by cases hd)⟩
  | cons x xs ih =>
    simp only [List.foldl_cons]
    cases acc with
    | none =>
      obtain ⟨h1, h2⟩ := ih (accMax loc none x)
      refine ⟨fun m h => (by cases h), ?_⟩
      intro d hd
      simp only [List.mem_cons] at hd
      rcases hd with rfl | hd
      · exact h1 (loc d) rfl
      · exact h2 d hd
    | some a =>
      obtain ⟨h1, h2⟩ := ih (accMax loc (some a) x)
      refine ⟨?_, ?_⟩
      · intro m hm; cases hm
        obtain ⟨m', hm', hle⟩ := h1 (tsMax a (loc x)) rfl
        exact ⟨m', hm', tsLe_trans (tsMax_ge_left _ _) hle⟩
      · intro d hd
        simp only [List.mem_cons] at hd
        rcases hd with rfl | hd
        · obtain ⟨m', hm', hle⟩ := h1 (tsMax a (loc d)) rfl
          exact ⟨m', hm', tsLe_trans (tsMax_ge_right _ _) hle⟩
        · exact h2 d hd

theorem maxLocal_some (st : St) (s : Nat) (m : TS) (h : maxLocal st s = some m) :
    ∀ d ∈ st.dcs, st.srvOf d = s → tsLe (st.loc d) m := by
  intro d hd hs
  have := (foldl_maxLocal st.loc (st.dcs.filter (fun d => st.srvOf d = s)) none).2 d
    (by simp [List.mem_filter, hd, hs])
  obtain ⟨m', hm', hle⟩ := this
  unfold maxLocal at h
  rw [h] at hm'; cases hm'; exact hle

theorem maxLocal_none (st : St) (s : Nat) (h : maxLocal st s = none) :
    ∀ d ∈ st.dcs, st.srvOf d ≠ s := by
  intro d hd hs
  have := (foldl_maxLocal st.loc (st.dcs.filter (fun d => st.srvOf d = s)) none).2 d
    (by simp [List.mem_filter, hd, hs])
  obtain ⟨m', hm', _⟩ := this
  unfold maxLocal at h
  rw [h] at hm'; cases hm'

/-! ### the invariant -/

structure WF (st : St) : Prop where
  srv_mem : ∀ d ∈ st.dcs, st.srvOf d ∈ st.servers
  dc_pos  : ∀ d ∈ st.dcs, d ≠ 0

structure ReqInv (st : St) (r : Req) : Prop where
  cpos   : 0 < r.count
  bestGe : r.phase = .check → tsLe r.est r.best
  origLe : r.phase = .check → tsLe r.orig r.est
  glt    : ∀ e ∈ st.events, e.alloc = 0 → tsLt e.ts r.est
  startLe : r.start ≤ st.clock
  bef    : ∀ l ∈ st.events, l.alloc ∈ st.dcs → l.finish < r.start → tsLe l.ts (r.before l.alloc)
  befLe  : ∀ d, tsLe (r.before d) (st.loc d)
  chk    : r.phase = .check → ∀ d ∈ st.dcs, st.srvOf d ∉ r.pending →
             (tsLe r.est (st.loc d) ∧ tsLt (r.before d) r.est) ∨
             (tsLt r.est r.best ∧ tsLe (r.before d) r.best)
  wr     : r.phase = .write → (∀ d ∈ st.dcs, tsLt (r.before d) r.est) ∧
             ∀ d ∈ st.dcs, st.srvOf d ∉ r.pending → tsLe r.est (st.loc d)
  rt     : r.phase = .ret → (∀ d ∈ st.dcs, tsLt (r.before d) r.est ∧ tsLe r.est (st.loc d)) ∧
             tsLe r.est st.glob

structure Inv (st : St) : Prop where
  wf : WF st
  iL : ∀ e ∈ st.events, e.alloc ≠ 0 → tsLe e.ts (st.loc e.alloc)
  iG : ∀ e ∈ st.events, e.alloc = 0 → tsLe e.ts st.glob
  iW : ∀ e ∈ st.events, e.alloc = 0 → ∀ d ∈ st.dcs, tsLe e.ts (st.loc d)
  iT : ∀ e ∈ st.events, e.finish ≤ st.clock ∧ e.start ≤ e.finish
  gl : ∀ g ∈ st.events, g.alloc = 0 → ∀ l ∈ st.events, l.alloc ∈ st.dcs → l.finish < g.start → tsLt l.ts g.ts
  lg : ∀ g ∈ st.events, g.alloc = 0 → ∀ l ∈ st.events, l.alloc ∈ st.dcs → g.finish < l.start → tsLt g.ts l.ts
  gg : st.events.Pairwise (fun newer older => newer.alloc = 0 → older.alloc = 0 → tsLt older.ts newer.ts)
  ord : st.events.Pairwise (fun newer older => older.finish < newer.finish)
  iA : ∀ e ∈ st.events, e.alloc = 0 ∨ e.alloc ∈ st.dcs
  rq : ∀ r, st.req = some r → ReqInv st r

end PdModel.TsoGlobal

namespace PdModel.TsoGlobal

theorem inv_tick (st : St) (h : Inv st) : Inv (tick st) := by
  unfold tick
  refine ⟨⟨h.wf.srv_mem, h.wf.dc_pos⟩, h.iL, h.iG, h.iW, ?_, h.gl, h.lg, h.gg, h.ord, h.iA, ?_⟩
  · intro e he; have := h.iT e he; exact ⟨by simp only; omega, this.2⟩
  · intro r hr
    have hq := h.rq r hr
    exact ⟨hq.cpos, hq.bestGe, hq.origLe, hq.glt, by simp only; have := hq.startLe; omega, hq.bef, hq.befLe, hq.chk, hq.wr, hq.rt⟩

/-- only local memories move, each forward, and the log is unchanged: everything is preserved -/
theorem inv_locForward (st : St) (h : Inv st) (loc' : Nat → TS) (hmono : ∀ d, tsLe (st.loc d) (loc' d)) :
    Inv { st with loc := loc' } := by
  refine ⟨⟨h.wf.srv_mem, h.wf.dc_pos⟩, ?_, h.iG, ?_, h.iT, h.gl, h.lg, h.gg, h.ord, h.iA, ?_⟩
  · intro e he h0; exact tsLe_trans (h.iL e he h0) (hmono _)
  · intro e he h0 d hd; exact tsLe_trans (h.iW e he h0 d hd) (hmono _)
  · intro r hr
    have hq := h.rq r hr
    refine ⟨hq.cpos, hq.bestGe, hq.origLe, hq.glt, hq.startLe, hq.bef, fun d => tsLe_trans (hq.befLe d) (hmono d), ?_, ?_, ?_⟩
    · intro hp d hd hv
      rcases hq.chk hp d hd hv with ⟨h1, h2⟩ | h3
      · exact Or.inl ⟨tsLe_trans h1 (hmono d), h2⟩
      · exact Or.inr h3
    · intro hp
      obtain ⟨h1, h2⟩ := hq.wr hp
      exact ⟨h1, fun d hd hv => tsLe_trans (h2 d hd hv) (hmono d)⟩
    · intro hp
      obtain ⟨h1, h2⟩ := hq.rt hp
      exact ⟨fun d hd => ⟨(h1 d hd).1, tsLe_trans (h1 d hd).2 (hmono d)⟩, h2⟩

theorem inv_localGrant (st : St) (h : Inv st) (d c : Nat) (hc : c ≠ 0) (hdm : d ∈ st.dcs)
    (hclk : ∀ e ∈ st.events, e.finish < st.clock) (hrs : ∀ r, st.req = some r → r.start ≤ st.clock) :
    Inv { st with loc := fun i => if i = d then ((st.loc d).1, (st.loc d).2 + c) else st.loc i,
                  events := ⟨d, ((st.loc d).1, (st.loc d).2 + c), st.clock, st.clock⟩ :: st.events } := by
  have hd : d ≠ 0 := h.wf.dc_pos d hdm
  have hgt : tsLt (st.loc d) ((st.loc d).1, (st.loc d).2 + c) := tsLt_add _ c (by omega)
  have hmono : ∀ i, tsLe (st.loc i) (if i = d then ((st.loc d).1, (st.loc d).2 + c) else st.loc i) := by
    intro i; split
    · next hi => subst hi; exact tsLe_of_lt hgt
    · exact tsLe_refl _
  have h1 := inv_locForward st h _ hmono
  refine ⟨⟨h.wf.srv_mem, h.wf.dc_pos⟩, ?_, ?_, ?_, ?_, ?_, ?_, ?_, ?_, ?_, ?_⟩
  · intro e he h0
    simp only [List.mem_cons] at he
    rcases he with rfl | he
    · simp only [if_pos]; exact tsLe_refl _
    · exact h1.iL e he h0
  · intro e he h0
    simp only [List.mem_cons] at he
    rcases he with rfl | he
    · exact absurd h0 hd
    · exact h.iG e he h0
  · intro e he h0 d' hd'
    simp only [List.mem_cons] at he
    rcases he with rfl | he
    · exact absurd h0 hd
    · exact h1.iW e he h0 d' hd'
  · intro e he
    simp only [List.mem_cons] at he
    rcases he with rfl | he
    · exact ⟨Nat.le_refl _, Nat.le_refl _⟩
    · exact h.iT e he
  · intro g hg hg0 l hl hld hlt
    simp only [List.mem_cons] at hg hl
    rcases hg with rfl | hg
    · exact absurd hg0 hd
    · rcases hl with rfl | hl
      · -- the new local grant finishes now; no earlier global request starts after it
        have := (h.iT g hg); have := hclk g hg
        simp only at hlt; omega
      · exact h.gl g hg hg0 l hl hld hlt
  · intro g hg hg0 l hl hld hlt
    simp only [List.mem_cons] at hg hl
    rcases hg with rfl | hg
    · exact absurd hg0 hd
    · rcases hl with rfl | hl
      · simp only at hld ⊢
        exact tsLt_of_le_of_lt (h.iW g hg hg0 d hld) hgt
      · exact h.lg g hg hg0 l hl hld hlt
  · simp only [List.pairwise_cons]
    exact ⟨fun e _ h0 => absurd h0 hd, h.gg⟩
  · simp only [List.pairwise_cons]
    exact ⟨fun e he => hclk e he, h.ord⟩
  · intro e he
    simp only [List.mem_cons] at he
    rcases he with rfl | he
    · exact Or.inr hdm
    · exact h.iA e he
  · intro r hr
    have hq := h1.rq r hr
    refine ⟨hq.cpos, hq.bestGe, hq.origLe, ?_, hq.startLe, ?_, hq.befLe, hq.chk, hq.wr, hq.rt⟩
    · intro e he h0
      simp only [List.mem_cons] at he
      rcases he with rfl | he
      · exact absurd h0 hd
      · exact hq.glt e he h0
    · intro l hl hld hlt
      simp only [List.mem_cons] at hl
      rcases hl with rfl | hl
      · have := hrs r hr; simp only at hlt; omega
      · exact hq.bef l hl hld hlt

end PdModel.TsoGlobal

namespace PdModel.TsoGlobal

theorem inv_globForward (st : St) (h : Inv st) (g' : TS) (hmono : tsLe st.glob g') :
    Inv { st with glob := g' } := by
  refine ⟨⟨h.wf.srv_mem, h.wf.dc_pos⟩, h.iL, ?_, h.iW, h.iT, h.gl, h.lg, h.gg, h.ord, h.iA, ?_⟩
  · intro e he h0; exact tsLe_trans (h.iG e he h0) hmono
  · intro r hr
    have hq := h.rq r hr
    refine ⟨hq.cpos, hq.bestGe, hq.origLe, hq.glt, hq.startLe, hq.bef, hq.befLe, hq.chk, hq.wr, ?_⟩
    intro hp
    obtain ⟨h1, h2⟩ := hq.rt hp
    exact ⟨h1, tsLe_trans h2 hmono⟩

theorem inv_dropReq (st : St) (h : Inv st) : Inv { st with req := none } :=
  ⟨⟨h.wf.srv_mem, h.wf.dc_pos⟩, h.iL, h.iG, h.iW, h.iT, h.gl, h.lg, h.gg, h.ord, h.iA, fun r hr => (by cases hr)⟩

theorem inv_gStart (st : St) (h : Inv st) (c δ : Nat) (hc : c ≠ 0) (hn : st.req = none) :
    Inv { st with glob := (st.glob.1, st.glob.2 + c),
                  req := some { count := c, orig := (st.glob.1 + δ, st.glob.2 + c),
                                est := (st.glob.1 + δ, st.glob.2 + c), phase := .check,
                                pending := st.servers, best := (st.glob.1 + δ, st.glob.2 + c),
                                start := st.clock, before := st.loc } } := by
  have hgt : tsLt st.glob (st.glob.1, st.glob.2 + c) := tsLt_add _ c (by omega)
  have hge : tsLe (st.glob.1, st.glob.2 + c) (st.glob.1 + δ, st.glob.2 + c) := by
    show st.glob.1 < st.glob.1 + δ ∨ (st.glob.1 = st.glob.1 + δ ∧ st.glob.2 + c ≤ st.glob.2 + c); omega
  have h1 := inv_globForward st h _ (tsLe_of_lt hgt)
  refine ⟨⟨h.wf.srv_mem, h.wf.dc_pos⟩, h1.iL, h1.iG, h1.iW, h1.iT, h1.gl, h1.lg, h1.gg, h1.ord, h1.iA, ?_⟩
  intro r hr
  simp only [Option.some.injEq] at hr
  subst hr
  refine ⟨by simp only; omega, fun _ => tsLe_refl _, fun _ => tsLe_refl _, ?_, Nat.le_refl _, ?_, fun d => tsLe_refl _, ?_, ?_, ?_⟩
  · intro e he h0
    exact tsLt_of_le_of_lt (h.iG e he h0) (tsLt_of_lt_of_le hgt hge)
  · intro l hl hld _
    exact h.iL l hl (h.wf.dc_pos _ hld)
  · intro _ d hd hv
    exact absurd (h.wf.srv_mem d hd) hv
  · intro hp; cases hp
  · intro hp; cases hp

theorem mem_filter_ne {l : List Nat} {s x : Nat} : x ∈ l.filter (· ≠ s) ↔ x ∈ l ∧ x ≠ s := by
  simp [List.mem_filter]

theorem inv_gCheck (st : St) (h : Inv st) (r : Req) (hr : st.req = some r) (s : Nat)
    (hp : r.phase = .check) (hs : s ∈ r.pending) :
    Inv (match maxLocal st s with
      | none => { st with req := some { r with pending := r.pending.filter (· ≠ s) } }
      | some m =>
        if tsLe r.est m then
          { st with req := some { r with pending := r.pending.filter (· ≠ s),
                                         best := tsMax r.best (if m = r.est then (m.1, m.2 + 1) else m) } }
        else
          { st with loc := fun i => if i ∈ st.dcs ∧ st.srvOf i = s then r.est else st.loc i,
                    req := some { r with pending := r.pending.filter (· ≠ s) } }) := by
  have hq := h.rq r hr
  split
  · next hnone =>
    refine ⟨⟨h.wf.srv_mem, h.wf.dc_pos⟩, h.iL, h.iG, h.iW, h.iT, h.gl, h.lg, h.gg, h.ord, h.iA, ?_⟩
    intro r' hr'
    simp only [Option.some.injEq] at hr'; subst hr'
    refine ⟨hq.cpos, hq.bestGe, hq.origLe, hq.glt, hq.startLe, hq.bef, hq.befLe, ?_, fun hp' => (by simp [hp] at hp'),
      fun hp' => (by simp [hp] at hp')⟩
    intro _ d hd hv
    have hne := maxLocal_none st s hnone d hd
    apply hq.chk hp d hd
    intro hmem; exact hv (mem_filter_ne.2 ⟨hmem, hne⟩)
  · next m hm =>
    have hub := maxLocal_some st s m hm
    split
    · next hle =>
      -- the server answers a value strictly above the estimate
      generalize hans : (if m = r.est then (m.1, m.2 + 1) else m) = ans
      have hans_gt : tsLt r.est ans ∧ tsLe m ans := by
        rw [← hans]; split
        · next heq => rw [heq]; exact ⟨tsLt_add _ 1 (by omega), tsLe_of_lt (tsLt_add _ 1 (by omega))⟩
        · next hne =>
          refine ⟨?_, tsLe_refl _⟩
          rcases Classical.em (tsLt r.est m) with h1 | h1
          · exact h1
          · exact absurd (tsLe_antisymm (tsLe_of_not_lt h1) hle) hne
      refine ⟨⟨h.wf.srv_mem, h.wf.dc_pos⟩, h.iL, h.iG, h.iW, h.iT, h.gl, h.lg, h.gg, h.ord, h.iA, ?_⟩
      intro r' hr'
      simp only [Option.some.injEq] at hr'; subst hr'
      have hbest : tsLt r.est (tsMax r.best ans) := tsLt_of_lt_of_le hans_gt.1 (tsMax_ge_right _ _)
      refine ⟨hq.cpos, fun _ => tsLe_of_lt hbest, hq.origLe, hq.glt, hq.startLe, hq.bef, hq.befLe, ?_,
        fun hp' => (by simp [hp] at hp'), fun hp' => (by simp [hp] at hp')⟩
      intro _ d hd hv
      by_cases hds : st.srvOf d = s
      · right
        exact ⟨hbest, tsLe_trans (hq.befLe d) (tsLe_trans (hub d hd hds)
          (tsLe_trans hans_gt.2 (tsMax_ge_right _ _)))⟩
      · have hv' : st.srvOf d ∉ r.pending := fun hmem => hv (mem_filter_ne.2 ⟨hmem, hds⟩)
        rcases hq.chk hp d hd hv' with h1 | ⟨h2, h3⟩
        · exact Or.inl h1
        · exact Or.inr ⟨hbest, tsLe_trans h3 (tsMax_ge_left _ _)⟩
    · next hnle =>
      have hlt : tsLt m r.est := tsLt_of_not_le hnle
      have hmono : ∀ i, tsLe (st.loc i) (if i ∈ st.dcs ∧ st.srvOf i = s then r.est else st.loc i) := by
        intro i; split
        · next hi => exact tsLe_of_lt (tsLt_of_le_of_lt (hub i hi.1 hi.2) hlt)
        · exact tsLe_refl _
      have h1 := inv_locForward st h _ hmono
      refine ⟨⟨h.wf.srv_mem, h.wf.dc_pos⟩, h1.iL, h1.iG, h1.iW, h1.iT, h1.gl, h1.lg, h1.gg, h1.ord, h1.iA, ?_⟩
      intro r' hr'
      simp only [Option.some.injEq] at hr'; subst hr'
      have hq1 := h1.rq r hr
      refine ⟨hq.cpos, hq.bestGe, hq.origLe, hq.glt, hq.startLe, hq.bef, hq1.befLe, ?_,
        fun hp' => (by simp [hp] at hp'), fun hp' => (by simp [hp] at hp')⟩
      intro _ d hd hv
      by_cases hds : st.srvOf d = s
      · left
        simp only [hd, hds, and_self, if_true]
        exact ⟨tsLe_refl _, tsLt_of_le_of_lt (tsLe_trans (hq.befLe d) (hub d hd hds)) hlt⟩
      · have hv' : st.srvOf d ∉ r.pending := fun hmem => hv (mem_filter_ne.2 ⟨hmem, hds⟩)
        exact hq1.chk hp d hd hv'

end PdModel.TsoGlobal

namespace PdModel.TsoGlobal

theorem inv_gCollect (st : St) (h : Inv st) (r : Req) (hr : st.req = some r)
    (hp : r.phase = .check) (hpe : r.pending = []) :
    Inv (if tsLt r.orig r.best then
           { st with req := some { r with est := bump st.maxLog st.bits r.best r.count, phase := .write,
                                          pending := st.servers } }
         else { st with req := some { r with phase := .write, pending := [] } }) := by
  have hq := h.rq r hr
  have hall : ∀ d ∈ st.dcs, (tsLe r.est (st.loc d) ∧ tsLt (r.before d) r.est) ∨
      (tsLt r.est r.best ∧ tsLe (r.before d) r.best) :=
    fun d hd => hq.chk hp d hd (by rw [hpe]; simp)
  have hle1 := hq.origLe hp
  have hle2 := hq.bestGe hp
  split
  · next hlt =>
    have hb := bump_gt st.maxLog st.bits r.best r.count hq.cpos
    refine ⟨⟨h.wf.srv_mem, h.wf.dc_pos⟩, h.iL, h.iG, h.iW, h.iT, h.gl, h.lg, h.gg, h.ord, h.iA, ?_⟩
    intro r' hr'
    simp only [Option.some.injEq] at hr'; subst hr'
    refine ⟨hq.cpos, fun hp' => (by cases hp'), fun hp' => (by cases hp'), ?_, hq.startLe, hq.bef, hq.befLe,
      fun hp' => (by cases hp'), ?_, fun hp' => (by cases hp')⟩
    · intro e he h0
      exact tsLt_of_lt_of_le (hq.glt e he h0) (tsLe_trans hle2 (tsLe_of_lt hb))
    · intro _
      refine ⟨?_, ?_⟩
      · intro d hd
        rcases hall d hd with ⟨_, h2⟩ | ⟨_, h3⟩
        · exact tsLt_of_lt_of_le h2 (tsLe_trans hle2 (tsLe_of_lt hb))
        · exact tsLt_of_le_of_lt h3 hb
      · intro d hd hv; exact absurd (h.wf.srv_mem d hd) hv
  · next hnlt =>
    -- nothing larger than the original estimate came back: est = orig = best and every server wrote it
    have hnlt' : ¬ tsLt r.est r.best := by
      intro hcon
      exact hnlt (tsLt_of_le_of_lt hle1 hcon)
    refine ⟨⟨h.wf.srv_mem, h.wf.dc_pos⟩, h.iL, h.iG, h.iW, h.iT, h.gl, h.lg, h.gg, h.ord, h.iA, ?_⟩
    intro r' hr'
    simp only [Option.some.injEq] at hr'; subst hr'
    refine ⟨hq.cpos, fun hp' => (by cases hp'), fun hp' => (by cases hp'), hq.glt, hq.startLe, hq.bef, hq.befLe,
      fun hp' => (by cases hp'), ?_, fun hp' => (by cases hp')⟩
    intro _
    refine ⟨?_, ?_⟩
    · intro d hd
      rcases hall d hd with ⟨_, h2⟩ | ⟨h3, _⟩
      · exact h2
      · exact absurd h3 hnlt'
    · intro d hd _
      rcases hall d hd with ⟨h1, _⟩ | ⟨h3, _⟩
      · exact h1
      · exact absurd h3 hnlt'

theorem inv_gWrite (st : St) (h : Inv st) (r : Req) (hr : st.req = some r) (s : Nat)
    (hp : r.phase = .write) :
    Inv { st with loc := fun i => if i ∈ st.dcs ∧ st.srvOf i = s then tsMax (st.loc i) r.est else st.loc i,
                  req := some { r with pending := r.pending.filter (· ≠ s) } } := by
  have hq := h.rq r hr
  have hmono : ∀ i, tsLe (st.loc i) (if i ∈ st.dcs ∧ st.srvOf i = s then tsMax (st.loc i) r.est else st.loc i) := by
    intro i; split
    · exact tsMax_ge_left _ _
    · exact tsLe_refl _
  have h1 := inv_locForward st h _ hmono
  refine ⟨⟨h.wf.srv_mem, h.wf.dc_pos⟩, h1.iL, h1.iG, h1.iW, h1.iT, h1.gl, h1.lg, h1.gg, h1.ord, h1.iA, ?_⟩
  intro r' hr'
  simp only [Option.some.injEq] at hr'; subst hr'
  have hq1 := h1.rq r hr
  refine ⟨hq.cpos, fun hp' => (by simp [hp] at hp'), fun hp' => (by simp [hp] at hp'), hq.glt, hq.startLe, hq.bef, hq1.befLe, fun hp' => (by simp [hp] at hp'), ?_,
    fun hp' => (by simp [hp] at hp')⟩
  intro _
  obtain ⟨w1, w2⟩ := hq1.wr hp
  refine ⟨w1, ?_⟩
  intro d hd hv
  by_cases hds : st.srvOf d = s
  · simp only [hd, hds, and_self, if_true]; exact tsMax_ge_right _ _
  · exact w2 d hd (fun hmem => hv (mem_filter_ne.2 ⟨hmem, hds⟩))

theorem inv_gPersist (st : St) (h : Inv st) (r : Req) (hr : st.req = some r)
    (hp : r.phase = .write) (hpe : r.pending = []) :
    Inv { st with glob := tsMax st.glob r.est, req := some { r with phase := .ret } } := by
  have hq := h.rq r hr
  have h1 := inv_globForward st h (tsMax st.glob r.est) (tsMax_ge_left _ _)
  refine ⟨⟨h.wf.srv_mem, h.wf.dc_pos⟩, h1.iL, h1.iG, h1.iW, h1.iT, h1.gl, h1.lg, h1.gg, h1.ord, h1.iA, ?_⟩
  intro r' hr'
  simp only [Option.some.injEq] at hr'; subst hr'
  obtain ⟨w1, w2⟩ := hq.wr hp
  refine ⟨hq.cpos, fun hp' => (by cases hp'), fun hp' => (by cases hp'), hq.glt, hq.startLe, hq.bef, hq.befLe, fun hp' => (by cases hp'),
    fun hp' => (by cases hp'), ?_⟩
  intro _
  exact ⟨fun d hd => ⟨w1 d hd, w2 d hd (by rw [hpe]; simp)⟩, tsMax_ge_right _ _⟩

theorem inv_gReturn (st : St) (h : Inv st) (r : Req) (hr : st.req = some r) (hp : r.phase = .ret)
    (hclk : ∀ e ∈ st.events, e.finish < st.clock) :
    Inv { st with req := none, events := ⟨0, r.est, r.start, st.clock⟩ :: st.events } := by
  have hq := h.rq r hr
  obtain ⟨rt1, rt2⟩ := hq.rt hp
  refine ⟨⟨h.wf.srv_mem, h.wf.dc_pos⟩, ?_, ?_, ?_, ?_, ?_, ?_, ?_, ?_, ?_, fun r' hr' => (by cases hr')⟩
  · intro e he h0
    simp only [List.mem_cons] at he
    rcases he with rfl | he
    · exact absurd rfl h0
    · exact h.iL e he h0
  · intro e he h0
    simp only [List.mem_cons] at he
    rcases he with rfl | he
    · exact rt2
    · exact h.iG e he h0
  · intro e he h0 d hd
    simp only [List.mem_cons] at he
    rcases he with rfl | he
    · exact (rt1 d hd).2
    · exact h.iW e he h0 d hd
  · intro e he
    simp only [List.mem_cons] at he
    rcases he with rfl | he
    · exact ⟨Nat.le_refl _, hq.startLe⟩
    · exact h.iT e he
  · intro g hg hg0 l hl hld hlt
    simp only [List.mem_cons] at hg hl
    rcases hg with rfl | hg
    · rcases hl with rfl | hl
      · exact absurd hld (fun hm => h.wf.dc_pos 0 hm rfl)
      · exact tsLt_of_le_of_lt (hq.bef l hl hld hlt) (rt1 l.alloc hld).1
    · rcases hl with rfl | hl
      · exact absurd hld (fun hm => h.wf.dc_pos 0 hm rfl)
      · exact h.gl g hg hg0 l hl hld hlt
  · intro g hg hg0 l hl hld hlt
    simp only [List.mem_cons] at hg hl
    rcases hl with rfl | hl
    · exact absurd hld (fun hm => h.wf.dc_pos 0 hm rfl)
    · rcases hg with rfl | hg
      · have := (h.iT l hl); have := hclk l hl; simp only at hlt; omega
      · exact h.lg g hg hg0 l hl hld hlt
  · simp only [List.pairwise_cons]
    exact ⟨fun e he _ h0 => hq.glt e he h0, h.gg⟩
  · simp only [List.pairwise_cons]
    exact ⟨fun e he => hclk e he, h.ord⟩
  · intro e he
    simp only [List.mem_cons] at he
    rcases he with rfl | he
    · exact Or.inl rfl
    · exact h.iA e he

/-- **every step preserves the invariant** -/
theorem maxAll_some (st : St) (m : TS) (h : maxAll st = some m) : ∀ d ∈ st.dcs, tsLe (st.loc d) m := by
  intro d hd
  obtain ⟨m', hm', hle⟩ := (foldl_maxLocal st.loc st.dcs none).2 d hd
  unfold maxAll at h
  rw [h] at hm'; cases hm'; exact hle

/-- a datacenter joins while no global request is in flight: its allocator starts at (or above) the largest local
    memory, which is at or above every global timestamp returned so far -/
theorem inv_dcJoin (st : St) (h : Inv st) (d s : Nat) (m : TS) (hreq : st.req = none) (hm : maxAll st = some m)
    (hd0 : d ≠ 0) (hdn : d ∉ st.dcs) (hs : s ∈ st.servers) :
    Inv { st with dcs := d :: st.dcs,
                  srvOf := fun i => if i = d then s else st.srvOf i,
                  loc := fun i => if i = d then tsMax (st.loc d) m else st.loc i } := by
  have hmax := maxAll_some st m hm
  have hne : st.dcs ≠ [] := by
    intro he; unfold maxAll at hm; rw [he] at hm; cases hm
  obtain ⟨d0, hd0m⟩ := List.exists_mem_of_ne_nil _ hne
  have hmono : ∀ i, tsLe (st.loc i) (if i = d then tsMax (st.loc d) m else st.loc i) := by
    intro i; split
    · next hi => subst hi; exact tsMax_ge_left _ _
    · exact tsLe_refl _
  have hnoev : ∀ e ∈ st.events, e.alloc ≠ d := by
    intro e he hed
    rcases h.iA e he with h0 | hin
    · exact hd0 (hed ▸ h0)
    · exact hdn (hed ▸ hin)
  refine ⟨⟨?_, ?_⟩, ?_, h.iG, ?_, h.iT, ?_, ?_, h.gg, h.ord, ?_, ?_⟩
  · intro x hx
    simp only [List.mem_cons] at hx
    simp only
    rcases hx with rfl | hx
    · simp [hs]
    · have : x ≠ d := fun hxd => hdn (hxd ▸ hx)
      simp [this, h.wf.srv_mem x hx]
  · intro x hx
    simp only [List.mem_cons] at hx
    rcases hx with rfl | hx
    · exact hd0
    · exact h.wf.dc_pos x hx
  · intro e he h0; exact tsLe_trans (h.iL e he h0) (hmono _)
  · intro e he h0 x hx
    simp only [List.mem_cons] at hx
    rcases hx with rfl | hx
    · simp only [if_pos]
      exact tsLe_trans (tsLe_trans (h.iW e he h0 d0 hd0m) (hmax d0 hd0m)) (tsMax_ge_right _ _)
    · exact tsLe_trans (h.iW e he h0 x hx) (hmono _)
  · intro g hg hg0 l hl hld hlt
    simp only [List.mem_cons] at hld
    rcases hld with hld | hld
    · exact absurd hld (hnoev l hl)
    · exact h.gl g hg hg0 l hl hld hlt
  · intro g hg hg0 l hl hld hlt
    simp only [List.mem_cons] at hld
    rcases hld with hld | hld
    · exact absurd hld (hnoev l hl)
    · exact h.lg g hg hg0 l hl hld hlt
  · intro e he
    rcases h.iA e he with h0 | hin
    · exact Or.inl h0
    · exact Or.inr (List.mem_cons_of_mem _ hin)
  · intro r hr; simp only at hr; rw [hreq] at hr; cases hr

theorem inv_step (st : St) (h : Inv st) (op : Op) : Inv (step st op) := by
  have ht := inv_tick st h
  have hclk : ∀ e ∈ (tick st).events, e.finish < (tick st).clock := by
    intro e he; have := (h.iT e he).1; simp only [tick]; omega
  have hrs : ∀ r, (tick st).req = some r → r.start ≤ (tick st).clock :=
    fun r hr => (ht.rq r hr).startLe
  unfold step
  cases op with
  | localGrant d c =>
    simp only
    split
    · exact ht
    · next hcd =>
      have hdm : d ∈ (tick st).dcs := by
        rcases Classical.em (d ∈ (tick st).dcs) with h1 | h1
        · exact h1
        · exact absurd (Or.inr h1) hcd
      exact inv_localGrant _ ht d c (by omega) hdm hclk hrs
  | localAdvance d t =>
    simp only
    split
    · next hlt =>
      apply inv_locForward _ ht
      intro i; split
      · next hi => subst hi; exact tsLe_of_lt hlt
      · exact tsLe_refl _
    · exact ht
  | globalAdvance t =>
    simp only
    split
    · next hlt => exact inv_globForward _ ht t (tsLe_of_lt hlt)
    · exact ht
  | gStart c δ =>
    simp only
    split
    · exact ht
    · next hn =>
      split
      · exact ht
      · next hc => exact inv_gStart _ ht c δ hc hn
  | gCheck s =>
    simp only
    split
    · exact ht
    · next r hr =>
      split
      · exact ht
      · next hcond =>
        have hp : r.phase = .check := by
          cases hph : r.phase <;> simp_all
        have hs : s ∈ r.pending := by
          rcases Classical.em (s ∈ r.pending) with h1 | h1
          · exact h1
          · exact absurd (Or.inr h1) hcond
        exact inv_gCheck _ ht r hr s hp hs
  | gRepeat =>
    simp only
    split
    · exact ht
    · next r hr =>
      split
      · exact ht
      · next hcond =>
        have hq := ht.rq r hr
        refine ⟨⟨ht.wf.srv_mem, ht.wf.dc_pos⟩, ht.iL, ht.iG, ht.iW, ht.iT, ht.gl, ht.lg, ht.gg, ht.ord, ht.iA, ?_⟩
        intro r' hr'
        simp only [Option.some.injEq] at hr'; subst hr'
        by_cases hpc : r.phase = .check
        · simp only [hpc, if_true]
          have hle2 := hq.bestGe hpc
          refine ⟨hq.cpos, fun _ => tsLe_refl _, fun _ => tsLe_trans (hq.origLe hpc) hle2, ?_, hq.startLe,
            hq.bef, hq.befLe, ?_, fun hp' => (by simp [hpc] at hp'), fun hp' => (by simp [hpc] at hp')⟩
          · intro e he h0; exact tsLt_of_lt_of_le (hq.glt e he h0) hle2
          · intro _ d hd hv; exact absurd (ht.wf.srv_mem d hd) hv
        · simp only [hpc, if_false]
          refine ⟨hq.cpos, fun hp' => absurd hp' hpc, fun hp' => absurd hp' hpc, hq.glt, hq.startLe, hq.bef,
            hq.befLe, fun hp' => absurd hp' hpc, ?_, ?_⟩
          · intro hp'
            exact ⟨(hq.wr hp').1, fun d hd hv => absurd (ht.wf.srv_mem d hd) hv⟩
          · intro hp'
            exact absurd (Or.inl hp') hcond
  | gCollect =>
    simp only
    split
    · exact ht
    · next r hr =>
      split
      · exact ht
      · next hcond =>
        have hp : r.phase = .check := by
          cases hph : r.phase <;> simp_all
        have hpe : r.pending = [] := by
          rcases Classical.em (r.pending = []) with h1 | h1
          · exact h1
          · exact absurd (Or.inr h1) hcond
        exact inv_gCollect _ ht r hr hp hpe
  | gWrite s =>
    simp only
    split
    · exact ht
    · next r hr =>
      split
      · exact ht
      · next hcond =>
        have hp : r.phase = .write := by
          cases hph : r.phase <;> simp_all
        exact inv_gWrite _ ht r hr s hp
  | gPersist =>
    simp only
    split
    · exact ht
    · next r hr =>
      split
      · exact ht
      · next hcond =>
        have hp : r.phase = .write := by
          cases hph : r.phase <;> simp_all
        have hpe : r.pending = [] := by
          rcases Classical.em (r.pending = []) with h1 | h1
          · exact h1
          · exact absurd (Or.inr h1) hcond
        exact inv_gPersist _ ht r hr hp hpe
  | gReturn =>
    simp only
    split
    · exact ht
    · next r hr =>
      split
      · exact ht
      · next hcond =>
        have hp : r.phase = .ret := by
          cases hph : r.phase <;> simp_all
        exact inv_gReturn _ ht r hr hp hclk
  | gAbort => exact inv_dropReq _ ht
  | dcJoin d s =>
    simp only
    split
    · next hreq hm =>
      split
      · exact ht
      · next hc =>
        have hd0 : d ≠ 0 := fun h0 => hc (Or.inl h0)
        have hdn : d ∉ (tick st).dcs := fun hin => hc (Or.inr (Or.inl hin))
        have hs : s ∈ (tick st).servers := by
          rcases Classical.em (s ∈ (tick st).servers) with h1 | h1
          · exact h1
          · exact absurd (Or.inr (Or.inr h1)) hc
        exact inv_dcJoin _ ht d s _ hreq hm hd0 hdn hs
    · exact ht

end PdModel.TsoGlobal
