import PdModel.Lemmas.FitSearch
set_option linter.unusedSimpArgs false
set_option linter.unusedVariables false
/-! From the statement about `fitRule` to the result of `FitRegion`. -/
namespace PdModel.Fit
open PdModel.Spec.C12

theorem fitsM_peers (c : Ctx) : ∀ (rules : List Rule) (A : List (List Nat)), A.length = rules.length →
    (fitsM c rules A).map (·.peers) = A := by
  intro rules
  induction rules with
  | nil => intro A h; cases A <;> simp_all [fitsM]
  | cons r rs ih =>
    intro A h
    cases A with
    | nil => simp at h
    | cons a as => simp only [fitsM, List.map_cons, newRuleFit]; rw [ih as (by simpa using h)]

theorem fitsM_keys (c : Ctx) : ∀ (rules : List Rule) (A : List (List Nat)),
    (fitsM c rules A).map (·.key) = keysOf c.peers rules A := by
  intro rules
  induction rules with
  | nil => intro A; cases A <;> simp [fitsM, keysOf]
  | cons r rs ih =>
    intro A
    cases A with
    | nil => simp [fitsM, keysOf]
    | cons a as => simp only [fitsM, keysOf, List.map_cons, newRuleFit_key, ih]

theorem fitsM_exact (c : Ctx) : ∀ (rules : List Rule) (A : List (List Nat)), A.length = rules.length →
    fitsExact c.peers rules (fitsM c rules A) := by
  intro rules
  induction rules with
  | nil => intro A h; cases A <;> simp_all [fitsM, fitsExact]
  | cons r rs ih =>
    intro A h
    cases A with
    | nil => simp at h
    | cons a as =>
      simp only [fitsM, fitsExact]
      exact ⟨newRuleFit_mismatch c r a, newRuleFit_score c r a, ih as (by simpa using h)⟩

theorem orphanPeers_eq (c : Ctx) (A : List (List Nat)) : orphanPeers c A.flatten = orphansOf c.peers A := rfl

theorem bkeys_some (fs : List RuleFit) : bkeys (fs.map some) = (fs.map (·.key)).map Key.up := by
  simp [bkeys, okey, Function.comp_def]

/-- members of a valid assignment are distinct peers of the region, none of them used before -/
theorem validFrom_flatten (peers : List PeerInfo) : ∀ (rules : List Rule) (used : List Nat) (A : List (List Nat)),
    ValidFrom peers rules used A →
    A.flatten.Nodup ∧ ∀ i ∈ A.flatten, i < peers.length ∧ i ∉ used := by
  intro rules
  induction rules with
  | nil => intro used A h; cases A <;> simp_all [ValidFrom]
  | cons r rs ih =>
    intro used A h
    cases A with
    | nil => simp [ValidFrom] at h
    | cons a as =>
      simp only [ValidFrom] at h
      obtain ⟨hp, hm, _, hv⟩ := h
      obtain ⟨n1, n2⟩ := ih _ _ hv
      simp only [List.flatten_cons, List.nodup_append, List.mem_append]
      refine ⟨⟨hp.imp (fun h => Nat.ne_of_lt h), n1, ?_⟩, ?_⟩
      · intro x hx y hy hxy
        subst hxy
        exact (n2 x hy).2 (List.mem_append_right _ hx)
      · rintro i (hi | hi)
        · refine ⟨?_, (hm i hi).2⟩
          have h1 := (hm i hi).1
          unfold elig at h1
          rcases Nat.lt_or_ge i peers.length with h | h
          · exact h
          · simp [List.getElem?_eq_none h] at h1
        · exact ⟨(n2 i hi).1, fun hu => (n2 i hi).2 (List.mem_append_left _ hu)⟩

/-- every peer is in exactly one rule or in the orphan list -/
theorem partition_perm (peers : List PeerInfo) (rules : List Rule) (A : List (List Nat))
    (h : Valid peers rules A) : (A.flatten ++ orphansOf peers A).Perm (List.range peers.length) := by
  obtain ⟨n1, n2⟩ := validFrom_flatten peers rules [] A h
  rw [List.perm_ext_iff_of_nodup _ List.nodup_range]
  · intro a
    simp only [orphansOf, List.mem_append, List.mem_filter, List.mem_range, Bool.not_eq_true',
      List.contains_eq_mem, decide_eq_false_iff_not]
    constructor
    · rintro (h | h)
      · exact (n2 a h).1
      · exact h.1
    · intro h
      by_cases hm : a ∈ A.flatten
      · exact Or.inl hm
      · exact Or.inr ⟨h, hm⟩
  · rw [List.nodup_append]
    refine ⟨n1, List.Nodup.sublist List.filter_sublist List.nodup_range, ?_⟩
    intro x hx y hy hxy
    subst hxy
    simp only [orphansOf, List.mem_filter, List.mem_range, Bool.not_eq_true',
      List.contains_eq_mem, decide_eq_false_iff_not] at hy
    exact hy.2 hx

theorem orphans_length (peers : List PeerInfo) (rules : List Rule) (A : List (List Nat))
    (h : Valid peers rules A) : A.flatten.length + (orphansOf peers A).length = peers.length := by
  have := (partition_perm peers rules A h).length_eq
  simpa using this

/-- equal keys rule by rule: equally many peers are placed -/
theorem lexEq_total (peers : List PeerInfo) : ∀ (rules : List Rule) (A B : List (List Nat)),
    A.length = rules.length → B.length = rules.length →
    LexEq (keysOf peers rules A) (keysOf peers rules B) → A.flatten.length = B.flatten.length := by
  intro rules
  induction rules with
  | nil => intro A B ha hb _; cases A <;> cases B <;> simp_all
  | cons r rs ih =>
    intro A B ha hb h
    cases A with
    | nil => simp at ha
    | cons a as =>
      cases B with
      | nil => simp at hb
      | cons b bs =>
        simp only [keysOf, LexEq] at h
        have := ih as bs (by simpa using ha) (by simpa using hb) h.2
        have hn : a.length = b.length := by have := h.1; simp only [Key.eqv, keyOf] at this; exact this.1
        simp [this, hn]

end PdModel.Fit
