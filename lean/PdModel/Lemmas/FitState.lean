import PdModel.Lemmas.FitSearch
set_option linter.unusedSimpArgs false
set_option linter.unusedVariables false
/-! The search with mutated-and-restored `selected` flags computes the same as the search that passes the
    set of selected peers down the recursion path, and always leaves the flags as it found them. -/
namespace PdModel.Fit
open PdModel.Spec.C12

theorem unmark_mark (p : Nat) (flags : List Nat) (h : p ∉ flags) : unmark p (mark p flags) = flags := by
  unfold unmark mark
  rw [List.filter_append]
  have h1 : flags.filter (fun q => q != p) = flags := by
    rw [List.filter_eq_self]; intro q hq
    have : q ≠ p := fun e => h (e ▸ hq)
    simpa using this
  simp [h1]

theorem enumPeersS_eq (used : List Nat)
    (leafS : List Nat → List Nat → Best → List Nat → Res × List Nat) (leaf : List Nat → Best → List Nat → Res)
    (hleaf : ∀ sel b o, leafS sel (used ++ sel) b o = (leaf sel b o, used ++ sel)) :
    ∀ (cands : List Nat) (need : Nat) (sel : List Nat) (best : Best) (orph : List Nat),
      (∀ p ∈ cands, p ∉ used ++ sel) → cands.Nodup →
      enumPeersS leafS cands need sel (used ++ sel) best orph = (enumPeers leaf cands need sel best orph, used ++ sel) := by
  intro cands
  induction cands with
  | nil =>
    intro need sel best orph _ _
    cases need with
    | zero => simp [enumPeersS, enumPeers, hleaf]
    | succ k => simp [enumPeersS, enumPeers]
  | cons p rest ih =>
    intro need sel best orph hnot hnd
    rw [List.nodup_cons] at hnd
    cases need with
    | zero => simp [enumPeersS, enumPeers, hleaf]
    | succ k =>
      have hp : p ∉ used ++ sel := hnot p List.mem_cons_self
      have h1 : mark p (used ++ sel) = used ++ (sel ++ [p]) := by simp [mark, List.append_assoc]
      have hnot1 : ∀ q ∈ rest, q ∉ used ++ (sel ++ [p]) := by
        intro q hq hmem
        rw [← List.append_assoc, List.mem_append, List.mem_singleton] at hmem
        rcases hmem with h | h
        · exact hnot q (List.mem_cons_of_mem _ hq) h
        · subst h; exact hnd.1 hq
      have hnot2 : ∀ q ∈ rest, q ∉ used ++ sel := fun q hq => hnot q (List.mem_cons_of_mem _ hq)
      simp only [enumPeersS, enumPeers]
      rw [h1, ih k (sel ++ [p]) best orph hnot1 hnd.2]
      simp only
      rw [← h1, unmark_mark p _ hp, ih (k + 1) sel _ _ hnot2 hnd.2]

theorem compareBestS_eq (c : Ctx) (r : Rule) (isLast : Bool) (used : List Nat)
    (restS : List Nat → Best → List Nat → Res × List Nat) (rest : List Nat → Best → List Nat → Res)
    (hrest : ∀ fl b o, restS fl b o = (rest fl b o, fl)) (sel : List Nat) (best : Best) (orph : List Nat) :
    compareBestS c r isLast restS sel (used ++ sel) best orph =
      (compareBest c r isLast used rest sel best orph, used ++ sel) := by
  unfold compareBestS compareBest
  cases best with
  | nil => rfl
  | cons b bs =>
    simp only [hrest]
    split
    · rfl
    · split
      · split <;> rfl
      · rfl

/-- **the flags are restored and the result is that of `fitRule`** -/
theorem fitRuleS_eq (c : Ctx) : ∀ (rules : List Rule) (flags : List Nat) (best : Best) (orph : List Nat),
    fitRuleS c rules flags best orph = (fitRule c rules flags best orph, flags) := by
  intro rules
  induction rules with
  | nil => intro flags best orph; rfl
  | cons r rs ih =>
    intro flags best orph
    simp only [fitRuleS, fitRule]
    have h := enumPeersS_eq flags
      (compareBestS c r rs.isEmpty (fun fl b o => fitRuleS c rs fl b o))
      (compareBest c r rs.isEmpty flags (fun u b o => fitRule c rs u b o))
      (fun sel b o => compareBestS_eq c r rs.isEmpty flags _ _ (fun fl b o => ih fl b o) sel b o)
      (candidates c r flags)
      (if (candidates c r flags).length < r.count then (candidates c r flags).length else r.count)
      [] best orph
      (by
        intro p hp
        rw [List.append_nil]
        unfold candidates at hp
        split at hp
        · rw [List.mem_filter] at hp
          have := hp.2
          split at this
          · simp only [Bool.and_eq_true, Bool.not_eq_true', List.contains_eq_mem, decide_eq_false_iff_not] at this
            exact this.2
          · cases this
        · simp at hp)
      ((candidates_pairwise c r flags).imp (fun h => Nat.ne_of_lt h))
    rw [List.append_nil] at h
    exact h

theorem runS_eq (c : Ctx) (rules : List Rule) : runS c rules = run c rules := by
  unfold runS run
  rw [fitRuleS_eq]

theorem fitCtxS_eq (c : Ctx) (rules : List Rule) : fitCtxS c rules = fitCtx c rules := by
  unfold fitCtxS fitCtx
  rw [runS_eq]

end PdModel.Fit
