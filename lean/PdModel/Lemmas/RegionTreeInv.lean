import PdModel.Lemmas.RegionTreeOps
set_option linter.unusedSimpArgs false
set_option linter.unusedVariables false
/-!
The invariant of `RegionsInfo` and its preservation by `SetRegion` / `RemoveRegion`, together with the
refinement equations towards the list specification `Spec.C07`.
-/
namespace PdModel.RegionTree
open PdModel.Spec.C07 (WFRange WF Overlap OnStore)

/-! ### peers, roles -/

theorem insertById_perm (p : Peer) (l : List Peer) : (insertById p l).Perm (p :: l) := by
  induction l with
  | nil => exact List.Perm.refl _
  | cons q qs ih =>
    simp only [insertById]
    split
    · exact List.Perm.refl _
    · exact (List.Perm.cons q ih).trans (List.Perm.swap p q qs)

theorem sortById_perm (l : List Peer) : (sortById l).Perm l := by
  induction l with
  | nil => exact List.Perm.refl _
  | cons p l ih =>
    simp only [sortById, List.foldr_cons]
    exact (insertById_perm p _).trans (List.Perm.cons p ih)

theorem mem_sortById {p : Peer} {l : List Peer} : p ∈ sortById l ↔ p ∈ l := (sortById_perm l).mem_iff

/-- `storesFor` lists exactly the stores on which the region has a peer of that kind -/
theorem mem_storesFor {role : Role} {st : Nat} {r : Region} : st ∈ storesFor role r ↔ OnStore role st r := by
  cases role <;>
    simp only [storesFor, OnStore, Region.voters, Region.learners, List.mem_map, List.mem_filter, mem_sortById,
      decide_eq_true_eq, Bool.not_eq_true', ne_eq, decide_not, Bool.not_eq_eq_eq_not, Bool.not_true,
      decide_eq_false_iff_not]
  all_goals simp only [and_assoc]

theorem nodup_map_store_of_sub {l l' : List Peer} (h : (l.map (·.store)).Nodup) (hp : l'.Perm (l.filter q)) :
    (l'.map (·.store)).Nodup := by
  have h1 : ((l.filter q).map (·.store)).Nodup := List.Nodup.sublist (List.Sublist.map _ List.filter_sublist) h
  exact (List.Perm.nodup_iff (List.Perm.map _ hp)).2 h1

/-- every sub-tree of a family is updated at most once by SetRegion -/
theorem storesFor_nodup {role : Role} {r : Region} (h : WF r) : (storesFor role r).Nodup := by
  obtain ⟨_, hp, hq, _⟩ := h
  cases role <;> simp only [storesFor, Region.voters, Region.learners]
  · have := nodup_map_store_of_sub (q := fun p => !p.learner) hp (sortById_perm _)
    exact List.Nodup.sublist (List.Sublist.map _ List.filter_sublist) this
  · have := nodup_map_store_of_sub (q := fun p => !p.learner) hp (sortById_perm _)
    exact List.Nodup.sublist (List.Sublist.map _ List.filter_sublist) this
  · exact nodup_map_store_of_sub (q := fun p => p.learner) hp (sortById_perm _)
  · exact hq

/-- a region sits only in sub-trees of stores that hold one of its peers -/
theorem onStore_mem_peers {role : Role} {st : Nat} {r : Region} (h : WF r) (ho : OnStore role st r) :
    st ∈ r.peers.map (·.store) := by
  obtain ⟨_, _, _, hpend⟩ := h
  cases role <;> simp only [OnStore] at ho
  · obtain ⟨p, hp, _, _, rfl⟩ := ho; exact List.mem_map.2 ⟨p, hp, rfl⟩
  · obtain ⟨p, hp, _, _, rfl⟩ := ho; exact List.mem_map.2 ⟨p, hp, rfl⟩
  · obtain ⟨p, hp, _, rfl⟩ := ho; exact List.mem_map.2 ⟨p, hp, rfl⟩
  · obtain ⟨p, hp, rfl⟩ := ho; exact hpend p hp

/-! ### families of sub-trees -/

def subOf (m : List (Nat × Tree)) (st : Nat) : Tree := (mapGet m st).getD {}

theorem sub_eq (s : RegionsInfo) (role : Role) (st : Nat) : s.sub role st = subOf (s.fam role) st := rfl

@[simp] theorem mapFams_fam (s : RegionsInfo) (F) (role : Role) : (s.mapFams F).fam role = F role (s.fam role) := by
  cases role <;> rfl
@[simp] theorem mapFams_heap (s : RegionsInfo) (F) : (s.mapFams F).heap = s.heap := rfl
@[simp] theorem mapFams_acc (s : RegionsInfo) (F) : (s.mapFams F).acc = s.acc := rfl
@[simp] theorem mapFams_regions (s : RegionsInfo) (F) : (s.mapFams F).regions = s.regions := rfl
@[simp] theorem mapFams_tree (s : RegionsInfo) (F) : (s.mapFams F).tree = s.tree := rfl
@[simp] theorem mapFams_nil (s : RegionsInfo) (F) : (s.mapFams F).nilDeref = s.nilDeref := rfl

theorem remove_empty (acc : Acc) (g : Region) : ({} : Tree).remove acc g = {} := by
  simp [Tree.remove]

theorem subOf_famRemove (acc : Acc) (m : List (Nat × Tree)) (st' : Nat) (g : Region) (st : Nat) :
    subOf (famRemove acc m st' g) st = if st = st' then (subOf m st').remove acc g else subOf m st := by
  unfold famRemove subOf
  cases h : mapGet m st' with
  | none =>
    simp only [Option.getD_none, remove_empty]
    split
    · next e => subst e; simp [h]
    · rfl
  | some t =>
    simp only [mapGet_mapSet, Option.getD_some]
    split <;> simp

theorem subOf_foldl_famRemove (acc : Acc) (g : Region) (stores : List Nat) (hnd : stores.Nodup)
    (m : List (Nat × Tree)) (st : Nat) :
    subOf (stores.foldl (fun m st' => famRemove acc m st' g) m) st =
      if st ∈ stores then (subOf m st).remove acc g else subOf m st := by
  induction stores generalizing m with
  | nil => simp
  | cons s0 rest ih =>
    simp only [List.foldl_cons]
    have hn := List.nodup_cons.1 hnd
    rw [ih hn.2, subOf_famRemove]
    by_cases e : st = s0
    · subst e; simp [hn.1]
    · simp [e]

theorem subOf_famUpdate (acc : Acc) (m : List (Nat × Tree)) (st' : Nat) (x : Nat) (st : Nat) :
    subOf (famUpdate acc m st' x) st = if st = st' then ((subOf m st').update acc x).1 else subOf m st := by
  unfold famUpdate subOf
  simp only [mapGet_mapSet]
  split <;> simp

theorem subOf_foldl_famUpdate (acc : Acc) (x : Nat) (stores : List Nat) (hnd : stores.Nodup)
    (m : List (Nat × Tree)) (st : Nat) :
    subOf (stores.foldl (fun m st' => famUpdate acc m st' x) m) st =
      if st ∈ stores then ((subOf m st).update acc x).1 else subOf m st := by
  induction stores generalizing m with
  | nil => simp
  | cons s0 rest ih =>
    simp only [List.foldl_cons]
    have hn := List.nodup_cons.1 hnd
    rw [ih hn.2, subOf_famUpdate]
    by_cases e : st = s0
    · subst e; simp [hn.1]
    · simp [e]

theorem mapGet_famUpdateStat_isSome (m : List (Nat × Tree)) (st' : Nat) (o r : Region) (st : Nat) :
    (mapGet (famUpdateStat m st' o r) st).isSome = (mapGet m st).isSome := by
  unfold famUpdateStat
  cases h : mapGet m st' with
  | none => rfl
  | some t =>
    simp only [mapGet_mapSet]
    split
    · next e => subst e; simp [h]
    · rfl

theorem subOf_famUpdateStat (m : List (Nat × Tree)) (st' : Nat) (o r : Region) (st : Nat) :
    subOf (famUpdateStat m st' o r) st =
      if st = st' ∧ (mapGet m st').isSome then (subOf m st').updateStat o r else subOf m st := by
  unfold famUpdateStat subOf
  cases h : mapGet m st' with
  | none => simp
  | some t =>
    simp only [mapGet_mapSet, Option.isSome_some, and_true, Option.getD_some]
    split <;> simp

theorem subOf_foldl_famUpdateStat (o r : Region) (stores : List Nat) (hnd : stores.Nodup)
    (m : List (Nat × Tree)) (st : Nat) :
    subOf (stores.foldl (fun m st' => famUpdateStat m st' o r) m) st =
      if st ∈ stores ∧ (mapGet m st).isSome then (subOf m st).updateStat o r else subOf m st := by
  induction stores generalizing m with
  | nil => simp
  | cons s0 rest ih =>
    simp only [List.foldl_cons]
    have hn := List.nodup_cons.1 hnd
    rw [ih hn.2, subOf_famUpdateStat, mapGet_famUpdateStat_isSome]
    by_cases e : st = s0
    · subst e; simp [hn.1]
    · simp [e]

/-! ### sub-trees as filters of the main item list -/

/-- every sub-tree holds exactly the items of `U` whose region has a peer of that kind on that store -/
def SubsOk (s : RegionsInfo) (U : List Nat) : Prop :=
  ∀ role st, TreeIs s.acc (s.sub role st) U (fun a => decide (OnStore role st (s.acc a)))

theorem filter_ne_filter (U : List Nat) (y : Nat) (P : Nat → Bool) :
    (U.filter (fun a => decide (a ≠ y))).filter P = U.filter (fun a => P a && decide (a ≠ y)) := by
  rw [List.filter_filter]

/-- Lemma A: removeRegionFromSubTree of a member takes it out of every sub-tree -/
theorem subsOk_removeSub {s : RegionsInfo} {U : List Nat} {y : Nat} (hU : Ordered s.acc U)
    (hinj : IdInj s.acc U) (hy : y ∈ U) (hwf : WF (s.acc y)) (h : SubsOk s U) :
    SubsOk (removeRegionFromSubTree s (s.acc y)) (U.filter (fun a => decide (a ≠ y))) := by
  intro role st
  unfold removeRegionFromSubTree
  rw [sub_eq, mapFams_fam, mapFams_acc, subOf_foldl_famRemove _ _ _ hwf.2.1, ← sub_eq]
  have h0 := h role st
  unfold TreeIs
  rw [filter_ne_filter]
  split
  · exact Tree.remove_is hU hinj hy h0
  · next hst =>
    apply h0.congr
    intro a ha
    by_cases e : a = y
    · subst e
      have : ¬ OnStore role st (s.acc a) := fun ho => hst (onStore_mem_peers hwf ho)
      simp [this]
    · simp [e]

/-- Lemma B: the sub-trees only depend on the regions of the universe -/
theorem subsOk_congr {s s' : RegionsInfo} {U : List Nat} (hfam : ∀ role, s'.fam role = s.fam role)
    (hacc : ∀ a ∈ U, s'.acc a = s.acc a) (h : SubsOk s U) : SubsOk s' U := by
  intro role st
  have h0 := h role st
  have hsub : s'.sub role st = s.sub role st := by rw [sub_eq, sub_eq, hfam]
  have hf : U.filter (fun a => decide (OnStore role st (s'.acc a))) =
      U.filter (fun a => decide (OnStore role st (s.acc a))) := by
    apply List.filter_congr; intro a ha; rw [hacc a ha]
  unfold TreeIs
  rw [hsub, hf]
  refine ⟨h0.1, ?_⟩
  rw [h0.2]
  symm
  apply sumOf_congr
  intro a ha
  exact hacc a (List.mem_filter.1 ha).1

/-- Lemma C: the add loops of SetRegion put the item into the sub-trees of its peers' stores -/
theorem subsOk_add {s : RegionsInfo} {V : List Nat} {x : Nat} (hV : Ordered s.acc V) (hx : x ∈ V)
    (hwf : WF (s.acc x)) (h : SubsOk s (V.filter (fun a => decide (a ≠ x)))) :
    SubsOk (addToSubTrees s x (s.acc x)) V := by
  intro role st
  unfold addToSubTrees
  rw [sub_eq, mapFams_fam, mapFams_acc, subOf_foldl_famUpdate _ _ _ (storesFor_nodup hwf), ← sub_eq]
  have h0 := h role st
  unfold TreeIs at h0
  rw [filter_ne_filter] at h0
  split
  · next hst =>
    have hP : OnStore role st (s.acc x) := mem_storesFor.1 hst
    have := (Tree.update_is hV hx h0 (by simp)).1
    apply this.congr
    intro a ha
    by_cases e : a = x
    · subst e; simp [hP]
    · simp [e]
  · next hst =>
    have hP : ¬ OnStore role st (s.acc x) := fun ho => hst (mem_storesFor.2 ho)
    apply TreeIs.congr h0
    intro a ha
    by_cases e : a = x
    · subst e; simp [hP]
    · simp [e]

/-! ### the heap -/

theorem acc_set (s : RegionsInfo) (x : Nat) (r : Region) (hx : x < s.heap.length) (a : Nat) :
    ({ s with heap := s.heap.set x r } : RegionsInfo).acc a = if a = x then r else s.acc a := by
  unfold RegionsInfo.acc
  simp only [List.getD_eq_getElem?_getD, List.getElem?_set]
  by_cases e : a = x
  · subst e; simp [hx]
  · have : ¬ x = a := fun h => e h.symm
    simp [e, this]

theorem acc_push (s : RegionsInfo) (r : Region) (m : List (Nat × Nat)) (a : Nat) :
    ({ s with heap := s.heap ++ [r], regions := m } : RegionsInfo).acc a =
      if a = s.heap.length then r else s.acc a := by
  unfold RegionsInfo.acc
  simp only [List.getD_eq_getElem?_getD, List.getElem?_append]
  by_cases e : a = s.heap.length
  · subst e; simp
  · simp only [e, if_false]
    split
    · rfl
    · next h =>
      have h1 : s.heap.length ≤ a := by omega
      have h2 : ([r] : List Region).length ≤ a - s.heap.length := by simp; omega
      rw [List.getElem?_eq_none h2, List.getElem?_eq_none h1]

/-! ### unchanged peers -/

def peerProj (p : Peer) : Nat × Nat := (p.store, p.id)

theorem stores_of_proj (l : List Peer) (q : Nat → Bool) :
    (l.filter (fun p => q p.id)).map (·.store) = ((l.map peerProj).filter (fun e => q e.2)).map (·.1) := by
  rw [List.filter_map, List.map_map]
  rfl

theorem sortedPeersEqual_iff (a b : List Peer) : sortedPeersEqual a b = true ↔ a.map peerProj = b.map peerProj := by
  unfold sortedPeersEqual
  rw [beq_iff_eq]
  rfl

/-- when `shouldRemoveFromSubTree` says "unchanged", the region belongs to the same sub-trees as before -/
theorem storesFor_eq_of_unchanged {r o : Region} (h : shouldRemoveFromSubTree r o = false) (role : Role) :
    storesFor role r = storesFor role o := by
  unfold shouldRemoveFromSubTree at h
  simp only [Bool.or_eq_false_iff, Bool.not_eq_false', decide_eq_false_iff_not, ne_eq, Decidable.not_not,
    sortedPeersEqual_iff] at h
  obtain ⟨⟨⟨hl, hv⟩, hle⟩, hp⟩ := h
  cases role <;> simp only [storesFor]
  · have e1 := stores_of_proj r.voters (fun i => decide (i = r.leader))
    have e2 := stores_of_proj o.voters (fun i => decide (i = o.leader))
    rw [e1, e2, hv, hl]
  · have e1 := stores_of_proj r.voters (fun i => decide (i ≠ r.leader))
    have e2 := stores_of_proj o.voters (fun i => decide (i ≠ o.leader))
    rw [e1, e2, hv, hl]
  · have : ∀ l : List Peer, l.map (·.store) = (l.map peerProj).map (·.1) := by
      intro l; rw [List.map_map]; rfl
    rw [this r.learners, this o.learners, hle]
  · have : ∀ l : List Peer, l.map (·.store) = (l.map peerProj).map (·.1) := by
      intro l; rw [List.map_map]; rfl
    rw [this r.pending, this o.pending, hp]

/-- Lemma D: same range, same peers – the item stays where it is, the counters follow the new size -/
theorem subsOk_updateStat {s : RegionsInfo} {U : List Nat} {x : Nat} {r : Region} (hU : Ordered s.acc U)
    (hx : x ∈ U) (hxl : x < s.heap.length) (hwf : WF r) (hsame : shouldRemoveFromSubTree r (s.acc x) = false)
    (h : SubsOk s U) :
    SubsOk (updateSubTreeStat { s with heap := s.heap.set x r } (s.acc x) r) U := by
  intro role st
  have h0 := h role st
  have hon : ∀ a, OnStore role st (({ s with heap := s.heap.set x r } : RegionsInfo).acc a) ↔
      OnStore role st (s.acc a) := by
    intro a
    rw [acc_set s x r hxl]
    split
    · next e =>
      subst e
      rw [← mem_storesFor, ← mem_storesFor, storesFor_eq_of_unchanged hsame]
    · rfl
  have hf : U.filter (fun a => decide (OnStore role st (({ s with heap := s.heap.set x r } : RegionsInfo).acc a))) =
      U.filter (fun a => decide (OnStore role st (s.acc a))) := by
    apply List.filter_congr; intro a _; simp [hon a]
  have hnd : (U.filter (fun a => decide (OnStore role st (s.acc a)))).Nodup :=
    (((hU.asc _).filter _ _)).nodup _
  unfold updateSubTreeStat TreeIs
  rw [sub_eq, mapFams_fam, mapFams_acc, subOf_foldl_famUpdateStat _ _ _ (storesFor_nodup hwf), hf]
  have hfam : ({ s with heap := s.heap.set x r } : RegionsInfo).fam role = s.fam role := by cases role <;> rfl
  rw [hfam, ← sub_eq]
  by_cases hst : st ∈ storesFor role r
  · have hPx : OnStore role st (s.acc x) := by
      rw [← mem_storesFor, ← storesFor_eq_of_unchanged hsame]; exact hst
    have hxM : x ∈ U.filter (fun a => decide (OnStore role st (s.acc a))) :=
      List.mem_filter.2 ⟨hx, by simp [hPx]⟩
    have hsome : (mapGet (s.fam role) st).isSome = true := by
      cases hg : mapGet (s.fam role) st with
      | some t => rfl
      | none =>
        have : (s.sub role st).items = [] := by simp [RegionsInfo.sub, hg]
        rw [h0.1] at this
        rw [this] at hxM; cases hxM
    simp only [hst, hsome, and_self, if_true, Tree.updateStat]
    refine ⟨h0.1, ?_⟩
    have hup := sumOf_update (acc := s.acc) (acc' := ({ s with heap := s.heap.set x r } : RegionsInfo).acc)
      hnd hxM (fun a ha => by rw [acc_set s x r hxl]; simp [ha])
    rw [acc_set s x r hxl] at hup
    simp only [if_true] at hup
    rw [hup, h0.2]
  · have hPx : ¬ OnStore role st (s.acc x) := by
      rw [← mem_storesFor, ← storesFor_eq_of_unchanged hsame]; exact hst
    simp only [hst, false_and, if_false]
    refine ⟨h0.1, ?_⟩
    rw [h0.2]
    symm
    apply sumOf_congr
    intro a ha
    rw [acc_set s x r hxl]
    have : a ≠ x := fun e => hPx (by simpa [e] using (List.mem_filter.1 ha).2)
    simp [this]

end PdModel.RegionTree
