import PdModel.Lemmas.BuilderCalls
set_option linter.unusedSimpArgs false
set_option linter.unusedVariables false
/-! CreateLeaveJointStateOperator: shape of the steps and safety. -/
namespace PdModel.Builder
open PdModel.Steps PdModel.Spec PdModel.Spec.C08

theorem length_insertSorted (x : Nat) (l : List Nat) : (insertSorted x l).length = l.length + 1 := by
  induction l with
  | nil => rfl
  | cons y ys ih => simp only [insertSorted]; split <;> simp [ih]

theorem length_sortIds (l : List Nat) : (sortIds l).length = l.length := by
  induction l with
  | nil => rfl
  | cons y ys ih =>
    simp only [sortIds, List.foldr_cons] at ih ⊢
    rw [length_insertSorted, ih]; rfl

theorem length_pmSorted (l : List Peer) : (pmSorted l).length = l.length := by
  have : (stores (pmSorted l)).length = (sortIds (stores l)).length := by rw [stores_pmSorted]
  simpa [stores, length_sortIds] using this

theorem countJoint_split (l : List Peer) (x : Nat) :
    countJoint ⟨l, x⟩ = (l.filter (fun p => p.role == .incoming)).length +
      (l.filter (fun p => p.role == .demoting)).length := by
  simp only [countJoint]
  induction l with
  | nil => rfl
  | cons p ps ih =>
    simp only [List.countP_cons, List.filter_cons, ih]
    cases hr : p.role <;> simp [isJointRole] <;> omega

/-- the leader chosen by `leaveJointLeader` is 0 or the store of an origin peer that is a voter of the
    incoming configuration -/
theorem leaveJointLeader_spec (b : B) (hT : b.targetPeers = b.originPeers) :
    let b' := leaveJointLeader b
    b'.steps = b.steps ∧ b'.toPromote = b.toPromote ∧ b'.toDemote = b.toDemote ∧
    b'.originLeader = b.originLeader ∧ b'.originPeers = b.originPeers ∧
    b'.cur = ⟨b.originPeers, b.originLeader⟩ ∧
    (b'.targetLeader = 0 ∨ ∃ p ∈ b.originPeers, p.store = b'.targetLeader ∧ p.role ≠ .learner ∧ p.role ≠ .demoting) := by
  intro b'
  have h1 : (leaveJointFirst b).steps = b.steps ∧ (leaveJointFirst b).toPromote = b.toPromote ∧
      (leaveJointFirst b).toDemote = b.toDemote ∧ (leaveJointFirst b).originLeader = b.originLeader ∧
      (leaveJointFirst b).originPeers = b.originPeers ∧ (leaveJointFirst b).targetPeers = b.targetPeers ∧
      ((leaveJointFirst b).targetLeader = 0 ∨ ∃ p ∈ b.originPeers, p.store = (leaveJointFirst b).targetLeader ∧
        p.role ≠ .learner ∧ p.role ≠ .demoting) := by
    unfold leaveJointFirst
    split
    · next leader hl =>
      split
      · next ha =>
        refine ⟨rfl, rfl, rfl, rfl, rfl, rfl, Or.inr ⟨leader, (pmGet_some hl).1, (pmGet_some hl).2, ?_⟩⟩
        unfold allowLeader at ha
        split at ha
        · cases ha
        · next hne => simpa using hne
      · exact ⟨rfl, rfl, rfl, rfl, rfl, rfl, Or.inl rfl⟩
    · exact ⟨rfl, rfl, rfl, rfl, rfl, rfl, Or.inl rfl⟩
  obtain ⟨a1, a2, a3, a4, a5, a6, a7⟩ := h1
  generalize hb1 : leaveJointFirst b = b1 at a1 a2 a3 a4 a5 a6 a7
  obtain ⟨k3, d1, d2, d3, d4, d5, d6⟩ := setTarget_spec (startCurrent b1)
  generalize hb3 : setTargetLeaderIfNotExist (startCurrent b1) = b3 at k3 d1 d2 d3 d4 d5 d6
  have hb' : b' = if b3.targetLeader == 0 then setTargetLeaderIfNotExist (forceLeader b3) else b3 := by
    show leaveJointLeader b = _
    unfold leaveJointLeader
    rw [hb1, hb3]
  have t3 : b3.targetLeader = 0 ∨ ∃ p ∈ b.originPeers, p.store = b3.targetLeader ∧ p.role ≠ .learner ∧ p.role ≠ .demoting := by
    rcases d6 with ⟨_, e⟩ | ⟨_, e | ⟨p, hp, hps, hr⟩⟩
    · rw [e]; exact a7
    · left; exact e
    · right; refine ⟨p, ?_, hps, hr⟩
      have : (startCurrent b1).targetPeers = b.originPeers := by show b1.targetPeers = _; rw [a6, hT]
      rw [this] at hp; exact hp
  have s1 : b3.steps = b.steps := by rw [d1]; show b1.steps = _; exact a1
  have s2 : b3.toPromote = b.toPromote := by rw [d2]; show b1.toPromote = _; exact a2
  have s3 : b3.toDemote = b.toDemote := by rw [d3]; show b1.toDemote = _; exact a3
  have s4 : b3.originLeader = b.originLeader := by rw [k3.originLeader]; show b1.originLeader = _; exact a4
  have s5 : b3.originPeers = b.originPeers := by rw [k3.originPeers]; show b1.originPeers = _; exact a5
  have s6 : b3.cur = ⟨b.originPeers, b.originLeader⟩ := by
    rw [d5]; show (⟨b1.originPeers, b1.originLeader⟩ : Region) = _; rw [a5, a4]
  have s7 : b3.targetPeers = b.originPeers := by rw [k3.targetPeers]; show b1.targetPeers = _; rw [a6, hT]
  by_cases h0 : (b3.targetLeader == 0) = true
  · rw [if_pos h0] at hb'
    obtain ⟨k4, f1, f2, f3, f4, f5, f6⟩ := setTarget_spec (forceLeader b3)
    rw [hb']
    refine ⟨?_, ?_, ?_, ?_, ?_, ?_, ?_⟩
    · rw [f1]; exact s1
    · rw [f2]; exact s2
    · rw [f3]; exact s3
    · rw [k4.originLeader]; exact s4
    · rw [k4.originPeers]; exact s5
    · rw [f5]; exact s6
    · rcases f6 with ⟨hne, _⟩ | ⟨_, e | ⟨p, hp, hps, hr⟩⟩
      · exact absurd (show (forceLeader b3).targetLeader = 0 from (by simpa using h0 : b3.targetLeader = 0)) hne
      · left; exact e
      · right; refine ⟨p, ?_, hps, hr⟩
        have : (forceLeader b3).targetPeers = b.originPeers := s7
        rw [this] at hp; exact hp
  · rw [if_neg h0] at hb'
    rw [hb']
    exact ⟨s1, s2, s3, s4, s5, s6, t3⟩

/-- leaving a joint state from a well-formed region whose leader `t` is a voter of the incoming
    configuration: the `Leave` step (with all incoming / demoting peers listed) is safe and ends in the
    region with incoming → voter, demoting → learner -/
theorem leave_step_safe (O : List Peer) (t m : Nat) (hn : (stores O).Nodup)
    (ht : ∃ p ∈ O, p.store = t ∧ (p.role = .voter ∨ p.role = .incoming))
    (hm : m ≤ voterCount ⟨O, t⟩) :
    let P := toItems (pmSorted (O.filter (fun o => o.role == .incoming)))
    let D := toItems (pmSorted (O.filter (fun o => o.role == .demoting)))
    StepOk m ⟨O, t⟩ (.leave P D) ∧
    Final ⟨O.map (fun p => (p.store, leaveRole p.role)), 0⟩ (apply ⟨O, t⟩ (.leave P D)) := by
  intro P D
  have hnI : (stores (O.filter (fun o => o.role == .incoming))).Nodup :=
    List.Nodup.sublist (List.Sublist.map _ List.filter_sublist) hn
  have hnD : (stores (O.filter (fun o => o.role == .demoting))).Nodup :=
    List.Nodup.sublist (List.Sublist.map _ List.filter_sublist) hn
  obtain ⟨pt, hpt, hpts, hptr⟩ := ht
  have hgt : pmGet O t = some pt := hpts ▸ pmGet_of_mem hn hpt
  refine ⟨⟨?_, ?_, rfl, ?_, ?_⟩, ?_⟩
  · -- CheckSafety
    apply checkSafety_leave
    · rw [countJoint_split]
      simp only [P, D, toItems, List.length_map, length_pmSorted]
    · intro it hit
      simp only [P, toItems, List.mem_map] at hit
      obtain ⟨x, hx, rfl⟩ := hit
      have hx' := (List.mem_filter.1 (mem_pmSorted_mem hx))
      exact ⟨x, pmGet_of_mem hn hx'.1, rfl, by simpa using hx'.2⟩
    · intro it hit
      simp only [D, toItems, List.mem_map] at hit
      obtain ⟨x, hx, rfl⟩ := hit
      have hx' := (List.mem_filter.1 (mem_pmSorted_mem hx))
      refine ⟨x, pmGet_of_mem hn hx'.1, rfl, by simpa using hx'.2, ?_⟩
      intro e
      simp only at e
      have h1 := pmGet_of_mem hn hx'.1
      rw [e, hgt] at h1
      cases h1
      have : pt.role = .demoting := by simpa using hx'.2
      rcases hptr with h | h <;> rw [h] at this <;> cases this
  · -- the leader is a full voter
    simp only [leaderKept, isFullVoter, storePeer_eq_pmGet, hgt]
    rcases hptr with h | h <;> simp [h]
  · rw [apply_leave, onePerStore_iff, stores_map leaveF_store]; exact hn
  · rw [apply_leave]
    have hplain : plainRoles (O.map leaveF) := by
      intro q hq
      obtain ⟨p, _, rfl⟩ := List.mem_map.1 hq
      simp only [leaveF]
      cases p.role <;> simp [leaveRole]
    rw [plain_voterCount hplain]
    have : votersOf (O.map leaveF) = newVoters ⟨O, t⟩ := by
      simp only [votersOf, newVoters, List.countP_map]
      apply List.countP_congr
      intro p _
      simp only [Function.comp, leaveF]
      cases p.role <;> simp [leaveRole]
    rw [this]
    simp only [voterCount] at hm
    omega
  · rw [apply_leave]
    refine ⟨?_, ?_, ?_, ?_, Or.inl rfl⟩
    · intro q hq
      obtain ⟨p, hp, rfl⟩ := List.mem_map.1 hq
      exact List.mem_map.2 ⟨p, hp, rfl⟩
    · intro x hx
      obtain ⟨p, hp, rfl⟩ := List.mem_map.1 hx
      exact ⟨leaveF p, List.mem_map.2 ⟨p, hp, rfl⟩, rfl, rfl⟩
    · rw [onePerStore_iff, stores_map leaveF_store]; exact hn
    · simp only [isFullVoter, storePeer_eq_pmGet, pmGet_map leaveF_store, hgt, Option.map_some, leaveF]
      rcases hptr with h | h <;> simp [h, leaveRole]

end PdModel.Builder
