import PdModel.Lemmas.BuilderJoint
set_option linter.unusedSimpArgs false
set_option linter.unusedVariables false
set_option linter.unusedSectionVars false
/-! `JointCtx` for the data computed by prepareBuild + the first loops of buildStepsWithJointConsensus. -/
namespace PdModel.Builder
open PdModel.Steps PdModel.Spec PdModel.Spec.C08

section
variable (b0 : B) (rec : Recorded b0) (hd : b0.allowDemote = true) (nid : Nat) (A' : List Peer)
  (hA : allocIds ((pmSorted b0.targetPeers).filter (needAdd (diffOrigin (clearPending b0)))) nid = .ok A')
include rec hd hA

/-- the peers to add are exactly the target peers on stores without an origin peer -/
theorem toAdd_facts :
    (stores A').Nodup ∧
    (∀ a ∈ A', a.store ∉ stores b0.originPeers ∧ ∃ n ∈ b0.targetPeers, n.store = a.store ∧ n.role = a.role) ∧
    (∀ n ∈ b0.targetPeers, n.store ∉ stores b0.originPeers → ∃ a ∈ A', a.store = n.store ∧ a.role = n.role) := by
  have hspec := allocIds_spec _ _ _ hA
  have hcd : (clearPending b0).allowDemote = true := hd
  have hmemF : ∀ n, n ∈ (pmSorted b0.targetPeers).filter (needAdd (diffOrigin (clearPending b0))) ↔
      n ∈ b0.targetPeers ∧ n.store ∉ stores b0.originPeers := by
    intro n
    rw [List.mem_filter, mem_pmSorted rec.nodupT, needAdd_joint (clearPending b0) hcd]
    rfl
  obtain ⟨m1, m2⟩ := map_eq_mem (fun p : Peer => (p.store, p.role)) _ _ hspec
  refine ⟨?_, ?_, ?_⟩
  · have e : stores A' = stores ((pmSorted b0.targetPeers).filter (needAdd (diffOrigin (clearPending b0)))) := by
      have := congrArg (List.map Prod.fst) hspec
      simpa [stores, List.map_map, Function.comp_def] using this
    rw [e]
    exact List.Nodup.sublist (List.Sublist.map _ List.filter_sublist) (nodup_pmSorted rec.nodupT)
  · intro a ha
    obtain ⟨n, hn, e⟩ := m1 a ha
    simp only [Prod.mk.injEq] at e
    obtain ⟨hnT, hnO⟩ := (hmemF n).1 hn
    exact ⟨e.1 ▸ hnO, n, hnT, e.1, e.2⟩
  · intro n hnT hnO
    obtain ⟨a, ha, e⟩ := m2 n ((hmemF n).2 ⟨hnT, hnO⟩)
    simp only [Prod.mk.injEq] at e
    exact ⟨a, ha, e.1, e.2⟩

end

def jdA (A' : List Peer) : List Peer := pmSorted A'
def jdR (b0 : B) : List Peer := pmSorted (diffOrigin (clearPending b0)).toRemove
def jdS (b0 : B) (A' : List Peer) : List Peer := b0.originPeers ++ (jdA A').map asLearner
def jdPm (b0 : B) (A' : List Peer) : List Peer :=
  ((jdA A').filter (fun p => !isLearner p)).foldl pmSet (diffOrigin (clearPending b0)).toPromote
def jdDm (b0 : B) : List Peer :=
  (((jdR b0).filter (fun p => !isLearner p)).map asLearner).foldl pmSet (diffOrigin (clearPending b0)).toDemote
def jdP (b0 : B) (A' : List Peer) : List Item := toItems (pmSorted (jdPm b0 A'))
def jdD (b0 : B) : List Item := toItems (pmSorted (jdDm b0))

section
variable (b0 : B) (rec : Recorded b0) (hd : b0.allowDemote = true) (nid : Nat) (A' : List Peer)
  (hA : allocIds ((pmSorted b0.targetPeers).filter (needAdd (diffOrigin (clearPending b0)))) nid = .ok A')
include rec hd hA

theorem jd_A_facts :
    (stores (jdA A')).Nodup ∧
    (∀ a ∈ jdA A', a.store ∉ stores b0.originPeers ∧ ∃ n ∈ b0.targetPeers, n.store = a.store ∧ n.role = a.role) ∧
    (∀ n ∈ b0.targetPeers, n.store ∉ stores b0.originPeers → ∃ a ∈ jdA A', a.store = n.store ∧ a.role = n.role) := by
  obtain ⟨h1, h2, h3⟩ := toAdd_facts b0 rec hd nid A' hA
  refine ⟨nodup_pmSorted h1, ?_, ?_⟩
  · intro a ha; exact h2 a (mem_pmSorted_mem ha)
  · intro n hn hs
    obtain ⟨a, ha, e⟩ := h3 n hn hs
    exact ⟨a, (mem_pmSorted h1).2 ha, e⟩

theorem jd_R_mem (o : Peer) : o ∈ jdR b0 ↔ o ∈ b0.originPeers ∧ o.store ∉ stores b0.targetPeers := by
  have hcd : (clearPending b0).allowDemote = true := hd
  have hnR : (stores (diffOrigin (clearPending b0)).toRemove).Nodup :=
    List.Nodup.sublist (List.Sublist.map _ List.filter_sublist) rec.nodupO
  unfold jdR
  rw [mem_pmSorted hnR, mem_toRemove_joint (clearPending b0) hcd]
  rfl

theorem jd_nodupS : (stores (jdS b0 A')).Nodup := by
  obtain ⟨h1, h2, _⟩ := jd_A_facts b0 rec hd nid A' hA
  unfold jdS
  simp only [stores, List.map_append, List.map_map]
  rw [List.nodup_append]
  refine ⟨rec.nodupO, ?_, ?_⟩
  · have : (List.map ((fun x => x.store) ∘ asLearner) (jdA A')) = stores (jdA A') := by
      simp [stores, asLearner, Function.comp_def]
    rw [this]; exact h1
  · intro x hx y hy e
    subst e
    obtain ⟨a, ha, e⟩ := List.mem_map.1 hy
    simp only [Function.comp, asLearner] at e
    exact (h2 a ha).1 (e ▸ hx)

theorem jd_mem_S (p : Peer) : p ∈ jdS b0 A' ↔ p ∈ b0.originPeers ∨ ∃ a ∈ jdA A', p = asLearner a := by
  unfold jdS
  simp only [List.mem_append, List.mem_map]
  constructor
  · rintro (h | ⟨a, ha, rfl⟩)
    · exact Or.inl h
    · exact Or.inr ⟨a, ha, rfl⟩
  · rintro (h | ⟨a, ha, rfl⟩)
    · exact Or.inl h
    · exact Or.inr ⟨a, ha, rfl⟩

theorem jd_Pm_eq : jdPm b0 A' = (diffOrigin (clearPending b0)).toPromote ++ (jdA A').filter (fun p => !isLearner p) := by
  obtain ⟨h1, h2, _⟩ := jd_A_facts b0 rec hd nid A' hA
  have hcd : (clearPending b0).allowDemote = true := hd
  unfold jdPm
  apply foldl_pmSet_fresh
  · intro x hx hs
    obtain ⟨n, hn, e⟩ := mem_stores.1 hs
    obtain ⟨o, ho, _, _, _, _, rfl⟩ := (mem_toPromote_joint (clearPending b0) hcd n).1 hn
    exact (h2 x (List.mem_filter.1 hx).1).1 (e ▸ mem_stores.2 ⟨o, ho, rfl⟩)
  · exact List.Nodup.sublist (List.Sublist.map _ List.filter_sublist) h1

theorem jd_Dm_eq : jdDm b0 = (diffOrigin (clearPending b0)).toDemote ++
    ((jdR b0).filter (fun p => !isLearner p)).map asLearner := by
  have hcd : (clearPending b0).allowDemote = true := hd
  unfold jdDm
  apply foldl_pmSet_fresh
  · intro x hx hs
    obtain ⟨r, hr, rfl⟩ := List.mem_map.1 hx
    obtain ⟨n, hn, e⟩ := mem_stores.1 hs
    obtain ⟨o, ho, _, n0, hg, _, rfl⟩ := (mem_toDemote_joint (clearPending b0) hcd n).1 hn
    have hrR := (jd_R_mem b0 rec hd nid A' hA r).1 (List.mem_filter.1 hr).1
    apply hrR.2
    simp only [asLearner] at e
    rw [← e]
    exact mem_stores.2 ⟨n0, (pmGet_some hg).1, (pmGet_some hg).2⟩
  · have hnR : (stores (jdR b0)).Nodup :=
      nodup_pmSorted (List.Nodup.sublist (List.Sublist.map _ List.filter_sublist) rec.nodupO)
    have : stores (((jdR b0).filter (fun p => !isLearner p)).map asLearner) =
        stores ((jdR b0).filter (fun p => !isLearner p)) := by
      simp [stores, asLearner, List.map_map, Function.comp_def]
    rw [this]
    exact List.Nodup.sublist (List.Sublist.map _ List.filter_sublist) hnR

theorem jd_inP (s : Nat) : inItems (jdP b0 A') s = true ↔
    (∃ o ∈ b0.originPeers, o.store = s ∧ o.role = .learner ∧ finV b0.targetPeers s = true) ∨
    (∃ a ∈ jdA A', a.store = s ∧ a.role ≠ .learner) := by
  have hcd : (clearPending b0).allowDemote = true := hd
  unfold jdP
  rw [inItems_toItems_sorted, jd_Pm_eq b0 rec hd nid A' hA]
  simp only [stores, List.map_append, List.mem_append, List.mem_map, List.mem_filter]
  constructor
  · rintro (⟨n, hn, rfl⟩ | ⟨a, ⟨ha, hr⟩, rfl⟩)
    · obtain ⟨o, ho, hl, n0, hg, hr, rfl⟩ := (mem_toPromote_joint (clearPending b0) hcd n).1 hn
      left
      refine ⟨o, ho, rfl, hl, finV_iff.2 ⟨n0, (pmGet_some hg).1, (pmGet_some hg).2, ?_⟩⟩
      rcases rec.plainT n0 (pmGet_some hg).1 with e | e
      · exact e
      · exact absurd e hr
    · right; exact ⟨a, ha, rfl, by simpa [isLearner] using hr⟩
  · rintro (⟨o, ho, rfl, hl, hf⟩ | ⟨a, ha, rfl, hr⟩)
    · left
      obtain ⟨n0, hn0, hs, hv⟩ := finV_iff.1 hf
      refine ⟨⟨o.store, o.id, n0.role⟩, ?_, rfl⟩
      refine (mem_toPromote_joint (clearPending b0) hcd _).2 ⟨o, ho, hl, n0, ?_, by rw [hv]; simp, rfl⟩
      exact (pmGet_iff rec.nodupT).2 ⟨hn0, hs⟩
    · right; exact ⟨a, ⟨ha, by simpa [isLearner] using hr⟩, rfl⟩

theorem jd_inD (s : Nat) : inItems (jdD b0) s = true ↔
    ∃ o ∈ b0.originPeers, o.store = s ∧ o.role = .voter ∧ finV b0.targetPeers s = false := by
  have hcd : (clearPending b0).allowDemote = true := hd
  unfold jdD
  rw [inItems_toItems_sorted, jd_Dm_eq b0 rec hd nid A' hA]
  simp only [stores, List.map_append, List.mem_append, List.mem_map, List.mem_filter]
  constructor
  · rintro (⟨n, hn, rfl⟩ | ⟨x, ⟨r, ⟨hr, hrl⟩, rfl⟩, rfl⟩)
    · obtain ⟨o, ho, hl, n0, hg, hr, rfl⟩ := (mem_toDemote_joint (clearPending b0) hcd n).1 hn
      refine ⟨o, ho, rfl, ?_, ?_⟩
      · rcases rec.plainO o ho with e | e
        · exact e
        · exact absurd e hl
      · have := finV_false_of_learner rec.nodupT (pmGet_some hg).1 hr
        rw [(pmGet_some hg).2] at this; exact this
    · obtain ⟨hrO, hrT⟩ := (jd_R_mem b0 rec hd nid A' hA r).1 hr
      refine ⟨r, hrO, rfl, ?_, finV_false_of_not_mem hrT⟩
      rcases rec.plainO r hrO with e | e
      · exact e
      · simp [isLearner, e] at hrl
  · rintro ⟨o, ho, rfl, hv, hf⟩
    by_cases hT : o.store ∈ stores b0.targetPeers
    · left
      obtain ⟨n0, hn0, hs⟩ := mem_stores.1 hT
      refine ⟨⟨o.store, o.id, .learner⟩, ?_, rfl⟩
      refine (mem_toDemote_joint (clearPending b0) hcd _).2
        ⟨o, ho, by rw [hv]; simp, n0, (pmGet_iff rec.nodupT).2 ⟨hn0, hs⟩, ?_, rfl⟩
      rcases rec.plainT n0 hn0 with e | e
      · have := (finV_of_mem rec.nodupT hn0).2 e
        rw [hs, hf] at this; cases this
      · exact e
    · right
      refine ⟨asLearner o, ⟨o, ⟨(jd_R_mem b0 rec hd nid A' hA o).2 ⟨ho, hT⟩, by simp [isLearner, hv]⟩, rfl⟩, rfl⟩

theorem jd_ctx : JointCtx (jdS b0 A') b0.targetPeers (jdP b0 A') (jdD b0) := by
  obtain ⟨hA1, hA2, hA3⟩ := jd_A_facts b0 rec hd nid A' hA
  have hnS := jd_nodupS b0 rec hd nid A' hA
  have hcd : (clearPending b0).allowDemote = true := hd
  have hOsub : ∀ p ∈ b0.originPeers, p ∈ jdS b0 A' := fun p hp =>
    (jd_mem_S b0 rec hd nid A' hA p).2 (Or.inl hp)
  have hAsub : ∀ a ∈ jdA A', asLearner a ∈ jdS b0 A' := fun a ha =>
    (jd_mem_S b0 rec hd nid A' hA _).2 (Or.inr ⟨a, ha, rfl⟩)
  have hnPm : (stores (jdPm b0 A')).Nodup := by
    rw [jd_Pm_eq b0 rec hd nid A' hA]
    simp only [stores, List.map_append]
    rw [List.nodup_append]
    refine ⟨?_, List.Nodup.sublist (List.Sublist.map _ List.filter_sublist) hA1, ?_⟩
    · apply stores_filterMap_nodup _ _ _ rec.nodupO
      intro o n hf
      have e1 : (clearPending b0).targetPeers = b0.targetPeers := rfl
      cases hg : pmGet b0.targetPeers o.store with
      | none => rw [targetOf_none _ o (e1 ▸ hg)] at hf; cases hf
      | some n0 =>
        rw [targetOf_eq _ o n0 (e1 ▸ hg)] at hf
        simp only at hf
        split at hf
        · cases hf; rfl
        · cases hf
    · intro x hx y hy e
      subst e
      obtain ⟨n, hn, e⟩ := List.mem_map.1 hx
      obtain ⟨a, ha, e'⟩ := List.mem_map.1 hy
      obtain ⟨o, ho, _, _, _, _, rfl⟩ := (mem_toPromote_joint (clearPending b0) hcd n).1 hn
      exact (hA2 a (List.mem_filter.1 ha).1).1 (by rw [e', ← e]; exact mem_stores.2 ⟨o, ho, rfl⟩)
  have hnR : (stores (jdR b0)).Nodup :=
    nodup_pmSorted (List.Nodup.sublist (List.Sublist.map _ List.filter_sublist) rec.nodupO)
  have hnDm : (stores (jdDm b0)).Nodup := by
    rw [jd_Dm_eq b0 rec hd nid A' hA]
    simp only [stores, List.map_append]
    rw [List.nodup_append]
    refine ⟨?_, ?_, ?_⟩
    · apply stores_filterMap_nodup _ _ _ rec.nodupO
      intro o n hf
      have e1 : (clearPending b0).targetPeers = b0.targetPeers := rfl
      cases hg : pmGet b0.targetPeers o.store with
      | none => rw [targetOf_none _ o (e1 ▸ hg)] at hf; cases hf
      | some n0 =>
        rw [targetOf_eq _ o n0 (e1 ▸ hg)] at hf
        simp only at hf
        split at hf
        · cases hf; rfl
        · cases hf
    · have : (((jdR b0).filter (fun p => !isLearner p)).map asLearner).map (·.store) =
          stores ((jdR b0).filter (fun p => !isLearner p)) := by
        simp [stores, asLearner, List.map_map, Function.comp_def]
      rw [this]
      exact List.Nodup.sublist (List.Sublist.map _ List.filter_sublist) hnR
    · intro x hx y hy e
      subst e
      obtain ⟨n, hn, e⟩ := List.mem_map.1 hx
      obtain ⟨z, hz, e'⟩ := List.mem_map.1 hy
      obtain ⟨r, hr, rfl⟩ := List.mem_map.1 hz
      obtain ⟨o, ho, _, n0, hg, _, rfl⟩ := (mem_toDemote_joint (clearPending b0) hcd n).1 hn
      have hrR := (jd_R_mem b0 rec hd nid A' hA r).1 (List.mem_filter.1 hr).1
      apply hrR.2
      simp only [asLearner] at e'
      rw [e', ← e]
      exact mem_stores.2 ⟨n0, (pmGet_some hg).1, (pmGet_some hg).2⟩
  refine ⟨hnS, ?_, rec.nodupT, rec.plainT, ?_, ?_, ?_, ?_, ?_, ?_, ?_⟩
  · -- plainS
    intro p hp
    rcases (jd_mem_S b0 rec hd nid A' hA p).1 hp with h | ⟨a, _, rfl⟩
    · exact rec.plainO p h
    · right; rfl
  · -- subT
    intro n hn
    by_cases hO : n.store ∈ stores b0.originPeers
    · obtain ⟨o, ho, e⟩ := mem_stores.1 hO
      exact mem_stores.2 ⟨o, hOsub o ho, e⟩
    · obtain ⟨a, ha, e, _⟩ := hA3 n hn hO
      exact mem_stores.2 ⟨asLearner a, hAsub a ha, e⟩
  · -- pMem
    intro p hp
    rw [jd_inP b0 rec hd nid A' hA]
    rcases (jd_mem_S b0 rec hd nid A' hA p).1 hp with h | ⟨a, ha, rfl⟩
    · constructor
      · rintro (⟨o, ho, e, hl, hf⟩ | ⟨a, ha, e, _⟩)
        · have h1 := pmGet_of_mem rec.nodupO ho
          have h2 := pmGet_of_mem rec.nodupO h
          rw [e, h2] at h1; cases h1
          exact ⟨hl, hf⟩
        · exact absurd (e ▸ mem_stores.2 ⟨p, h, rfl⟩) (hA2 a ha).1
      · rintro ⟨hl, hf⟩
        exact Or.inl ⟨p, h, rfl, hl, hf⟩
    · obtain ⟨haO, n, hn, hns, hnr⟩ := hA2 a ha
      simp only [asLearner]
      constructor
      · rintro (⟨o, ho, e, _, _⟩ | ⟨a', ha', e, hr⟩)
        · exact absurd (e ▸ mem_stores.2 ⟨o, ho, rfl⟩) haO
        · have h1 := pmGet_of_mem hA1 ha'
          have h2 := pmGet_of_mem hA1 ha
          rw [e, h2] at h1; cases h1
          refine ⟨trivial, ?_⟩
          rw [← hns]
          refine (finV_of_mem rec.nodupT hn).2 ?_
          rcases rec.plainT n hn with e | e
          · exact e
          · rw [hnr] at e; exact absurd e hr
      · rintro ⟨_, hf⟩
        right
        refine ⟨a, ha, rfl, ?_⟩
        rw [← hns] at hf
        rw [← hnr, (finV_of_mem rec.nodupT hn).1 hf]; simp
  · -- dMem
    intro p hp
    rw [jd_inD b0 rec hd nid A' hA]
    rcases (jd_mem_S b0 rec hd nid A' hA p).1 hp with h | ⟨a, ha, rfl⟩
    · constructor
      · rintro ⟨o, ho, e, hv, hf⟩
        have h1 := pmGet_of_mem rec.nodupO ho
        have h2 := pmGet_of_mem rec.nodupO h
        rw [e, h2] at h1; cases h1
        exact ⟨hv, hf⟩
      · rintro ⟨hv, hf⟩
        exact ⟨p, h, rfl, hv, hf⟩
    · simp only [asLearner]
      constructor
      · rintro ⟨o, ho, e, _, _⟩
        exact absurd (e ▸ mem_stores.2 ⟨o, ho, rfl⟩) (hA2 a ha).1
      · rintro ⟨hv, _⟩; cases hv
  · -- pIn
    intro it hit
    unfold jdP toItems at hit
    obtain ⟨x, hx, rfl⟩ := List.mem_map.1 hit
    have hx' := mem_pmSorted_mem hx
    rw [jd_Pm_eq b0 rec hd nid A' hA, List.mem_append] at hx'
    rcases hx' with hx' | hx'
    · obtain ⟨o, ho, _, _, _, _, rfl⟩ := (mem_toPromote_joint (clearPending b0) hcd x).1 hx'
      exact ⟨o, hOsub o ho, rfl, rfl⟩
    · have ha := (List.mem_filter.1 hx').1
      exact ⟨asLearner x, hAsub x ha, rfl, rfl⟩
  · -- dIn
    intro it hit
    unfold jdD toItems at hit
    obtain ⟨x, hx, rfl⟩ := List.mem_map.1 hit
    have hx' := mem_pmSorted_mem hx
    rw [jd_Dm_eq b0 rec hd nid A' hA, List.mem_append] at hx'
    rcases hx' with hx' | hx'
    · obtain ⟨o, ho, _, _, _, _, rfl⟩ := (mem_toDemote_joint (clearPending b0) hcd x).1 hx'
      exact ⟨o, hOsub o ho, rfl, rfl⟩
    · obtain ⟨r, hr, rfl⟩ := List.mem_map.1 hx'
      have hrO := ((jd_R_mem b0 rec hd nid A' hA r).1 (List.mem_filter.1 hr).1).1
      exact ⟨r, hOsub r hrO, rfl, rfl⟩
  · -- nodupP
    unfold jdP
    rw [stores_toItems]
    exact nodup_pmSorted hnPm
  · -- nodupD
    unfold jdD
    rw [stores_toItems]
    exact nodup_pmSorted hnDm

theorem jd_R_stores (s : Nat) :
    s ∈ stores (jdR b0) ↔ (s ∈ stores (jdS b0 A') ∧ s ∉ stores b0.targetPeers) := by
  obtain ⟨hA1, hA2, hA3⟩ := jd_A_facts b0 rec hd nid A' hA
  constructor
  · intro hs
    obtain ⟨o, ho, rfl⟩ := mem_stores.1 hs
    obtain ⟨hoO, hoT⟩ := (jd_R_mem b0 rec hd nid A' hA o).1 ho
    exact ⟨mem_stores.2 ⟨o, (jd_mem_S b0 rec hd nid A' hA o).2 (Or.inl hoO), rfl⟩, hoT⟩
  · rintro ⟨hS, hT⟩
    obtain ⟨p, hp, rfl⟩ := mem_stores.1 hS
    rcases (jd_mem_S b0 rec hd nid A' hA p).1 hp with h | ⟨a, ha, rfl⟩
    · exact mem_stores.2 ⟨p, (jd_R_mem b0 rec hd nid A' hA p).2 ⟨h, hT⟩, rfl⟩
    · obtain ⟨_, n, hn, hns, _⟩ := hA2 a ha
      exact absurd (mem_stores.2 ⟨n, hn, hns⟩) hT

end

end PdModel.Builder
