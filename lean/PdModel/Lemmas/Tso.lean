import PdModel.Model.Tso
set_option linter.unusedSimpArgs false
set_option linter.unusedVariables false
/-! Inductive invariant of the TSO model. -/
namespace PdModel.Tso

/-- configuration facts the proofs need: the guard is at least one millisecond and the save
    interval exceeds the guard -/
structure CfgOk (c : Cfg) : Prop where
  guard_ms : 1000000 ≤ c.guard
  save_gt  : c.guard < c.saveInterval
  sfx_lt   : c.suffix < 2 ^ c.bits

/-- the window a synchronisation loaded is at least the allocator's own stored window -/
def coversStored (stored last : Option Nat) : Prop := ∀ S, stored = some S → ∃ L, last = some L ∧ S ≤ L

theorem coversStored_optMax (a b : Option Nat) : coversStored a (optMax a b) := by
  intro S hS; subst hS
  cases b with
  | none => exact ⟨S, rfl, Nat.le_refl _⟩
  | some y => exact ⟨max S y, rfl, Nat.le_max_left _ _⟩

/-- per-member part of the invariant -/
structure MemInv (s : St) (m : Nat) : Prop where
  l1 : (s.mems m).lease = true → m ≠ 0
  a  : ∀ p, (s.mems m).phys = some p → ∃ L, (s.mems m).lastSaved = some L ∧ p + s.cfg.guard < L
  b  : ∀ L, (s.mems m).lastSaved = some L → ∃ S, s.stored = some S ∧ L ≤ S
  c  : s.leader = m → m ≠ 0 →
        ((s.mems m).phys ≠ none ∨ ∃ n sv, (s.mems m).pend = some (.upd n sv)) →
        (s.mems m).lastSaved = s.stored
  d  : s.leader = m → m ≠ 0 → ∀ last now, (s.mems m).pend = some (.sync last now) → coversStored s.stored last
  p1 : ∀ next sv, (s.mems m).pend = some (.upd next sv) →
        (sv = none → ∃ L, (s.mems m).lastSaved = some L ∧ next + s.cfg.guard < L) ∧
        (∀ v, sv = some v → v = next + s.cfg.saveInterval ∧
            ∀ L, (s.mems m).lastSaved = some L → L ≤ next + s.cfg.guard) ∧
        (∀ p, (s.mems m).phys = some p → msOf p < msOf next) ∧
        ((s.mems m).lease = true → ∀ g ∈ s.grants, g.ms < msOf next)
  e  : (s.mems m).lease = true → ∀ p, (s.mems m).phys = some p →
        ∀ g ∈ s.grants, g.ms < msOf p ∨ (g.ms = msOf p ∧ g.hi ≤ (s.mems m).logical)

/-- facts about the ghost log of grants -/
structure GrantsInv (s : St) : Prop where
  f : ∀ g ∈ s.grants, ∃ S, s.stored = some S ∧ g.ns + s.cfg.guard < S
  g : ∀ g ∈ s.grants, g.lo < g.hi ∧ g.hi * 2 ^ s.cfg.bits + s.cfg.suffix < s.cfg.maxLogical ∧ g.ms = msOf g.ns ∧
        ∃ B, g.bound = some B ∧ g.ns + s.cfg.guard < B
  o : s.grants.Pairwise (fun newer older => older.ms < newer.ms ∨ (older.ms = newer.ms ∧ older.hi ≤ newer.lo))

structure Inv (s : St) : Prop where
  mem : ∀ m, MemInv s m
  gr  : GrantsInv s
  /-- at most one member's lease check answers true (local expiry precedes server-side expiry) -/
  uniq : ∀ m m', (s.mems m).lease = true → (s.mems m').lease = true → m = m'

theorem inv_init (c : Cfg) : Inv (init c) := by
  refine ⟨fun m => ?_, ?_, ?_⟩
  · constructor <;> simp [init]
  · constructor <;> simp [init]
  · intro m m' h; simp [init] at h

@[simp] theorem setMem_mems (s : St) (m i : Nat) (x : Mem) :
    (s.setMem m x).mems i = if i = m then x else s.mems i := rfl
@[simp] theorem setMem_stored (s : St) (m : Nat) (x : Mem) : (s.setMem m x).stored = s.stored := rfl
@[simp] theorem setMem_leader (s : St) (m : Nat) (x : Mem) : (s.setMem m x).leader = s.leader := rfl
@[simp] theorem setMem_grants (s : St) (m : Nat) (x : Mem) : (s.setMem m x).grants = s.grants := rfl
@[simp] theorem setMem_cfg (s : St) (m : Nat) (x : Mem) : (s.setMem m x).cfg = s.cfg := rfl

/-- other members are untouched when only member `m`'s record changes and the shared parts stay -/
theorem memInv_frame (s : St) (m i : Nat) (x : Mem) (h : MemInv s i) (hne : i ≠ m) :
    MemInv (s.setMem m x) i := by
  constructor <;> simp only [setMem_mems, setMem_stored, setMem_leader, setMem_grants, setMem_cfg, if_neg hne]
  · exact h.l1
  · exact h.a
  · exact h.b
  · exact h.c
  · exact h.d
  · exact h.p1
  · exact h.e

@[simp] theorem setPhys_lease (x : Mem) (n : Nat) : (setPhys x n).lease = x.lease := by
  unfold setPhys; split
  · rfl
  · split <;> rfl

theorem msOf_mono {a b : Nat} (h : a ≤ b) : msOf a ≤ msOf b := Nat.div_le_div_right h

theorem msOf_lt_of_add {a b : Nat} (h : a + 1000000 ≤ b) : msOf a < msOf b := by
  unfold msOf; omega

end PdModel.Tso

namespace PdModel.Tso

/-- raising only the logical counter of one member keeps the invariant -/
theorem inv_bumpLogical (s : St) (h : Inv s) (m l : Nat) (hl : (s.mems m).logical ≤ l) :
    Inv (s.setMem m { s.mems m with logical := l }) := by
  refine ⟨fun i => ?_, ?_, ?_⟩
  rotate_left 2
  · intro a b ha hb
    have ha' : (s.mems a).lease = true := by
      by_cases h1 : a = m
      · subst h1; simpa using ha
      · simpa [h1] using ha
    have hb' : (s.mems b).lease = true := by
      by_cases h1 : b = m
      · subst h1; simpa using hb
      · simpa [h1] using hb
    exact h.uniq a b ha' hb'
  · by_cases hi : i = m
    · subst hi
      have hm := h.mem i
      constructor <;> simp only [setMem_mems, setMem_stored, setMem_leader, setMem_grants, setMem_cfg, if_pos]
      · exact hm.l1
      · exact hm.a
      · exact hm.b
      · exact hm.c
      · exact hm.d
      · exact hm.p1
      · intro hle p hp g hg
        rcases hm.e hle p hp g hg with h1 | ⟨h1, h2⟩
        · exact Or.inl h1
        · exact Or.inr ⟨h1, Nat.le_trans h2 hl⟩
    · exact memInv_frame s m i _ (h.mem i) hi
  · exact ⟨h.gr.f, h.gr.g, h.gr.o⟩

theorem inv_getTSLoop (s : St) (h : Inv s) (m count : Nat) (hc : 0 < count) (fuel : Nat) :
    Inv (getTSLoop s m count fuel).1 := by
  induction fuel generalizing s with
  | zero => exact h
  | succ fuel ih =>
    unfold getTSLoop
    simp only
    split
    · split
      · exact ih s h
      · exact h
    · next p hp =>
      have hb := inv_bumpLogical s h m ((s.mems m).logical + count) (by omega)
      split
      · exact ih _ hb
      · next hov =>
        split
        · exact hb
        · next hle =>
          have hlease : (s.mems m).lease = true := by simpa using hle
          have hm := h.mem m
          obtain ⟨L, hL, hpL⟩ := hm.a p hp
          obtain ⟨S, hS, hLS⟩ := hm.b L hL
          refine ⟨fun i => ?_, ?_, hb.uniq⟩
          · have hbi := hb.mem i
            by_cases hi : i = m
            · subst hi
              constructor
              · exact hbi.l1
              · exact hbi.a
              · exact hbi.b
              · exact hbi.c
              · exact hbi.d
              · intro next sv hpend
                obtain ⟨q1, q2, q3, q4⟩ := hbi.p1 next sv hpend
                refine ⟨q1, q2, q3, ?_⟩
                intro hl g hg
                simp only [List.mem_cons] at hg
                rcases hg with rfl | hg
                · simp only
                  exact q3 p (by simpa using hp)
                · exact q4 hl g hg
              · intro hl q hq g hg
                simp only [List.mem_cons] at hg
                simp only [setMem_mems, if_pos] at hq ⊢
                rcases hg with rfl | hg
                · rw [hp] at hq; cases hq
                  exact Or.inr ⟨rfl, Nat.le_refl _⟩
                · have := hbi.e hl q (by simpa using hq) g hg
                  simpa using this
            · -- any other member holds no lease (at most one member's lease check answers true)
              have hnl : (s.mems i).lease = false := by
                cases hli : (s.mems i).lease
                · rfl
                · exact absurd (h.uniq i m hli hlease) hi
              constructor
              · exact hbi.l1
              · exact hbi.a
              · exact hbi.b
              · exact hbi.c
              · exact hbi.d
              · intro next sv hpend
                obtain ⟨q1, q2, q3, q4⟩ := hbi.p1 next sv hpend
                refine ⟨q1, q2, q3, ?_⟩
                intro hl
                simp only [setMem_mems, if_neg hi] at hl
                rw [hnl] at hl; cases hl
              · intro hl
                simp only [setMem_mems, if_neg hi] at hl
                rw [hnl] at hl; cases hl
          · constructor
            · intro g hg
              simp only [List.mem_cons] at hg
              rcases hg with rfl | hg
              · exact ⟨S, hS, by simp only [setMem_cfg]; omega⟩
              · exact h.gr.f g hg
            · intro g hg
              simp only [List.mem_cons] at hg
              rcases hg with rfl | hg
              · refine ⟨by simp only; omega, ?_, rfl, S, hS, by simp only [setMem_cfg]; omega⟩
                simp only [setMem_cfg]; omega
              · exact h.gr.g g hg
            · simp only [List.pairwise_cons]
              refine ⟨?_, h.gr.o⟩
              intro g hg
              exact hm.e hlease p hp g hg

theorem inv_getTS (s : St) (h : Inv s) (m count : Nat) : Inv (getTS s m count).1 := by
  unfold getTS
  split
  · exact h
  · split
    · exact h
    · exact inv_getTSLoop s h m count (by omega) _

end PdModel.Tso

namespace PdModel.Tso

/-- General frame lemma: member `m`'s record is replaced by `y`; the stored window either stays or is
    raised by the current leader `m`; the leader record either stays or is deleted by its owner `m`.
    Then it suffices to re-establish the per-member invariant of `m`. -/
theorem inv_update_member (s : St) (h : Inv s) (m : Nat) (y : Mem) (st' : Option Nat) (ld' : Nat)
    (hst : st' = s.stored ∨
      (s.leader = m ∧ m ≠ 0 ∧ ∃ save, st' = some save ∧ ∀ S, s.stored = some S → S ≤ save))
    (hld : ld' = s.leader ∨ (ld' = 0 ∧ s.leader = m))
    (hlease : y.lease = true → (s.mems m).lease = true)
    (hm : MemInv { s with stored := st', leader := ld', mems := fun i => if i = m then y else s.mems i } m) :
    Inv { s with stored := st', leader := ld', mems := fun i => if i = m then y else s.mems i } := by
  refine ⟨fun i => ?_, ?_, ?_⟩
  rotate_left 2
  · intro a b ha hb
    simp only at ha hb
    have ha' : (s.mems a).lease = true := by
      by_cases h1 : a = m
      · subst h1; simp only [if_pos] at ha; exact hlease ha
      · simpa [h1] using ha
    have hb' : (s.mems b).lease = true := by
      by_cases h1 : b = m
      · subst h1; simp only [if_pos] at hb; exact hlease hb
      · simpa [h1] using hb
    exact h.uniq a b ha' hb'
  · by_cases hi : i = m
    · subst hi; exact hm
    · have hi' := h.mem i
      constructor <;> simp only [if_neg hi]
      · exact hi'.l1
      · exact hi'.a
      · intro L hL
        obtain ⟨S, hS, hLS⟩ := hi'.b L hL
        rcases hst with rfl | ⟨_, _, save, rfl, hmono⟩
        · exact ⟨S, hS, hLS⟩
        · exact ⟨save, rfl, Nat.le_trans hLS (hmono S hS)⟩
      · intro hl hi0 hcond
        rcases hld with rfl | ⟨rfl, _⟩
        · rcases hst with rfl | ⟨hlm, _, _⟩
          · exact hi'.c hl hi0 hcond
          · omega
        · omega
      · intro hl hi0 last nw hp
        rcases hld with rfl | ⟨rfl, _⟩
        · rcases hst with rfl | ⟨hlm, _, _⟩
          · exact hi'.d hl hi0 last nw hp
          · omega
        · omega
      · exact hi'.p1
      · exact hi'.e
  · constructor
    · intro g hg
      obtain ⟨S, hS, hlt⟩ := h.gr.f g hg
      rcases hst with rfl | ⟨_, _, save, rfl, hmono⟩
      · exact ⟨S, hS, hlt⟩
      · exact ⟨save, rfl, Nat.lt_of_lt_of_le hlt (hmono S hS)⟩
    · exact h.gr.g
    · exact h.gr.o

theorem inv_setMem (s : St) (h : Inv s) (m : Nat) (y : Mem)
    (hlease : y.lease = true → (s.mems m).lease = true) (hm : MemInv (s.setMem m y) m) :
    Inv (s.setMem m y) :=
  inv_update_member s h m y s.stored s.leader (Or.inl rfl) (Or.inl rfl) hlease hm

theorem inv_resetMem (s : St) (h : Inv s) (m : Nat) :
    Inv (s.setMem m { s.mems m with phys := none, logical := 0 }) := by
  apply inv_setMem s h _ _ (by first | exact fun h => h | (intro h; cases h) | (intro h; simpa using h))
  have hm := h.mem m
  constructor <;> simp only [setMem_mems, setMem_stored, setMem_leader, setMem_grants, setMem_cfg, if_pos]
  · exact hm.l1
  · intro p hp; cases hp
  · exact hm.b
  · intro hl h0 hc
    rcases hc with hc | hc
    · exact absurd rfl hc
    · exact hm.c hl h0 (Or.inr hc)
  · exact hm.d
  · intro next sv hp
    obtain ⟨q1, q2, q3, q4⟩ := hm.p1 next sv hp
    exact ⟨q1, q2, fun p hp => (by cases hp), q4⟩
  · intro _ p hp; cases hp

theorem inv_expire (s : St) (h : Inv s) (m : Nat) :
    Inv (s.setMem m { s.mems m with lease := false }) := by
  apply inv_setMem s h _ _ (by first | exact fun h => h | (intro h; cases h) | (intro h; simpa using h))
  have hm := h.mem m
  constructor <;> simp only [setMem_mems, setMem_stored, setMem_leader, setMem_grants, setMem_cfg, if_pos]
  · intro hl; cases hl
  · exact hm.a
  · exact hm.b
  · exact hm.c
  · exact hm.d
  · intro next sv hp
    obtain ⟨q1, q2, q3, q4⟩ := hm.p1 next sv hp
    exact ⟨q1, q2, q3, fun hl => (by cases hl)⟩
  · intro hl; cases hl

theorem inv_stepDown (s : St) (h : Inv s) (m : Nat) : Inv (stepDown s m) := by
  unfold stepDown
  have := inv_update_member s h m
    { s.mems m with phys := none, logical := 0, pend := none, lease := false } s.stored
    (if s.leader = m then 0 else s.leader)
    (Or.inl rfl) (by by_cases hl : s.leader = m <;> simp [hl]) (by intro hl; cases hl) ?_
  · exact this
  · have hm := h.mem m
    constructor <;> simp only [if_pos]
    · intro hl; cases hl
    · intro p hp; cases hp
    · exact hm.b
    · intro hl h0 hc
      rcases hc with hc | ⟨n, sv, hc⟩
      · exact absurd rfl hc
      · cases hc
    · intro _ _ last nw hp; cases hp
    · intro next sv hp; cases hp
    · intro hl; cases hl

theorem inv_resign (s : St) (h : Inv s) :
    Inv { s with leader := 0, mems := fun i => { s.mems i with lease := false } } := by
  refine ⟨fun i => ?_, ⟨h.gr.f, h.gr.g, h.gr.o⟩, fun a b ha => (by cases ha)⟩
  have hi := h.mem i
  constructor <;> simp only
  · intro hl; cases hl
  · exact hi.a
  · exact hi.b
  · intro hl h0; omega
  · intro hl h0; omega
  · intro next sv hp
    obtain ⟨q1, q2, q3, q4⟩ := hi.p1 next sv hp
    exact ⟨q1, q2, q3, fun hl => (by cases hl)⟩
  · intro hl; cases hl

theorem inv_dropKey (s : St) (h : Inv s) : Inv { s with leader := 0 } := by
  refine ⟨fun i => ?_, ⟨h.gr.f, h.gr.g, h.gr.o⟩, h.uniq⟩
  have hi := h.mem i
  constructor <;> simp only
  · exact hi.l1
  · exact hi.a
  · exact hi.b
  · intro hl h0; omega
  · intro hl h0; omega
  · exact hi.p1
  · exact hi.e

theorem inv_lead (s : St) (h : Inv s) (m : Nat) (hm0 : m ≠ 0) :
    Inv { s with leader := m,
                 mems := fun i => if i = m then
                     { ({ s.mems i with lease := false } : Mem) with
                       lease := true, phys := none, logical := 0, pend := none }
                   else { s.mems i with lease := false } } := by
  refine ⟨fun i => ?_, ⟨h.gr.f, h.gr.g, h.gr.o⟩, ?_⟩
  rotate_left
  · intro a b ha hb
    simp only at ha hb
    have ha' : a = m := by
      by_cases h1 : a = m
      · exact h1
      · simp [h1] at ha
    have hb' : b = m := by
      by_cases h1 : b = m
      · exact h1
      · simp [h1] at hb
    rw [ha', hb']
  have hi := h.mem i
  by_cases him : i = m
  · subst him
    constructor <;> simp only [if_pos]
    · intro _; simp [hm0]
    · intro p hp; cases hp
    · exact hi.b
    · intro _ _ hc
      rcases hc with hc | ⟨n, sv, hc⟩
      · exact absurd rfl hc
      · cases hc
    · intro _ _ last nw hp; cases hp
    · intro next sv hp; cases hp
    · intro _ p hp; cases hp
  · constructor <;> simp only [if_neg him]
    · intro hl; cases hl
    · exact hi.a
    · exact hi.b
    · intro hl; omega
    · intro hl; omega
    · intro next sv hp
      obtain ⟨q1, q2, q3, q4⟩ := hi.p1 next sv hp
      exact ⟨q1, q2, q3, fun hl => (by cases hl)⟩
    · intro hl; cases hl

end PdModel.Tso

namespace PdModel.Tso

/-- the invariant does not mention the other allocators' windows -/
theorem memInv_ext (s : St) (e : Option Nat) (m : Nat) (h : MemInv s m) : MemInv { s with ext := e } m :=
  ⟨h.l1, h.a, h.b, h.c, h.d, h.p1, h.e⟩

theorem inv_ext (s : St) (e : Option Nat) (h : Inv s) : Inv { s with ext := e } :=
  ⟨fun m => memInv_ext s e m (h.mem m), ⟨h.gr.f, h.gr.g, h.gr.o⟩, h.uniq⟩

/-- field-wise version of `inv_update_member` -/
theorem inv_update_member' (s s' : St) (h : Inv s) (m : Nat)
    (hcfg : s'.cfg = s.cfg) (hgr : s'.grants = s.grants)
    (hmem : ∀ i, i ≠ m → s'.mems i = s.mems i)
    (hst : s'.stored = s.stored ∨
      (s.leader = m ∧ m ≠ 0 ∧ ∃ save, s'.stored = some save ∧ ∀ S, s.stored = some S → S ≤ save))
    (hld : s'.leader = s.leader ∨ (s'.leader = 0 ∧ s.leader = m))
    (hlease : (s'.mems m).lease = true → (s.mems m).lease = true)
    (hm : MemInv s' m) : Inv s' := by
  have key : s' = { s with stored := s'.stored, leader := s'.leader,
                           mems := fun i => if i = m then s'.mems m else s.mems i, ext := s'.ext } := by
    cases s'; cases s
    simp only at hcfg hgr hmem ⊢
    subst hcfg hgr
    simp only [St.mk.injEq, true_and, and_true]
    funext i
    by_cases hi : i = m
    · simp [hi]
    · simp [hi, hmem i hi]
  rw [key]
  have hm' := memInv_ext s' s.ext m hm
  rw [key] at hm'
  exact inv_ext _ s'.ext (inv_update_member s h m (s'.mems m) s'.stored s'.leader hst hld hlease hm')

/-- what the guarded save transaction does -/
theorem saveTxn_spec (s : St) (m save : Nat) (f : Fault) :
    let r := saveTxn s m save f
    (r.2.2 = .ok ∧ s.leader = m ∧ m ≠ 0 ∧ r.1.stored = some save ∧ r.1.leader = s.leader ∧
        r.1.cfg = s.cfg ∧ r.1.grants = s.grants ∧
        r.1.mems m = { s.mems m with lastSaved := some save } ∧ ∀ i, i ≠ m → r.1.mems i = s.mems i)
    ∨ (r.2.2 ≠ .ok ∧ s.leader = m ∧ m ≠ 0 ∧ r.1 = { s with stored := some save } ∧ f = .errAfter)
    ∨ (r.2.2 ≠ .ok ∧ r.1 = s) := by
  intro r
  simp only [r]
  unfold saveTxn
  cases f with
  | errBefore => right; right; simp
  | none =>
    simp only
    split
    · next hc =>
      left
      refine ⟨by simp, hc.1, hc.2, rfl, rfl, rfl, rfl, by simp, ?_⟩
      intro i hi; simp [hi]
    · right; right; simp
  | errAfter =>
    simp only
    split
    · next hc => right; left; exact ⟨by simp, hc.1, hc.2, by simp⟩
    · right; right; simp

end PdModel.Tso

namespace PdModel.Tso

theorem setPhys_forward (x : Mem) (next : Nat) (h : ∀ p, x.phys = some p → msOf p < msOf next) :
    setPhys x next = { x with phys := some next, logical := 0 } := by
  unfold setPhys
  split
  · rfl
  · next p hp => simp [h p hp]

/-- what is known about a decided-but-unfinished UpdateTimestamp of member `m` -/
structure UpdOk (s : St) (m next : Nat) (save : Option Nat) : Prop where
  u1 : save = none → ∃ L, (s.mems m).lastSaved = some L ∧ next + s.cfg.guard < L
  u2 : ∀ v, save = some v → v = next + s.cfg.saveInterval ∧
        ∀ L, (s.mems m).lastSaved = some L → L ≤ next + s.cfg.guard
  u3 : ∀ p, (s.mems m).phys = some p → msOf p < msOf next
  u4 : (s.mems m).lease = true → ∀ g ∈ s.grants, g.ms < msOf next
  u5 : s.leader = m → m ≠ 0 → (s.mems m).lastSaved = s.stored

theorem updOk_of_pend (s : St) (h : Inv s) (m next : Nat) (save : Option Nat)
    (hp : (s.mems m).pend = some (.upd next save)) : UpdOk s m next save := by
  obtain ⟨q1, q2, q3, q4⟩ := (h.mem m).p1 next save hp
  exact ⟨q1, q2, q3, q4, fun hl h0 => (h.mem m).c hl h0 (Or.inr ⟨next, save, hp⟩)⟩

end PdModel.Tso

namespace PdModel.Tso

theorem needSave_false {ls : Option Nat} {b : Nat} (h : needSave ls b = false) :
    ∃ l, ls = some l ∧ b < l := by
  unfold needSave at h
  cases ls with
  | none => simp at h
  | some l => simp at h; exact ⟨l, rfl, h⟩

theorem needSave_true {ls : Option Nat} {b : Nat} (h : needSave ls b = true) :
    ∀ l, ls = some l → l ≤ b := by
  intro l hl; subst hl; simpa [needSave] using h

theorem updOk_of_decide (s : St) (h : Inv s) (hc : CfgOk s.cfg) (m now next : Nat) (save : Option Nat)
    (hd : updDecide s.cfg (s.mems m) now = some (next, save)) : UpdOk s m next save := by
  unfold updDecide at hd
  split at hd
  · cases hd
  · next p hp =>
    have hm := h.mem m
    have hg := hc.guard_ms
    have hnext : p + 1000000 ≤ next ∧
        save = (if needSave (s.mems m).lastSaved (next + s.cfg.guard) = true
                then some (next + s.cfg.saveInterval) else none) := by
      simp only at hd
      split at hd
      · cases hd
      · next nx hnx =>
        simp only [Option.some.injEq, Prod.mk.injEq] at hd
        obtain ⟨rfl, rfl⟩ := hd
        refine ⟨?_, rfl⟩
        split at hnx
        · cases hnx; omega
        · split at hnx
          · cases hnx; omega
          · cases hnx
    obtain ⟨hn, hs⟩ := hnext
    have hms : msOf p < msOf next := msOf_lt_of_add hn
    cases hns : needSave (s.mems m).lastSaved (next + s.cfg.guard) with
    | false =>
      obtain ⟨l, hl, hlt⟩ := needSave_false hns
      have hsn : save = none := by rw [hs, hns]; simp
      subst hsn
      refine ⟨fun _ => ⟨l, hl, hlt⟩, fun v hv => (by cases hv), ?_, ?_, ?_⟩
      · intro q hq; rw [hp] at hq; cases hq; exact hms
      · intro hl' g hgm
        rcases hm.e hl' p hp g hgm with h1 | ⟨h1, _⟩ <;> omega
      · intro hl' h0
        exact hm.c hl' h0 (Or.inl (by rw [hp]; simp))
    | true =>
      have hsn : save = some (next + s.cfg.saveInterval) := by rw [hs, hns]; simp
      subst hsn
      refine ⟨fun hx => (by cases hx), fun v hv => (by cases hv; exact ⟨rfl, needSave_true hns⟩), ?_, ?_, ?_⟩
      · intro q hq; rw [hp] at hq; cases hq; exact hms
      · intro hl' g hgm
        rcases hm.e hl' p hp g hgm with h1 | ⟨h1, _⟩ <;> omega
      · intro hl' h0
        exact hm.c hl' h0 (Or.inl (by rw [hp]; simp))

end PdModel.Tso

namespace PdModel.Tso

/-- the per-member invariant of a member that has just stepped down (or was reset) -/
theorem memInv_steppedDown (s s' : St) (m : Nat) (hm : MemInv s m)
    (hrec : s'.mems m = { s.mems m with phys := none, logical := 0, pend := none, lease := false })
    (hb : ∀ L, (s.mems m).lastSaved = some L → ∃ S, s'.stored = some S ∧ L ≤ S) : MemInv s' m := by
  constructor <;> rw [hrec] <;> simp only
  · intro hl; cases hl
  · intro p hp; cases hp
  · exact hb
  · intro hl h0 hc
    rcases hc with hc | ⟨n, sv, hc⟩
    · exact absurd rfl hc
    · cases hc
  · intro _ _ last nw hp; cases hp
  · intro next sv hp; cases hp
  · intro hl; cases hl

theorem inv_updFinish (s : St) (h : Inv s) (hc : CfgOk s.cfg) (m next : Nat) (save : Option Nat)
    (f : Fault) (hu : UpdOk s m next save) : Inv (updFinish s m next save f).1 := by
  unfold updFinish
  cases save with
  | none =>
    simp only
    have hfw : setPhys { s.mems m with pend := none } next
        = { s.mems m with pend := none, phys := some next, logical := 0 } :=
      setPhys_forward _ _ (fun p hp => hu.u3 p hp)
    rw [hfw]
    apply inv_setMem s h _ _ (by first | exact fun h => h | (intro h; cases h) | (intro h; simpa using h))
    have hm := h.mem m
    obtain ⟨L, hL, hlt⟩ := hu.u1 rfl
    constructor <;> simp only [setMem_mems, setMem_stored, setMem_leader, setMem_grants, setMem_cfg, if_pos]
    · exact hm.l1
    · intro p hp; cases hp; exact ⟨L, hL, hlt⟩
    · exact hm.b
    · intro hl h0 _; exact hu.u5 hl h0
    · intro _ _ last nw hp; cases hp
    · intro nx sv hp; cases hp
    · intro hl p hp g hg; cases hp; exact Or.inl (hu.u4 hl g hg)
  | some sv =>
    simp only
    obtain ⟨hv, hle⟩ := hu.u2 sv rfl
    have hsg := hc.save_gt
    have hspec := saveTxn_spec s m sv f
    generalize saveTxn s m sv f = r at hspec
    obtain ⟨s1, b, o⟩ := r
    simp only at hspec ⊢
    have hm := h.mem m
    -- when the transaction commits, the member is the leader, so its cached bound is the stored one
    have hmono : s.leader = m → m ≠ 0 → ∀ S, s.stored = some S → S ≤ sv := by
      intro hl h0 S hS
      have := hu.u5 hl h0; rw [hS] at this
      have := hle S this; omega
    rcases hspec with ⟨ho, hl, h0, hst, hld, hcfg, hgr, hrec, hoth⟩ | ⟨ho, hl, h0, rfl, _⟩ | ⟨ho, rfl⟩
    · subst ho
      simp only [if_pos]
      have hfw : setPhys { s1.mems m with pend := none } next
          = { s.mems m with lastSaved := some sv, pend := none, phys := some next, logical := 0 } := by
        rw [setPhys_forward _ _ (fun p hp => hu.u3 p (by rw [hrec] at hp; exact hp)), hrec]
      rw [hfw]
      apply inv_update_member' s _ h m
      · simp [hcfg]
      · simp [hgr]
      · intro i hi; simp [hi, hoth i hi]
      · right; exact ⟨hl, h0, sv, by simp [hst], hmono hl h0⟩
      · left; simp [hld]
      · intro hle; first | (simpa [hrec, stepDown] using hle) | (simp [stepDown] at hle)
      · constructor <;> simp only [setMem_mems, setMem_stored, setMem_leader, setMem_grants, setMem_cfg, if_pos,
          hst, hld, hcfg, hgr]
        · intro hle'; exact hm.l1 hle'
        · intro p hp; cases hp; exact ⟨sv, rfl, by omega⟩
        · intro L hL; cases hL; exact ⟨sv, rfl, Nat.le_refl _⟩
        · intro _ _ _; trivial
        · intro _ _ last nw hp; cases hp
        · intro nx sv' hp; cases hp
        · intro hl' p hp g hg; cases hp; exact Or.inl (hu.u4 hl' g hg)
    · -- the transaction took effect but reported an error: the caller resets and resigns
      have hne : (o = Out.ok) = False := by simp [ho]
      simp only [hne, if_false]
      apply inv_update_member' s _ h m
      · simp [stepDown]
      · simp [stepDown]
      · intro i hi; simp [stepDown, hi]
      · right; exact ⟨hl, h0, sv, by simp [stepDown], hmono hl h0⟩
      · right; simp [stepDown, hl]
      · intro hle; first | (simpa [hrec, stepDown] using hle) | (simp [stepDown] at hle)
      · apply memInv_steppedDown s _ m hm
        · simp [stepDown]
        · intro L hL
          obtain ⟨S, hS, hLS⟩ := hm.b L hL
          exact ⟨sv, by simp [stepDown], Nat.le_trans hLS (hmono hl h0 S hS)⟩
    · have hne : (o = Out.ok) = False := by simp [ho]
      simp only [hne, if_false]
      exact inv_stepDown _ h m

end PdModel.Tso

namespace PdModel.Tso

theorem syncNext_ge (c : Cfg) (l now : Nat) : l + c.guard ≤ syncNext c (some l) now := by
  unfold syncNext; simp only; split <;> omega

theorem inv_syncFinish (s : St) (h : Inv s) (hc : CfgOk s.cfg) (m : Nat) (last : Option Nat) (now : Nat)
    (f : Fault) (hlast : s.leader = m → m ≠ 0 → coversStored s.stored last) :
    Inv (syncFinish s m last now f).1 := by
  unfold syncFinish
  simp only
  generalize hnext : syncNext s.cfg last now = next
  have hsg := hc.save_gt
  have hgm := hc.guard_ms
  have hspec := saveTxn_spec s m (next + s.cfg.saveInterval) f
  generalize saveTxn s m (next + s.cfg.saveInterval) f = r at hspec
  obtain ⟨s1, b, o⟩ := r
  simp only at hspec ⊢
  have hm := h.mem m
  have hmono : s.leader = m → m ≠ 0 → ∀ S, s.stored = some S → S + s.cfg.guard ≤ next := by
    intro hl h0 S hS
    obtain ⟨L, hL, hSL⟩ := hlast hl h0 S hS
    subst hL
    rw [← hnext]; have := syncNext_ge s.cfg L now; omega
  rcases hspec with ⟨ho, hl, h0, hst, hld, hcfg, hgr, hrec, hoth⟩ | ⟨ho, hl, h0, rfl, _⟩ | ⟨ho, rfl⟩
  · subst ho
    simp only [if_pos]
    apply inv_update_member' s _ h m
    · simp [hcfg]
    · simp [hgr]
    · intro i hi; simp [hi, hoth i hi]
    · right; exact ⟨hl, h0, next + s.cfg.saveInterval, by simp [hst], fun S hS => by have := hmono hl h0 S hS; omega⟩
    · left; simp [hld]
    · intro hle; first | (simpa [hrec, stepDown] using hle) | (simp [stepDown] at hle)
    · -- every earlier grant is more than a millisecond below `next`
      have hgr_lt : ∀ g ∈ s.grants, g.ms < msOf next := by
        intro g hg
        obtain ⟨S, hS, hlt⟩ := h.gr.f g hg
        have h1 := hmono hl h0 S hS
        have h2 := (h.gr.g g hg).2.2.1
        rw [h2]; apply msOf_lt_of_add; omega
      have hrec' : (s1.setMem m (setPhys { s1.mems m with pend := none } next)).mems m
          = setPhys { s.mems m with lastSaved := some (next + s.cfg.saveInterval), pend := none } next := by
        simp [hrec]
      constructor <;> rw [hrec'] <;>
        simp only [setMem_stored, setMem_leader, setMem_grants, setMem_cfg, hst, hld, hcfg, hgr]
      · intro hle
        have : (s.mems m).lease = true := by
          unfold setPhys at hle; split at hle
          · exact hle
          · split at hle <;> exact hle
        exact hm.l1 this
      · intro p hp
        have hls : (setPhys { s.mems m with lastSaved := some (next + s.cfg.saveInterval), pend := none } next).lastSaved
            = some (next + s.cfg.saveInterval) := by
          unfold setPhys; split
          · rfl
          · split <;> rfl
        refine ⟨_, hls, ?_⟩
        unfold setPhys at hp
        split at hp
        · simp only [Option.some.injEq] at hp; omega
        · next q hq =>
          split at hp
          · simp only [Option.some.injEq] at hp; omega
          · simp only at hp hq
            rw [hq] at hp; cases hp
            obtain ⟨L, hL, hpL⟩ := hm.a p hq
            obtain ⟨S, hS, hLS⟩ := hm.b L hL
            have := hmono hl h0 S hS
            omega
      · intro L hL
        have hls : (setPhys { s.mems m with lastSaved := some (next + s.cfg.saveInterval), pend := none } next).lastSaved
            = some (next + s.cfg.saveInterval) := by
          unfold setPhys; split
          · rfl
          · split <;> rfl
        rw [hls] at hL; cases hL
        exact ⟨_, rfl, Nat.le_refl _⟩
      · intro _ _ _
        unfold setPhys; split
        · rfl
        · split <;> rfl
      · intro _ _ last' nw hp
        unfold setPhys at hp; split at hp
        · cases hp
        · split at hp <;> cases hp
      · intro nx sv hp
        unfold setPhys at hp; split at hp
        · cases hp
        · split at hp <;> cases hp
      · intro hle p hp g hg
        unfold setPhys at hle hp ⊢
        split at hp
        · simp only [Option.some.injEq] at hp; subst hp
          exact Or.inl (hgr_lt g hg)
        · next q hq =>
          simp only at hq
          split at hp
          · simp only [Option.some.injEq] at hp; subst hp
            exact Or.inl (hgr_lt g hg)
          · next hnf =>
            simp only at hp
            rw [hq] at hp; cases hp
            have hle' : (s.mems m).lease = true := by
              rw [hq] at hle; simp only [hnf, if_false] at hle; exact hle
            have := hm.e hle' p hq g hg
            simp only [hq, hnf, if_false]
            exact this
  · have hne : (o = Out.ok) = False := by simp [ho]
    simp only [hne, if_false]
    apply inv_update_member' s _ h m
    · simp [stepDown]
    · simp [stepDown]
    · intro i hi; simp [stepDown, hi]
    · right; exact ⟨hl, h0, next + s.cfg.saveInterval, by simp [stepDown], fun S hS => by have := hmono hl h0 S hS; omega⟩
    · right; simp [stepDown, hl]
    · intro hle; first | (simpa [hrec, stepDown] using hle) | (simp [stepDown] at hle)
    · apply memInv_steppedDown s _ m hm
      · simp [stepDown]
      · intro L hL
        obtain ⟨S, hS, hLS⟩ := hm.b L hL
        have := hmono hl h0 S hS
        exact ⟨next + s.cfg.saveInterval, by simp [stepDown], by omega⟩
  · have hne : (o = Out.ok) = False := by simp [ho]
    simp only [hne, if_false]
    exact inv_stepDown _ h m

end PdModel.Tso

namespace PdModel.Tso

theorem msOf_mul (t : Nat) : msOf (t * 1000000) = t := by unfold msOf; omega

theorem inv_resetUser (s : St) (h : Inv s) (hc : CfgOk s.cfg) (m tms tlog : Nat) (ig : Bool) (f : Fault)
    (hpend : (s.mems m).pend = none) (hf : f ≠ .errAfter) :
    Inv (resetUser s m tms tlog ig f).1 := by
  unfold resetUser
  simp only
  split
  · exact h
  · next hle =>
    have hlease : (s.mems m).lease = true := by simpa using hle
    split
    · exact h
    · next p hp =>
      split
      · exact h
      · next h1 =>
        split
        · exact h
        · next h2 =>
          split
          · exact h
          · next h3 =>
            have hm := h.mem m
            have hsg := hc.save_gt
            have hgt : msOf p < tms ∨ (tms = msOf p ∧ (s.mems m).logical < tlog) := by omega
            -- every grant so far is below the accepted timestamp
            have hE : ∀ g ∈ s.grants, g.ms < tms ∨ (g.ms = tms ∧ g.hi ≤ tlog) := by
              intro g hg
              rcases hm.e hlease p hp g hg with e1 | ⟨e1, e2⟩ <;> rcases hgt with g1 | ⟨g1, g2⟩ <;> omega
            have hC : s.leader = m → m ≠ 0 → (s.mems m).lastSaved = s.stored :=
              fun hl h0 => hm.c hl h0 (Or.inl (by rw [hp]; simp))
            split
            · next hns =>
              have hspec := saveTxn_spec s m (tms * 1000000 + s.cfg.saveInterval) f
              generalize saveTxn s m (tms * 1000000 + s.cfg.saveInterval) f = r at hspec
              obtain ⟨s1, b, o⟩ := r
              simp only at hspec ⊢
              rcases hspec with ⟨ho, hl, h0, hst, hld, hcfg, hgr, hrec, hoth⟩ | ⟨ho, hl, h0, hs1⟩ | ⟨ho, rfl⟩
              · subst ho
                simp only [if_pos]
                apply inv_update_member' s _ h m
                · simp [hcfg]
                · simp [hgr]
                · intro i hi; simp [hi, hoth i hi]
                · right
                  refine ⟨hl, h0, tms * 1000000 + s.cfg.saveInterval, by simp [hst], ?_⟩
                  intro S hS
                  have := hC hl h0; rw [hS] at this
                  have := needSave_true hns S this; omega
                · left; simp [hld]
                · intro hle; first | (simpa [hrec, stepDown] using hle) | (simp [stepDown] at hle)
                · constructor <;> simp only [setMem_mems, setMem_stored, setMem_leader, setMem_grants,
                    setMem_cfg, if_pos, hst, hld, hcfg, hgr, hrec]
                  · exact hm.l1
                  · intro q hq; cases hq; exact ⟨_, rfl, by omega⟩
                  · intro L hL; cases hL; exact ⟨_, rfl, Nat.le_refl _⟩
                  · intro _ _ _; trivial
                  · intro _ _ last nw hpd; rw [hpend] at hpd; cases hpd
                  · intro nx sv hpd; rw [hpend] at hpd; cases hpd
                  · intro _ q hq g hg; cases hq; rw [msOf_mul]; exact hE g hg
              · -- error-after-effect is excluded by hypothesis
                exact absurd hs1.2 hf
              · have hne : (o = Out.ok) = False := by simp [ho]
                simp only [hne, if_false]
                exact h
            · next hns =>
              have hns' : needSave (s.mems m).lastSaved (tms * 1000000 + s.cfg.guard) = false := by
                simpa using hns
              obtain ⟨l, hl, hlt⟩ := needSave_false hns'
              apply inv_setMem s h _ _ (by first | exact fun h => h | (intro h; cases h) | (intro h; simpa using h))
              constructor <;> simp only [setMem_mems, setMem_stored, setMem_leader, setMem_grants, setMem_cfg, if_pos]
              · exact hm.l1
              · intro q hq; cases hq; exact ⟨l, hl, hlt⟩
              · exact hm.b
              · intro hl' h0 _; exact hC hl' h0
              · intro _ _ last nw hpd; rw [hpend] at hpd; cases hpd
              · intro nx sv hpd; rw [hpend] at hpd; cases hpd
              · intro _ q hq g hg; cases hq; rw [msOf_mul]; exact hE g hg

end PdModel.Tso

namespace PdModel.Tso

/-- the fault pattern the full theorems exclude: a SetTSO whose window save reports an error although
    it was applied (see `stored_window_counterexample_errAfter` in Props/C02) -/
def Op.faithful : Op → Prop
  | .setTS _ _ _ _ f => f ≠ .errAfter
  | _ => True

instance : DecidablePred Op.faithful := fun op => by
  cases op <;> unfold Op.faithful <;> infer_instance

theorem saveTxn_cfg (s : St) (m sv : Nat) (f : Fault) : (saveTxn s m sv f).1.cfg = s.cfg := by
  unfold saveTxn; cases f <;> simp only <;> (try split) <;> simp

theorem stepDown_cfg (s : St) (m : Nat) : (stepDown s m).cfg = s.cfg := by simp [stepDown]

theorem getTSLoop_cfg (s : St) (m count fuel : Nat) : (getTSLoop s m count fuel).1.cfg = s.cfg := by
  induction fuel generalizing s with
  | zero => rfl
  | succ fuel ih =>
    unfold getTSLoop
    simp only
    split
    · split
      · exact ih s
      · rfl
    · split
      · rw [ih]; rfl
      · split <;> rfl

theorem updFinish_cfg (s : St) (m next : Nat) (save : Option Nat) (f : Fault) :
    (updFinish s m next save f).1.cfg = s.cfg := by
  unfold updFinish
  cases save with
  | none => rfl
  | some sv =>
    simp only
    have := saveTxn_cfg s m sv f
    generalize saveTxn s m sv f = r at this
    obtain ⟨s1, b, o⟩ := r
    simp only at this ⊢
    split <;> simp [stepDown, this]

theorem syncFinish_cfg (s : St) (m : Nat) (last : Option Nat) (now : Nat) (f : Fault) :
    (syncFinish s m last now f).1.cfg = s.cfg := by
  unfold syncFinish
  simp only
  have := saveTxn_cfg s m (syncNext s.cfg last now + s.cfg.saveInterval) f
  generalize saveTxn s m (syncNext s.cfg last now + s.cfg.saveInterval) f = r at this
  obtain ⟨s1, b, o⟩ := r
  simp only at this ⊢
  split <;> simp [stepDown, this]

theorem resetUser_cfg (s : St) (m tms tlog : Nat) (ig : Bool) (f : Fault) :
    (resetUser s m tms tlog ig f).1.cfg = s.cfg := by
  unfold resetUser
  simp only
  repeat' split
  all_goals first
    | rfl
    | (have := saveTxn_cfg s m (tms * 1000000 + s.cfg.saveInterval) f
       generalize saveTxn s m (tms * 1000000 + s.cfg.saveInterval) f = r at this
       obtain ⟨s1, b, o⟩ := r
       simp only at this ⊢
       first | exact this | simp [this])

theorem step_cfg (s : St) (op : Op) : (step s op).1.cfg = s.cfg := by
  cases op <;> simp only [step] <;> repeat' split
  all_goals first
    | rfl
    | exact updFinish_cfg _ _ _ _ _
    | exact syncFinish_cfg _ _ _ _ _
    | exact resetUser_cfg _ _ _ _ _ _
    | (unfold getTS; repeat' split
       all_goals first | rfl | exact getTSLoop_cfg _ _ _ _)
    | exact getTSLoop_cfg _ _ _ _

theorem inv_step (s : St) (h : Inv s) (hc : CfgOk s.cfg) (op : Op) (hf : op.faithful) :
    Inv (step s op).1 := by
  cases op with
  | lead m =>
    simp only [step]
    split
    · exact h
    · next hm0 => exact inv_lead s h m hm0
  | expire m => exact inv_expire s h m
  | resign => exact inv_resign s h
  | dropKey => exact inv_dropKey s h
  | extWin v => exact inv_ext s _ h
  | getTS m count => exact inv_getTS s h m count
  | tryTS m count =>
    simp only [step]
    split
    · exact h
    · exact inv_getTSLoop s h m count (by omega) 1
  | update m now f =>
    simp only [step]
    split
    · exact h
    split
    · exact h
    split
    · exact h
    · split
      · exact h
      · next next save hd => exact inv_updFinish s h hc m next save f (updOk_of_decide s h hc m now next save hd)
  | gupdate m now =>
    simp only [step]
    split
    · exact h
    split
    · exact h
    split
    · exact h
    · split
      · exact h
      · next next hd => exact inv_updFinish s h hc m next none .none (updOk_of_decide s h hc m now next none hd)
      · next next sv hd =>
        have hu := updOk_of_decide s h hc m now next (some sv) hd
        have hm := h.mem m
        apply inv_setMem s h _ _ (by first | exact fun h => h | (intro h; cases h) | (intro h; simpa using h))
        constructor <;> simp only [setMem_mems, setMem_stored, setMem_leader, setMem_grants, setMem_cfg, if_pos]
        · exact hm.l1
        · exact hm.a
        · exact hm.b
        · intro hl h0 _; exact hu.u5 hl h0
        · intro _ _ last nw hp; cases hp
        · intro nx sv' hp
          simp only [Option.some.injEq, Pend.upd.injEq] at hp
          obtain ⟨rfl, rfl⟩ := hp
          exact ⟨fun hx => (by cases hx), hu.u2, hu.u3, hu.u4⟩
        · exact hm.e
  | sync m now f =>
    simp only [step]
    split
    · exact h
    · exact inv_syncFinish s h hc m _ now f (fun _ _ => coversStored_optMax _ _)
  | gsync m now =>
    simp only [step]
    split
    · exact h
    · have hm := h.mem m
      apply inv_setMem s h _ _ (by first | exact fun h => h | (intro h; cases h) | (intro h; simpa using h))
      constructor <;> simp only [setMem_mems, setMem_stored, setMem_leader, setMem_grants, setMem_cfg, if_pos]
      · exact hm.l1
      · exact hm.a
      · exact hm.b
      · intro hl h0 hcnd
        rcases hcnd with hcnd | ⟨n, sv, hcnd⟩
        · exact hm.c hl h0 (Or.inl hcnd)
        · cases hcnd
      · intro _ _ last nw hp
        simp only [Option.some.injEq, Pend.sync.injEq] at hp
        rw [← hp.1]; exact coversStored_optMax _ _
      · intro nx sv hp; cases hp
      · exact hm.e
  | finish m f =>
    simp only [step]
    split
    · exact h
    · next next save hp => exact inv_updFinish s h hc m next save f (updOk_of_pend s h m next save hp)
    · next last now hp => exact inv_syncFinish s h hc m last now f (fun hl h0 => (h.mem m).d hl h0 last now hp)
  | setTS m ms logical ig f =>
    simp only [step]
    split
    · exact h
    · next hp =>
      have hpn : (s.mems m).pend = none := by
        cases hq : (s.mems m).pend with
        | none => rfl
        | some x => rw [hq] at hp; simp at hp
      exact inv_resetUser s h hc m ms logical ig f hpn hf
  | resetMem m => exact inv_resetMem s h m

end PdModel.Tso
