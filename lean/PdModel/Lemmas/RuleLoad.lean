import PdModel.Lemmas.RuleStore
set_option linter.unusedSimpArgs false
set_option linter.unusedVariables false
/-! Initialize on a storage that holds exactly what is served loads exactly what is served. -/
namespace PdModel.Rules
open PdModel.Spec.C13

/-- the storage as savePatch leaves it: one entry per key, each rule under its own key, no junk -/
structure StoreWF (st : Storage) : Prop where
  keys  : KeysNodup (fun kv : K × Option Rule => kv.1) st.rules
  self  : ∀ kv ∈ st.rules, ∃ r, kv = (r.key, some r)
  gkeys : KeysNodup gKey st.groups

theorem storeWF_apply (st : Storage) (h : StoreWF st) (w : Write) : StoreWF (st.apply w) := by
  cases w with
  | saveRule r =>
    refine ⟨keysNodup_mapSet _ _ _ h.keys, ?_, h.gkeys⟩
    intro kv hkv
    rcases (mem_mapSet _ _ kv _).1 hkv with e | ⟨e, _⟩
    · exact ⟨r, e⟩
    · exact h.self kv e
  | deleteRule k =>
    exact ⟨keysNodup_mapDel _ _ _ h.keys, fun kv hkv => h.self kv (List.mem_filter.1 hkv).1, h.gkeys⟩
  | saveGroup g => exact ⟨h.keys, h.self, keysNodup_mapSet _ _ _ h.gkeys⟩
  | deleteGroup id => exact ⟨h.keys, h.self, keysNodup_mapDel _ _ _ h.gkeys⟩

theorem storeWF_fold (ws : List Write) (st : Storage) (h : StoreWF st) : StoreWF (ws.foldl Storage.apply st) := by
  induction ws generalizing st with
  | nil => exact h
  | cons w ws ih => exact ih _ (storeWF_apply st h w)

theorem adjustRule_of_ok (r : Rule) (h : ruleOK r = true) : adjustRule r 0 = some r := by
  unfold adjustRule
  simp [h]

/-- loadRules on a clean storage: every entry is taken, nothing is repaired -/
theorem loadLoop_clean : ∀ (l : List (K × Option Rule)) (rules : List Rule),
    (∀ kv ∈ l, ∃ r, kv = (r.key, some r) ∧ ruleOK r = true) →
    KeysNodup (fun kv : K × Option Rule => kv.1) l →
    (∀ kv ∈ l, getR kv.1 rules = none) →
    loadLoop l rules [] [] =
      (l.foldl (fun rs kv => match kv.2 with | some r => setR r rs | none => rs) rules, [], []) := by
  intro l
  induction l with
  | nil => intro rules _ _ _; rfl
  | cons kv rest ih =>
    intro rules hself hk hnew
    rw [KeysNodup, List.pairwise_cons] at hk
    obtain ⟨r, rfl, hok⟩ := hself _ List.mem_cons_self
    have hnone : getR r.key rules = none := hnew _ List.mem_cons_self
    simp only [loadLoop, adjustRule_of_ok r hok, hnone, Option.isSome_none, Bool.false_eq_true, ↓reduceIte,
      ne_eq, not_true_eq_false, List.foldl_cons]
    apply ih _ (fun x hx => hself x (List.mem_cons_of_mem _ hx)) hk.2
    intro x hx
    unfold getR setR
    rw [mapGet_mapSet]
    have : ¬ r.key = x.1 := hk.1 x hx
    simp only [this, ↓reduceIte]
    exact hnew x (List.mem_cons_of_mem _ hx)

theorem foldl_setR_get (l : List (K × Option Rule)) (hk : KeysNodup (fun kv : K × Option Rule => kv.1) l)
    (hs : ∀ kv ∈ l, ∀ r, kv.2 = some r → kv.1 = r.key) (hnj : ∀ kv ∈ l, kv.2 ≠ none) (rs : List Rule) (k : K) :
    getR k (l.foldl (fun rs kv => match kv.2 with | some r => setR r rs | none => rs) rs) =
      match mapGet (fun kv : K × Option Rule => kv.1) k l with
      | some kv => kv.2
      | none => getR k rs := by
  induction l generalizing rs with
  | nil => simp [mapGet]
  | cons kv rest ih =>
    rw [KeysNodup, List.pairwise_cons] at hk
    simp only [List.foldl_cons]
    rw [ih hk.2 (fun x hx => hs x (List.mem_cons_of_mem _ hx)) (fun x hx => hnj x (List.mem_cons_of_mem _ hx))]
    have hm : mapGet (fun kv : K × Option Rule => kv.1) k (kv :: rest) =
        if kv.1 = k then some kv else mapGet (fun kv : K × Option Rule => kv.1) k rest := by
      unfold mapGet; simp only [List.find?_cons]
      by_cases e : kv.1 = k <;> simp [e]
    rw [hm]
    cases hv : kv.2 with
    | none => exact absurd hv (hnj kv List.mem_cons_self)
    | some r =>
      have hkr := hs kv List.mem_cons_self r hv
      by_cases e : kv.1 = k
      · have hnone : mapGet (fun kv : K × Option Rule => kv.1) k rest = none := by
          unfold mapGet; rw [List.find?_eq_none]; intro y hy
          simpa using fun e' => hk.1 y hy (e.trans e'.symm)
        simp only [hnone, e, ↓reduceIte, hv]
        unfold getR setR; rw [mapGet_mapSet, ← hkr, e]; simp
      · simp only [e, ↓reduceIte]
        cases mapGet (fun kv : K × Option Rule => kv.1) k rest with
        | some x => rfl
        | none =>
          simp only
          unfold getR setR; rw [mapGet_mapSet, ← hkr]; simp [e]

theorem foldl_setR_keys (l : List (K × Option Rule)) (rs : List Rule) (h : KeysNodup Rule.key rs) :
    KeysNodup Rule.key (l.foldl (fun rs kv => match kv.2 with | some r => setR r rs | none => rs) rs) := by
  induction l generalizing rs with
  | nil => exact h
  | cons kv rest ih =>
    simp only [List.foldl_cons]
    apply ih
    cases kv.2 with
    | none => exact h
    | some r => exact keysNodup_mapSet _ _ _ h

end PdModel.Rules

namespace PdModel.Rules
open PdModel.Spec.C13

/-- two well-formed configurations with the same rules and the same group configurations have the same index -/
theorem build_congr (c1 c2 : Config) (h1 : ConfigWF c1) (h2 : ConfigWF c2)
    (hr : ∀ k, getR k c1.rules = getR k c2.rules) (hg : ∀ id, c1.getGroup id = c2.getGroup id) :
    buildRuleList c1.grules = buildRuleList c2.grules := by
  have w1 := grules_wf c1.rules c1.getGroup h1.keys h1.valid
  have w2 := grules_wf c2.rules c2.getGroup h2.keys h2.valid
  apply build_iteration_order_independent' _ _ w1.1 w1.2
  show List.Perm (c1.rules.map (fun r => (⟨r, c1.getGroup r.group⟩ : GRule))) (c2.rules.map (fun r => (⟨r, c2.getGroup r.group⟩ : GRule)))
  rw [List.perm_ext_iff_of_nodup (nodup_of_keys w1.1) (nodup_of_keys w2.1)]
  intro x
  simp only [List.mem_map]
  constructor
  · rintro ⟨r, hr', rfl⟩
    have h3 : getR r.key c1.rules = some r := mapGet_of_mem Rule.key _ h1.keys r hr'
    rw [hr] at h3
    exact ⟨r, (mapGet_some _ _ _ _ h3).2, by rw [hg]⟩
  · rintro ⟨r, hr', rfl⟩
    have h3 : getR r.key c2.rules = some r := mapGet_of_mem Rule.key _ h2.keys r hr'
    rw [← hr] at h3
    exact ⟨r, (mapGet_some _ _ _ _ h3).2, by rw [hg]⟩

theorem filter_nd_getD (o : Option Group) (id : Nat) (h : ∀ g, o = some g → g.id = id) :
    (o.filter nonDefault).getD (defaultGroup id) = o.getD (defaultGroup id) := by
  cases o with
  | none => rfl
  | some g =>
    have hid := h g rfl
    by_cases hd : g.isDefault = true
    · simp only [Option.filter, nonDefault, hd, Bool.not_true, Bool.false_eq_true, ↓reduceIte, Option.getD_none,
        Option.getD_some]
      unfold Group.isDefault at hd
      simp only [Bool.and_eq_true, beq_iff_eq, Bool.not_eq_true'] at hd
      cases g
      simp_all [defaultGroup]
    · simp [Option.filter, nonDefault, hd]

/-- **restart**: a manager started on a storage that holds exactly what is served (no junk, every rule under its
    own key) loads the same rules, the same group configurations and builds the same index; it does not touch
    the storage. -/
theorem load_serves_storage (ip : InitParams) (s : St) (hc : ConfigWF s.mgr.cfg)
    (hidx : buildRuleList s.mgr.cfg.grules = .ok s.mgr.ruleList) (hsync : InSync s) (hst : StoreWF s.store) :
    ∃ m', initMgr ip s.store = (.ok m', s.store) ∧ m'.ruleList = s.mgr.ruleList ∧
      (∀ k, getR k m'.cfg.rules = getR k s.mgr.cfg.rules) ∧
      (∀ id, m'.cfg.getGroup id = s.mgr.cfg.getGroup id) := by
  have hself : ∀ kv ∈ s.store.rules, ∃ r, kv = (r.key, some r) ∧ ruleOK r = true := by
    intro kv hkv
    obtain ⟨r, rfl⟩ := hst.self kv hkv
    refine ⟨r, rfl, ?_⟩
    have h1 := mapGet_of_mem (fun kv : K × Option Rule => kv.1) _ hst.keys _ hkv
    have h2 := hsync.rules r.key
    unfold storeGetR at h2
    simp only at h1
    rw [h1] at h2
    exact hc.valid r (mapGet_some _ _ _ _ h2.symm).2
  have hload := loadLoop_clean s.store.rules [] hself hst.keys (fun _ _ => rfl)
  generalize hL : s.store.rules.foldl (fun rs kv => match kv.2 with | some r => setR r rs | none => rs) [] = L at hload
  have hLget : ∀ k, getR k L = getR k s.mgr.cfg.rules := by
    intro k
    rw [← hL, foldl_setR_get _ hst.keys
      (fun kv hkv r hr => by obtain ⟨r', rfl⟩ := hst.self kv hkv; simp only [Option.some.injEq] at hr; rw [hr])
      (fun kv hkv => by obtain ⟨r', rfl⟩ := hst.self kv hkv; simp)]
    have := hsync.rules k
    unfold storeGetR at this
    rw [← this]
    cases mapGet (fun kv : K × Option Rule => kv.1) k s.store.rules <;> rfl
  have hLkeys : KeysNodup Rule.key L := by rw [← hL]; exact foldl_setR_keys _ _ List.Pairwise.nil
  have hLne : L.isEmpty = false := by
    cases hrules : s.mgr.cfg.rules with
    | nil =>
      exfalso
      have hb : buildRuleList s.mgr.cfg.grules = .error .noRuleLeft := by
        unfold Config.grules; rw [hrules]; rfl
      rw [hb] at hidx; cases hidx
    | cons r rs =>
      have h3 : getR r.key s.mgr.cfg.rules = some r :=
        mapGet_of_mem Rule.key _ hc.keys r (by rw [hrules]; exact List.mem_cons_self)
      rw [← hLget] at h3
      cases L with
      | nil => simp [getR, mapGet] at h3
      | cons _ _ => rfl
  let G := s.store.groups.foldl (fun gs g => setG g gs) []
  have hGget : ∀ id, getG id G = getG id s.store.groups := by
    intro id
    have := commitGroups_get s.store.groups hst.gkeys [] id
    unfold commitGroups at this
    rw [this]
    cases getG id s.store.groups <;> rfl
  have hGkeys : KeysNodup gKey G := commitGroups_keys s.store.groups [] List.Pairwise.nil
  let c' := ({ rules := L, groups := G } : Config).adjust
  have hc' : ConfigWF c' := by
    refine ⟨hLkeys, ?_, adjust_gkeys _ hGkeys⟩
    intro r hr
    have h3 : getR r.key L = some r := mapGet_of_mem Rule.key _ hLkeys r hr
    rw [hLget] at h3
    exact hc.valid r (mapGet_some _ _ _ _ h3).2
  have hgg : ∀ id, c'.getGroup id = s.mgr.cfg.getGroup id := by
    intro id
    show (({ rules := L, groups := G } : Config).adjust).getGroup id = _
    rw [adjust_getGroup _ hGkeys]
    unfold Config.getGroup
    simp only
    rw [hGget, hsync.groups id]
    exact filter_nd_getD _ id (fun g hg => getG_key id _ g hg)
  have hbuild : buildRuleList c'.grules = .ok s.mgr.ruleList := by
    rw [build_congr c' s.mgr.cfg hc' hc hLget hgg]; exact hidx
  refine ⟨{ cfg := c', ruleList := s.mgr.ruleList }, ?_, rfl, hLget, hgg⟩
  unfold initMgr
  rw [hload]
  simp only [List.foldl_nil, List.map_nil, List.filter_nil, hLne, Bool.false_eq_true, ↓reduceIte]
  show (match buildRuleList c'.grules with
    | .error e => ((Except.error e : Except BuildErr Mgr), s.store)
    | .ok rl => (Except.ok ({ cfg := c', ruleList := rl } : Mgr), s.store)) = _
  rw [hbuild]

end PdModel.Rules
