import PdModel.Lemmas.RegionTreeInv
set_option linter.unusedSimpArgs false
set_option linter.unusedVariables false
/-!
`Inv` (the invariant of RegionsInfo), `abs` (the list of current regions) and the refinement steps of
SetRegion / RemoveRegion.
-/
namespace PdModel.RegionTree
open PdModel.Spec.C07 (WFRange WF Overlap OnStore)
open PdModel.Spec

/-- the id map and the item list `U` describe the same set of regions -/
structure MapOk (s : RegionsInfo) (U : List Nat) : Prop where
  keys : (s.regions.map (·.1)).Nodup
  fwd : ∀ a ∈ U, mapGet s.regions (s.acc a).id = some a
  bwd : ∀ (id a : Nat), mapGet s.regions id = some a → a ∈ U ∧ (s.acc a).id = id
  bound : ∀ a ∈ U, a < s.heap.length

theorem MapOk.inj {s : RegionsInfo} {U : List Nat} (h : MapOk s U) : IdInj s.acc U := by
  intro a ha b hb e
  have h1 := h.fwd a ha
  have h2 := h.fwd b hb
  rw [e, h2] at h1
  exact (Option.some.inj h1).symm

/-- the invariant of RegionsInfo: ordered non-overlapping main tree with exact size counter, id map and
    tree describe the same regions, every sub-tree is the matching filter of the main tree -/
structure Inv (s : RegionsInfo) : Prop where
  noNil : s.nilDeref = false
  ord : Ordered s.acc s.tree.items
  wf : ∀ a ∈ s.tree.items, WF (s.acc a)
  total : s.tree.totalSize = sumOf s.acc s.tree.items
  map : MapOk s s.tree.items
  subs : SubsOk s s.tree.items

/-- the current regions, in key order -/
def abs (s : RegionsInfo) : List Region := s.tree.items.map s.acc

theorem acc_eq_of_heap {s1 s2 : RegionsInfo} (h : s1.heap = s2.heap) : s1.acc = s2.acc := by
  unfold RegionsInfo.acc; rw [h]

theorem inv_init : Inv {} := by
  refine ⟨rfl, ⟨List.Pairwise.nil, by simp⟩, by simp, by simp [sumOf], ⟨by simp, by simp, ?_, by simp⟩, ?_⟩
  · intro id a h; simp [mapGet] at h
  · intro role st
    have : ({} : RegionsInfo).sub role st = {} := by cases role <;> rfl
    rw [this]; simp [TreeIs, sumOf]

/-- regionTree.remove of a region whose id no item carries: nothing happens -/
theorem Tree.remove_noop {acc : Acc} {t : Tree} {g : Region} (hO : Ordered acc t.items)
    (hid : ∀ a ∈ t.items, (acc a).id ≠ g.id) : t.remove acc g = t := by
  unfold Tree.remove
  split
  · rfl
  · split
    · rfl
    · next a ha =>
      have := hid a ((find_eq_some_iff acc hO).1 ha).1
      simp [this]

theorem mapGet_foldl_mapDel {β : Type} (ids : List Nat) (m : List (Nat × β)) (k : Nat) :
    mapGet (ids.foldl mapDel m) k = if k ∈ ids then none else mapGet m k := by
  induction ids generalizing m with
  | nil => simp
  | cons i ids ih =>
    simp only [List.foldl_cons, ih, mapGet_mapDel, List.mem_cons]
    by_cases h1 : k ∈ ids
    · simp [h1]
    · by_cases h2 : k = i <;> simp [h1, h2]

theorem keys_foldl_mapDel {β : Type} (ids : List Nat) (m : List (Nat × β)) (h : (m.map (·.1)).Nodup) :
    ((ids.foldl mapDel m).map (·.1)).Nodup := by
  induction ids generalizing m with
  | nil => exact h
  | cons i ids ih =>
    simp only [List.foldl_cons]
    apply ih
    rw [mapDel_keys]
    exact List.Nodup.sublist List.filter_sublist h

theorem removeOverlapped_cons (σ : RegionsInfo) (g : Region) (gs : List Region) :
    removeOverlapped σ (g :: gs) = removeOverlapped
      (match getRegion σ g.id with
        | some g' => removeRegion σ g'
        | none => { σ with nilDeref := true }) gs := rfl

/-- Lemma E: the loop that removes the displaced regions.  The main tree (which no longer holds them)
    and the heap stay as they are, the ids leave the map, the items leave every sub-tree. -/
theorem removeOverlapped_spec {x : Nat} (ovl : List Nat) :
    ∀ (σ : RegionsInfo) (U : List Nat), (∀ o ∈ ovl, o ∈ U) → ovl.Nodup → σ.nilDeref = false →
    (∀ a ∈ U, mapGet σ.regions (σ.acc a).id = some a) → IdInj σ.acc (x :: U) →
    Ordered σ.acc U → (∀ a ∈ U, WF (σ.acc a)) → SubsOk σ U →
    Ordered σ.acc σ.tree.items → (∀ a ∈ σ.tree.items, a = x ∨ a ∈ U) → (∀ o ∈ ovl, o ∉ σ.tree.items) →
    (removeOverlapped σ (ovl.map σ.acc)).tree = σ.tree ∧
    (removeOverlapped σ (ovl.map σ.acc)).heap = σ.heap ∧
    (removeOverlapped σ (ovl.map σ.acc)).nilDeref = false ∧
    (removeOverlapped σ (ovl.map σ.acc)).regions = (ovl.map (fun o => (σ.acc o).id)).foldl mapDel σ.regions ∧
    SubsOk (removeOverlapped σ (ovl.map σ.acc)) (U.filter (fun a => decide (a ∉ ovl))) := by
  induction ovl with
  | nil =>
    intro σ U _ _ hnil _ _ _ _ hsubs _ _ _
    have : U.filter (fun a => decide (a ∉ ([] : List Nat))) = U := List.filter_eq_self.2 (by simp)
    refine ⟨rfl, rfl, hnil, rfl, ?_⟩
    rw [this]; exact hsubs
  | cons o rest ih =>
    intro σ U hov hnd hnil hfwd hinj hU hwf hsubs htree hsubset hdisj
    have hoU := hov o (by simp)
    have hndc := List.nodup_cons.1 hnd
    have hget : getRegion σ (σ.acc o).id = some (σ.acc o) := by
      unfold getRegion; rw [hfwd o hoU]; rfl
    -- one removal
    have hids : ∀ a ∈ σ.tree.items, (σ.acc a).id ≠ (σ.acc o).id := by
      intro a ha e
      have hao : a ≠ o := fun e' => hdisj o (by simp) (e' ▸ ha)
      have h1 : a ∈ x :: U := by rcases hsubset a ha with h | h <;> simp [h]
      exact hao (hinj a h1 o (by simp [hoU]) e)
    have hrm : σ.tree.remove σ.acc (σ.acc o) = σ.tree := Tree.remove_noop htree hids
    let σ0 : RegionsInfo := { σ with tree := σ.tree.remove σ.acc (σ.acc o), regions := mapDel σ.regions (σ.acc o).id }
    have hσ0acc : σ0.acc = σ.acc := rfl
    have hsubs0 : SubsOk σ0 U := subsOk_congr (s := σ) (fun role => by cases role <;> rfl) (fun _ _ => rfl) hsubs
    have hinjU : IdInj σ.acc U := fun a ha b hb e => hinj a (by simp [ha]) b (by simp [hb]) e
    have hA := subsOk_removeSub (s := σ0) hU hinjU hoU (hwf o hoU) hsubs0
    let σ1 := removeRegion σ (σ.acc o)
    have hσ1 : σ1 = removeRegionFromSubTree σ0 (σ0.acc o) := rfl
    have h1tree : σ1.tree = σ.tree := by rw [hσ1]; unfold removeRegionFromSubTree; simp [σ0, hrm]
    have h1heap : σ1.heap = σ.heap := by rw [hσ1]; unfold removeRegionFromSubTree; rfl
    have h1acc : σ1.acc = σ.acc := acc_eq_of_heap h1heap
    have h1nil : σ1.nilDeref = false := by rw [hσ1]; unfold removeRegionFromSubTree; simpa [σ0] using hnil
    have h1reg : σ1.regions = mapDel σ.regions (σ.acc o).id := by rw [hσ1]; unfold removeRegionFromSubTree; rfl
    have hstep : removeOverlapped σ ((o :: rest).map σ.acc) = removeOverlapped σ1 (rest.map σ1.acc) := by
      rw [List.map_cons, removeOverlapped_cons, hget, h1acc]
    rw [hstep]
    have hU1 := hU.filter σ.acc (fun a => decide (a ≠ o))
    have IH := ih σ1 (U.filter (fun a => decide (a ≠ o)))
      (fun o' ho' => List.mem_filter.2 ⟨hov o' (by simp [ho']), by
        simp only [ne_eq, decide_not, Bool.not_eq_eq_eq_not, Bool.not_true, decide_eq_false_iff_not]
        intro e; exact hndc.1 (e ▸ ho')⟩)
      hndc.2 h1nil
      (by
        intro a ha
        obtain ⟨haU, hao⟩ := List.mem_filter.1 ha
        simp only [ne_eq, decide_not, Bool.not_eq_eq_eq_not, Bool.not_true, decide_eq_false_iff_not] at hao
        rw [h1reg, h1acc, mapGet_mapDel]
        have : (σ.acc a).id ≠ (σ.acc o).id := fun e => hao (hinjU a haU o hoU e)
        simp [this, hfwd a haU])
      (by
        rw [h1acc]
        intro a ha b hb e
        have ha' : a ∈ x :: U := by
          simp only [List.mem_cons, List.mem_filter] at ha ⊢; rcases ha with h | h; exact Or.inl h; exact Or.inr h.1
        have hb' : b ∈ x :: U := by
          simp only [List.mem_cons, List.mem_filter] at hb ⊢; rcases hb with h | h; exact Or.inl h; exact Or.inr h.1
        exact hinj a ha' b hb' e)
      (by rw [h1acc]; exact hU1)
      (by rw [h1acc]; intro a ha; exact hwf a (List.mem_filter.1 ha).1)
      (by rw [hσ1]; exact hA)
      (by rw [h1acc, h1tree]; exact htree)
      (by
        rw [h1tree]
        intro a ha
        rcases hsubset a ha with h | h
        · exact Or.inl h
        · refine Or.inr (List.mem_filter.2 ⟨h, ?_⟩)
          simp only [ne_eq, decide_not, Bool.not_eq_eq_eq_not, Bool.not_true, decide_eq_false_iff_not]
          intro e; exact hdisj o (by simp) (e ▸ ha))
      (by rw [h1tree]; intro o' ho'; exact hdisj o' (by simp [ho']))
    obtain ⟨i1, i2, i3, i4, i5⟩ := IH
    refine ⟨i1.trans h1tree, i2.trans h1heap, i3, ?_, ?_⟩
    · rw [i4, h1reg, h1acc]; rfl
    · have : (U.filter (fun a => decide (a ≠ o))).filter (fun a => decide (a ∉ rest)) =
          U.filter (fun a => decide (a ∉ o :: rest)) := by
        rw [List.filter_filter]
        apply List.filter_congr; intro a _; simp [not_or, Bool.and_comm]
      rw [← this]; exact i5

/-! ### list specification side -/

theorem insertItem_eq_insertByKey (r : Region) (M : List Region) (hM : Asc id M)
    (hnew : ∀ y ∈ M, y.startKey ≠ r.startKey) : insertItem id M r = C07.insertByKey r M := by
  induction M with
  | nil => simp [insertItem, C07.insertByKey]
  | cons y ys ih =>
    have hy := List.pairwise_cons.1 hM
    have hne := hnew y (by simp)
    have ih' := ih hy.2 (fun z hz => hnew z (by simp [hz]))
    simp only [C07.insertByKey]
    split
    · next hlt =>
      have h1 : (y :: ys).filter (fun a => decide ((id a).startKey < (id r).startKey)) = [] := by
        rw [List.filter_eq_nil_iff]
        intro z hz
        simp only [id, decide_eq_true_eq]
        simp only [List.mem_cons] at hz
        rcases hz with rfl | hz
        · grind
        · have := hy.1 z hz; simp only [id] at this; grind
      have h2 : (y :: ys).filter (fun a => decide ((id r).startKey < (id a).startKey)) = y :: ys := by
        rw [List.filter_eq_self]
        intro z hz
        simp only [id, decide_eq_true_eq]
        simp only [List.mem_cons] at hz
        rcases hz with rfl | hz
        · exact hlt
        · have := hy.1 z hz; simp only [id] at this; grind
      simp only [insertItem, h1, h2, List.nil_append]
    · next hge =>
      have hlt : y.startKey < r.startKey := by grind
      rw [← ih']
      simp only [insertItem, List.filter_cons, id, hlt, decide_true, if_true, hge, decide_false,
        Bool.false_eq_true, if_false, List.cons_append]

theorem map_insertItem (acc : Acc) (K : List Nat) (x : Nat) :
    (insertItem acc K x).map acc = insertItem id (K.map acc) (acc x) := by
  simp only [insertItem, List.map_append, List.map_cons, List.filter_map, id]
  rfl

/-! ### SetRegion with a new or changed range -/

/-- the state in the middle of SetRegion when the range is new or has changed: item `x` already holds
    the new region `r` and is known to the id map, but sits in no tree -/
structure Detached (s1 : RegionsInfo) (x : Nat) (r : Region) : Prop where
  noNil : s1.nilDeref = false
  accx : s1.acc x = r
  notin : x ∉ s1.tree.items
  xbound : x < s1.heap.length
  ord : Ordered s1.acc s1.tree.items
  wf : ∀ a ∈ s1.tree.items, WF (s1.acc a)
  total : s1.tree.totalSize = sumOf s1.acc s1.tree.items
  subs : SubsOk s1 s1.tree.items
  keys : (s1.regions.map (·.1)).Nodup
  mapx : mapGet s1.regions r.id = some x
  fwd : ∀ a ∈ s1.tree.items, mapGet s1.regions (s1.acc a).id = some a
  bwd : ∀ (id a : Nat), mapGet s1.regions id = some a →
    (a = x ∧ id = r.id) ∨ (a ∈ s1.tree.items ∧ (s1.acc a).id = id)
  bound : ∀ a ∈ s1.tree.items, a < s1.heap.length

theorem Detached.id_ne {s1 : RegionsInfo} {x : Nat} {r : Region} (h : Detached s1 x r) :
    ∀ a ∈ s1.tree.items, (s1.acc a).id ≠ r.id := by
  intro a ha e
  have := h.fwd a ha
  rw [e, h.mapx] at this
  exact h.notin ((Option.some.inj this) ▸ ha)

theorem Detached.inj {s1 : RegionsInfo} {x : Nat} {r : Region} (h : Detached s1 x r) :
    IdInj s1.acc (x :: s1.tree.items) := by
  intro a ha b hb e
  simp only [List.mem_cons] at ha hb
  rcases ha with rfl | ha <;> rcases hb with rfl | hb
  · rfl
  · rw [h.accx] at e; exact absurd e.symm (h.id_ne b hb)
  · rw [h.accx] at e; exact absurd e (h.id_ne a ha)
  · have h1 := h.fwd a ha
    have h2 := h.fwd b hb
    rw [e, h2] at h1
    exact (Option.some.inj h1).symm

theorem detached_finish {s1 : RegionsInfo} {x : Nat} {r : Region} (h : Detached s1 x r) (hr : WF r)
    (origin : Region) :
    Inv (setRegionSubs (setRegionMain s1 x origin r true).1 x origin r true) ∧
    abs (setRegionSubs (setRegionMain s1 x origin r true).1 x origin r true) =
      C07.put (s1.tree.items.map s1.acc) r ∧
    (setRegionMain s1 x origin r true).2 = C07.displaced (s1.tree.items.map s1.acc) r := by
  have hwx : WFRange (s1.acc x) := h.accx ▸ hr.1
  obtain ⟨m1, m2, m3, m4⟩ := Tree.update_main h.ord h.total hwx
  rw [h.accx] at m1 m2
  -- names
  obtain ⟨U, hUdef⟩ : ∃ U, U = s1.tree.items := ⟨_, rfl⟩
  obtain ⟨ovl, hovl⟩ : ∃ ovl, ovl = U.filter (fun a => decide (Overlap (s1.acc a) r)) := ⟨_, rfl⟩
  obtain ⟨K, hKdef⟩ : ∃ K, K = U.filter (fun a => decide (¬ Overlap (s1.acc a) r)) := ⟨_, rfl⟩
  obtain ⟨V, hVdef⟩ : ∃ V, V = insertItem s1.acc K x := ⟨_, rfl⟩
  obtain ⟨t, htdef⟩ : ∃ t, t = (s1.tree.update s1.acc x).1 := ⟨_, rfl⟩
  obtain ⟨σ, hσdef⟩ : ∃ σ : RegionsInfo, σ = { s1 with tree := t } := ⟨_, rfl⟩
  rw [← hUdef, ← hovl] at m1
  rw [← hUdef, ← hKdef, ← hVdef, ← htdef] at m2
  rw [← htdef] at m3 m4
  have hord := h.ord
  have hwfU := h.wf
  have hfwd := h.fwd
  have hsubsU := h.subs
  have hbound := h.bound
  have hnotin := h.notin
  rw [← hUdef] at hord hwfU hfwd hsubsU hbound hnotin
  have hσacc : σ.acc = s1.acc := by rw [hσdef]; rfl
  have hσreg : σ.regions = s1.regions := by rw [hσdef]
  have hσtree : σ.tree = t := by rw [hσdef]
  have hσnil : σ.nilDeref = false := by rw [hσdef]; exact h.noNil
  have hσheap : σ.heap = s1.heap := by rw [hσdef]
  have hKU : ∀ a ∈ K, a ∈ U := fun a ha => (List.mem_filter.1 (hKdef ▸ ha)).1
  have hxK : x ∉ K := fun hx => hnotin (hKU x hx)
  have hKno : ∀ a ∈ K, ¬ Overlap (s1.acc a) r := by
    intro a ha
    have := (List.mem_filter.1 (hKdef ▸ ha)).2
    exact of_decide_eq_true this
  have hKasc : Asc s1.acc K := by rw [hKdef]; exact (hord.asc _).filter _ _
  have hnewK : ∀ b ∈ K, (s1.acc b).startKey ≠ (s1.acc x).startKey := by
    intro b hb hk
    have hwb := hwfU b (hKU b hb)
    have := hKno b hb
    rw [h.accx] at hk
    unfold Overlap WF WFRange at *; grind
  have hmemV : ∀ a, a ∈ V ↔ a = x ∨ a ∈ K := by
    intro a; rw [hVdef]; exact mem_insertItem_of_new s1.acc hnewK
  have hovU : ∀ o ∈ ovl, o ∈ U ∧ Overlap (s1.acc o) r := by
    intro o ho
    have := List.mem_filter.1 (hovl ▸ ho)
    exact ⟨this.1, by simpa using this.2⟩
  have hmain : setRegionMain s1 x origin r true = (removeOverlapped σ (ovl.map σ.acc), ovl.map s1.acc) := by
    unfold setRegionMain
    simp only [Bool.not_true, Bool.false_eq_true, if_false]
    rw [← htdef, m1, hσdef]
    rfl
  have hinjx : IdInj σ.acc (x :: U) := by rw [hσacc, hUdef]; exact h.inj
  have hE := removeOverlapped_spec (x := x) ovl σ U (fun o ho => (hovU o ho).1)
    (by rw [hovl]; exact ((hord.asc _).filter _ _).nodup _) hσnil
    (by rw [hσacc, hσreg]; exact hfwd) hinjx (by rw [hσacc]; exact hord) (by rw [hσacc]; exact hwfU)
    (subsOk_congr (s := s1) (fun role => by rw [hσdef]; cases role <;> rfl) (fun _ _ => by rw [hσacc]) hsubsU)
    (by rw [hσacc, hσtree]; exact m4)
    (by
      rw [hσtree, m2]
      intro a ha
      rcases (hmemV a).1 ha with e | h1
      · exact Or.inl e
      · exact Or.inr (hKU a h1))
    (by
      rw [hσtree, m2]
      intro o ho hmem
      rcases (hmemV o).1 hmem with e | h1
      · exact hnotin (e ▸ (hovU o ho).1)
      · exact hKno o h1 (hovU o ho).2)
  obtain ⟨e1, e2, e3, e4, e5⟩ := hE
  have hfiltK : U.filter (fun a => decide (a ∉ ovl)) = K := by
    rw [hKdef, hovl]
    apply List.filter_congr; intro a ha; simp [List.mem_filter, ha]
  rw [hfiltK] at e5
  obtain ⟨σ', hσ'def⟩ : ∃ σ', σ' = removeOverlapped σ (ovl.map σ.acc) := ⟨_, rfl⟩
  rw [← hσ'def] at e1 e2 e3 e4 e5 hmain
  rw [hσtree] at e1
  rw [hσheap] at e2
  rw [hσreg, hσacc] at e4
  have hσ'acc : σ'.acc = s1.acc := acc_eq_of_heap e2
  have hxV : x ∈ V := (hmemV x).2 (Or.inl rfl)
  have hVasc : Asc s1.acc V := by rw [hVdef]; exact hKasc.insertItem _ x
  have hVK : V.filter (fun a => decide (a ≠ x)) = K := by
    apply Asc.ext s1.acc (hVasc.filter _ _) hKasc
    intro a
    simp only [List.mem_filter, ne_eq, decide_not, Bool.not_eq_eq_eq_not, Bool.not_true, decide_eq_false_iff_not,
      hmemV]
    constructor
    · rintro ⟨h1 | h1, h2⟩
      · exact absurd h1 h2
      · exact h1
    · intro ha
      exact ⟨Or.inr ha, fun e => hxK (e ▸ ha)⟩
  have hVord : Ordered σ'.acc V := by rw [hσ'acc, ← m2]; exact m4
  have hC := subsOk_add (s := σ') (V := V) (x := x) hVord hxV (by rw [hσ'acc, h.accx]; exact hr)
    (by rw [hVK]; exact e5)
  have hfin : setRegionSubs (setRegionMain s1 x origin r true).1 x origin r true = addToSubTrees σ' x (σ'.acc x) := by
    rw [hmain]
    unfold setRegionSubs
    simp only [Bool.not_true, Bool.false_eq_true, if_false]
    rw [hσ'acc, h.accx]
  rw [hfin, hmain]
  have hftree : (addToSubTrees σ' x (σ'.acc x)).tree = t := by
    unfold addToSubTrees; rw [mapFams_tree, e1]
  have hfacc : (addToSubTrees σ' x (σ'.acc x)).acc = s1.acc := by
    unfold addToSubTrees; rw [mapFams_acc]; exact hσ'acc
  have hidU : ∀ a ∈ U, (s1.acc a).id ≠ r.id := by rw [hUdef]; exact h.id_ne
  have hinjU : IdInj s1.acc U := fun a ha b hb e => hinjx a (by simp [ha]) b (by simp [hb]) (by rw [hσacc]; exact e)
  have hnotov : ∀ a ∈ K, (s1.acc a).id ∉ ovl.map (fun o => (s1.acc o).id) := by
    intro a ha hm
    obtain ⟨o, ho, e⟩ := List.mem_map.1 hm
    have := hinjU o (hovU o ho).1 a (hKU a ha) e
    exact hKno a ha (this ▸ (hovU o ho).2)
  refine ⟨?_, ?_, ?_⟩
  · -- Inv
    refine ⟨?_, ?_, ?_, ?_, ?_, ?_⟩
    · unfold addToSubTrees; rw [mapFams_nil]; exact e3
    · rw [hfacc, hftree]; exact m4
    · rw [hfacc, hftree, m2]
      intro a ha
      rcases (hmemV a).1 ha with rfl | h1
      · rw [h.accx]; exact hr
      · exact hwfU a (hKU a h1)
    · rw [hftree, hfacc]; exact m3
    · have hreg : (addToSubTrees σ' x (σ'.acc x)).regions =
          (ovl.map (fun o => (s1.acc o).id)).foldl mapDel s1.regions := by
        unfold addToSubTrees; rw [mapFams_regions]; exact e4
      refine ⟨?_, ?_, ?_, ?_⟩
      · rw [hreg]; exact keys_foldl_mapDel _ _ h.keys
      · rw [hftree, hfacc, hreg, m2]
        intro a ha
        rw [mapGet_foldl_mapDel]
        rcases (hmemV a).1 ha with rfl | h1
        · rw [h.accx]
          have : r.id ∉ ovl.map (fun o => (s1.acc o).id) := by
            intro hm
            obtain ⟨o, ho, e⟩ := List.mem_map.1 hm
            exact hidU o (hovU o ho).1 e
          simp [this, h.mapx]
        · simp [hnotov a h1, hfwd a (hKU a h1)]
      · rw [hftree, hfacc, hreg, m2]
        intro id a hg
        rw [mapGet_foldl_mapDel] at hg
        split at hg
        · cases hg
        · next hnot =>
          rcases h.bwd id a hg with ⟨rfl, rfl⟩ | ⟨haU, hid⟩
          · exact ⟨hxV, by rw [h.accx]⟩
          · rw [← hUdef] at haU
            refine ⟨(hmemV a).2 (Or.inr ?_), hid⟩
            rw [hKdef]
            refine List.mem_filter.2 ⟨haU, ?_⟩
            simp only [decide_eq_true_eq]
            intro hov
            apply hnot
            rw [← hid]
            refine List.mem_map.2 ⟨a, ?_, rfl⟩
            rw [hovl]
            exact List.mem_filter.2 ⟨haU, by simpa using hov⟩
      · rw [hftree, m2]
        have hheap : (addToSubTrees σ' x (σ'.acc x)).heap = s1.heap := by
          unfold addToSubTrees; rw [mapFams_heap]; exact e2
        rw [hheap]
        intro a ha
        rcases (hmemV a).1 ha with rfl | h1
        · exact h.xbound
        · exact hbound a (hKU a h1)
    · rw [hftree, m2]; exact hC
  · -- abs
    unfold abs
    rw [hftree, hfacc, m2, hVdef, map_insertItem, h.accx, ← hUdef]
    unfold C07.put
    have hfm : (U.map s1.acc).filter (fun y => decide (¬ Overlap y r ∧ y.id ≠ r.id)) = K.map s1.acc := by
      rw [List.filter_map, hKdef]
      congr 1
      apply List.filter_congr
      intro a ha
      simp [hidU a ha]
    rw [hfm]
    apply insertItem_eq_insertByKey
    · exact List.pairwise_map.2 hKasc
    · intro y hy
      obtain ⟨b, hb, rfl⟩ := List.mem_map.1 hy
      have := hnewK b hb
      rwa [h.accx] at this
  · -- displaced
    simp only
    rw [← hUdef]
    unfold C07.displaced
    rw [List.filter_map, hovl]
    congr 1
    apply List.filter_congr
    intro a ha
    simp [hidU a ha]

end PdModel.RegionTree
