import PdModel.Model.Syncer
import PdModel.Lemmas.HistoryBuf
import PdModel.Lemmas.SyncRegion
set_option linter.unusedSimpArgs false
set_option linter.unusedVariables false
/-! Helper lemmas for the synchronisation theorems of C16. -/
namespace PdModel.Syncer
open PdModel.HistoryBuf PdModel.SyncRegion

/-- a present leader peer has a non-zero id (id 0 is the wire encoding of "no leader") -/
def WF (r : Region) : Prop := ∀ p : Peer, r.leader = some p → p.id ≠ 0

/-! ### wire encoding and positional decoding -/

theorem decode_leader (r : Region) (h : WF r) :
    (if (wireLeader r).id != 0 then some (wireLeader r) else none) = r.leader := by
  unfold wireLeader
  cases hl : r.leader with
  | none => simp [emptyPeer]
  | some p => simp [h p hl]

theorem decodeAux_encode (rs : List Region) (h : ∀ r ∈ rs, WF r) :
    decodeAux true (rs.map (·.md)) (rs.map (·.stat)) (rs.map wireLeader) = rs := by
  induction rs with
  | nil => rfl
  | cons r rs ih =>
    simp only [List.map_cons, decodeAux, List.head?_cons, List.headD_cons, List.tail_cons, if_true]
    rw [ih (fun x hx => h x (by simp [hx])), decode_leader r (h r (by simp))]

theorem decode_encode (start : Nat) (rs : List Region) (h : ∀ r ∈ rs, WF r) :
    decode { start := start, regions := rs.map (·.md), stats := rs.map (·.stat),
             leaders := rs.map wireLeader } = rs := by
  unfold decode
  simp only [List.length_map, beq_self_eq_true]
  exact decodeAux_encode rs h

theorem decodeAux_length (hs : Bool) (ms : List Meta) (ss : List Stat) (ls : List Peer) :
    (decodeAux hs ms ss ls).length = ms.length := by
  induction ms generalizing ss ls with
  | nil => rfl
  | cons m ms ih => simp [decodeAux, ih]

theorem decode_length (m : Msg) : (decode m).length = m.regions.length := decodeAux_length _ _ _ _

/-! ### the batch loop -/

theorem fullSyncLoop_nil (batch : Nat) (k : Bool) (ms : List Meta) (ss : List Stat) (ls : List Peer) (last : Nat) :
    fullSyncLoop batch k [] ms ss ls last = [] := rfl

/-- decoding the messages of the (repaired) loop gives back exactly the regions, whatever the batch
    size and the number of batches -/
theorem fullSyncLoop_decode (batch : Nat) (rest : List Region) :
    ∀ (acc : List Region) (last : Nat), (∀ r ∈ acc ++ rest, WF r) → rest ≠ [] →
      (fullSyncLoop batch false rest (acc.map (·.md)) (acc.map (·.stat)) (acc.map wireLeader) last).flatMap decode
        = acc ++ rest := by
  induction rest with
  | nil => intro acc last _ h; exact absurd rfl h
  | cons r rest ih =>
    intro acc last hwf _
    have hm : acc.map (·.md) ++ [r.md] = (acc ++ [r]).map (·.md) := by simp
    have hs : acc.map (·.stat) ++ [r.stat] = (acc ++ [r]).map (·.stat) := by simp
    have hl : acc.map wireLeader ++ [wireLeader r] = (acc ++ [r]).map wireLeader := by simp
    unfold fullSyncLoop
    simp only [hm, hs, hl]
    split
    · next hc =>
      have hne : rest ≠ [] := by
        intro he; simp [he] at hc
      have := ih (acc ++ [r]) last (by simpa using hwf) hne
      simpa using this
    · next hc =>
      simp only [Bool.false_eq_true, if_false, List.flatMap_cons]
      rw [decode_encode _ _ (fun x hx => hwf x (by
        simp only [List.mem_append, List.mem_singleton, List.mem_cons, List.not_mem_nil, or_false] at hx ⊢
        rcases hx with hx | hx
        · exact Or.inl hx
        · exact Or.inr (Or.inl hx)))]
      by_cases hne : rest = []
      · subst hne; simp [fullSyncLoop_nil]
      · have := ih [] (last + ((acc ++ [r]).map (·.md)).length)
          (fun x hx => hwf x (by simp at hx ⊢; exact Or.inr (Or.inr hx))) hne
        simp only [List.map_nil, List.nil_append] at this
        rw [this]; simp

/-- messages whose start index continues where the previous one ended -/
def Chained : Nat → List Msg → Prop
  | _, [] => True
  | s, m :: ms => m.start = s ∧ Chained (s + m.regions.length) ms

theorem fullSyncLoop_chained (batch : Nat) (k : Bool) (rest : List Region) :
    ∀ (ms : List Meta) (ss : List Stat) (ls : List Peer) (last : Nat),
      Chained last (fullSyncLoop batch k rest ms ss ls last) := by
  induction rest with
  | nil => intros; trivial
  | cons r rest ih =>
    intro ms ss ls last
    unfold fullSyncLoop
    simp only
    split
    · exact ih _ _ _ _
    · exact ⟨rfl, ih _ _ _ _⟩

/-- the three arrays of every message have the same length, at most `batch` entries -/
def Aligned (batch : Nat) (m : Msg) : Prop :=
  m.stats.length = m.regions.length ∧ m.leaders.length = m.regions.length ∧ m.regions.length ≤ batch

theorem fullSyncLoop_aligned (batch : Nat) (hb : 0 < batch) (rest : List Region) :
    ∀ (ms : List Meta) (ss : List Stat) (ls : List Peer) (last : Nat),
      ss.length = ms.length → ls.length = ms.length → ms.length < batch →
      ∀ m ∈ fullSyncLoop batch false rest ms ss ls last, Aligned batch m := by
  induction rest with
  | nil => intro _ _ _ _ _ _ _ m hm; simp [fullSyncLoop] at hm
  | cons r rest ih =>
    intro ms ss ls last h1 h2 h3 m hm
    unfold fullSyncLoop at hm
    simp only at hm
    split at hm
    · next hc =>
      simp only [Bool.and_eq_true, decide_eq_true_eq] at hc
      exact ih _ _ _ _ (by simp [h1]) (by simp [h2]) hc.1 m hm
    · simp only [Bool.false_eq_true, if_false, List.mem_cons] at hm
      rcases hm with rfl | hm
      · refine ⟨by simp [h1], by simp [h2], ?_⟩
        simp only [List.length_append, List.length_singleton]; omega
      · exact ih [] [] [] _ rfl rfl hb m hm

/-! ### the follower's loop -/

/-- no save of this follower is set to fail -/
def NoFail (f : Follower) : Prop := f.failOnce = [] ∧ f.failAlways = []

theorem applyOneF_noFail (f : Follower) (h : NoFail f) (r : Region) :
    applyOneF f r = applyOne f r ∧ NoFail (applyOne f r) := by
  unfold applyOneF
  simp [h.1, h.2, applyOne, NoFail]

theorem applyOneF_cache (f : Follower) (r : Region) : (applyOneF f r).cache = applyRegion f.cache r := by
  unfold applyOneF
  split
  · rfl
  · split <;> rfl

/-- whatever saves fail, the cache takes every region -/
theorem foldl_applyOne_cache (rs : List Region) (f : Follower) :
    (rs.foldl applyOneF f).cache = rs.foldl applyRegion f.cache := by
  induction rs generalizing f with
  | nil => rfl
  | cons r rs ih => simp only [List.foldl_cons]; rw [ih, applyOneF_cache]

theorem foldl_applyOne_index (rs : List Region) (f : Follower) (h : NoFail f) :
    (rs.foldl applyOneF f).hist.index = f.hist.index + rs.length ∧ NoFail (rs.foldl applyOneF f) := by
  induction rs generalizing f with
  | nil => exact ⟨rfl, h⟩
  | cons r rs ih =>
    simp only [List.foldl_cons, List.length_cons]
    obtain ⟨h1, h2⟩ := applyOneF_noFail f h r
    rw [h1]
    obtain ⟨h3, h4⟩ := ih (applyOne f r) h2
    refine ⟨?_, h4⟩
    rw [h3]
    simp only [applyOne]
    rw [(record_fields f.hist r false).2.2.2.2.1]
    omega

theorem applyMsg_cache (f : Follower) (m : Msg) :
    (applyMsg f m).cache = (decode m).foldl applyRegion f.cache := by
  unfold applyMsg
  simp only
  rw [foldl_applyOne_cache]
  split <;> rfl

theorem resetWithIndex_index {α : Type} (b : Buf α) (n : Nat) (fl : Bool) : (resetWithIndex b n fl).index = n := by
  unfold resetWithIndex persist; split <;> rfl

theorem applyMsg_index (f : Follower) (h : NoFail f) (m : Msg) :
    (applyMsg f m).hist.index = m.start + m.regions.length ∧ NoFail (applyMsg f m) := by
  unfold applyMsg
  simp only
  split
  · have := foldl_applyOne_index (decode m) { f with hist := resetWithIndex f.hist m.start false } h
    rw [decode_length] at this
    exact ⟨by rw [this.1]; simp [resetWithIndex_index], this.2⟩
  · next hh =>
    have := foldl_applyOne_index (decode m) f h
    rw [decode_length] at this
    simp at hh
    exact ⟨by rw [this.1, hh], this.2⟩

theorem applyMsgs_cache (ms : List Msg) (f : Follower) :
    (ms.foldl applyMsg f).cache = (ms.flatMap decode).foldl applyRegion f.cache := by
  induction ms generalizing f with
  | nil => rfl
  | cons m ms ih =>
    simp only [List.foldl_cons, List.flatMap_cons, List.foldl_append]
    rw [ih, applyMsg_cache]

theorem applyMsgs_index (ms : List Msg) (f : Follower) (hnf : NoFail f) (s : Nat) (hs : f.hist.index = s)
    (hc : Chained s ms) :
    (ms.foldl applyMsg f).hist.index = s + (ms.flatMap decode).length := by
  induction ms generalizing f s with
  | nil => simpa using hs
  | cons m ms ih =>
    simp only [List.foldl_cons, List.flatMap_cons, List.length_append]
    obtain ⟨h1, h2⟩ := hc
    obtain ⟨h3, h4⟩ := applyMsg_index f hnf m
    rw [ih (applyMsg f m) h4 (s + m.regions.length) (by rw [h3, h1]) h2, decode_length]
    omega

/-! ### compatible regions -/

theorem applyRegion_fresh (c : Cache) (r : Region) (h : ∀ x ∈ c, Compat x r) :
    applyRegion c r = c ++ [r] := by
  have hfind : Cache.find c r.md.id = none := by
    unfold Cache.find
    rw [List.find?_eq_none]
    intro x hx
    have := (h x hx).1
    simpa using this
  have hov : c.filter (fun x => overlap r.md x.md) = [] := by
    rw [List.filter_eq_nil_iff]
    intro x hx
    simp [(h x hx).2]
  have hstale : isStale c r = false := by
    unfold isStale relevantOverlaps
    simp [hfind, hov]
  have hrc : rangeChanged c r = true := by
    unfold rangeChanged; simp [hfind]
  unfold applyRegion checkAndPut
  simp only [hstale, Bool.false_eq_true, if_false]
  unfold putRegion
  rw [hrc]
  congr 1
  rw [List.filter_eq_self]
  intro x hx
  have := h x hx
  simp [keepOnPut, this.1, this.2]

theorem foldl_applyRegion_compat (l : List Region) :
    ∀ c : Cache, (c ++ l).Pairwise Compat → l.foldl applyRegion c = c ++ l := by
  induction l with
  | nil => intro c _; simp
  | cons r l ih =>
    intro c hp
    simp only [List.foldl_cons]
    have hp' : ((c ++ [r]) ++ l).Pairwise Compat := by simpa using hp
    have hfresh : ∀ x ∈ c, Compat x r := by
      intro x hx
      rw [List.pairwise_append] at hp
      exact hp.2.2 x hx r (by simp)
    rw [applyRegion_fresh c r hfresh, ih _ hp']
    simp

/-! ### the leader's history -/

/-- the changed regions the leader accepts (and therefore records), given its cache -/
def acceptedOf : Cache → List Region → List Region
  | _, [] => []
  | c, r :: rs => if isStale c r then acceptedOf c rs else r :: acceptedOf (putRegion c r) rs

def leaderPuts (l : Leader) (rs : List Region) : Leader := rs.foldl (fun l r => (leaderPut l r).1) l

theorem applyRegion_stale (c : Cache) (r : Region) (h : isStale c r = true) : applyRegion c r = c := by
  simp [applyRegion, checkAndPut, h]

theorem applyRegion_accept (c : Cache) (r : Region) (h : isStale c r = false) :
    applyRegion c r = putRegion c r := by
  simp [applyRegion, checkAndPut, h]

theorem leaderPuts_cache (rs : List Region) (l : Leader) :
    (leaderPuts l rs).cache = (acceptedOf l.cache rs).foldl applyRegion l.cache ∧
    (leaderPuts l rs).hist = (acceptedOf l.cache rs).foldl (fun b r => record b r false) l.hist := by
  induction rs generalizing l with
  | nil => exact ⟨rfl, rfl⟩
  | cons r rs ih =>
    simp only [leaderPuts, List.foldl_cons, acceptedOf]
    by_cases hs : isStale l.cache r = true
    · have : (leaderPut l r).1 = l := by simp [leaderPut, hs]
      rw [this]; simp only [hs, if_true]
      exact ih l
    · have hs' : isStale l.cache r = false := by simpa using hs
      have h1 : (leaderPut l r).1 = { l with cache := putRegion l.cache r, hist := record l.hist r false } := by
        simp [leaderPut, hs']
      rw [h1]; simp only [hs', Bool.false_eq_true, if_false, List.foldl_cons]
      have := ih { l with cache := putRegion l.cache r, hist := record l.hist r false }
      simp only [leaderPuts] at this
      rw [applyRegion_accept _ _ hs']
      exact this

/-- the same changes applied without looking at the result give the same cache -/
theorem foldl_applyRegion_accepted (rs : List Region) (c : Cache) :
    (acceptedOf c rs).foldl applyRegion c = rs.foldl applyRegion c := by
  induction rs generalizing c with
  | nil => rfl
  | cons r rs ih =>
    simp only [acceptedOf, List.foldl_cons]
    by_cases hs : isStale c r = true
    · simp only [hs, if_true]; rw [applyRegion_stale _ _ hs]; exact ih c
    · have hs' : isStale c r = false := by simpa using hs
      simp only [hs', Bool.false_eq_true, if_false, List.foldl_cons]
      rw [applyRegion_accept _ _ hs']; exact ih _

theorem foldl_record_size {α : Type} (rs : List α) (b : Buf α) :
    (rs.foldl (fun b r => record b r false) b).size = b.size ∧
    (rs.foldl (fun b r => record b r false) b).index = b.index + rs.length := by
  induction rs generalizing b with
  | nil => exact ⟨rfl, rfl⟩
  | cons r rs ih =>
    simp only [List.foldl_cons, List.length_cons]
    obtain ⟨h1, h2⟩ := ih (record b r false)
    rw [h1, h2, (record_fields b r false).1, (record_fields b r false).2.2.2.2.1]
    exact ⟨rfl, by omega⟩

/-- records keep the refinement; the window becomes the newest `cap` entries of the extended log -/
theorem rel_records {α : Type} (rs : List α) :
    ∀ (b : Buf α) (a : Abs α) (log : List α), Rel b a → a.win = lastN (capOf b) log →
      ∃ a' : Abs α, Rel (rs.foldl (fun b r => record b r false) b) a' ∧
        a'.next = a.next + rs.length ∧ a'.win = lastN (capOf b) (log ++ rs) := by
  induction rs with
  | nil => intro b a log hr hw; exact ⟨a, hr, rfl, by simpa using hw⟩
  | cons r rs ih =>
    intro b a log hr hw
    simp only [List.foldl_cons]
    have hcap : 0 < capOf b := by have := hr.size2; unfold capOf; omega
    have hr1 := rel_record b a hr r false
    have hw1 : (a.record (capOf b) r).win = lastN (capOf (record b r false)) (log ++ [r]) := by
      have : capOf (record b r false) = capOf b := by unfold capOf; rw [(record_fields b r false).1]
      rw [this, lastN_snoc _ hcap, ← hw]; rfl
    obtain ⟨a', h1, h2, h3⟩ := ih (record b r false) _ (log ++ [r]) hr1 hw1
    refine ⟨a', h1, ?_, ?_⟩
    · rw [h2]; simp [Abs.record]; omega
    · rw [h3]
      have : capOf (record b r false) = capOf b := by unfold capOf; rw [(record_fields b r false).1]
      rw [this]; simp

theorem lastN_drop_suffix {α : Type} (cap : Nat) (log acc : List α) (h : acc.length ≤ cap) :
    (lastN cap (log ++ acc)).drop ((lastN cap (log ++ acc)).length - acc.length) = acc := by
  rw [lastN_length]
  unfold lastN
  rw [List.drop_drop]
  simp only [List.length_append]
  have : log.length + acc.length - cap + (min cap (log.length + acc.length) - acc.length) = log.length := by
    omega
  rw [this]
  simp

/-! ### a follower that already holds regions -/

/-- nothing in the follower's cache is newer than what the leader sends: an overlapping cached region has no
    higher version, and the cached region of the same id has neither a higher version nor a higher conf version -/
def NotNewer (c : Cache) (r : Region) : Prop :=
  (∀ x ∈ c, overlap r.md x.md = true → x.md.version ≤ r.md.version) ∧
  (∀ x ∈ c, x.md.id = r.md.id → x.md.version ≤ r.md.version ∧ x.md.confVer ≤ r.md.confVer)

theorem not_stale_of_notNewer (c : Cache) (r : Region) (h : NotNewer c r) : isStale c r = false := by
  unfold isStale
  rw [Bool.or_eq_false_iff]
  constructor
  · rw [Bool.eq_false_iff]
    intro hany
    rw [List.any_eq_true] at hany
    obtain ⟨x, hx, hv⟩ := hany
    have hxc : x ∈ c ∧ overlap r.md x.md = true := by
      unfold relevantOverlaps at hx
      split at hx
      · split at hx
        · cases hx
        · exact List.mem_filter.1 hx
      · exact List.mem_filter.1 hx
    have := h.1 x hxc.1 hxc.2
    simp at hv; omega
  · cases hf : Cache.find c r.md.id with
    | none => rfl
    | some o =>
      obtain ⟨hoc, hoid⟩ := find_some_mem c _ o hf
      have := h.2 o hoc hoid
      simp only [Bool.or_eq_false_iff, decide_eq_false_iff_not]
      omega

/-- after a put the region is in the cache, and whatever else is there was there before -/
theorem putRegion_spec (c : Cache) (r : Region) :
    r ∈ putRegion c r ∧ ∀ x ∈ putRegion c r, x = r ∨ (x ∈ c ∧ x.md.id ≠ r.md.id) := by
  unfold putRegion
  refine ⟨by simp, fun x hx => ?_⟩
  rcases List.mem_append.1 hx with h | h
  · right
    have := List.mem_filter.1 h
    refine ⟨this.1, ?_⟩
    have h2 := this.2
    simp only [keepOnPut, Bool.and_eq_true, bne_iff_ne, ne_eq] at h2
    exact h2.1
  · left; simpa using h

/-- a region compatible with `r` that is in the cache survives the put of `r` -/
theorem putRegion_keeps (c : Cache) (r x : Region) (hx : x ∈ c) (hc : Compat x r) : x ∈ putRegion c r := by
  unfold putRegion
  apply List.mem_append_left
  rw [List.mem_filter]
  refine ⟨hx, ?_⟩
  simp [keepOnPut, hc.1, hc.2]


theorem foldl_applyRegion_consistent (l : List Region) (c : Cache) (hc : c.Pairwise Compat) :
    (l.foldl applyRegion c).Pairwise Compat := by
  induction l generalizing c with
  | nil => exact hc
  | cons r l ih =>
    simp only [List.foldl_cons]
    apply ih
    unfold applyRegion checkAndPut
    split
    · exact hc
    · exact consistent_putRegion c hc r

theorem foldl_applyRegion_into (F0 : Cache) (l : List Region) :
    ∀ (done : List Region) (c : Cache),
      (∀ x ∈ c, x ∈ F0 ∨ x ∈ done) → (∀ d ∈ done, d ∈ c) → (done ++ l).Pairwise Compat →
      (∀ r ∈ l, NotNewer F0 r) → ∀ r ∈ done ++ l, r ∈ l.foldl applyRegion c := by
  induction l with
  | nil => intro done c _ hd _ _ r hr; exact hd r (by simpa using hr)
  | cons r l ih =>
    intro done c hsub hd hp hn x hx
    simp only [List.foldl_cons]
    have hp' : ((done ++ [r]) ++ l).Pairwise Compat := by simpa using hp
    have hdr : ∀ d ∈ done, Compat d r := by
      intro d hdm
      rw [List.pairwise_append] at hp
      exact hp.2.2 d hdm r (by simp)
    have hnn : NotNewer c r := by
      have h0 := hn r (by simp)
      constructor
      · intro y hy hov
        rcases hsub y hy with h | h
        · exact h0.1 y h hov
        · have := (hdr y h).2; rw [this] at hov; cases hov
      · intro y hy hid
        rcases hsub y hy with h | h
        · exact h0.2 y h hid
        · exact absurd hid (hdr y h).1
    have hst := not_stale_of_notNewer c r hnn
    have hap : applyRegion c r = putRegion c r := by simp [applyRegion, checkAndPut, hst]
    rw [hap]
    apply ih (done ++ [r]) (putRegion c r)
    · intro y hy
      rcases (putRegion_spec c r).2 y hy with h | h
      · right; simp [h]
      · rcases hsub y h.1 with h' | h'
        · exact Or.inl h'
        · right; simp [h']
    · intro d hdm
      rcases List.mem_append.1 hdm with h | h
      · exact putRegion_keeps c r d (hd d h) (hdr d h)
      · have : d = r := by simpa using h
        rw [this]; exact (putRegion_spec c r).1
    · exact hp'
    · intro y hy; exact hn y (by simp [hy])
    · simpa using hx


/-! ### several changes in one message -/

theorem decodeAux_append (h : Bool) (ms1 : List Meta) :
    ∀ (ss1 : List Stat) (ls1 : List Peer) (ms2 : List Meta) (ss2 : List Stat) (ls2 : List Peer),
      ss1.length = ms1.length → ls1.length = ms1.length →
      decodeAux h (ms1 ++ ms2) (ss1 ++ ss2) (ls1 ++ ls2) = decodeAux h ms1 ss1 ls1 ++ decodeAux h ms2 ss2 ls2 := by
  induction ms1 with
  | nil =>
    intro ss1 ls1 ms2 ss2 ls2 h1 h2
    have : ss1 = [] := List.length_eq_zero_iff.1 h1
    have : ls1 = [] := List.length_eq_zero_iff.1 h2
    subst_vars; simp [decodeAux]
  | cons m ms ih =>
    intro ss1 ls1 ms2 ss2 ls2 h1 h2
    cases ss1 with
    | nil => simp at h1
    | cons s ss =>
      cases ls1 with
      | nil => simp at h2
      | cons l ls =>
        simp only [List.cons_append, decodeAux, List.head?_cons, List.headD_cons, List.tail_cons]
        rw [ih ss ls ms2 ss2 ls2 (by simpa using h1) (by simpa using h2)]

/-- a message whose three arrays have the same length -/
def Square (m : Msg) : Prop := m.stats.length = m.regions.length ∧ m.leaders.length = m.regions.length

theorem decode_square (m : Msg) (h : Square m) : decode m = decodeAux true m.regions m.stats m.leaders := by
  unfold decode; simp [h.1]

theorem flatMap_square (ms : List Msg) (h : ∀ m ∈ ms, Square m) :
    (ms.flatMap (·.stats)).length = (ms.flatMap (·.regions)).length ∧
    (ms.flatMap (·.leaders)).length = (ms.flatMap (·.regions)).length := by
  induction ms with
  | nil => simp
  | cons m ms ih =>
    have := ih (fun x hx => h x (by simp [hx]))
    have hm := h m (by simp)
    unfold Square at hm
    simp only [List.flatMap_cons, List.length_append]
    omega

theorem decodeAux_flatMap (ms : List Msg) (h : ∀ m ∈ ms, Square m) :
    decodeAux true (ms.flatMap (·.regions)) (ms.flatMap (·.stats)) (ms.flatMap (·.leaders)) = ms.flatMap decode := by
  induction ms with
  | nil => rfl
  | cons m ms ih =>
    have hm := h m (by simp)
    simp only [List.flatMap_cons]
    rw [decodeAux_append true m.regions m.stats m.leaders _ _ _ hm.1 hm.2, ih (fun x hx => h x (by simp [hx])),
      decode_square m hm]


end PdModel.Syncer
