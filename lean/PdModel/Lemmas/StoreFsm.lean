import PdModel.Model.StoreFsm
import PdModel.Spec.C14
set_option linter.unusedSimpArgs false
set_option linter.unusedVariables false
/-!
Invariant and per-operation lemmas for the store life-cycle model (C14).
`Good s o` collects, in terms of look-ups in the model state, what one operation must guarantee;
`Props/C14.lean` turns it into the observable statement `Spec.C14.StepOk`.
-/
namespace PdModel.StoreFsm
open PdModel.AMap PdModel.Spec

def lifeOf : SState → C14.Life
  | .up => .up | .offline => .offline | .tombstone => .tombstone

/-- the observable record of a store -/
def recOf (m : Meta) : C14.Rec :=
  { addr := m.addr, state := lifeOf m.state, destroyed := m.destroyed,
    version := (m.ver.major, m.ver.minor, m.ver.patch), start := m.start, labels := m.labels }

theorem lifeOf_tomb (x : SState) : lifeOf x = .tombstone ↔ x = .tombstone := by cases x <;> simp [lifeOf]
theorem lifeOf_up (x : SState) : lifeOf x = .up ↔ x = .up := by cases x <;> simp [lifeOf]
theorem lifeOf_off (x : SState) : lifeOf x = .offline ↔ x = .offline := by cases x <;> simp [lifeOf]

theorem liveRec_recOf (m : Meta) : C14.liveRec (recOf m) = live m := by
  cases m with
  | mk addr state destroyed ver start labels =>
    cases state <;> cases destroyed <;> simp [C14.liveRec, recOf, live, lifeOf] <;> decide

theorem fwd_refl (m : Meta) : C14.fwd (recOf m) (recOf m) = true := by
  cases m with
  | mk addr state destroyed ver start labels =>
    cases state <;> cases destroyed <;> simp [C14.fwd, recOf, lifeOf]

/-- a change that keeps state and the destroyed flag is allowed -/
theorem fwd_same_state (a b : Meta) (h1 : b.state = a.state) (h2 : b.destroyed = a.destroyed) :
    C14.fwd (recOf a) (recOf b) = true := by
  cases a with
  | mk addr state destroyed ver start labels =>
    cases b with
    | mk addr' state' destroyed' ver' start' labels' =>
      simp only at h1 h2; subst h1; subst h2
      cases state' <;> cases destroyed' <;> simp [C14.fwd, recOf, lifeOf]

theorem fwd_offline (m : Meta) (d : Bool) (h1 : m.state ≠ .tombstone) (h2 : m.destroyed = false) :
    C14.fwd (recOf m) (recOf { m with state := .offline, destroyed := d }) = true := by
  cases m with
  | mk addr state dd ver start labels =>
    simp only at h1 h2; subst h2
    cases state <;> cases d <;> simp_all [C14.fwd, recOf, lifeOf]

theorem fwd_up (m : Meta) (h1 : m.state ≠ .tombstone) (h2 : m.destroyed = false) :
    C14.fwd (recOf m) (recOf { m with state := .up }) = true := by
  cases m with
  | mk addr state dd ver start labels =>
    simp only at h1 h2; subst h2
    cases state <;> simp_all [C14.fwd, recOf, lifeOf]

theorem fwd_tomb (m : Meta) (h1 : m.state ≠ .up) :
    C14.fwd (recOf m) (recOf { m with state := .tombstone }) = true := by
  cases m with
  | mk addr state dd ver start labels =>
    simp only at h1
    cases state <;> cases dd <;> simp_all [C14.fwd, recOf, lifeOf]

/-- stored = served, and live addresses are pairwise different -/
structure Inv (served : AMap Served) (stored : AMap Meta) : Prop where
  durable : ∀ id, get stored id = (get served id).map (·.md)
  addr : ∀ (i j : Nat) (a b : Served), get served i = some a → get served j = some b → i ≠ j →
    live a.md = true → live b.md = true → a.md.addr ≠ b.md.addr

theorem inv_init : Inv ([] : AMap Served) ([] : AMap Meta) :=
  ⟨fun _ => rfl, fun i j a b h => by simp at h⟩

/-- record and weights (the region bookkeeping and the heartbeat flag aside) -/
def core (x : Served) : Meta × Nat × Nat := (x.md, x.lw, x.rw)

def sameSv (a b : Option Served) : Prop := a.map core = b.map core

theorem sameSv_refl (a : Option Served) : sameSv a a := rfl

/-- what one operation guarantees (look-up form).  `direct`: buryStore entered directly;
    `sweep`: the tombstone clean-up loop -/
structure Good (s : St) (o : Out) (direct sweep : Bool) : Prop where
  inv : Inv o.st.served o.st.stored
  fwd : ∀ (id : Nat) (a : Served), get s.served id = some a →
    match get o.st.served id with
    | some b => C14.fwd (recOf a.md) (recOf b.md) = true
    | none => a.md.state = .tombstone
  bury : direct = false → ∀ (id : Nat) (a b : Served), get s.served id = some a → get o.st.served id = some b →
    a.md.state ≠ .tombstone → b.md.state = .tombstone → treeCount s.regions id = 0
  failed : ∀ w ∈ o.writes, w.failed = true → sameSv (get s.served w.id) (get o.st.served w.id)
  err : o.res ≠ .ok → sweep = false → ∀ id, sameSv (get s.served id) (get o.st.served id)

theorem Good.congr {s : St} {o o' : Out} {d w : Bool} (h : Good s o d w)
    (h1 : o'.st.served = o.st.served) (h2 : o'.st.stored = o.st.stored) (h3 : o'.writes = o.writes)
    (h4 : o'.res ≠ .ok → o.res ≠ .ok) : Good s o' d w :=
  ⟨by rw [h1, h2]; exact h.inv, by rw [h1]; exact h.fwd, by rw [h1]; exact h.bury,
   by rw [h1, h3]; exact h.failed, by rw [h1]; exact fun hr => h.err (h4 hr)⟩

/-- `Good` looks at the start state through its served map and its region placement only -/
theorem Good.of_pre {s s2 : St} {o : Out} {d w : Bool} (h : Good s2 o d w)
    (h1 : s2.served = s.served) (h2 : s2.regions = s.regions) : Good s o d w :=
  ⟨h.inv, by rw [← h1]; exact h.fwd, by rw [← h1, ← h2]; exact h.bury, by rw [← h1]; exact h.failed,
   by rw [← h1]; exact h.err⟩

/-- an operation that leaves the served and stored maps alone is fine, whatever it reports -/
theorem good_same (s : St) (o : Out) (d w : Bool) (hinv : Inv s.served s.stored)
    (h1 : o.st.served = s.served) (h2 : o.st.stored = s.stored) : Good s o d w := by
  refine ⟨by rw [h1, h2]; exact hinv, ?_, ?_, ?_, ?_⟩
  · intro id a ha; rw [h1, ha]; exact fwd_refl _
  · intro _ id a b ha hb h3 h4; rw [h1, ha] at hb; cases hb; exact absurd h4 h3
  · intro w _ _; rw [h1]; exact sameSv_refl _
  · intro _ _ id; rw [h1]; exact sameSv_refl _

theorem good_reject (s : St) (r : Res) (d w : Bool) (hinv : Inv s.served s.stored) :
    Good s (reject s r) d w := good_same s _ d w hinv rfl rfl

/-- `putStoreLocked` of a new version `sv` of store `id` -/
theorem good_commit (s : St) (id : Nat) (sv : Served) (fail d w : Bool) (hinv : Inv s.served s.stored)
    (hf : ∀ a, get s.served id = some a → C14.fwd (recOf a.md) (recOf sv.md) = true)
    (hb : d = false → ∀ a, get s.served id = some a → a.md.state ≠ .tombstone → sv.md.state = .tombstone →
      treeCount s.regions id = 0)
    (ha : ∀ (j : Nat) (b : Served), j ≠ id → get s.served j = some b → live b.md = true → live sv.md = true →
      b.md.addr ≠ sv.md.addr) :
    Good s (commit s id sv fail) d w := by
  cases fail with
  | true => exact good_same s _ d w hinv rfl rfl
  | false =>
    simp only [commit, Bool.false_eq_true, if_false]
    refine ⟨⟨?_, ?_⟩, ?_, ?_, ?_, ?_⟩
    · intro j
      simp only [get_put]
      by_cases hj : j = id
      · simp [hj]
      · simp only [hj, if_false]; exact hinv.durable j
    · intro i j a b hi hj hij la lb
      simp only [get_put] at hi hj
      by_cases h1 : i = id
      · by_cases h2 : j = id
        · exact absurd (h1.trans h2.symm) hij
        · simp only [h1, if_true, Option.some.injEq] at hi
          simp only [h2, if_false] at hj
          subst hi
          exact fun e => ha j b h2 hj lb la e.symm
      · simp only [h1, if_false] at hi
        by_cases h2 : j = id
        · simp only [h2, if_true, Option.some.injEq] at hj
          subst hj
          exact ha i a h1 hi la lb
        · simp only [h2, if_false] at hj
          exact hinv.addr i j a b hi hj hij la lb
    · intro j a hj
      simp only [get_put]
      by_cases h : j = id
      · subst h; simp only [if_true]; exact hf a hj
      · simp only [h, if_false, hj]; exact fwd_refl _
    · intro hd j a b hj hb' h3 h4
      simp only [get_put] at hb'
      by_cases h : j = id
      · subst h; simp only [if_true, Option.some.injEq] at hb'; subst hb'
        exact hb hd a hj h3 h4
      · simp only [h, if_false] at hb'; rw [hj] at hb'; cases hb'; exact absurd h4 h3
    · intro w hw hfail
      simp only [List.mem_singleton] at hw
      subst hw; cases hfail
    · intro hr; exact absurd rfl hr

/-- conditions of `good_commit` for a change that keeps the address and does not make the store live -/
theorem addr_kept (s : St) (id : Nat) (old sv : Served) (hinv : Inv s.served s.stored)
    (hold : get s.served id = some old) (h1 : sv.md.addr = old.md.addr)
    (h2 : live sv.md = true → live old.md = true) :
    ∀ (j : Nat) (b : Served), j ≠ id → get s.served j = some b → live b.md = true → live sv.md = true →
      b.md.addr ≠ sv.md.addr := by
  intro j b hj hb lb ls
  rw [h1]
  exact hinv.addr j id b old hb hold hj lb (h2 ls)

/-! ### cluster version bump -/

theorem bumpCV_served (s : St) : (bumpCV s).served = s.served := by
  unfold bumpCV; split
  · split <;> rfl
  · rfl

theorem bumpCV_stored (s : St) : (bumpCV s).stored = s.stored := by
  unfold bumpCV; split
  · split <;> rfl
  · rfl

theorem bumpCV_regions (s : St) : (bumpCV s).regions = s.regions := by
  unfold bumpCV; split
  · split <;> rfl
  · rfl

theorem good_bump {s : St} {o : Out} {d w : Bool} (h : Good s o d w) :
    Good s { o with st := bumpCV o.st } d w :=
  h.congr (bumpCV_served _) (bumpCV_stored _) rfl id

/-! ### registration -/

theorem addrTaken_false (served : AMap Served) (id : Nat) (addr : String) (h : addrTaken served id addr = false) :
    ∀ (j : Nat) (b : Served), j ≠ id → get served j = some b → live b.md = true → b.md.addr ≠ addr := by
  intro j b hj hb lb e
  unfold addrTaken at h
  rw [List.any_eq_false] at h
  have := h (j, b) (mem_of_get served j b hb)
  simp [lb, hj, e] at this

theorem newServed_some (s : St) (r : Req) (v : Ver) (force : Bool) (old : Served)
    (h : get s.served r.id = some old) :
    (newServed s r v force).md.state = old.md.state ∧ (newServed s r v force).md.destroyed = old.md.destroyed ∧
    (newServed s r v force).lw = old.lw ∧ (newServed s r v force).rw = old.rw := by
  simp [newServed, h]

theorem newServed_addr (s : St) (r : Req) (v : Ver) (force : Bool) : (newServed s r v force).md.addr = r.addr := by
  unfold newServed; split <;> rfl

theorem good_putImpl (s : St) (r : Req) (force fail d w : Bool) (hinv : Inv s.served s.stored) :
    Good s (putImpl s r force fail) d w := by
  unfold putImpl
  split
  · exact good_reject s _ d w hinv
  · split
    · exact good_reject s _ d w hinv
    · next v _ =>
      split
      · exact good_reject s _ d w hinv
      · split
        · exact good_reject s _ d w hinv
        · next hat =>
          split
          · exact good_reject s _ d w hinv
          · apply good_commit s r.id _ fail d w hinv
            · intro a ha
              have := newServed_some s r v force a ha
              exact fwd_same_state _ _ this.1 this.2.1
            · intro _ a ha h3 h4
              have := newServed_some s r v force a ha
              rw [this.1] at h4; exact absurd h4 h3
            · intro j b hj hb lb _
              rw [newServed_addr]
              exact addrTaken_false s.served r.id r.addr (by simpa using hat) j b hj hb lb

theorem good_putStore (s : St) (r : Req) (mask : Nat) (d w : Bool) (hinv : Inv s.served s.stored) :
    Good s (putStore s r mask) d w := by
  unfold putStore
  have h := good_putImpl s r false (failBit mask 0) d w hinv
  dsimp only
  split
  · exact good_bump h
  · exact h

theorem good_grpcPut (s : St) (r : Req) (mask : Nat) (d w : Bool) (hinv : Inv s.served s.stored) :
    Good s (grpcPut s r mask) d w := by
  unfold grpcPut
  split
  · split
    · exact good_reject s _ d w hinv
    · split
      · exact good_reject s _ d w hinv
      · exact good_putStore s r mask d w hinv
  · split
    · exact good_reject s _ d w hinv
    · exact good_putStore s r mask d w hinv

theorem good_updateLabels (s : St) (id : Nat) (ls : Labels) (force : Bool) (mask : Nat) (d w : Bool)
    (hinv : Inv s.served s.stored) : Good s (updateLabels s id ls force mask) d w := by
  unfold updateLabels
  split
  · exact good_reject s _ d w hinv
  · exact good_putImpl s _ force _ d w hinv

/-! ### heartbeat, remove, up, bury -/

theorem good_grpcHeartbeat (s : St) (id mask : Nat) (d w : Bool) (hinv : Inv s.served s.stored) :
    Good s (grpcHeartbeat s id mask) d w := by
  unfold grpcHeartbeat
  split
  · exact good_reject s _ d w hinv
  · next sv hsv =>
    split
    · exact good_reject s _ d w hinv
    · split
      · exact good_reject s _ d w hinv
      · have h : Good s (commit s id { sv with persisted := true } (failBit mask 0)) d w := by
          apply good_commit s id _ _ d w hinv
          · intro a ha; rw [hsv] at ha; cases ha; exact fwd_refl _
          · intro _ a ha h3 h4; rw [hsv] at ha; cases ha; exact absurd h4 h3
          · exact addr_kept s id sv _ hinv hsv rfl (fun h => h)
        refine ⟨h.inv, h.fwd, h.bury, h.failed, ?_⟩
        intro hr; exact absurd rfl hr

theorem good_removeStore (s : St) (id : Nat) (destroyed : Bool) (mask : Nat) (d w : Bool)
    (hinv : Inv s.served s.stored) : Good s (removeStore s id destroyed mask) d w := by
  unfold removeStore
  split
  · exact good_reject s _ d w hinv
  · next sv hsv =>
    split
    · exact good_reject s _ d w hinv
    · split
      · exact good_reject s _ d w hinv
      · next hnt =>
        split
        · exact good_reject s _ d w hinv
        · next hnd =>
          have hnd' : sv.md.destroyed = false := by simpa using hnd
          apply good_commit s id _ _ d w hinv
          · intro a ha; rw [hsv] at ha; cases ha
            exact fwd_offline _ destroyed hnt hnd'
          · intro _ a ha h3 h4; cases h4
          · intro j b hj hb lb _
            exact hinv.addr j id b sv hb hsv hj lb (by simp [live, hnt, hnd'])

theorem good_upStore (s : St) (id mask : Nat) (d w : Bool) (hinv : Inv s.served s.stored) :
    Good s (upStore s id mask) d w := by
  unfold upStore
  split
  · exact good_reject s _ d w hinv
  · next sv hsv =>
    split
    · exact good_reject s _ d w hinv
    · next hnt =>
      split
      · exact good_reject s _ d w hinv
      · next hnd =>
        split
        · exact good_reject s _ d w hinv
        · have hnd' : sv.md.destroyed = false := by simpa using hnd
          apply good_commit s id _ _ d w hinv
          · intro a ha; rw [hsv] at ha; cases ha
            exact fwd_up _ hnt hnd'
          · intro _ a ha h3 h4; cases h4
          · intro j b hj hb lb _
            exact hinv.addr j id b sv hb hsv hj lb (by simp [live, hnt, hnd'])

/-- `buryStore`; `hempty`: the caller has checked that the store holds no region peers -/
theorem good_buryStore (s : St) (id : Nat) (fail d w : Bool) (hinv : Inv s.served s.stored)
    (hempty : d = false → treeCount s.regions id = 0) : Good s (buryStore s id fail) d w := by
  unfold buryStore
  split
  · exact good_reject s _ d w hinv
  · next sv hsv =>
    split
    · exact good_reject s _ d w hinv
    · next hnt =>
      split
      · exact good_reject s _ d w hinv
      · next hnu =>
        apply good_bump
        apply good_commit s id _ _ d w hinv
        · intro a ha; rw [hsv] at ha; cases ha
          exact fwd_tomb _ hnu
        · intro hd _ _ _ _; exact hempty hd
        · intro j b _ _ _ hl
          simp [live] at hl

/-! ### weights -/

theorem good_setWeight (s : St) (id lw rw mask : Nat) (d w : Bool) (hinv : Inv s.served s.stored) :
    Good s (setWeight s id lw rw mask) d w := by
  unfold setWeight
  split
  · exact good_reject s _ d w hinv
  · next sv hsv =>
    split
    · exact good_same s _ d w hinv rfl rfl
    · dsimp only
      split
      · exact good_same s _ d w hinv rfl rfl
      · have h : Good s (commit { s with storedLW := put s.storedLW id lw, storedRW := put s.storedRW id rw } id
            { sv with lw := lw, rw := rw } (failBit mask 2)) d w := by
          refine Good.of_pre (s2 := { s with storedLW := put s.storedLW id lw, storedRW := put s.storedRW id rw }) ?_ rfl rfl
          apply good_commit { s with storedLW := put s.storedLW id lw, storedRW := put s.storedRW id rw } id _ _ d w hinv
          · intro a ha; rw [show get s.served id = some sv from hsv] at ha; cases ha; exact fwd_refl _
          · intro _ a ha h3 h4; rw [show get s.served id = some sv from hsv] at ha; cases ha; exact absurd h4 h3
          · intro j b hj hb lb ls
            exact hinv.addr j id b sv hb hsv hj lb ls
        refine ⟨h.inv, h.fwd, h.bury, ?_, h.err⟩
        intro x hx hf
        simp only [List.cons_append, List.nil_append, List.mem_cons] at hx
        rcases hx with rfl | rfl | hx
        · cases hf
        · cases hf
        · exact h.failed x hx hf

/-! ### region heartbeats: only the bookkeeping of the served stores changes -/

theorem refresh_core (regions : AMap (List Nat)) : ∀ (l : List Nat) (served : AMap Served) (id : Nat),
    (get (refresh regions served l) id).map core = (get served id).map core := by
  intro l
  induction l with
  | nil => intro served id; rfl
  | cons x rest ih =>
    intro served id
    unfold refresh
    split
    · next sv hsv =>
      rw [ih, get_put]
      by_cases h : id = x
      · subst h; simp [hsv, core]
      · simp [h]
    · exact ih served id

/-- an operation that changes nothing but bookkeeping of the served stores -/
theorem good_core (s : St) (o : Out) (d w : Bool) (hinv : Inv s.served s.stored)
    (h1 : ∀ id, (get o.st.served id).map core = (get s.served id).map core) (h2 : o.st.stored = s.stored) :
    Good s o d w := by
  have hmd : ∀ id a, get s.served id = some a → ∃ b, get o.st.served id = some b ∧ core b = core a := by
    intro id a ha
    have := h1 id
    rw [ha] at this
    cases hb : get o.st.served id with
    | none => rw [hb] at this; cases this
    | some b => rw [hb] at this; exact ⟨b, rfl, by simpa using this⟩
  have hmd' : ∀ id b, get o.st.served id = some b → ∃ a, get s.served id = some a ∧ core b = core a := by
    intro id b hb
    have := h1 id
    rw [hb] at this
    cases ha : get s.served id with
    | none => rw [ha] at this; cases this
    | some a => rw [ha] at this; exact ⟨a, rfl, by simpa using this⟩
  refine ⟨⟨?_, ?_⟩, ?_, ?_, ?_, ?_⟩
  · intro id
    rw [h2, hinv.durable id]
    have := h1 id
    cases ha : get s.served id with
    | none => rw [ha] at this; cases hb : get o.st.served id with
      | none => rfl
      | some b => rw [hb] at this; cases this
    | some a =>
      obtain ⟨b, hb, hc⟩ := hmd id a ha
      simp only [hb, Option.map_some]
      simp only [core, Prod.mk.injEq] at hc
      rw [hc.1]
  · intro i j a b hi hj hij la lb
    obtain ⟨a', ha', hca⟩ := hmd' i a hi
    obtain ⟨b', hb', hcb⟩ := hmd' j b hj
    simp only [core, Prod.mk.injEq] at hca hcb
    rw [hca.1] at la ⊢; rw [hcb.1] at lb ⊢
    exact hinv.addr i j a' b' ha' hb' hij la lb
  · intro id a ha
    obtain ⟨b, hb, hc⟩ := hmd id a ha
    simp only [core, Prod.mk.injEq] at hc
    rw [hb]; simp only; rw [hc.1]; exact fwd_refl _
  · intro _ id a b ha hb h3 h4
    obtain ⟨b', hb', hc⟩ := hmd id a ha
    rw [hb] at hb'; cases hb'
    simp only [core, Prod.mk.injEq] at hc
    rw [hc.1] at h4; exact absurd h4 h3
  · intro x _ _; exact (h1 x.id).symm
  · intro _ _ id; exact (h1 id).symm

theorem good_regionHeartbeat (s : St) (rid : Nat) (stores : List Nat) (d w : Bool) (hinv : Inv s.served s.stored) :
    Good s (regionHeartbeat s rid stores) d w :=
  good_core s _ d w hinv (fun id => refresh_core _ _ _ id) rfl

/-! ### the two loops over the store map -/

theorem dedupAux_spec : ∀ (l seen : List Nat), (dedupAux seen l).Nodup ∧ ∀ x ∈ dedupAux seen l, x ∉ seen := by
  intro l
  induction l with
  | nil => intro seen; simp [dedupAux]
  | cons x xs ih =>
    intro seen
    unfold dedupAux
    split
    · exact ih seen
    · next hx =>
      have hx' : x ∉ seen := by simpa using hx
      obtain ⟨h1, h2⟩ := ih (x :: seen)
      refine ⟨List.nodup_cons.2 ⟨fun hm => ?_, h1⟩, ?_⟩
      · exact h2 x hm List.mem_cons_self
      · intro y hy
        rcases List.mem_cons.1 hy with rfl | hy
        · exact hx'
        · exact fun hs => h2 y hy (List.mem_cons_of_mem _ hs)

theorem walk_nodup (s : St) (order : List Nat) : (walk s order).Nodup := (dedupAux_spec _ _).1

/-- the buried version of a store record -/
def tomb (a : Served) : Served := { a with md := { a.md with state := .tombstone } }

/-- loop invariant of `checkStores` relative to the state `s0` at its start; `l` = ids still to visit -/
structure CheckRel (s0 s : St) (ws : List Write) (l : List Nat) : Prop where
  regions : s.regions = s0.regions
  inv : Inv s.served s.stored
  entries : ∀ id, get s.served id = get s0.served id ∨
    ∃ a, get s0.served id = some a ∧ a.md.state = .offline ∧ treeCount s0.regions id = 0 ∧
      get s.served id = some (tomb a)
  failed : ∀ w ∈ ws, w.failed = true → get s.served w.id = get s0.served w.id ∧ w.id ∉ l

theorem buriable_iff (s : St) (id : Nat) :
    buriable s id = true ↔ ∃ sv, get s.served id = some sv ∧ sv.md.state = .offline ∧ treeCount s.regions id = 0 := by
  unfold buriable
  cases h : get s.served id with
  | none => simp
  | some sv => simp

theorem buryStore_offline (s : St) (id : Nat) (fail : Bool) (sv : Served) (h : get s.served id = some sv)
    (ho : sv.md.state = .offline) :
    buryStore s id fail = { (commit s id (tomb sv) fail) with st := bumpCV (commit s id (tomb sv) fail).st } := by
  unfold buryStore
  simp [h, ho, tomb]

theorem checkLoop_rel (s0 : St) (mask : Nat) : ∀ (l : List Nat) (s : St) (n : Nat) (ws : List Write),
    l.Nodup → CheckRel s0 s ws l →
    CheckRel s0 (checkLoop s mask l n ws).1 (checkLoop s mask l n ws).2 [] := by
  intro l
  induction l with
  | nil => intro s n ws _ h; exact h
  | cons id rest ih =>
    intro s n ws hnd h
    obtain ⟨hid, hrest⟩ := List.nodup_cons.1 hnd
    unfold checkLoop
    split
    · next hb =>
      obtain ⟨sv, hsv, hoff, htc⟩ := (buriable_iff s id).1 hb
      -- the entry is still the original one
      have horig : get s.served id = get s0.served id := by
        rcases h.entries id with h1 | ⟨a, _, _, _, h4⟩
        · exact h1
        · rw [hsv] at h4; cases h4; simp [tomb] at hoff
      have hgood := good_buryStore s id (failBit mask n) false false h.inv (fun _ => htc)
      apply ih _ _ _ hrest
      rw [buryStore_offline s id _ sv hsv hoff] at hgood ⊢
      cases hf : failBit mask n with
      | true =>
        simp only [commit, if_true]
        refine ⟨by rw [bumpCV_regions]; exact h.regions,
          by rw [bumpCV_served, bumpCV_stored]; exact h.inv, by rw [bumpCV_served]; exact h.entries, ?_⟩
        intro x hx hxf
        rw [bumpCV_served]
        rcases List.mem_append.1 hx with hx | hx
        · have := h.failed x hx hxf
          exact ⟨this.1, fun hm => this.2 (List.mem_cons_of_mem _ hm)⟩
        · simp only [List.mem_singleton] at hx; subst hx
          exact ⟨horig, hid⟩
      | false =>
        rw [hf] at hgood
        simp only [commit, Bool.false_eq_true, if_false] at hgood ⊢
        refine ⟨?_, hgood.inv, ?_, ?_⟩
        · rw [bumpCV_regions]
          exact h.regions
        · intro j
          rw [bumpCV_served]
          simp only [get_put]
          by_cases hj : j = id
          · subst hj
            right
            refine ⟨sv, by rw [← horig]; exact hsv, hoff, by rw [← h.regions]; exact htc, by simp⟩
          · simp only [hj, if_false]; exact h.entries j
        · intro x hx hxf
          rw [bumpCV_served]
          rcases List.mem_append.1 hx with hx | hx
          · have := h.failed x hx hxf
            have hne : x.id ≠ id := fun e => this.2 (e ▸ List.mem_cons_self)
            simp only [get_put, hne, if_false]
            exact ⟨this.1, fun hm => this.2 (List.mem_cons_of_mem _ hm)⟩
          · simp only [List.mem_singleton] at hx; subst hx; cases hxf
    · apply ih _ _ _ hrest
      exact ⟨h.regions, h.inv, h.entries, fun x hx hxf =>
        ⟨(h.failed x hx hxf).1, fun hm => (h.failed x hx hxf).2 (List.mem_cons_of_mem _ hm)⟩⟩

theorem good_checkStores (s : St) (order : List Nat) (mask : Nat) (w : Bool) (hinv : Inv s.served s.stored) :
    Good s (checkStores s order mask) false w := by
  have h := checkLoop_rel s mask (walk s order) s 0 [] (walk_nodup s order)
    ⟨rfl, hinv, fun _ => Or.inl rfl, fun _ hx => by simp at hx⟩
  unfold checkStores
  dsimp only
  refine ⟨h.inv, ?_, ?_, ?_, fun hr => absurd rfl hr⟩
  · intro id a ha
    rcases h.entries id with h1 | ⟨a', ha', hoff, _, h4⟩
    · rw [h1, ha]; exact fwd_refl _
    · rw [ha] at ha'; cases ha'
      rw [h4]; exact fwd_tomb _ (by rw [hoff]; decide)
  · intro _ id a b ha hb h3 h4
    rcases h.entries id with h1 | ⟨a', ha', _, htc, _⟩
    · rw [h1, ha] at hb; cases hb; exact absurd h4 h3
    · exact htc
  · intro x hx hxf
    have := (h.failed x hx hxf).1
    unfold sameSv; rw [this]

theorem good_checkStoresOnly (s : St) (ids : List Nat) (mask : Nat) (w : Bool) (hinv : Inv s.served s.stored) :
    Good s (checkStoresOnly s ids mask) false w := by
  have h := checkLoop_rel s mask (dedupAux [] ids) s 0 [] (dedupAux_spec _ _).1
    ⟨rfl, hinv, fun _ => Or.inl rfl, fun _ hx => by simp at hx⟩
  unfold checkStoresOnly
  dsimp only
  refine ⟨h.inv, ?_, ?_, ?_, fun hr => absurd rfl hr⟩
  · intro id a ha
    rcases h.entries id with h1 | ⟨a', ha', hoff, _, h4⟩
    · rw [h1, ha]; exact fwd_refl _
    · rw [ha] at ha'; cases ha'
      rw [h4]; exact fwd_tomb _ (by rw [hoff]; decide)
  · intro _ id a b ha hb h3 h4
    rcases h.entries id with h1 | ⟨a', ha', _, htc, _⟩
    · rw [h1, ha] at hb; cases hb; exact absurd h4 h3
    · exact htc
  · intro x hx hxf
    have := (h.failed x hx hxf).1
    unfold sameSv; rw [this]

/-- loop invariant of `RemoveTombStoneRecords` -/
structure RmRel (s0 s : St) : Prop where
  inv : Inv s.served s.stored
  entries : ∀ id, get s.served id = get s0.served id ∨
    ∃ a, get s0.served id = some a ∧ a.md.state = .tombstone ∧ get s.served id = none

theorem inv_del (served : AMap Served) (stored : AMap Meta) (id : Nat) (h : Inv served stored) :
    Inv (del served id) (del stored id) := by
  refine ⟨?_, ?_⟩
  · intro j
    simp only [get_del]
    by_cases hj : j = id
    · simp [hj]
    · simp only [hj, if_false]; exact h.durable j
  · intro i j a b hi hj hij la lb
    simp only [get_del] at hi hj
    by_cases h1 : i = id
    · simp [h1] at hi
    · by_cases h2 : j = id
      · simp [h2] at hj
      · simp only [h1, h2, if_false] at hi hj
        exact h.addr i j a b hi hj hij la lb

theorem removable_iff (s : St) (id : Nat) :
    removable s id = true ↔ ∃ sv, get s.served id = some sv ∧ sv.md.state = .tombstone ∧ sv.rcount = 0 := by
  unfold removable
  cases h : get s.served id with
  | none => simp
  | some sv => simp

theorem rmLoop_rel (s0 : St) (mask : Nat) : ∀ (l : List Nat) (s : St) (n : Nat) (ws : List Write),
    RmRel s0 s → (∀ w ∈ ws, w.failed = false) →
    RmRel s0 (rmLoop s mask l n ws).st ∧
    (∀ w ∈ (rmLoop s mask l n ws).writes, w.failed = true →
      get (rmLoop s mask l n ws).st.served w.id = get s0.served w.id) := by
  intro l
  induction l with
  | nil =>
    intro s n ws h hws
    refine ⟨h, ?_⟩
    intro w hw hf
    simp only [rmLoop] at hw
    rw [hws w hw] at hf; cases hf
  | cons id rest ih =>
    intro s n ws h hws
    unfold rmLoop
    split
    · next hrm =>
      obtain ⟨sv, hsv, htomb, _⟩ := (removable_iff s id).1 hrm
      have horig : get s.served id = get s0.served id := by
        rcases h.entries id with h1 | ⟨a, _, _, h4⟩
        · exact h1
        · rw [hsv] at h4; cases h4
      split
      · refine ⟨h, ?_⟩
        intro w hw hf
        simp only [List.mem_append, List.mem_singleton] at hw
        rcases hw with hw | rfl
        · rw [hws w hw] at hf; cases hf
        · exact horig
      · apply ih
        · refine ⟨inv_del _ _ id h.inv, ?_⟩
          intro j
          simp only [get_del]
          by_cases hj : j = id
          · subst hj; right
            exact ⟨sv, by rw [← horig]; exact hsv, htomb, by simp⟩
          · simp only [hj, if_false]; exact h.entries j
        · intro w hw
          simp only [List.mem_append, List.mem_singleton] at hw
          rcases hw with hw | rfl
          · exact hws w hw
          · rfl
    · exact ih s n ws h hws

theorem good_removeTombstones (s : St) (order : List Nat) (mask : Nat) (d : Bool) (hinv : Inv s.served s.stored) :
    Good s (removeTombstones s order mask) d true := by
  obtain ⟨h, hf⟩ := rmLoop_rel s mask (walk s order) s 0 [] ⟨hinv, fun _ => Or.inl rfl⟩ (fun _ hx => by simp at hx)
  unfold removeTombstones
  refine ⟨h.inv, ?_, ?_, ?_, fun _ hw => by cases hw⟩
  · intro id a ha
    rcases h.entries id with h1 | ⟨a', ha', htomb, h4⟩
    · rw [h1, ha]; exact fwd_refl _
    · rw [ha] at ha'; cases ha'
      rw [h4]; exact htomb
  · intro _ id a b ha hb h3 h4
    rcases h.entries id with h1 | ⟨a', ha', _, h5⟩
    · rw [h1, ha] at hb; cases hb; exact absurd h4 h3
    · rw [hb] at h5; cases h5
  · intro x hx hxf
    unfold sameSv; rw [hf x hx hxf]

/-! ### restart: the cache is rebuilt from storage -/

theorem good_restart (s : St) (d w : Bool) (hinv : Inv s.served s.stored) : Good s (restart s) d w := by
  have hget : ∀ id, get (restart s).st.served id = (get s.stored id).map (loaded s id) := by
    intro id; simp only [restart, get_mapVal]
  have hmd : ∀ id b, get (restart s).st.served id = some b → ∃ a, get s.served id = some a ∧ b.md = a.md := by
    intro id b hb
    rw [hget, hinv.durable id] at hb
    cases ha : get s.served id with
    | none => rw [ha] at hb; cases hb
    | some a => rw [ha] at hb; simp at hb; exact ⟨a, rfl, by rw [← hb]; rfl⟩
  have hfw : ∀ id a, get s.served id = some a → ∃ b, get (restart s).st.served id = some b ∧ b.md = a.md := by
    intro id a ha
    rw [hget, hinv.durable id, ha]
    exact ⟨_, rfl, rfl⟩
  refine ⟨⟨?_, ?_⟩, ?_, ?_, ?_, ?_⟩
  · intro id
    show get s.stored id = _
    rw [hget]
    cases get s.stored id <;> rfl
  · intro i j a b hi hj hij la lb
    obtain ⟨a0, ha0, ea⟩ := hmd i a hi
    obtain ⟨b0, hb0, eb⟩ := hmd j b hj
    rw [ea] at la ⊢; rw [eb] at lb ⊢
    exact hinv.addr i j a0 b0 ha0 hb0 hij la lb
  · intro id a ha
    obtain ⟨b, hb, e⟩ := hfw id a ha
    rw [hb]; simp only; rw [e]; exact fwd_refl _
  · intro _ id a b ha hb h3 h4
    obtain ⟨b', hb', e⟩ := hfw id a ha
    rw [hb] at hb'; cases hb'
    rw [e] at h4; exact absurd h4 h3
  · intro x hx; simp [restart] at hx
  · intro hr; exact absurd rfl hr

/-- every operation keeps the invariant and is `Good` -/
theorem good_step (s : St) (op : Op) (hinv : Inv s.served s.stored) :
    Good s (step s op) (match op with | .bury _ _ => true | _ => false)
      (match op with | .rmtomb _ _ => true | _ => false) := by
  cases op with
  | put r mask => exact good_putStore s r mask _ _ hinv
  | gput r mask => exact good_grpcPut s r mask _ _ hinv
  | ghb id mask => exact good_grpcHeartbeat s id mask _ _ hinv
  | labels id ls force mask => exact good_updateLabels s id ls force mask _ _ hinv
  | remove id d mask => exact good_removeStore s id d mask _ _ hinv
  | up id mask => exact good_upStore s id mask _ _ hinv
  | bury id mask => exact good_buryStore s id _ true _ hinv (fun h => by cases h)
  | check order mask => exact good_checkStores s order mask _ hinv
  | weight id lw rw mask => exact good_setWeight s id lw rw mask _ _ hinv
  | rmtomb order mask => exact good_removeTombstones s order mask _ hinv
  | region rid stores => exact good_regionHeartbeat s rid stores _ _ hinv
  | labelsFrom r force mask => exact good_putImpl s r force _ _ _ hinv
  | checkOnly ids mask => exact good_checkStoresOnly s ids mask _ hinv
  | restart => exact good_restart s _ _ hinv

end PdModel.StoreFsm
