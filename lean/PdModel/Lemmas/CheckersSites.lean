import PdModel.Lemmas.Checkers
set_option linter.unusedSimpArgs false
set_option linter.unusedVariables false
/-! C10: what holds at each place where a checker asks the builder for an operator ("site lemmas"). -/
namespace PdModel.Checkers
open PdModel.Spec.C10 PdModel.Filters

/-- replaced peer and replacement can be paired by the builder (or joint consensus is used):
    the only requests whose step order is in question are replacements -/
def Req.paired (jc : Bool) (r : Region) : Req → Bool
  | .move o _ role => jc || sameKind r o role
  | .replaceLeader o _ role _ => jc || sameKind r o role
  | _ => true

/-- the three clauses of `Spec.C10.Holds`, the last one under the pairing condition -/
structure Sound (x : Input) (jc : Bool) (req : Req) : Prop where
  adds   : ∀ t ∈ addedStores (req.toSteps jc x.region), goodTarget x (req.toSteps jc x.region) t = true
  shrink : ((applySteps x.region (req.toSteps jc x.region)).peers.length < x.region.peers.length ∨
            (applySteps x.region (req.toSteps jc x.region)).healthy.length < x.region.healthy.length) →
            shrinkAllowed x (req.toSteps jc x.region) = true
  order  : req.paired jc x.region = true →
            ∀ k ∈ List.range ((req.toSteps jc x.region).length + 1),
              min x.region.peers.length (applySteps x.region (req.toSteps jc x.region)).peers.length
                ≤ (applySteps x.region ((req.toSteps jc x.region).take k)).peers.length

/-- every proposed operator of an outcome is sound -/
def OutSound (x : Input) (jc : Bool) (out : Out) : Prop :=
  ∀ d req, out = some (d, req) → Sound x jc req

theorem outSound_none (x : Input) (jc : Bool) : OutSound x jc none := by
  intro d req h; cases h

theorem outSound_mayFail {x : Input} {jc : Bool} {d : String} {req : Req} (h : Sound x jc req) :
    ∀ o ∈ mayFail (d, req), OutSound x jc o := by
  intro o ho d' req' he
  rcases mem_mayFail ho with rfl | rfl
  · cases he; exact h
  · cases he

theorem outSound_addAccepted {x : Input} {jc : Bool} {r : Region} {d : String} {req : Req} (h : Sound x jc req) :
    ∀ o ∈ addAccepted r (d, req), OutSound x jc o := by
  intro o ho d' req' he
  rcases mem_addAccepted ho with rfl | rfl
  · cases he; exact h
  · cases he

theorem goodTarget_of (x : Input) (o : Opts) (steps : List Step) (t : Store) (hconf : x.conf = o.conf)
    (hnd : (x.stores.map (·.id)).Nodup) (hm : t ∈ x.stores) (hg : AddGood o x.region t)
    (hp : placementOK x steps t = true) : goodTarget x steps t.id = true := by
  unfold goodTarget
  rw [findStore_of_mem hnd hm]
  have hf := hg.fresh
  simp only [hconf, hg.up, hg.notDown, hg.connected, hg.space, hf, hp, Bool.not_false, Bool.and_self]

/-! #### single-step requests -/

theorem take_cases1 {α} (a : α) (k : Nat) (hk : k ∈ List.range ([a].length + 1)) :
    [a].take k = [] ∨ [a].take k = [a] := by
  simp only [List.length_cons, List.length_nil, List.mem_range] at hk
  rcases k with _ | _ | k
  · left; rfl
  · right; rfl
  · omega

theorem sound_add (x : Input) (jc : Bool) (o : Opts) (t : Store) (role : Nat) (hconf : x.conf = o.conf)
    (hnd : (x.stores.map (·.id)).Nodup) (hm : t ∈ x.stores) (hg : AddGood o x.region t)
    (hp : placementOK x [.add t.id role] t = true) : Sound x jc (.add t.id role) := by
  refine ⟨?_, ?_, ?_⟩
  · intro t' ht'
    simp only [Req.toSteps, addedStores, List.filterMap_cons, List.filterMap_nil, List.mem_singleton] at ht'
    subst ht'
    exact goodTarget_of x o _ t hconf hnd hm hg hp
  · intro h
    exfalso
    have e : applySteps x.region (Req.toSteps jc x.region (.add t.id role)) = applyStep x.region (.add t.id role) := rfl
    rw [e, healthy_add, peers_add] at h
    simp only [List.length_append, List.length_cons, List.length_nil] at h
    omega
  · intro _ k hk
    have e : applySteps x.region (Req.toSteps jc x.region (.add t.id role)) = applyStep x.region (.add t.id role) := rfl
    rw [e, peers_add]
    rcases take_cases1 _ k hk with h | h <;> simp only [Req.toSteps] at h ⊢ <;> rw [h]
    · simp [applySteps] <;> omega
    · show _ ≤ (applyStep x.region (.add t.id role)).peers.length
      rw [peers_add]; simp

theorem sound_remove (x : Input) (jc : Bool) (s : Nat) (h : shrinkAllowed x [.remove s] = true) :
    Sound x jc (.remove s) := by
  refine ⟨?_, fun _ => h, ?_⟩
  · intro t ht; simp [Req.toSteps, addedStores] at ht
  · intro _ k hk
    rcases take_cases1 _ k hk with h | h <;> simp only [Req.toSteps] at h ⊢ <;> rw [h]
    · simp [applySteps] <;> omega
    · exact Nat.min_le_right _ _

/-- steps that only change roles or the leader keep the peer list's length and health -/
theorem same_counts_promote (r : Region) (s : Nat) :
    (applyStep r (.promote s)).peers.length = r.peers.length ∧
    (applyStep r (.promote s)).healthy.length = r.healthy.length := by
  constructor
  · simp [applyStep]
  · simp only [applyStep, Region.healthy, Region.isDown, Region.isPending, List.filter_map, List.length_map]
    congr 2; funext p; simp only [Function.comp]; split <;> rfl

theorem same_counts_transfer (r : Region) (s : Nat) :
    (applyStep r (.transfer s)).peers = r.peers ∧ (applyStep r (.transfer s)).healthy = r.healthy ∧
    (applyStep r (.transfer s)).stores = r.stores := by
  simp only [applyStep]
  split <;> exact ⟨rfl, rfl, rfl⟩

theorem sound_same_counts (x : Input) (jc : Bool) (req : Req) (st : Step)
    (hs : ∀ r, req.toSteps jc r = [st]) (hadd : addedStores [st] = [])
    (hc : (applyStep x.region st).peers.length = x.region.peers.length ∧
          (applyStep x.region st).healthy.length = x.region.healthy.length) : Sound x jc req := by
  have e : applySteps x.region [st] = applyStep x.region st := rfl
  refine ⟨?_, ?_, ?_⟩
  · intro t ht; rw [hs, hadd] at ht; cases ht
  · intro h; rw [hs, e, hc.1, hc.2] at h; omega
  · intro _ k hk
    rw [hs] at hk ⊢
    rcases take_cases1 _ k hk with h | h <;> rw [h]
    · simp [applySteps] <;> omega
    · exact Nat.min_le_right _ _

theorem sound_promote (x : Input) (jc : Bool) (s : Nat) : Sound x jc (.promote s) :=
  sound_same_counts x jc _ (.promote s) (fun _ => rfl) rfl (same_counts_promote _ _)

theorem sound_transfer (x : Input) (jc : Bool) (s : Nat) : Sound x jc (.transfer s) :=
  sound_same_counts x jc _ (.transfer s) (fun _ => rfl) rfl
    (by have := same_counts_transfer x.region s; exact ⟨by rw [this.1], by rw [this.2.1]⟩)

theorem sound_split (x : Input) (jc : Bool) : Sound x jc .split :=
  sound_same_counts x jc _ .other (fun _ => rfl) rfl ⟨rfl, rfl⟩

theorem sound_crash (x : Input) (jc : Bool) : Sound x jc .crash := by
  refine ⟨?_, ?_, ?_⟩
  · intro t ht; cases ht
  · intro h
    have e : applySteps x.region (Req.toSteps jc x.region .crash) = x.region := rfl
    rw [e] at h; omega
  · intro _ k hk
    simp only [Req.toSteps, List.length_nil, List.mem_range] at hk ⊢
    simp [applySteps]

/-! #### replacements -/

theorem removed_move (o n role : Nat) (jc : Bool) (r : Region) :
    removedStores (Req.toSteps jc r (.move o n role)) = [o] ∧
    addedStores (Req.toSteps jc r (.move o n role)) = [n] := by
  simp only [Req.toSteps]; split <;> exact ⟨rfl, rfl⟩

theorem removed_replace (o n role l : Nat) (jc : Bool) (r : Region) :
    removedStores (Req.toSteps jc r (.replaceLeader o n role l)) = [o] ∧
    addedStores (Req.toSteps jc r (.replaceLeader o n role l)) = [n] := by
  simp only [Req.toSteps]; split <;> exact ⟨rfl, rfl⟩

theorem take_cases2 {α} (a b : α) (k : Nat) (hk : k ∈ List.range ([a, b].length + 1)) :
    [a, b].take k = [] ∨ [a, b].take k = [a] ∨ [a, b].take k = [a, b] := by
  simp only [List.length_cons, List.length_nil, List.mem_range] at hk
  rcases k with _ | _ | _ | k
  · left; rfl
  · right; left; rfl
  · right; right; rfl
  · omega

theorem take_cases3 {α} (a b c : α) (k : Nat) (hk : k ∈ List.range ([a, b, c].length + 1)) :
    [a, b, c].take k = [] ∨ [a, b, c].take k = [a] ∨ [a, b, c].take k = [a, b] ∨ [a, b, c].take k = [a, b, c] := by
  simp only [List.length_cons, List.length_nil, List.mem_range] at hk
  rcases k with _ | _ | _ | _ | k
  · left; rfl
  · right; left; rfl
  · right; right; left; rfl
  · right; right; right; rfl
  · omega

theorem sound_move (x : Input) (jc : Bool) (o : Opts) (old : Nat) (t : Store) (role : Nat)
    (hconf : x.conf = o.conf) (hnd : (x.stores.map (·.id)).Nodup) (hrn : x.region.stores.Nodup)
    (hold : old ∈ x.region.stores) (hm : t ∈ x.stores) (hg : AddGood o x.region t)
    (hp : ∀ steps, removedStores steps = [old] → placementOK x steps t = true) :
    Sound x jc (.move old t.id role) := by
  have hne : t.id ≠ old := by
    intro he; have := hg.fresh; rw [he] at this; simp [hold] at this
  obtain ⟨c1, c2, c3, c4⟩ := move_counts x.region old t.id role hrn hold hne
  obtain ⟨hr, ha⟩ := removed_move old t.id role jc x.region
  refine ⟨?_, ?_, ?_⟩
  · intro t' ht'
    rw [ha] at ht'; simp only [List.mem_singleton] at ht'; subst ht'
    exact goodTarget_of x o _ t hconf hnd hm hg (hp _ hr)
  · intro h
    exfalso
    simp only [Req.toSteps] at h
    split at h <;> omega
  · intro hpair k hk
    simp only [Req.paired] at hpair
    simp only [Req.toSteps, hpair, if_true] at hk ⊢
    rw [c1]
    rcases take_cases2 _ _ k hk with h | h | h <;> rw [h]
    · simp [applySteps]
    · show _ ≤ (applyStep x.region (.add t.id role)).peers.length
      rw [peers_add]; simp <;> omega
    · rw [c1]; simp

theorem sound_replaceLeader (x : Input) (jc : Bool) (o : Opts) (old : Nat) (t : Store) (role l : Nat)
    (hconf : x.conf = o.conf) (hnd : (x.stores.map (·.id)).Nodup) (hrn : x.region.stores.Nodup)
    (hold : old ∈ x.region.stores) (hm : t ∈ x.stores) (hg : AddGood o x.region t)
    (hp : ∀ steps, removedStores steps = [old] → placementOK x steps t = true) :
    Sound x jc (.replaceLeader old t.id role l) := by
  have hne : t.id ≠ old := by
    intro he; have := hg.fresh; rw [he] at this; simp [hold] at this
  obtain ⟨hr, ha⟩ := removed_replace old t.id role l jc x.region
  -- a transfer in between changes neither the peers nor their health
  have tA : ∀ r : Region, applySteps r [.add t.id role, .transfer l, .remove old]
      = applyStep (applyStep (applyStep r (.add t.id role)) (.transfer l)) (.remove old) := fun _ => rfl
  have tB : ∀ r : Region, applySteps r [.transfer l, .remove old, .add t.id role]
      = applyStep (applyStep (applyStep r (.transfer l)) (.remove old)) (.add t.id role) := fun _ => rfl
  have hold' : old ∈ (applyStep x.region (.transfer l)).stores := by
    rw [(same_counts_transfer x.region l).2.2]; exact hold
  have hrn' : (applyStep x.region (.transfer l)).stores.Nodup := by
    rw [(same_counts_transfer x.region l).2.2]; exact hrn
  obtain ⟨_, c2, _, c4⟩ := move_counts (applyStep x.region (.transfer l)) old t.id role hrn' hold' hne
  obtain ⟨c1, _, c3, _⟩ := move_counts x.region old t.id role hrn hold hne
  have eA : (applySteps x.region [.add t.id role, .transfer l, .remove old]).peers.length = x.region.peers.length ∧
      x.region.healthy.length ≤ (applySteps x.region [.add t.id role, .transfer l, .remove old]).healthy.length := by
    rw [tA, healthy_remove, peers_remove, (same_counts_transfer _ l).1, (same_counts_transfer _ l).2.1]
    have e1 : applySteps x.region [.add t.id role, .remove old] = applyStep (applyStep x.region (.add t.id role)) (.remove old) := rfl
    rw [e1] at c1 c3
    rw [healthy_remove] at c3
    exact ⟨c1, c3⟩
  have eB : (applySteps x.region [.transfer l, .remove old, .add t.id role]).peers.length = x.region.peers.length ∧
      x.region.healthy.length ≤ (applySteps x.region [.transfer l, .remove old, .add t.id role]).healthy.length := by
    have e2 : applySteps (applyStep x.region (.transfer l)) [.remove old, .add t.id role]
        = applyStep (applyStep (applyStep x.region (.transfer l)) (.remove old)) (.add t.id role) := rfl
    rw [tB, ← e2]
    rw [(same_counts_transfer x.region l).1] at c2
    rw [(same_counts_transfer x.region l).2.1] at c4
    exact ⟨c2, c4⟩
  refine ⟨?_, ?_, ?_⟩
  · intro t' ht'
    rw [ha] at ht'; simp only [List.mem_singleton] at ht'; subst ht'
    exact goodTarget_of x o _ t hconf hnd hm hg (hp _ hr)
  · intro h
    exfalso
    simp only [Req.toSteps] at h
    split at h <;> omega
  · intro hpair k hk
    simp only [Req.paired] at hpair
    simp only [Req.toSteps, hpair, if_true] at hk ⊢
    rw [eA.1]
    rcases take_cases3 _ _ _ k hk with h | h | h | h <;> rw [h]
    · simp [applySteps]
    · show _ ≤ (applyStep x.region (.add t.id role)).peers.length
      rw [peers_add]; simp <;> omega
    · show _ ≤ (applyStep (applyStep x.region (.add t.id role)) (.transfer l)).peers.length
      rw [(same_counts_transfer _ l).1, peers_add]; simp <;> omega
    · rw [eA.1]; simp

end PdModel.Checkers
