import PdModel.Lemmas.RuleMgr
set_option linter.unusedSimpArgs false
set_option linter.unusedVariables false
/-! savePatch: what the storage holds after all, or some, of the writes of a patch. -/
namespace PdModel.Rules
open PdModel.Spec.C13

/-- the rule stored under a storage key -/
def storeGetR (st : Storage) (k : K) : Option Rule :=
  match mapGet (fun kv : K × Option Rule => kv.1) k st.rules with
  | some kv => kv.2
  | none => none

def nonDefault (g : Group) : Bool := !g.isDefault

def ruleWrite (kv : K × Option Rule) : Write := match kv.2 with | none => .deleteRule kv.1 | some r => .saveRule r
def groupWrite (g : Group) : Write := if g.isDefault then .deleteGroup g.id else .saveGroup g

theorem writes_eq (p : Patch) : p.writes = p.mutR.map ruleWrite ++ p.mutG.map groupWrite := rfl

theorem apply_ruleWrite_groups (st : Storage) (kv : K × Option Rule) : (st.apply (ruleWrite kv)).groups = st.groups := by
  unfold ruleWrite; cases kv.2 <;> rfl

theorem apply_groupWrite_rules (st : Storage) (g : Group) : (st.apply (groupWrite g)).rules = st.rules := by
  unfold groupWrite; split <;> rfl

theorem apply_ruleWrite_get (st : Storage) (kv : K × Option Rule) (hs : ∀ r, kv.2 = some r → kv.1 = r.key) (k : K) :
    storeGetR (st.apply (ruleWrite kv)) k = if kv.1 = k then kv.2 else storeGetR st k := by
  unfold ruleWrite storeGetR
  cases hv : kv.2 with
  | none =>
    simp only [Storage.apply, mapGet_mapDel]
    by_cases e : kv.1 = k
    · simp [e]
    · have : ¬ k = kv.1 := fun h => e h.symm
      simp [e, this]
  | some r =>
    have hk := hs r hv
    simp only [Storage.apply, mapGet_mapSet, ← hk]
    by_cases e : kv.1 = k <;> simp [e]

theorem apply_groupWrite_get (st : Storage) (g : Group) (id : Nat) :
    getG id (st.apply (groupWrite g)).groups = if g.id = id then (some g).filter nonDefault else getG id st.groups := by
  unfold groupWrite getG
  by_cases hd : g.isDefault = true
  · simp only [hd, ↓reduceIte, Storage.apply, mapGet_mapDel, Prod.mk.injEq, and_true]
    by_cases e : g.id = id
    · simp [e, Option.filter, nonDefault, hd]
    · have : ¬ id = g.id := fun h => e h.symm
      simp [e, this]
  · simp only [hd, Bool.false_eq_true, ↓reduceIte, Storage.apply, setG, mapGet_mapSet, gKey, Prod.mk.injEq, and_true]
    by_cases e : g.id = id
    · simp [e, Option.filter, nonDefault, hd]
    · simp [e]

/-- after all rule writes of a patch -/
theorem fold_ruleWrites_get (mutR : List (K × Option Rule))
    (hk : KeysNodup (fun kv : K × Option Rule => kv.1) mutR)
    (hs : ∀ kv ∈ mutR, ∀ r, kv.2 = some r → kv.1 = r.key) (st : Storage) (k : K) :
    storeGetR ((mutR.map ruleWrite).foldl Storage.apply st) k =
      (match mapGet (fun kv : K × Option Rule => kv.1) k mutR with
       | some kv => kv.2
       | none => storeGetR st k) ∧
    ((mutR.map ruleWrite).foldl Storage.apply st).groups = st.groups := by
  induction mutR generalizing st with
  | nil => simp [mapGet]
  | cons kv rest ih =>
    rw [KeysNodup, List.pairwise_cons] at hk
    have ih' := ih hk.2 (fun x hx => hs x (List.mem_cons_of_mem _ hx)) (st.apply (ruleWrite kv))
    simp only [List.map_cons, List.foldl_cons]
    refine ⟨?_, by rw [ih'.2, apply_ruleWrite_groups]⟩
    rw [ih'.1, apply_ruleWrite_get st kv (hs kv List.mem_cons_self)]
    have hm : mapGet (fun kv : K × Option Rule => kv.1) k (kv :: rest) =
        if kv.1 = k then some kv else mapGet (fun kv : K × Option Rule => kv.1) k rest := by
      unfold mapGet; simp only [List.find?_cons]
      by_cases e : kv.1 = k <;> simp [e]
    rw [hm]
    by_cases e : kv.1 = k
    · have hnone : mapGet (fun kv : K × Option Rule => kv.1) k rest = none := by
        unfold mapGet; rw [List.find?_eq_none]; intro y hy
        simpa using fun e' => hk.1 y hy (e.trans e'.symm)
      simp only [hnone, e, ↓reduceIte]
    · simp only [e, ↓reduceIte]

/-- after all group writes of a patch -/
theorem fold_groupWrites_get (mutG : List Group) (hk : KeysNodup gKey mutG) (st : Storage) (id : Nat) :
    getG id ((mutG.map groupWrite).foldl Storage.apply st).groups =
      (match getG id mutG with
       | some g => (some g).filter nonDefault
       | none => getG id st.groups) ∧
    ((mutG.map groupWrite).foldl Storage.apply st).rules = st.rules := by
  induction mutG generalizing st with
  | nil => simp [getG, mapGet]
  | cons g rest ih =>
    rw [KeysNodup, List.pairwise_cons] at hk
    have ih' := ih hk.2 (st.apply (groupWrite g))
    simp only [List.map_cons, List.foldl_cons]
    refine ⟨?_, by rw [ih'.2, apply_groupWrite_rules]⟩
    rw [ih'.1, apply_groupWrite_get]
    have hm : getG id (g :: rest) = if g.id = id then some g else getG id rest := by
      unfold getG mapGet; simp only [List.find?_cons, gKey, Prod.mk.injEq, and_true]
      by_cases e : g.id = id <;> simp [e]
    rw [hm]
    by_cases e : g.id = id
    · have hnone : getG id rest = none := by
        unfold getG mapGet; rw [List.find?_eq_none]; intro y hy
        have := hk.1 y hy
        simp only [gKey, ne_eq, Prod.mk.injEq, and_true] at this ⊢
        simpa using fun e' => this (e.trans e'.symm)
      simp only [hnone, e, ↓reduceIte]
    · simp only [e, ↓reduceIte]

/-- the storage holds exactly what is served: every served rule under its key, every non-default group -/
structure InSync (s : St) : Prop where
  rules  : ∀ k, storeGetR s.store k = getR k s.mgr.cfg.rules
  groups : ∀ id, getG id s.store.groups = (getG id s.mgr.cfg.groups).filter nonDefault

theorem adjust_fold_getG_filter (rules : List Rule) (gs : List Group) (id : Nat) :
    (getG id (rules.foldl (fun gs r => if (getG r.group gs).isSome then gs else setG (defaultGroup r.group) gs) gs)).filter
      nonDefault = (getG id gs).filter nonDefault := by
  induction rules generalizing gs with
  | nil => rfl
  | cons r rs ih =>
    simp only [List.foldl_cons]
    rw [ih]
    split
    · rfl
    · next hn =>
      simp only [getG, setG, mapGet_mapSet, gKey, defaultGroup, Prod.mk.injEq, and_true]
      by_cases e : r.group = id
      · subst e
        have hn' : mapGet gKey (r.group, 0) gs = none := by
          cases h : mapGet gKey (r.group, 0) gs with
          | none => rfl
          | some g => exfalso; apply hn; unfold getG; rw [h]; rfl
        simp [hn', Option.filter, nonDefault, Group.isDefault]
      · simp [e]

theorem adjust_getG_filter (c : Config) (h : KeysNodup gKey c.groups) (id : Nat) :
    (getG id c.adjust.groups).filter nonDefault = (getG id c.groups).filter nonDefault := by
  unfold Config.adjust
  simp only
  rw [adjust_fold_getG_filter]
  unfold getG
  rw [mapGet_filter gKey _ _ _ h]
  cases mapGet gKey (id, 0) c.groups with
  | none => rfl
  | some g =>
    by_cases hd : g.isDefault = true
    · simp [Option.filter, nonDefault, hd]
    · simp [Option.filter, nonDefault, hd]

/-- all writes of the (trimmed) patch applied to a storage that agrees with what is served on every key the
    patch does not write: the result agrees with the committed configuration everywhere -/
theorem accept_sync' (c : Config) (hc : ConfigWF c) (p : Patch) (hp : PatchWF p) (rl : RuleList) (st0 : Storage)
    (hr : ∀ k, mapGet (fun kv : K × Option Rule => kv.1) k (p.trim c).mutR = none → storeGetR st0 k = getR k c.rules)
    (hg : ∀ id, getG id (p.trim c).mutG = none → getG id st0.groups = (getG id c.groups).filter nonDefault) :
    InSync { mgr := { cfg := (p.trim c).commit c, ruleList := rl },
             store := (p.trim c).writes.foldl Storage.apply st0 } := by
  have hp' := trim_wf c p hp
  constructor
  · intro k
    simp only
    rw [writes_eq, List.foldl_append]
    have h1 := fold_ruleWrites_get _ hp'.keys (fun kv hkv r hr => (hp'.self kv hkv r hr).1) st0 k
    have h2 := fold_groupWrites_get _ hp'.gkeys ((List.map ruleWrite (p.trim c).mutR).foldl Storage.apply st0) 0
    unfold storeGetR at h1 ⊢
    rw [h2.2, h1.1, commit_findR _ hc p hp, ← trim_findR _ p hp]
    unfold Patch.findR
    cases hm : mapGet (fun kv : K × Option Rule => kv.1) k (p.trim c).mutR with
    | some kv => rfl
    | none => exact hr k hm
  · intro id
    simp only
    rw [writes_eq, List.foldl_append]
    have h1 := fold_ruleWrites_get _ hp'.keys (fun kv hkv r hr => (hp'.self kv hkv r hr).1) st0 (0, 0)
    have h2 := fold_groupWrites_get _ hp'.gkeys ((List.map ruleWrite (p.trim c).mutR).foldl Storage.apply st0) id
    rw [h2.1, h1.2, commit_eq, adjust_getG_filter _ (commitGroups_keys _ _ hc.gkeys)]
    simp only
    rw [commitGroups_get _ hp'.gkeys]
    cases hm : getG id (p.trim c).mutG with
    | some g => rfl
    | none => exact hg id hm

/-- **an accepted update without storage failure leaves storage = served** -/
theorem accept_sync (s : St) (hc : ConfigWF s.mgr.cfg) (hsync : InSync s) (p : Patch) (hp : PatchWF p)
    (rl : RuleList) :
    InSync { mgr := { cfg := (p.trim s.mgr.cfg).commit s.mgr.cfg, ruleList := rl },
             store := (p.trim s.mgr.cfg).writes.foldl Storage.apply s.store } :=
  accept_sync' s.mgr.cfg hc p hp rl s.store (fun k _ => hsync.rules k) (fun id _ => hsync.groups id)

/-! ### partial writes -/

theorem apply_other_rule (st : Storage) (w : Write) (k : K) (h : w.target ≠ (true, k)) :
    storeGetR (st.apply w) k = storeGetR st k := by
  unfold storeGetR
  cases w with
  | saveRule r =>
    simp only [Storage.apply, mapGet_mapSet]
    have : ¬ r.key = k := fun e => h (by simp [Write.target, e])
    simp [this]
  | deleteRule k' =>
    simp only [Storage.apply, mapGet_mapDel]
    have : ¬ k = k' := fun e => h (by simp [Write.target, e])
    simp [this]
  | saveGroup g => rfl
  | deleteGroup id => rfl

theorem apply_other_group (st : Storage) (w : Write) (id : Nat) (h : w.target ≠ (false, (id, 0))) :
    getG id (st.apply w).groups = getG id st.groups := by
  unfold getG
  cases w with
  | saveRule r => rfl
  | deleteRule k' => rfl
  | saveGroup g =>
    simp only [Storage.apply, setG, mapGet_mapSet, gKey]
    have : ¬ (g.id, 0) = (id, 0) := fun e => h (by simp only [Write.target]; rw [e])
    simp [this]
  | deleteGroup id' =>
    simp only [Storage.apply, mapGet_mapDel]
    have : ¬ (id, 0) = (id', 0) := fun e => h (by simp only [Write.target]; rw [e])
    simp [this]

theorem fold_other (ds : List Write) (st : Storage) :
    (∀ k, (∀ w ∈ ds, w.target ≠ (true, k)) → storeGetR (ds.foldl Storage.apply st) k = storeGetR st k) ∧
    (∀ id, (∀ w ∈ ds, w.target ≠ (false, (id, 0))) → getG id (ds.foldl Storage.apply st).groups = getG id st.groups) := by
  induction ds generalizing st with
  | nil => simp
  | cons w ws ih =>
    constructor
    · intro k h
      simp only [List.foldl_cons]
      rw [(ih (st.apply w)).1 k (fun x hx => h x (List.mem_cons_of_mem _ hx)),
        apply_other_rule st w k (h w List.mem_cons_self)]
    · intro id h
      simp only [List.foldl_cons]
      rw [(ih (st.apply w)).2 id (fun x hx => h x (List.mem_cons_of_mem _ hx)),
        apply_other_group st w id (h w List.mem_cons_self)]

theorem ruleWrite_target (kv : K × Option Rule) (hs : ∀ r, kv.2 = some r → kv.1 = r.key) :
    (ruleWrite kv).target = (true, kv.1) := by
  unfold ruleWrite
  cases hv : kv.2 with
  | none => rfl
  | some r => simp [Write.target, hs r hv]

theorem groupWrite_target (g : Group) : (groupWrite g).target = (false, (g.id, 0)) := by
  unfold groupWrite; split <;> rfl

/-- **retry converges**: some of the writes of an update were done, the save failed (served unchanged); the same
    update, retried without failure, leaves storage = served -/
theorem retry_sync (s : St) (hc : ConfigWF s.mgr.cfg) (hsync : InSync s) (p : Patch) (hp : PatchWF p)
    (rl : RuleList) (done : List Write) (hdone : ∀ w ∈ done, w ∈ (p.trim s.mgr.cfg).writes) :
    InSync { mgr := { cfg := (p.trim s.mgr.cfg).commit s.mgr.cfg, ruleList := rl },
             store := (p.trim s.mgr.cfg).writes.foldl Storage.apply (done.foldl Storage.apply s.store) } := by
  have hp' := trim_wf s.mgr.cfg p hp
  apply accept_sync' s.mgr.cfg hc p hp rl
  · intro k hnone
    rw [← hsync.rules k]
    apply (fold_other done s.store).1 k
    intro w hw e
    have hw' := hdone w hw
    rw [writes_eq, List.mem_append, List.mem_map, List.mem_map] at hw'
    rcases hw' with ⟨kv, hkv, rfl⟩ | ⟨g, _, rfl⟩
    · rw [ruleWrite_target kv (fun r hr => (hp'.self kv hkv r hr).1)] at e
      simp only [Prod.mk.injEq, true_and] at e
      have := mapGet_of_mem (fun kv : K × Option Rule => kv.1) _ hp'.keys kv hkv
      rw [e, hnone] at this; cases this
    · rw [groupWrite_target] at e; simp at e
  · intro id hnone
    rw [← hsync.groups id]
    apply (fold_other done s.store).2 id
    intro w hw e
    have hw' := hdone w hw
    rw [writes_eq, List.mem_append, List.mem_map, List.mem_map] at hw'
    rcases hw' with ⟨kv, hkv, rfl⟩ | ⟨g, hg, rfl⟩
    · rw [ruleWrite_target kv (fun r hr => (hp'.self kv hkv r hr).1)] at e; simp at e
    · rw [groupWrite_target] at e
      simp only [Prod.mk.injEq, true_and, and_true] at e
      have := mapGet_of_mem gKey _ hp'.gkeys g hg
      unfold getG at hnone
      simp only [gKey] at this
      rw [e, hnone] at this; cases this

end PdModel.Rules
