import PdModel.Model.RegionCache
import PdModel.Spec.C06
import PdModel.Lemmas.RegionTreeQuery
set_option linter.unusedSimpArgs false
set_option linter.unusedVariables false
/-!
Lemmas for the heartbeat path: the pre-check is exactly `MustReject` on the current regions; one heartbeat
changes the region set by nothing or by `put`.
-/
namespace PdModel.RegionCache
open PdModel.RegionTree PdModel.Spec
open PdModel.Spec.C07 (WFRange WF Overlap)

/-! ### the list specification -/

theorem mem_insertByKey {r y : Region} {L : List Region} : y ∈ C07.insertByKey r L ↔ y = r ∨ y ∈ L := by
  induction L with
  | nil => simp [C07.insertByKey]
  | cons x xs ih =>
    simp only [C07.insertByKey]
    split
    · simp
    · simp only [List.mem_cons, ih]
      constructor
      · rintro (h | h | h); exact Or.inr (Or.inl h); exact Or.inl h; exact Or.inr (Or.inr h)
      · rintro (h | h | h); exact Or.inr (Or.inl h); exact Or.inl h; exact Or.inr (Or.inr h)

theorem mem_put {L : List Region} {r y : Region} :
    y ∈ C07.put L r ↔ y = r ∨ (y ∈ L ∧ ¬ Overlap y r ∧ y.id ≠ r.id) := by
  unfold C07.put
  rw [mem_insertByKey]
  simp [List.mem_filter]

theorem mem_displaced {L : List Region} {r y : Region} :
    y ∈ C07.displaced L r ↔ y ∈ L ∧ Overlap y r ∧ y.id ≠ r.id := by
  unfold C07.displaced; simp [List.mem_filter]

/-- the regions of a state satisfying the invariant: pairwise disjoint, ids unique -/
theorem abs_ordered {s : RegionsInfo} (h : Inv s) : Ordered id (abs s) :=
  ⟨List.pairwise_map.2 h.ord.1, by
    intro y hy; obtain ⟨b, hb, rfl⟩ := List.mem_map.1 hy; exact h.ord.2 b hb⟩

theorem abs_id_unique {s : RegionsInfo} (h : Inv s) {a b : Region} (ha : a ∈ abs s) (hb : b ∈ abs s)
    (e : a.id = b.id) : a = b := by
  obtain ⟨x, hx, rfl⟩ := List.mem_map.1 ha
  obtain ⟨y, hy, rfl⟩ := List.mem_map.1 hb
  rw [h.map.inj x hx y hy e]

theorem abs_wf {s : RegionsInfo} (h : Inv s) {a : Region} (ha : a ∈ abs s) : WF a := by
  obtain ⟨x, hx, rfl⟩ := List.mem_map.1 ha
  exact h.wf x hx

theorem get_some_iff {s : RegionsInfo} (h : Inv s) {id : Nat} {o : Region} :
    C07.get (abs s) id = some o ↔ o ∈ abs s ∧ o.id = id := by
  unfold C07.get
  constructor
  · intro hf
    exact ⟨List.mem_of_find?_eq_some hf, by simpa using List.find?_some hf⟩
  · rintro ⟨hm, hid⟩
    apply find?_eq_some_of_unique hm (by simp [hid])
    intro c hc hp
    simp only [decide_eq_true_eq] at hp
    exact abs_id_unique h hc hm (by rw [hp, hid])

/-- disjointness: two distinct current regions do not intersect -/
theorem abs_no_overlap {s : RegionsInfo} (h : Inv s) {a b : Region} (ha : a ∈ abs s) (hb : b ∈ abs s)
    (hne : a ≠ b) : ¬ Overlap a b := by
  rcases (abs_ordered h).tri id ha hb with e | hb' | hb'
  · exact absurd e hne
  · exact (before_not_overlap hb').1
  · exact (before_not_overlap hb').2

theorem no_overlap_of_inv {s : RegionsInfo} (h : Inv s) : C06.NoOverlap (abs s) := by
  unfold C06.NoOverlap
  refine List.Pairwise.imp ?_ (abs_ordered h).1
  intro a b hab
  exact (before_not_overlap hab).1

/-! ### the pre-check -/

theorem overlap_same_keys {y r o : Region} (h1 : o.startKey = r.startKey) (h2 : o.endKey = r.endKey) :
    Overlap y r ↔ Overlap y o := by
  unfold Overlap; rw [h1, h2]

/-- **PreCheckPutRegion answers `stale` exactly for the heartbeats that must be rejected**: staler than the
    cached region of the same id, or older in version than a cached region they overlap -/
theorem preCheck_stale_iff {s : RegionsInfo} (h : Inv s) (r : Region) :
    (preCheckPutRegion s r).2 = .stale ↔ C06.MustReject (abs s) r := by
  unfold preCheckPutRegion getRelevantRegions
  simp only
  rw [getRegion_eq h]
  have hov : getOverlaps s r = (abs s).filter (fun x => decide (Overlap x r)) := overlaps_eq_aux h r
  cases hg : C07.get (abs s) r.id with
  | none =>
    simp only [hov]
    have hnoid : ∀ o ∈ abs s, o.id ≠ r.id := by
      intro o ho e
      have := (get_some_iff h).2 ⟨ho, e⟩
      rw [hg] at this; cases this
    by_cases hany : ((abs s).filter (fun x => decide (Overlap x r))).any (fun item => decide (r.version < item.version)) = true
    · simp only [hany, if_true, true_iff]
      obtain ⟨y, hy, hv⟩ := List.any_eq_true.1 hany
      obtain ⟨hy1, hy2⟩ := List.mem_filter.1 hy
      exact Or.inr ⟨y, hy1, of_decide_eq_true hy2, of_decide_eq_true hv⟩
    · simp only [hany, Bool.false_eq_true, if_false]
      constructor
      · intro hc; cases hc
      · rintro (⟨o, ho, e, _⟩ | ⟨y, hy, hyo, hv⟩)
        · exact absurd e (hnoid o ho)
        · exact absurd (List.any_eq_true.2 ⟨y, List.mem_filter.2 ⟨hy, by simp [hyo]⟩, by simp [hv]⟩) hany
  | some o =>
    obtain ⟨ho, hoid⟩ := (get_some_iff h).1 hg
    simp only
    have hbehind : (r.term > 0 ∧ r.term < o.term ∨ r.version < o.version ∨ r.confVer < o.confVer) ↔
        ¬ C06.NotBehind o r := by
      unfold C06.NotBehind; omega
    have horigin : ∀ o' ∈ abs s, o'.id = r.id → o' = o := fun o' ho' e => abs_id_unique h ho' ho (by rw [e, hoid])
    by_cases hr : o.startKey ≠ r.startKey ∨ o.endKey ≠ r.endKey
    · simp only [hr, if_true, hov]
      by_cases hany : ((abs s).filter (fun x => decide (Overlap x r))).any (fun item => decide (r.version < item.version)) = true
      · simp only [hany, if_true, true_iff]
        obtain ⟨y, hy, hv⟩ := List.any_eq_true.1 hany
        obtain ⟨hy1, hy2⟩ := List.mem_filter.1 hy
        exact Or.inr ⟨y, hy1, of_decide_eq_true hy2, of_decide_eq_true hv⟩
      · simp only [hany, Bool.false_eq_true, if_false]
        by_cases hb : (r.term > 0 ∧ r.term < o.term ∨ r.version < o.version ∨ r.confVer < o.confVer)
        · simp only [hb, if_true, true_iff]
          exact Or.inl ⟨o, ho, hoid, hbehind.1 hb⟩
        · simp only [hb, if_false]
          constructor
          · intro hc; cases hc
          · rintro (⟨o', ho', e, hnb⟩ | ⟨y, hy, hyo, hv⟩)
            · rw [horigin o' ho' e] at hnb; exact absurd (hbehind.2 hnb) hb
            · exact absurd (List.any_eq_true.2 ⟨y, List.mem_filter.2 ⟨hy, by simp [hyo]⟩, by simp [hv]⟩) hany
    · simp only [hr, if_false, List.any_nil, Bool.false_eq_true]
      have hk : o.startKey = r.startKey ∧ o.endKey = r.endKey := by
        constructor
        · by_cases e : o.startKey = r.startKey; exact e; exact absurd (Or.inl e) hr
        · by_cases e : o.endKey = r.endKey; exact e; exact absurd (Or.inr e) hr
      by_cases hb : (r.term > 0 ∧ r.term < o.term ∨ r.version < o.version ∨ r.confVer < o.confVer)
      · simp only [hb, if_true, true_iff]
        exact Or.inl ⟨o, ho, hoid, hbehind.1 hb⟩
      · simp only [hb, if_false]
        constructor
        · intro hc; cases hc
        · rintro (⟨o', ho', e, hnb⟩ | ⟨y, hy, hyo, hv⟩)
          · rw [horigin o' ho' e] at hnb; exact absurd (hbehind.2 hnb) hb
          · -- `y` intersects the range of `o`, so it is `o`
            have hyo' : Overlap y o := (overlap_same_keys hk.1 hk.2).1 hyo
            have : y = o := by
              by_cases e : y = o
              · exact e
              · exact absurd hyo' (abs_no_overlap h hy ho e)
            subst this
            exact absurd (Or.inr (Or.inl hv)) hb

theorem preCheck_cases (s : RegionsInfo) (r : Region) :
    (preCheckPutRegion s r).2 = .ok ∨ (preCheckPutRegion s r).2 = .stale := by
  cases (preCheckPutRegion s r).2 <;> simp

/-- when the pre-check passes it hands back the cached region of the same id -/
theorem preCheck_origin {s : RegionsInfo} (h : Inv s) (r : Region) (hok : (preCheckPutRegion s r).2 = .ok) :
    (preCheckPutRegion s r).1 = C07.get (abs s) r.id := by
  unfold preCheckPutRegion getRelevantRegions at hok ⊢
  simp only at hok ⊢
  rw [getRegion_eq h] at hok ⊢
  cases hg : C07.get (abs s) r.id with
  | none =>
    simp only [hg] at hok ⊢
    by_cases hany : (getOverlaps s r).any (fun item => decide (r.version < item.version)) = true
    · simp [hany] at hok
    · simp [hany]
  | some o =>
    simp only [hg] at hok ⊢
    generalize (if o.startKey ≠ r.startKey ∨ o.endKey ≠ r.endKey then getOverlaps s r else []) = ovs at hok ⊢
    by_cases hany : ovs.any (fun item => decide (r.version < item.version)) = true
    · simp [hany] at hok
    · simp only [hany, Bool.false_eq_true, if_false] at hok ⊢
      by_cases hb : (r.term > 0 ∧ r.term < o.term ∨ r.version < o.version ∨ r.confVer < o.confVer)
      · simp [hb] at hok
      · simp [hb]

/-! ### one heartbeat -/

theorem flags_saveCache (origin : Option Region) (r : Region)
    (h : (!(computeFlags origin r).saveKV && !(computeFlags origin r).saveCache && !(computeFlags origin r).isNew) = false) :
    (computeFlags origin r).saveCache = true := by
  unfold computeFlags at h ⊢
  cases origin with
  | none => rfl
  | some o =>
    simp only at h ⊢
    revert h
    generalize (decide (r.version > o.version) || decide (r.confVer > o.confVer) || r.peers.length != o.peers.length) = a
    generalize (r.leader != o.leader) = b
    generalize (peerKeys r.down != peerKeys o.down) = c
    generalize (peerKeys r.pending != peerKeys o.pending) = d
    generalize (r.size != o.size || r.keys != o.keys) = e
    generalize (r.written != o.written || r.read != o.read) = f
    generalize (r.repl.1 != 0 && r.repl != o.repl) = g
    generalize (o.leader == 0) = k
    cases a <;> cases b <;> cases c <;> cases d <;> cases e <;> cases f <;> cases g <;> cases k <;> simp

/-- the locked section: either the heartbeat must be rejected and nothing changes, or it is put -/
theorem commit_spec {c : Cluster} (h : Inv c.ri) {r : Region} (hr : WF r) :
    ((commit c r).2.1 = .stale ∧ (commit c r).1 = c ∧ (commit c r).2.2 = [] ∧ C06.MustReject (abs c.ri) r) ∨
    ((commit c r).2.1 = .ok ∧ ¬ C06.MustReject (abs c.ri) r ∧ Inv (commit c r).1.ri ∧
      abs (commit c r).1.ri = C07.put (abs c.ri) r ∧ (commit c r).2.2 = C07.displaced (abs c.ri) r ∧
      (commit c r).1.storage = c.storage) := by
  unfold commit
  rcases preCheck_cases c.ri r with hv | hv
  · right
    have hnm : ¬ C06.MustReject (abs c.ri) r := fun hm => by
      have := (preCheck_stale_iff h r).2 hm; rw [hv] at this; cases this
    have p := setRegion_refines h hr
    rw [hv]
    exact ⟨rfl, hnm, p.inv, p.abs_eq, p.out_eq, rfl⟩
  · left
    rw [hv]
    exact ⟨rfl, rfl, rfl, (preCheck_stale_iff h r).1 hv⟩

theorem lookup_foldl_mapDel (ov : List Region) (st : List (Nat × Meta)) (k : Nat) :
    mapGet (ov.foldl (fun st item => mapDel st item.id) st) k =
      if k ∈ ov.map (·.id) then none else mapGet st k := by
  induction ov generalizing st with
  | nil => simp
  | cons o ov ih =>
    simp only [List.foldl_cons, ih, mapGet_mapDel, List.map_cons, List.mem_cons]
    by_cases h1 : k ∈ ov.map (·.id)
    · simp [h1]
    · by_cases h2 : k = o.id <;> simp [h1, h2]

theorem heartbeat_eq_stale {c : Cluster} {r : Region} (hv : (preCheckPutRegion c.ri r).2 = .stale) :
    heartbeat c r = (c, .stale) := by
  have hpair : preCheckPutRegion c.ri r = ((preCheckPutRegion c.ri r).1, .stale) := by rw [← hv]
  unfold heartbeat; rw [hpair]

theorem heartbeat_eq_ignored {c : Cluster} {r : Region} (hv : (preCheckPutRegion c.ri r).2 = .ok)
    (hfl : (!(computeFlags (preCheckPutRegion c.ri r).1 r).saveKV &&
      !(computeFlags (preCheckPutRegion c.ri r).1 r).saveCache &&
      !(computeFlags (preCheckPutRegion c.ri r).1 r).isNew) = true) :
    heartbeat c r = (c, .ok) := by
  have hpair : preCheckPutRegion c.ri r = ((preCheckPutRegion c.ri r).1, .ok) := by rw [← hv]
  unfold heartbeat; rw [hpair]
  simp only [hfl, if_true]

theorem heartbeat_eq_put {c : Cluster} {r : Region} (hv : (preCheckPutRegion c.ri r).2 = .ok)
    (hfl : (!(computeFlags (preCheckPutRegion c.ri r).1 r).saveKV &&
      !(computeFlags (preCheckPutRegion c.ri r).1 r).saveCache &&
      !(computeFlags (preCheckPutRegion c.ri r).1 r).isNew) = false)
    (hc : (commit c r).2.1 = .ok) :
    heartbeat c r = (store (commit c r).1 r (computeFlags (preCheckPutRegion c.ri r).1 r).saveKV (commit c r).2.2, .ok) := by
  have hpair : preCheckPutRegion c.ri r = ((preCheckPutRegion c.ri r).1, .ok) := by rw [← hv]
  have hsc := flags_saveCache _ r hfl
  have hco : commit c r = ((commit c r).1, .ok, (commit c r).2.2) := by rw [← hc]
  unfold heartbeat; rw [hpair]
  simp only [hsc, if_true]
  rw [hco]
  simp [hsc]

/-- what one heartbeat, handled on its own, does -/
theorem heartbeat_spec {c : Cluster} (h : Inv c.ri) {r : Region} (hr : WF r) :
    ((heartbeat c r).2 = .stale ∧ (heartbeat c r).1 = c ∧ C06.MustReject (abs c.ri) r) ∨
    ((heartbeat c r).2 = .ok ∧ ¬ C06.MustReject (abs c.ri) r ∧
      ((heartbeat c r).1 = c ∨
       (Inv (heartbeat c r).1.ri ∧ abs (heartbeat c r).1.ri = C07.put (abs c.ri) r ∧
        ∃ saveKV, (heartbeat c r).1.storage =
          (store c r saveKV (C07.displaced (abs c.ri) r)).storage))) := by
  rcases preCheck_cases c.ri r with hv | hv
  · right
    have hnm : ¬ C06.MustReject (abs c.ri) r := fun hm => by
      have := (preCheck_stale_iff h r).2 hm; rw [hv] at this; cases this
    cases hfl : (!(computeFlags (preCheckPutRegion c.ri r).1 r).saveKV &&
      !(computeFlags (preCheckPutRegion c.ri r).1 r).saveCache &&
      !(computeFlags (preCheckPutRegion c.ri r).1 r).isNew) with
    | true =>
      rw [heartbeat_eq_ignored hv hfl]
      exact ⟨rfl, hnm, Or.inl rfl⟩
    | false =>
      rcases commit_spec h hr with ⟨_, _, _, hm⟩ | ⟨c1, _, c3, c4, c5, c6⟩
      · exact absurd hm hnm
      · rw [heartbeat_eq_put hv hfl c1]
        refine ⟨rfl, hnm, Or.inr ⟨c3, c4, (computeFlags (preCheckPutRegion c.ri r).1 r).saveKV, ?_⟩⟩
        show (store _ _ _ _).storage = _
        unfold store
        simp only [c5, c6]
  · left
    rw [heartbeat_eq_stale hv]
    exact ⟨rfl, rfl, (preCheck_stale_iff h r).1 hv⟩

theorem heartbeat_inv {c : Cluster} (h : Inv c.ri) {r : Region} (hr : WF r) : Inv (heartbeat c r).1.ri := by
  rcases heartbeat_spec h hr with ⟨_, e, _⟩ | ⟨_, _, e | ⟨e, _⟩⟩
  · rw [e]; exact h
  · rw [e]; exact h
  · exact e

end PdModel.RegionCache
