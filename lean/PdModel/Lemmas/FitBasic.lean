import PdModel.Model.Fit
set_option linter.unusedSimpArgs false
set_option linter.unusedVariables false
/-! The loop-shaped helper functions of the model compute the documented semantics of `Spec.C12`. -/
namespace PdModel.Fit
open PdModel.Spec.C12

theorem getLabelValue_eq (s : Store) (key : String) : getLabelValue s.labels key = labelValue s key := by
  unfold labelValue
  induction s.labels with
  | nil => simp [getLabelValue]
  | cons l ls ih =>
    simp only [getLabelValue, equalFold, List.find?_cons]
    by_cases h : (fold l.key == fold key) = true
    · simp [h]
    · simp only [h, Bool.false_eq_true, ↓reduceIte]; exact ih

theorem matchStore_eq (c : Constraint) (s : Store) : matchStore c s = c.holds s := by
  unfold matchStore Constraint.holds
  cases c.op <;> simp only [getLabelValue_eq]
  · congr 1
    induction c.values with
    | nil => simp
    | cons v vs ih => simp only [List.any_cons, List.contains_cons, ih]; rw [Bool.beq_comm]
  · congr 1
    induction c.values with
    | nil => simp
    | cons v vs ih =>
      simp only [List.all_cons, List.contains_cons, ih, Bool.not_or]; rw [Bool.beq_comm]

theorem legacy_labels : legacyExclusiveLabels = ["engine", "exclusive"] := by decide

theorem isExclusiveLabel_eq (key : String) : isExclusiveLabel key = isExclusive key := by
  unfold isExclusiveLabel isExclusive hasDollarPrefix
  rw [legacy_labels]
  simp only [List.any_cons, List.any_nil, Bool.or_false, Bool.or_assoc]
  rfl

theorem all_not_eq_not_any {α} (p : α → Bool) (l : List α) : (l.all fun c => !p c) = !l.any p := by
  induction l with
  | nil => rfl
  | cons a l ih => simp [ih]

theorem matchLabelConstraints_eq (s : Store) (cs : List Constraint) :
    matchLabelConstraints (some s) cs = storeOK s cs := by
  unfold matchLabelConstraints storeOK
  simp only [isExclusiveLabel_eq, matchStore_eq]
  have h : (s.labels.any fun l => isExclusive l.key && cs.all fun c => !(c.key == l.key)) =
      !(s.labels.all fun l => !isExclusive l.key || cs.any fun c => c.key == l.key) := by
    induction s.labels with
    | nil => simp
    | cons l ls ih =>
      simp only [List.any_cons, List.all_cons, ih, Bool.not_and]
      congr 1
      simp only [Bool.not_or, Bool.not_not]
      congr 1
      exact all_not_eq_not_any (fun c => c.key == l.key) cs
  rw [h]
  cases (s.labels.all fun l => !isExclusive l.key || cs.any fun c => c.key == l.key) <;> simp

theorem matchRoleStrict_eq (p : PeerInfo) (r : Role) : matchRoleStrict p r = roleMatches p r := by
  cases r <;> rfl

theorem matchRoleLoose_eq (p : PeerInfo) (r : Role) : matchRoleLoose p r = canBecome p r := rfl

theorem compareLocationAux_eq (a b : Store) (labels : List String) (i : Nat) :
    compareLocationAux a b labels i = (firstDiff a b labels).map (· + i) := by
  induction labels generalizing i with
  | nil => simp [compareLocationAux, firstDiff]
  | cons k ks ih =>
    simp only [compareLocationAux, firstDiff, getLabelValue_eq, equalFold]
    by_cases h : (labelValue a k != "" && labelValue b k != "" && !(fold (labelValue a k) == fold (labelValue b k))) = true
    · have h' : (labelValue a k != "" && labelValue b k != "" && fold (labelValue a k) != fold (labelValue b k)) = true := by
        simpa [bne] using h
      simp [h, h']
    · have h' : ¬ (labelValue a k != "" && labelValue b k != "" && fold (labelValue a k) != fold (labelValue b k)) = true := by
        simpa [bne] using h
      simp only [h, h', Bool.false_eq_true, ↓reduceIte, ih, Option.map_map]
      congr 1
      funext x; simp only [Function.comp]; omega

theorem base_is_100 : replicaBaseScore = 100 := by decide

theorem firstDiff_nil_labels (a b : Store) : firstDiff a b [] = none := rfl

theorem scoreInner_eq (p1 : PeerInfo) (labels : List String) (ps : List PeerInfo) (acc : Nat) :
    scoreInner p1 labels ps acc = acc +
      (match p1.store with
       | some s => ((ps.filterMap (·.store)).map (pairScore labels s)).sum
       | none => 0) := by
  induction ps generalizing acc with
  | nil => cases p1.store <;> simp [scoreInner]
  | cons p2 rest ih =>
    simp only [scoreInner, compareLocation]
    cases h1 : p1.store with
    | none => simp [ih, h1]
    | some s1 =>
      cases h2 : p2.store with
      | none => simp [ih, h1, h2]
      | some s2 =>
        simp only [compareLocationAux_eq, List.filterMap_cons, h2, List.map_cons, List.sum_cons]
        cases hd : firstDiff s1 s2 labels with
        | none =>
          have : pairScore labels s1 s2 = 0 := by simp [pairScore, hd]
          simp [ih, h1, this]
        | some d =>
          have : pairScore labels s1 s2 = 100 ^ (labels.length - d - 1) := by simp [pairScore, hd]
          simp only [Option.map_some, Nat.add_zero, ih, h1, this, base_is_100]; omega

theorem scoreOuter_eq (labels : List String) (ps : List PeerInfo) (acc : Nat) :
    scoreOuter labels ps acc = acc + isoScore labels (ps.filterMap (·.store)) := by
  induction ps generalizing acc with
  | nil => simp [scoreOuter, isoScore]
  | cons p rest ih =>
    simp only [scoreOuter, ih, scoreInner_eq, List.filterMap_cons]
    cases p.store with
    | none => simp
    | some s => simp [isoScore]; omega

theorem pairScore_nil (a b : Store) : pairScore [] a b = 0 := rfl

theorem isoScore_nil_labels (l : List Store) : isoScore [] l = 0 := by
  induction l with
  | nil => rfl
  | cons s rest ih =>
    simp only [isoScore, ih, Nat.add_zero]
    clear ih
    induction rest with
    | nil => rfl
    | cons t ts ih2 => simp [pairScore_nil, ih2]

theorem isolationScore_eq (ps : List PeerInfo) (labels : List String) :
    isolationScore ps labels = isoScore labels (ps.filterMap (·.store)) := by
  unfold isolationScore
  split
  · next h =>
    simp only [Bool.or_eq_true, beq_iff_eq, decide_eq_true_eq] at h
    rcases h with h | h
    · have : labels = [] := List.eq_nil_of_length_eq_zero h
      subst this; exact (isoScore_nil_labels _).symm
    · match ps, h with
      | [], _ => rfl
      | [p], _ => cases hp : p.store <;> simp [hp, isoScore]
  · simp [scoreOuter_eq]

end PdModel.Fit
