import PdModel.Lemmas.BuilderDiff
set_option linter.unusedSimpArgs false
set_option linter.unusedVariables false
set_option linter.unusedSectionVars false
/-! The non-joint builder when at most one peer change is pending (the only way it runs while joint
    consensus is on): one plan, then the final leader transfer. -/
namespace PdModel.Builder
open PdModel.Steps PdModel.Spec PdModel.Spec.C08

theorem sinv_congr {r0 : Region} {m : Nat} {b b' : B} (h : SInv r0 m b) (hs : b'.steps = b.steps)
    (hc : b'.cur = b.cur) : SInv r0 m b' :=
  ⟨hs ▸ h.safe, by rw [hs, hc]; exact h.runEq, hc ▸ h.nodup, hc ▸ h.plain, hc ▸ h.leader, hc ▸ h.voters⟩

/-- the current peers are the requested ones (stores and roles) -/
structure Matches (cur T : List Peer) : Prop where
  sound : ∀ q ∈ cur, ∃ n ∈ T, n.store = q.store ∧ n.role = q.role
  complete : ∀ n ∈ T, ∃ q ∈ cur, q.store = n.store ∧ q.role = n.role

/-- the end of buildStepsWithoutJointConsensus: pick a target leader if none was requested, transfer -/
def finishNoJoint (b : B) : B :=
  let b := setTargetLeaderIfNotExist b
  if b.targetLeader != 0 && b.cur.leader != b.targetLeader && pmHas b.cur.peers b.targetLeader then
    { execTransferLeader b b.targetLeader with kindLeader := true } else b

theorem finish_safe {r0 : Region} {m : Nat} {b : B} {T : List Peer} (tl : Nat)
    (h : SInv r0 m b) (hT : b.targetPeers = T) (hnT : (stores T).Nodup) (hM : Matches b.cur.peers T)
    (htl : b.targetLeader = tl) (htlv : tl = 0 ∨ ∃ n ∈ T, n.store = tl ∧ n.role = .voter) :
    StepsSafe m r0 (finishNoJoint b).steps ∧ Final (targetOfPeers T tl) (run r0 (finishNoJoint b).steps) := by
  obtain ⟨k, s1, s2, s3, s4, s5, s6⟩ := setTarget_spec b
  unfold finishNoJoint
  generalize hb' : setTargetLeaderIfNotExist b = b' at k s1 s2 s3 s4 s5 s6
  simp only
  have hinv' : SInv r0 m b' := sinv_congr h s1 s5
  -- the chosen leader is 0 or a voter of the target
  have ht : b'.targetLeader = 0 ∨ ∃ n ∈ T, n.store = b'.targetLeader ∧ n.role = .voter := by
    rcases s6 with ⟨_, e⟩ | ⟨_, e | ⟨p, hp, hps, hr1, hr2⟩⟩
    · rw [e, htl]; exact htlv
    · left; exact e
    · right
      rw [hT] at hp
      refine ⟨p, hp, hps, ?_⟩
      rcases hM.complete p hp with ⟨q, hq, _, hqr⟩
      rcases h.plain q hq with e | e
      · rw [← hqr]; exact e
      · rw [← hqr] at hr1; exact absurd e hr1
  have hreq : tl = 0 ∨ b'.targetLeader = tl := by
    rcases s6 with ⟨_, e⟩ | ⟨e, _⟩
    · right; rw [e, htl]
    · left; rw [← htl]; exact e
  have final_of : ∀ (bf : B), SInv r0 m bf → bf.cur.peers = b.cur.peers → (tl = 0 ∨ bf.cur.leader = tl) →
      StepsSafe m r0 bf.steps ∧ Final (targetOfPeers T tl) (run r0 bf.steps) := by
    intro bf hf hpeers hlead
    refine ⟨hf.safe, ?_⟩
    rw [hf.runEq]
    obtain ⟨pl, hpl, hpls, hplr⟩ := hf.leader
    refine ⟨?_, ?_, hf.nodup, ?_, hlead⟩
    · intro q hq
      rw [hpeers] at hq
      obtain ⟨n, hn, e1, e2⟩ := hM.sound q hq
      exact List.mem_map.2 ⟨n, hn, by rw [e1, e2]⟩
    · intro x hx
      obtain ⟨n, hn, rfl⟩ := List.mem_map.1 hx
      obtain ⟨q, hq, e1, e2⟩ := hM.complete n hn
      exact ⟨q, hpeers ▸ hq, e1, e2⟩
    · rw [← hpls]; exact fullVoter_of_voter hf.nodup hpl hplr
  by_cases hc : (b'.targetLeader != 0 && b'.cur.leader != b'.targetLeader && pmHas b'.cur.peers b'.targetLeader) = true
  · rw [if_pos hc]
    simp only [Bool.and_eq_true, bne_iff_ne, ne_eq] at hc
    obtain ⟨⟨h0, _⟩, hhas⟩ := hc
    rcases ht with e | ⟨n, hn, hns, hnr⟩
    · exact absurd e h0
    · -- the peer on that store in the current peers is a voter
      obtain ⟨q, hq, hqs, hqr⟩ := hM.complete n hn
      have hq' : q ∈ b'.cur.peers := by rw [s5]; exact hq
      obtain ⟨ht1, ht2⟩ := sinv_transfer hinv' b'.targetLeader ⟨q, hq', hqs.trans hns, hqr.trans hnr⟩
      apply final_of _ (sinv_congr ht1 rfl rfl)
      · show (execTransferLeader b' b'.targetLeader).cur.peers = _
        rw [ht2, s5]
      · show tl = 0 ∨ (execTransferLeader b' b'.targetLeader).cur.leader = tl
        rw [ht2]
        rcases hreq with e | e
        · left; exact e
        · right; exact e
  · rw [if_neg hc]
    apply final_of b' hinv' (by rw [s5])
    rcases hreq with e | e
    · left; exact e
    · -- the requested leader is a target peer, hence present; so the guard failed because it already leads
      by_cases h0 : b'.targetLeader = 0
      · left; rw [← e]; exact h0
      · right
        rcases ht with e0 | ⟨n, hn, hns, hnr⟩
        · exact absurd e0 h0
        · obtain ⟨q, hq, hqs, _⟩ := hM.complete n hn
          have hhas : pmHas b'.cur.peers b'.targetLeader = true := by
            rw [s5]; exact pmHas_iff.2 (mem_stores.2 ⟨q, hq, hqs.trans hns⟩)
          simp only [Bool.and_eq_true, bne_iff_ne, ne_eq, hhas, and_true, not_and, Classical.not_not] at hc
          rw [← e]; exact hc h0

/-! ### what the pending maps say about origin vs target -/

section
variable (b0 : B) (rec : Recorded b0)
include rec

/-- an origin peer whose store is not requested is to be removed -/
theorem origin_not_requested (p : Peer) (hp : p ∈ b0.originPeers) (h : p.store ∉ stores b0.targetPeers) :
    p ∈ (diffOrigin (clearPending b0)).toRemove := diff_remove_complete b0 rec p hp (Or.inl h)

/-- an origin peer and the requested peer of its store have the same role, or the store is pending -/
theorem roles_agree (p n : Peer) (hp : p ∈ b0.originPeers) (hn : n ∈ b0.targetPeers) (hs : n.store = p.store) :
    p.role = n.role ∨ (⟨p.store, p.id, .voter⟩ : Peer) ∈ (diffOrigin (clearPending b0)).toPromote ∨
      (⟨p.store, p.id, .learner⟩ : Peer) ∈ (diffOrigin (clearPending b0)).toDemote ∨
      p ∈ (diffOrigin (clearPending b0)).toRemove := by
  rcases rec.plainO p hp with hpr | hpr <;> rcases rec.plainT n hn with hnr | hnr
  · left; rw [hpr, hnr]
  · -- voter -> learner
    cases hd : b0.allowDemote
    · right; right; right
      exact diff_remove_complete b0 rec p hp (Or.inr ⟨hd, hpr, n, hn, hs, hnr⟩)
    · right; right; left
      exact (diff_demote_iff b0 rec _).2 ⟨hd, p, hp, hpr, ⟨n, hn, hs, hnr⟩, rfl⟩
  · right; left
    exact (diff_promote_iff b0 rec _).2 ⟨p, hp, hpr, finV_iff.2 ⟨n, hn, hs, hnr⟩, rfl⟩
  · left; rw [hpr, hnr]

end

/-- everything `build_single_change_safe` needs to know about the state `prepareBuild` returns -/
structure Prepared (b0 b1 : B) (nid : Nat) : Prop where
  keeps     : Keeps b0 b1
  steps     : b1.steps = []
  cur       : b1.cur = ⟨b0.originPeers, b0.originLeader⟩
  toRemove  : b1.toRemove = (diffOrigin (clearPending b0)).toRemove
  toPromote : b1.toPromote = (diffOrigin (clearPending b0)).toPromote
  toDemote  : b1.toDemote = (diffOrigin (clearPending b0)).toDemote
  toAdd     : allocIds ((pmSorted b0.targetPeers).filter (needAdd (diffOrigin (clearPending b0)))) nid = .ok b1.toAdd
  leader    : b1.targetLeader = reqLeader b0

theorem prepared_of (b0 b1 : B) (nid : Nat) (rec : Recorded b0) (h : prepareBuild b0 nid = .ok b1) :
    Prepared b0 b1 nid := by
  obtain ⟨k, hs, hcur, hR, hP, hD, hA, _, _, htl⟩ := prepareBuild_spec b0 b1 nid h
  exact ⟨k, by rw [hs, rec.noSteps], hcur, hR, hP, hD, hA, htl⟩

theorem reqLeader_voter (b0 : B) (rec : Recorded b0) :
    reqLeader b0 = 0 ∨ ∃ n ∈ b0.targetPeers, n.store = reqLeader b0 ∧ n.role = .voter := by
  unfold reqLeader
  cases hg : pmGet b0.targetPeers b0.targetLeader with
  | none => left; rfl
  | some p =>
    cases hl : isLearner p
    · right
      simp only [hl, Bool.false_eq_true, if_false]
      refine ⟨p, (pmGet_some hg).1, (pmGet_some hg).2, ?_⟩
      rcases rec.plainT p (pmGet_some hg).1 with e | e
      · exact e
      · simp [isLearner, e] at hl
    · left; simp [hl]

theorem sinv_start (b0 b1 : B) (nid : Nat) (rec : Recorded b0) (hp : Prepared b0 b1 nid) :
    SInv ⟨b0.originPeers, b0.originLeader⟩
      (minVoters ⟨b0.originPeers, b0.originLeader⟩ (targetOfPeers b0.targetPeers (reqLeader b0))) b1 := by
  refine ⟨by rw [hp.steps]; trivial, by rw [hp.steps, hp.cur]; rfl, by rw [hp.cur]; exact rec.nodupO,
    by rw [hp.cur]; exact rec.plainO, by rw [hp.cur]; exact rec.leader, ?_⟩
  rw [hp.cur]
  have : voterCount ⟨b0.originPeers, b0.originLeader⟩ = votersOf b0.originPeers := plain_voterCount rec.plainO _
  unfold minVoters
  rw [this]
  exact Nat.min_le_left _ _

section
variable (b0 b1 : B) (nid : Nat) (rec : Recorded b0) (hp : Prepared b0 b1 nid)
include rec hp

/-- an origin peer that is not pending is requested as it is -/
theorem settled_sound (p : Peer) (hpO : p ∈ b0.originPeers) (hR : p ∉ b1.toRemove)
    (hP : (⟨p.store, p.id, .voter⟩ : Peer) ∉ b1.toPromote) (hD : (⟨p.store, p.id, .learner⟩ : Peer) ∉ b1.toDemote) :
    ∃ n ∈ b0.targetPeers, n.store = p.store ∧ n.role = p.role := by
  rw [hp.toRemove] at hR; rw [hp.toPromote] at hP; rw [hp.toDemote] at hD
  by_cases hT : p.store ∈ stores b0.targetPeers
  · obtain ⟨n, hn, hns⟩ := mem_stores.1 hT
    rcases roles_agree b0 rec p n hpO hn hns with e | e | e | e
    · exact ⟨n, hn, hns, e.symm⟩
    · exact absurd e hP
    · exact absurd e hD
    · exact absurd e hR
  · exact absurd (origin_not_requested b0 rec p hpO hT) hR

/-- a requested peer whose store is not to be added has an origin peer on its store -/
theorem settled_complete (n : Peer) (hn : n ∈ b0.targetPeers) (hA : ∀ a ∈ b1.toAdd, a.store ≠ n.store) :
    ∃ p ∈ b0.originPeers, p.store = n.store := by
  by_cases hO : n.store ∈ stores b0.originPeers
  · obtain ⟨p, hpO, e⟩ := mem_stores.1 hO; exact ⟨p, hpO, e⟩
  · exfalso
    obtain ⟨_, _, h3⟩ := diff_add b0 rec nid b1.toAdd hp.toAdd
    obtain ⟨a, ha, e, _⟩ := h3 n hn ((needAdd_iff b0 rec n).2 (Or.inl hO))
    exact hA a ha e

/-- nothing pending: the origin is the target -/
theorem matches_none (hA : b1.toAdd = []) (hR : b1.toRemove = []) (hP : b1.toPromote = []) (hD : b1.toDemote = []) :
    Matches b0.originPeers b0.targetPeers := by
  constructor
  · intro q hq
    exact settled_sound b0 b1 nid rec hp q hq (by simp [hR]) (by simp [hP]) (by simp [hD])
  · intro n hn
    obtain ⟨p, hpO, e⟩ := settled_complete b0 b1 nid rec hp n hn (by simp [hA])
    obtain ⟨n', hn', e1, e2⟩ := settled_sound b0 b1 nid rec hp p hpO (by simp [hR]) (by simp [hP]) (by simp [hD])
    have : n' = n := by
      have h1 := pmGet_of_mem rec.nodupT hn'
      have h2 := pmGet_of_mem rec.nodupT hn
      rw [e1, e, h2] at h1; cases h1; rfl
    subst this
    exact ⟨p, hpO, e, e2.symm⟩

end

theorem voters_le_of_sound {cur T : List Peer} (hn : (stores cur).Nodup)
    (h : ∀ q ∈ cur, ∃ n ∈ T, n.store = q.store ∧ n.role = q.role) : votersOf cur ≤ votersOf T := by
  simp only [votersOf, List.countP_eq_length_filter]
  have e1 : (cur.filter (fun p => p.role == .voter)).length = (stores (cur.filter (fun p => p.role == .voter))).length := by
    simp [stores]
  have e2 : (T.filter (fun p => p.role == .voter)).length = (stores (T.filter (fun p => p.role == .voter))).length := by
    simp [stores]
  rw [e1, e2]
  apply List.Nodup.length_le_of_subset
  · exact List.Nodup.sublist (List.Sublist.map _ List.filter_sublist) hn
  · intro s hs
    obtain ⟨q, hq, rfl⟩ := mem_stores.1 hs
    simp only [List.mem_filter, beq_iff_eq] at hq
    obtain ⟨n, hn', e1, e2⟩ := h q hq.1
    exact mem_stores.2 ⟨n, List.mem_filter.2 ⟨hn', by simp [e2, hq.2]⟩, e1⟩

theorem matches_voters {cur T : List Peer} (hM : Matches cur T) (hn : (stores cur).Nodup) (hnT : (stores T).Nodup) :
    votersOf cur = votersOf T :=
  Nat.le_antisymm (voters_le_of_sound hn hM.sound) (voters_le_of_sound hnT hM.complete)

theorem execPlan_keeps (b : B) (plan : Plan) :
    (execPlan b plan).targetPeers = b.targetPeers ∧ (execPlan b plan).targetLeader = b.targetLeader := by
  unfold execPlan
  constructor <;>
  · simp only
    repeat' split
    all_goals simp [execTransferLeader, execAddPeer, execPromoteLearner, execDemoteFollower, execRemovePeer]

/-- the result of one round of the loop, as far as the end of the build needs it -/
structure RoundOk (b0 : B) (b' : B) : Prop where
  inv : SInv ⟨b0.originPeers, b0.originLeader⟩
          (minVoters ⟨b0.originPeers, b0.originLeader⟩ (targetOfPeers b0.targetPeers (reqLeader b0))) b'
  matches_ : Matches b'.cur.peers b0.targetPeers

theorem peerPlan_of_empty_replace (b : B) (h : planReplace b = {}) :
    peerPlan b =
      (if !(planPromotePeer b).isEmpty then planPromotePeer b
       else if !(planDemotePeer b).isEmpty then planDemotePeer b
       else if !(planRemovePeer b).isEmpty then planRemovePeer b
       else if !(planAddPeer b).isEmpty then planAddPeer b else {}) := by
  unfold peerPlan
  simp only [h]
  rfl

section
variable (b0 b1 : B) (nid : Nat) (rec : Recorded b0) (hp : Prepared b0 b1 nid)
include rec hp

/-- exactly one learner is to be promoted -/
theorem round_promote (n0 : Peer) (hA : b1.toAdd = []) (hR : b1.toRemove = []) (hP : b1.toPromote = [n0])
    (hD : b1.toDemote = []) : RoundOk b0 (execPlan b1 (peerPlan b1)) := by
  have hplan : peerPlan b1 = { promote := some n0 } := by
    rw [peerPlan_of_empty_replace b1 (planReplace_empty b1 (Or.inl hD) (Or.inl hA))]
    simp [planPromotePeer, hP, pmSorted_single, Plan.isEmpty]
  rw [hplan]
  have hexec : execPlan b1 { promote := some n0 } = execPromoteLearner b1 n0 := by
    simp [execPlan]
  rw [hexec]
  -- who n0 is
  have hmem : n0 ∈ (diffOrigin (clearPending b0)).toPromote := by rw [← hp.toPromote, hP]; simp
  obtain ⟨o, ho, hol, hof, rfl⟩ := (diff_promote_iff b0 rec n0).1 hmem
  have h0 := sinv_start b0 b1 nid rec hp
  have hcurp : b1.cur.peers = b0.originPeers := by rw [hp.cur]
  have hv : votersOf b0.originPeers ≤ votersOf (setRole b1.cur.peers o.store .voter) := by
    rw [hcurp]; exact votersOf_setRole_voter _ _
  obtain ⟨hs, hset⟩ := sinv_setRole h0 ⟨o.store, o.id, .voter⟩ (.promoteLearner o.store o.id)
    (Or.inl ⟨rfl, rfl⟩) ⟨o, by rw [hcurp]; exact ho, rfl, rfl⟩
    (Nat.le_trans h0.voters (by rw [hcurp] at hv ⊢; exact hv))
  refine ⟨sinv_congr hs rfl rfl, ?_⟩
  show Matches (pmSet b1.cur.peers ⟨o.store, o.id, .voter⟩) b0.targetPeers
  rw [hset, hcurp]
  obtain ⟨nv, hnv, hnvs, hnvr⟩ := finV_iff.1 hof
  constructor
  · intro q hq
    obtain ⟨p, hpO, rfl⟩ := mem_setRole hq
    by_cases e : p.store = o.store
    · have eb : (p.store == o.store) = true := by simpa using e
      simp only [eb, if_true]
      exact ⟨nv, hnv, hnvs.trans e.symm, hnvr⟩
    · have : (p.store == o.store) = false := by simpa using e
      simp only [this, Bool.false_eq_true, if_false]
      apply settled_sound b0 b1 nid rec hp p hpO (by simp [hR]) ?_ (by simp [hD])
      rw [hP]; simp only [List.mem_singleton, Peer.mk.injEq, not_and]; intro e'; exact absurd e' e
  · intro n hn
    obtain ⟨p, hpO, e⟩ := settled_complete b0 b1 nid rec hp n hn (by simp [hA])
    refine ⟨if p.store == o.store then { p with role := Role.voter } else p, ?_, ?_, ?_⟩
    · unfold setRole; exact List.mem_map.2 ⟨p, hpO, rfl⟩
    · split <;> exact e
    · by_cases es : p.store = o.store
      · simp only [es, beq_self_eq_true, if_true]
        have : n = nv := by
          have h1 := pmGet_of_mem rec.nodupT hn
          have h2 := pmGet_of_mem rec.nodupT hnv
          rw [← e, es, ← hnvs, h2] at h1; cases h1; rfl
        rw [this, hnvr]
      · have : (p.store == o.store) = false := by simpa using es
        simp only [this, Bool.false_eq_true, if_false]
        obtain ⟨n', hn', e1, e2⟩ := settled_sound b0 b1 nid rec hp p hpO (by simp [hR])
          (by rw [hP]; simp only [List.mem_singleton, Peer.mk.injEq, not_and]; intro e'; exact absurd e' es) (by simp [hD])
        have : n' = n := by
          have h1 := pmGet_of_mem rec.nodupT hn'
          have h2 := pmGet_of_mem rec.nodupT hn
          rw [e1, e, h2] at h1; cases h1; rfl
        rw [← this, e2]

theorem leaderCand_start {L : Nat} (h : LeaderCand b1 L) :
    ∃ p ∈ b0.originPeers, p.store = L ∧ p.role = .voter := by
  have := leaderCand_voter (b := b1) (by rw [hp.cur]; exact rec.plainO) h
  rw [hp.cur] at this; exact this

/-- exactly one peer is to be added -/
theorem round_add (a : Peer) (hA : b1.toAdd = [a]) (hR : b1.toRemove = []) (hP : b1.toPromote = [])
    (hD : b1.toDemote = []) (hne : (peerPlan b1).isEmpty = false) : RoundOk b0 (execPlan b1 (peerPlan b1)) := by
  have hplan : peerPlan b1 = planAddPeer b1 := by
    have hpp : peerPlan b1 = (if !(planAddPeer b1).isEmpty then planAddPeer b1 else {}) := by
      rw [peerPlan_of_empty_replace b1 (planReplace_empty b1 (Or.inl hD) (Or.inr hR))]
      have e1 : planPromotePeer b1 = {} := by simp [planPromotePeer, hP, pmSorted_nil]
      have e2 : planDemotePeer b1 = {} := by simp [planDemotePeer, hD, pmSorted_nil]
      have e3 : planRemovePeer b1 = {} := by simp [planRemovePeer, hR, pmSorted_nil]
      rw [e1, e2, e3]
      have he : (({} : Plan).isEmpty) = true := rfl
      simp only [he, Bool.not_true, Bool.false_eq_true, if_false]
    cases hq : (planAddPeer b1).isEmpty
    · rw [hpp, hq]; rfl
    · rw [hpp, hq] at hne; cases hne
  rw [hplan] at hne ⊢
  rcases planAddPeer_spec b1 with e | ⟨a', ha', L, hL, e⟩
  · rw [e] at hne; cases hne
  rw [hA, pmSorted_single] at ha'
  simp only [List.mem_singleton] at ha'
  subst ha'
  rw [e]
  -- facts about a
  obtain ⟨_, hadd, _⟩ := diff_add b0 rec nid b1.toAdd hp.toAdd
  obtain ⟨na, hna, hnas, hnar, hneed⟩ := hadd a' (by rw [hA]; simp)
  have hfresh : a'.store ∉ stores b0.originPeers := by
    rcases (needAdd_iff b0 rec na).1 hneed with h | ⟨hd, hl, o, ho, hos, hor⟩
    · rw [← hnas]; exact h
    · exfalso
      have := diff_remove_complete b0 rec o ho (Or.inr ⟨hd, hor, na, hna, hos.symm, hl⟩)
      rw [← hp.toRemove, hR] at this; cases this
  have harole : a'.role = .voter ∨ a'.role = .learner := by rw [← hnar]; exact rec.plainT na hna
  have h0 := sinv_start b0 b1 nid rec hp
  obtain ⟨pL, hpL, hpLs, hpLr⟩ := leaderCand_start b0 b1 nid rec hp hL
  have hcurp : b1.cur.peers = b0.originPeers := by rw [hp.cur]
  -- the optional transfer
  have hstep1 : ∃ bT : B, SInv ⟨b0.originPeers, b0.originLeader⟩
      (minVoters ⟨b0.originPeers, b0.originLeader⟩ (targetOfPeers b0.targetPeers (reqLeader b0))) bT ∧
      bT.cur.peers = b0.originPeers ∧
      execPlan b1 { add := some a', leaderBeforeAdd := L } = { execAddPeer bT a' with kindRegion := true } := by
    by_cases hc : (L != 0 && L != b1.cur.leader) = true
    · obtain ⟨t1, t2⟩ := sinv_transfer h0 L ⟨pL, by rw [hcurp]; exact hpL, hpLs, hpLr⟩
      refine ⟨{ execTransferLeader b1 L with kindLeader := true }, sinv_congr t1 rfl rfl, ?_, ?_⟩
      · show (execTransferLeader b1 L).cur.peers = _; rw [t2, hcurp]
      · simp [execPlan, hc]
    · refine ⟨b1, h0, hcurp, ?_⟩
      simp [execPlan, hc]
  obtain ⟨bT, hT, hTp, hex⟩ := hstep1
  rw [hex]
  obtain ⟨s1, s2⟩ := sinv_add hT a' (by rw [hTp]; exact hfresh) harole
  refine ⟨sinv_congr s1 rfl rfl, ?_⟩
  show Matches (execAddPeer bT a').cur.peers b0.targetPeers
  rw [s2, hTp]
  constructor
  · intro q hq
    rcases List.mem_append.1 hq with hq | hq
    · exact settled_sound b0 b1 nid rec hp q hq (by simp [hR]) (by simp [hP]) (by simp [hD])
    · simp only [List.mem_singleton] at hq; subst hq
      exact ⟨na, hna, hnas, hnar⟩
  · intro n hn
    by_cases es : n.store = a'.store
    · refine ⟨a', List.mem_append.2 (Or.inr (List.mem_singleton.2 rfl)), es.symm, ?_⟩
      have : n = na := by
        have h1 := pmGet_of_mem rec.nodupT hn
        have h2 := pmGet_of_mem rec.nodupT hna
        rw [es, ← hnas, h2] at h1; cases h1; rfl
      rw [this, hnar]
    · obtain ⟨p, hpO, e'⟩ := settled_complete b0 b1 nid rec hp n hn
        (by rw [hA]; intro x hx; simp only [List.mem_singleton] at hx; subst hx; exact Ne.symm es)
      obtain ⟨n', hn', e1, e2⟩ := settled_sound b0 b1 nid rec hp p hpO (by simp [hR]) (by simp [hP]) (by simp [hD])
      have : n' = n := by
        have h1 := pmGet_of_mem rec.nodupT hn'
        have h2 := pmGet_of_mem rec.nodupT hn
        rw [e1, e', h2] at h1; cases h1; rfl
      exact ⟨p, List.mem_append.2 (Or.inl hpO), e', by rw [← this, e2]⟩

theorem min_le_target :
    minVoters ⟨b0.originPeers, b0.originLeader⟩ (targetOfPeers b0.targetPeers (reqLeader b0)) ≤ votersOf b0.targetPeers := by
  unfold minVoters
  have : targetVoters (targetOfPeers b0.targetPeers (reqLeader b0)) = votersOf b0.targetPeers := by
    simp only [targetVoters, targetOfPeers, votersOf, List.countP_map]
    apply List.countP_congr
    intro p hp'
    rcases rec.plainT p hp' with e | e <;> simp [e]
  rw [this]; exact Nat.min_le_right _ _

/-- the transfer to `leaderBeforeRemove`, if the plan asks for one -/
theorem transfer_before_remove (L s : Nat) (hL : LeaderCand b1 L) (hLs : L ≠ s) :
    ∃ bT : B, SInv ⟨b0.originPeers, b0.originLeader⟩
      (minVoters ⟨b0.originPeers, b0.originLeader⟩ (targetOfPeers b0.targetPeers (reqLeader b0))) bT ∧
      bT.cur.peers = b0.originPeers ∧ bT.cur.leader ≠ s ∧
      bT = (if L != 0 && L != b1.cur.leader then { execTransferLeader b1 L with kindLeader := true } else b1) := by
  have h0 := sinv_start b0 b1 nid rec hp
  obtain ⟨pL, hpL, hpLs, hpLr⟩ := leaderCand_start b0 b1 nid rec hp hL
  have hcurp : b1.cur.peers = b0.originPeers := by rw [hp.cur]
  by_cases hc : (L != 0 && L != b1.cur.leader) = true
  · obtain ⟨t1, t2⟩ := sinv_transfer h0 L ⟨pL, by rw [hcurp]; exact hpL, hpLs, hpLr⟩
    refine ⟨{ execTransferLeader b1 L with kindLeader := true }, sinv_congr t1 rfl rfl, ?_, ?_, by simp [hc]⟩
    · show (execTransferLeader b1 L).cur.peers = _; rw [t2, hcurp]
    · show (execTransferLeader b1 L).cur.leader ≠ s; rw [t2]; exact hLs
  · refine ⟨b1, h0, hcurp, ?_, by simp [hc]⟩
    have hL0 : L ≠ 0 := by rw [← hpLs]; exact rec.store0 pL hpL
    simp only [Bool.and_eq_true, bne_iff_ne, ne_eq, not_and, Classical.not_not] at hc
    rw [← hc hL0]; exact hLs

/-- exactly one peer is to be removed -/
theorem round_remove (x : Peer) (hA : b1.toAdd = []) (hR : b1.toRemove = [x]) (hP : b1.toPromote = [])
    (hD : b1.toDemote = []) (hne : (peerPlan b1).isEmpty = false) : RoundOk b0 (execPlan b1 (peerPlan b1)) := by
  have hplan : peerPlan b1 = planRemovePeer b1 := by
    have hpp : peerPlan b1 = (if !(planRemovePeer b1).isEmpty then planRemovePeer b1 else {}) := by
      rw [peerPlan_of_empty_replace b1 (planReplace_empty b1 (Or.inl hD) (Or.inl hA))]
      have e1 : planPromotePeer b1 = {} := by simp [planPromotePeer, hP, pmSorted_nil]
      have e2 : planDemotePeer b1 = {} := by simp [planDemotePeer, hD, pmSorted_nil]
      have e3 : planAddPeer b1 = {} := by simp [planAddPeer, hA, pmSorted_nil]
      rw [e1, e2, e3]
      have he : (({} : Plan).isEmpty) = true := rfl
      simp only [he, Bool.not_true, Bool.false_eq_true, if_false]
    cases hq : (planRemovePeer b1).isEmpty
    · rw [hpp, hq]; rfl
    · rw [hpp, hq] at hne; cases hne
  rw [hplan] at hne ⊢
  rcases planRemovePeer_spec b1 with e | ⟨x', hx', L, hL, hLs, e⟩
  · rw [e] at hne; cases hne
  rw [hR, pmSorted_single] at hx'
  simp only [List.mem_singleton] at hx'
  subst hx'
  rw [e]
  -- facts about x
  obtain ⟨hxO, hxT⟩ := diff_remove_sound b0 rec x' (by rw [← hp.toRemove, hR]; simp)
  have hxT' : x'.store ∉ stores b0.targetPeers := by
    rcases hxT with h | ⟨hd, hv, n, hn, hns, hnr⟩
    · exact h
    · exfalso
      obtain ⟨_, _, h3⟩ := diff_add b0 rec nid b1.toAdd hp.toAdd
      obtain ⟨a, ha, _⟩ := h3 n hn ((needAdd_iff b0 rec n).2 (Or.inr ⟨hd, hnr, x', hxO, hns.symm, hv⟩))
      rw [hA] at ha; cases ha
  obtain ⟨bT, hT, hTp, hTl, hTe⟩ := transfer_before_remove b0 b1 nid rec hp L x'.store hL hLs
  have hex : execPlan b1 { remove := some x', leaderBeforeRemove := L } = { execRemovePeer bT x' with kindRegion := true } := by
    rw [hTe]; simp [execPlan]
  rw [hex]
  -- the result matches the target
  have hM : Matches (b0.originPeers.filter (fun p => p.store != x'.store)) b0.targetPeers := by
    constructor
    · intro q hq
      obtain ⟨hq1, hq2⟩ := List.mem_filter.1 hq
      apply settled_sound b0 b1 nid rec hp q hq1 ?_ (by simp [hP]) (by simp [hD])
      rw [hR]; simp only [List.mem_singleton]; intro e'; subst e'; simp at hq2
    · intro n hn
      obtain ⟨p, hpO, e'⟩ := settled_complete b0 b1 nid rec hp n hn (by simp [hA])
      have hpx : p.store ≠ x'.store := fun e2 => hxT' (e2 ▸ e' ▸ mem_stores.2 ⟨n, hn, rfl⟩)
      obtain ⟨n', hn', e1, e2⟩ := settled_sound b0 b1 nid rec hp p hpO
        (by rw [hR]; simp only [List.mem_singleton]; intro e3; exact hpx (e3 ▸ rfl)) (by simp [hP]) (by simp [hD])
      have : n' = n := by
        have h1 := pmGet_of_mem rec.nodupT hn'
        have h2 := pmGet_of_mem rec.nodupT hn
        rw [e1, e', h2] at h1; cases h1; rfl
      exact ⟨p, List.mem_filter.2 ⟨hpO, by simpa using hpx⟩, e', by rw [← this, e2]⟩
  have hnf : (stores (b0.originPeers.filter (fun p => p.store != x'.store))).Nodup :=
    List.Nodup.sublist (List.Sublist.map _ List.filter_sublist) rec.nodupO
  obtain ⟨s1, s2⟩ := sinv_remove hT x' (Ne.symm hTl)
    (by rw [hTp, matches_voters hM hnf rec.nodupT]; exact min_le_target b0 b1 nid rec hp)
  refine ⟨sinv_congr s1 rfl rfl, ?_⟩
  show Matches (execRemovePeer bT x').cur.peers b0.targetPeers
  rw [s2, hTp]; exact hM

/-- exactly one voter is to be demoted in place -/
theorem round_demote (d : Peer) (hids : (b0.originPeers.map (·.id)).Nodup) (hA : b1.toAdd = []) (hR : b1.toRemove = [])
    (hP : b1.toPromote = []) (hD : b1.toDemote = [d]) (hne : (peerPlan b1).isEmpty = false) :
    RoundOk b0 (execPlan b1 (peerPlan b1)) := by
  have hplan : peerPlan b1 = planDemotePeer b1 := by
    have hpp : peerPlan b1 = (if !(planDemotePeer b1).isEmpty then planDemotePeer b1 else {}) := by
      rw [peerPlan_of_empty_replace b1 (planReplace_empty b1 (Or.inr hP) (Or.inl hA))]
      have e1 : planPromotePeer b1 = {} := by simp [planPromotePeer, hP, pmSorted_nil]
      have e2 : planRemovePeer b1 = {} := by simp [planRemovePeer, hR, pmSorted_nil]
      have e3 : planAddPeer b1 = {} := by simp [planAddPeer, hA, pmSorted_nil]
      rw [e1, e2, e3]
      have he : (({} : Plan).isEmpty) = true := rfl
      simp only [he, Bool.not_true, Bool.false_eq_true, if_false]
    cases hq : (planDemotePeer b1).isEmpty
    · rw [hpp, hq]; rfl
    · rw [hpp, hq] at hne; cases hne
  rw [hplan] at hne ⊢
  rcases planDemotePeer_spec b1 with e | ⟨d', hd', L, hL, hLs, e⟩
  · rw [e] at hne; cases hne
  rw [hD, pmSorted_single] at hd'
  simp only [List.mem_singleton] at hd'
  subst hd'
  rw [e]
  obtain ⟨_, o, ho, hov, ⟨nl, hnl, hnls, hnlr⟩, rfl⟩ := (diff_demote_iff b0 rec d').1 (by rw [← hp.toDemote, hD]; simp)
  obtain ⟨bT, hT, hTp, hTl, hTe⟩ := transfer_before_remove b0 b1 nid rec hp L o.store hL hLs
  have hex : execPlan b1 { demote := some ⟨o.store, o.id, .learner⟩, leaderBeforeRemove := L } =
      execDemoteFollower bT ⟨o.store, o.id, .learner⟩ := by
    rw [hTe]; simp [execPlan]
  rw [hex]
  have hM : Matches (setRole b0.originPeers o.store .learner) b0.targetPeers := by
    constructor
    · intro q hq
      obtain ⟨p, hpO, rfl⟩ := mem_setRole hq
      by_cases es : p.store = o.store
      · have eb : (p.store == o.store) = true := by simpa using es
        simp only [eb, if_true]
        exact ⟨nl, hnl, hnls.trans es.symm, hnlr⟩
      · have : (p.store == o.store) = false := by simpa using es
        simp only [this, Bool.false_eq_true, if_false]
        apply settled_sound b0 b1 nid rec hp p hpO (by simp [hR]) (by simp [hP])
        rw [hD]; simp only [List.mem_singleton, Peer.mk.injEq, not_and]; intro e'; exact absurd e' es
    · intro n hn
      obtain ⟨p, hpO, e'⟩ := settled_complete b0 b1 nid rec hp n hn (by simp [hA])
      refine ⟨if p.store == o.store then { p with role := Role.learner } else p, ?_, ?_, ?_⟩
      · unfold setRole; exact List.mem_map.2 ⟨p, hpO, rfl⟩
      · split <;> exact e'
      · by_cases es : p.store = o.store
        · have eb : (p.store == o.store) = true := by simpa using es
          simp only [eb, if_true]
          have : n = nl := by
            have h1 := pmGet_of_mem rec.nodupT hn
            have h2 := pmGet_of_mem rec.nodupT hnl
            rw [← e', es, ← hnls, h2] at h1; cases h1; rfl
          rw [this, hnlr]
        · have : (p.store == o.store) = false := by simpa using es
          simp only [this, Bool.false_eq_true, if_false]
          obtain ⟨n', hn', e1, e2⟩ := settled_sound b0 b1 nid rec hp p hpO (by simp [hR]) (by simp [hP])
            (by rw [hD]; simp only [List.mem_singleton, Peer.mk.injEq, not_and]; intro e3; exact absurd e3 es)
          have : n' = n := by
            have h1 := pmGet_of_mem rec.nodupT hn'
            have h2 := pmGet_of_mem rec.nodupT hn
            rw [e1, e', h2] at h1; cases h1; rfl
          rw [← this, e2]
  have hnf : (stores (setRole b0.originPeers o.store .learner)).Nodup := by rw [stores_setRole]; exact rec.nodupO
  -- the leader's peer id differs from the demoted peer's id
  obtain ⟨pl, hpl, hpls, hplr⟩ := hT.leader
  have hlid : o.id ≠ leaderPeerId bT.cur := by
    have hg : storePeer bT.cur bT.cur.leader = some pl := by
      rw [storePeer_eq_pmGet, ← hpls]; exact pmGet_of_mem hT.nodup hpl
    simp only [leaderPeerId, hg, idOf]
    intro eid
    rw [hTp] at hpl
    -- same id in a list with distinct ids: same peer
    have : o = pl := by
      have hinj : ∀ (l : List Peer), (l.map (·.id)).Nodup → ∀ a ∈ l, ∀ c ∈ l, a.id = c.id → a = c := by
        intro l
        induction l with
        | nil => intro _ a ha; cases ha
        | cons y ys ih =>
          intro hnd a ha c hc hac
          simp only [List.map_cons, List.nodup_cons] at hnd
          rcases List.mem_cons.1 ha with rfl | ha' <;> rcases List.mem_cons.1 hc with rfl | hc'
          · rfl
          · exact absurd (List.mem_map.2 ⟨c, hc', hac.symm⟩) hnd.1
          · exact absurd (List.mem_map.2 ⟨a, ha', hac⟩) hnd.1
          · exact ih hnd.2 a ha' c hc' hac
      exact hinj _ hids o ho pl hpl eid
    exact hTl (by rw [← hpls, ← this])
  obtain ⟨s1, s2⟩ := sinv_setRole hT ⟨o.store, o.id, .learner⟩ (.demoteFollower o.store o.id)
    (Or.inr ⟨rfl, rfl, Ne.symm hTl, hlid⟩) ⟨o, by rw [hTp]; exact ho, rfl, rfl⟩
    (by rw [hTp, matches_voters hM hnf rec.nodupT]; exact min_le_target b0 b1 nid rec hp)
  refine ⟨sinv_congr s1 rfl rfl, ?_⟩
  show Matches (pmSet bT.cur.peers ⟨o.store, o.id, .learner⟩) b0.targetPeers
  rw [s2, hTp]; exact hM

end

end PdModel.Builder
