import PdModel.Lemmas.RegionTreeList
set_option linter.unusedSimpArgs false
set_option linter.unusedVariables false
/-!
regionTree operations (`update`, `remove`, `updateStat`) on trees that are "a filter of a universe":
`TreeIs acc t U P` says that the tree holds exactly the items of the ordered list `U` that pass `P`, with the
matching total size.  Plus association-list facts.
-/
namespace PdModel.RegionTree
open PdModel.Spec.C07 (WFRange WF Overlap)

/-! ### association lists -/

theorem mapGet_mapSet {β : Type} (m : List (Nat × β)) (k k' : Nat) (v : β) :
    mapGet (mapSet m k v) k' = if k' = k then some v else mapGet m k' := by
  induction m with
  | nil => simp only [mapSet, mapGet]; split <;> simp_all [eq_comm]
  | cons e m ih =>
    obtain ⟨k0, v0⟩ := e
    simp only [mapSet]
    by_cases h : k0 = k
    · subst h
      simp only [if_true, mapGet]
      by_cases h2 : k0 = k' <;> simp [h2, eq_comm]
      intro h3; exact absurd h3.symm h2
    · simp only [h, if_false, mapGet]
      by_cases h2 : k0 = k'
      · subst h2; simp [h]
      · simp only [h2, if_false]; exact ih

theorem mapGet_mapDel {β : Type} (m : List (Nat × β)) (k k' : Nat) :
    mapGet (mapDel m k) k' = if k' = k then none else mapGet m k' := by
  induction m with
  | nil => simp [mapDel, mapGet]
  | cons e m ih =>
    obtain ⟨k0, v0⟩ := e
    unfold mapDel at ih ⊢
    simp only [List.filter_cons]
    by_cases h : k0 = k
    · subst h
      simp only [ne_eq, not_true_eq_false, decide_false, Bool.false_eq_true, if_false, mapGet]
      rw [ih]
      by_cases h2 : k' = k0
      · simp [h2]
      · simp [h2]; intro h3; exact absurd h3.symm h2
    · simp only [ne_eq, h, not_false_eq_true, decide_true, if_true, mapGet]
      by_cases h2 : k0 = k'
      · subst h2; simp [h]
      · simp only [h2, if_false]; exact ih

theorem mapGet_mem {β : Type} {m : List (Nat × β)} {k : Nat} {v : β} (h : mapGet m k = some v) : (k, v) ∈ m := by
  induction m with
  | nil => simp [mapGet] at h
  | cons e m ih =>
    obtain ⟨k0, v0⟩ := e
    simp only [mapGet] at h
    split at h
    · next hk => cases h; subst hk; simp
    · exact List.mem_cons_of_mem _ (ih h)

theorem mapGet_none_iff {β : Type} {m : List (Nat × β)} {k : Nat} : mapGet m k = none ↔ k ∉ m.map (·.1) := by
  induction m with
  | nil => simp [mapGet]
  | cons e m ih =>
    obtain ⟨k0, v0⟩ := e
    simp only [mapGet, List.map_cons, List.mem_cons]
    by_cases h : k0 = k
    · simp [h]
    · simp only [h, if_false, ih]
      constructor
      · intro h1 h2; rcases h2 with h2 | h2; exact h h2.symm; exact h1 h2
      · intro h1 h2; exact h1 (Or.inr h2)

theorem mapSet_keys {β : Type} (m : List (Nat × β)) (k : Nat) (v : β) :
    (mapSet m k v).map (·.1) = if k ∈ m.map (·.1) then m.map (·.1) else m.map (·.1) ++ [k] := by
  induction m with
  | nil => simp [mapSet]
  | cons e m ih =>
    obtain ⟨k0, v0⟩ := e
    simp only [mapSet]
    by_cases h : k0 = k
    · subst h; simp
    · simp only [h, if_false, List.map_cons, ih, List.mem_cons]
      have : ¬ k = k0 := fun e => h e.symm
      by_cases h2 : k ∈ m.map (·.1) <;> simp [h2, this]

theorem mapDel_keys {β : Type} (m : List (Nat × β)) (k : Nat) :
    (mapDel m k).map (·.1) = (m.map (·.1)).filter (· ≠ k) := by
  unfold mapDel
  rw [List.filter_map]
  rfl

/-! ### sums of sizes -/

/-- total approximate size of the items of a list -/
def sumOf (acc : Acc) (l : List Nat) : Int := (l.map (fun a => (acc a).size)).sum

theorem sumOf_nil (acc : Acc) : sumOf acc [] = 0 := rfl
theorem sumOf_cons (acc : Acc) (a : Nat) (l : List Nat) : sumOf acc (a :: l) = (acc a).size + sumOf acc l := by
  simp [sumOf]
theorem sumOf_append (acc : Acc) (l1 l2 : List Nat) : sumOf acc (l1 ++ l2) = sumOf acc l1 + sumOf acc l2 := by
  induction l1 with
  | nil => simp [sumOf]
  | cons a l1 ih => simp only [List.cons_append, sumOf_cons, ih]; omega

theorem sumOf_eq_spec (acc : Acc) (l : List Nat) : sumOf acc l = PdModel.Spec.C07.sumSize (l.map acc) := by
  simp [sumOf, PdModel.Spec.C07.sumSize, List.map_map, Function.comp_def]

theorem sumOf_congr {acc acc' : Acc} {l : List Nat} (h : ∀ a ∈ l, acc' a = acc a) : sumOf acc' l = sumOf acc l := by
  unfold sumOf
  congr 1
  apply List.map_congr_left
  intro a ha; rw [h a ha]

theorem sumOf_filter_ne (acc : Acc) {l : List Nat} (hn : l.Nodup) {x : Nat} (hx : x ∈ l) :
    sumOf acc (l.filter (fun a => a ≠ x)) = sumOf acc l - (acc x).size := by
  obtain ⟨l1, l2, rfl⟩ := List.append_of_mem hx
  have hn' := List.nodup_append.1 hn
  have h1 : l1.filter (fun a => decide (a ≠ x)) = l1 := by
    rw [List.filter_eq_self]; intro a ha
    simp only [ne_eq, decide_not, Bool.not_eq_eq_eq_not, Bool.not_true, decide_eq_false_iff_not]
    intro e; subst e; exact hn'.2.2 a ha a (by simp) rfl
  have h2 : l2.filter (fun a => decide (a ≠ x)) = l2 := by
    rw [List.filter_eq_self]; intro a ha
    simp only [ne_eq, decide_not, Bool.not_eq_eq_eq_not, Bool.not_true, decide_eq_false_iff_not]
    intro e; subst e; exact (List.nodup_cons.1 hn'.2.1).1 ha
  simp only [List.filter_append, List.filter_cons, h1, h2, ne_eq, not_true_eq_false, decide_false,
    Bool.false_eq_true, if_false, sumOf_append, sumOf_cons]
  omega

/-- changing the region of one member changes the sum by the size difference -/
theorem sumOf_update {acc acc' : Acc} {l : List Nat} (hn : l.Nodup) {x : Nat} (hx : x ∈ l)
    (h : ∀ a, a ≠ x → acc' a = acc a) : sumOf acc' l = sumOf acc l + (acc' x).size - (acc x).size := by
  obtain ⟨l1, l2, rfl⟩ := List.append_of_mem hx
  have hn' := List.nodup_append.1 hn
  have h1 : sumOf acc' l1 = sumOf acc l1 := sumOf_congr (fun a ha => h a (fun e => by
    subst e; exact hn'.2.2 a ha a (by simp) rfl))
  have h2 : sumOf acc' l2 = sumOf acc l2 := sumOf_congr (fun a ha => h a (fun e => by
    subst e; exact (List.nodup_cons.1 hn'.2.1).1 ha))
  simp only [sumOf_append, sumOf_cons, h1, h2]
  omega

theorem sumOf_insertItem (acc : Acc) {l : List Nat} (x : Nat)
    (hnew : ∀ b ∈ l, (acc b).startKey ≠ (acc x).startKey) :
    sumOf acc (insertItem acc l x) = sumOf acc l + (acc x).size := by
  have key : ∀ l : List Nat, (∀ b ∈ l, (acc b).startKey ≠ (acc x).startKey) →
      sumOf acc (l.filter (fun a => (acc a).startKey < (acc x).startKey)) +
      sumOf acc (l.filter (fun a => (acc x).startKey < (acc a).startKey)) = sumOf acc l := by
    intro l
    induction l with
    | nil => intro _; simp [sumOf]
    | cons a l ih =>
      intro hn
      have := ih (fun b hb => hn b (by simp [hb]))
      have hne := hn a (by simp)
      simp only [List.filter_cons]
      by_cases h1 : (acc a).startKey < (acc x).startKey
      · have h2 : ¬ (acc x).startKey < (acc a).startKey := by grind
        simp only [h1, h2, decide_true, decide_false, if_true, Bool.false_eq_true, if_false, sumOf_cons]; omega
      · have h2 : (acc x).startKey < (acc a).startKey := by grind
        simp only [h1, h2, decide_true, decide_false, if_true, Bool.false_eq_true, if_false, sumOf_cons]; omega
  unfold insertItem
  rw [sumOf_append, sumOf_cons]
  have := key l hnew
  omega

theorem sumOf_filter_split (acc : Acc) (l : List Nat) (p : Nat → Bool) :
    sumOf acc l = sumOf acc (l.filter p) + sumOf acc (l.filter (fun a => !p a)) := by
  induction l with
  | nil => simp [sumOf]
  | cons a l ih =>
    simp only [List.filter_cons, sumOf_cons]
    cases h : p a <;> simp [sumOf_cons, ih] <;> omega

/-! ### trees as filters of a universe -/

/-- distinct items of `U` hold regions with distinct ids -/
def IdInj (acc : Acc) (U : List Nat) : Prop := ∀ a ∈ U, ∀ b ∈ U, (acc a).id = (acc b).id → a = b

/-- the tree holds exactly the items of `U` that pass `P`, and its size counter is exact -/
def TreeIs (acc : Acc) (t : Tree) (U : List Nat) (P : Nat → Bool) : Prop :=
  t.items = U.filter P ∧ t.totalSize = sumOf acc (U.filter P)

theorem TreeIs.congr {acc : Acc} {t : Tree} {U : List Nat} {P Q : Nat → Bool} (h : TreeIs acc t U P)
    (hpq : ∀ a ∈ U, P a = Q a) : TreeIs acc t U Q := by
  have : U.filter P = U.filter Q := List.filter_congr hpq
  exact ⟨this ▸ h.1, this ▸ h.2⟩

theorem contains_start {r : Region} (h : WFRange r) : Contains r r.startKey := by
  unfold Contains WFRange at *; grind

theorem before_not_overlap {x y : Region} (h : Before x y) : ¬ Overlap x y ∧ ¬ Overlap y x := by
  unfold Before Overlap at *; grind

theorem deleteKey_eq_filter_ne {acc : Acc} {U M : List Nat} (hU : Asc acc U) (hM : M.Sublist U) {o : Nat}
    (ho : o ∈ U) : deleteKey acc M (acc o).startKey = M.filter (fun a => a ≠ o) := by
  unfold deleteKey
  apply List.filter_congr
  intro a ha
  have haU := hM.subset ha
  by_cases e : a = o
  · subst e; simp
  · have : (acc a).startKey ≠ (acc o).startKey := fun hk => e (hU.eq_of_key acc haU ho hk)
    simp [this, e]

/-- regionTree.remove of a member of the universe: the item leaves the tree iff it was in it -/
theorem Tree.remove_is {acc : Acc} {t : Tree} {U : List Nat} {P : Nat → Bool} (hU : Ordered acc U)
    (hinj : IdInj acc U) {x : Nat} (hx : x ∈ U) (ht : TreeIs acc t U P) :
    TreeIs acc (t.remove acc (acc x)) U (fun a => P a && decide (a ≠ x)) := by
  have hM : Ordered acc (U.filter P) := hU.filter acc P
  by_cases hPx : P x = true
  · have hxM : x ∈ U.filter P := List.mem_filter.2 ⟨hx, hPx⟩
    have hfind : find acc (U.filter P) (acc x).startKey = some x :=
      (find_eq_some_iff acc hM).2 ⟨hxM, contains_start (hU.2 x hx)⟩
    have hlen : ¬ (U.filter P).length = 0 := by
      intro h0; rw [List.length_eq_zero_iff] at h0; rw [h0] at hxM; cases hxM
    unfold Tree.remove
    rw [ht.1]
    simp only [hlen, if_false, hfind, ne_eq, not_true_eq_false, if_false]
    have hitems : deleteKey acc (U.filter P) (acc x).startKey = U.filter (fun a => P a && decide (a ≠ x)) := by
      rw [deleteKey_eq_filter_ne (hU.asc acc) List.filter_sublist hx, List.filter_filter]
      apply List.filter_congr; intro a _; simp [Bool.and_comm]
    refine ⟨hitems, ?_⟩
    simp only
    rw [← hitems, deleteKey_eq_filter_ne (hU.asc acc) List.filter_sublist hx,
      sumOf_filter_ne acc ((hM.asc acc).nodup acc) hxM, ht.2]
  · have hsame : t.remove acc (acc x) = t := by
      unfold Tree.remove
      split
      · rfl
      · rw [ht.1]
        split
        · rfl
        · next a ha =>
          have haM := ((find_eq_some_iff acc hM).1 ha).1
          have haU := (List.mem_filter.1 haM).1
          have hne : a ≠ x := fun e => hPx (e ▸ (List.mem_filter.1 haM).2)
          have : (acc a).id ≠ (acc x).id := fun e => hne (hinj a haU x hx e)
          simp [this]
    rw [hsame]
    apply ht.congr
    intro a ha
    by_cases e : a = x
    · subst e; simp [hPx]
    · simp [e]

/-- regionTree.update of a member of the (ordered) universe that is not in the tree yet -/
theorem Tree.update_is {acc : Acc} {t : Tree} {V : List Nat} {Q : Nat → Bool} (hV : Ordered acc V)
    {x : Nat} (hx : x ∈ V) (ht : TreeIs acc t V Q) (hQx : Q x = false) :
    TreeIs acc (t.update acc x).1 V (fun a => Q a || decide (a = x)) ∧ (t.update acc x).2 = [] := by
  have hM : Ordered acc (V.filter Q) := hV.filter acc Q
  have hov : overlapsOf acc (V.filter Q) (acc x) = [] := by
    rw [overlapsOf_eq_filter acc hM, List.filter_eq_nil_iff]
    intro a ha
    obtain ⟨haV, hQa⟩ := List.mem_filter.1 ha
    have hne : a ≠ x := fun e => by rw [e, hQx] at hQa; cases hQa
    simp only [decide_eq_true_eq]
    rcases hV.tri acc haV hx with e | hb | hb
    · exact absurd e hne
    · exact (before_not_overlap hb).1
    · exact (before_not_overlap hb).2
  have hnew : ∀ b ∈ V.filter Q, (acc b).startKey ≠ (acc x).startKey := by
    intro b hb hk
    obtain ⟨hbV, hQb⟩ := List.mem_filter.1 hb
    have := (hV.asc acc).eq_of_key acc hbV hx hk
    rw [this, hQx] at hQb; cases hQb
  have hitems : insertItem acc (V.filter Q) x = V.filter (fun a => Q a || decide (a = x)) := by
    apply Asc.ext acc (((hV.asc acc).filter acc Q).insertItem acc x) ((hV.asc acc).filter acc _)
    intro a
    rw [mem_insertItem_of_new acc hnew]
    simp only [List.mem_filter, Bool.or_eq_true, decide_eq_true_eq]
    constructor
    · rintro (rfl | ⟨h1, h2⟩)
      · exact ⟨hx, Or.inr rfl⟩
      · exact ⟨h1, Or.inl h2⟩
    · rintro ⟨h1, h2 | rfl⟩
      · exact Or.inr ⟨h1, h2⟩
      · exact Or.inl rfl
  unfold Tree.update
  simp only [ht.1, hov, List.map_nil, List.foldl_nil]
  refine ⟨⟨hitems, ?_⟩, trivial⟩
  simp only
  rw [← hitems, sumOf_insertItem acc x hnew, ht.2]

theorem foldl_dropOverlap {acc : Acc} {U : List Nat} (hU : Asc acc U) (ov : List Nat) (hov : ∀ o ∈ ov, o ∈ U)
    (t : Tree) (hsub : t.items.Sublist U) :
    (ov.map acc).foldl (Tree.dropOverlap acc) t =
      { items := t.items.filter (fun a => decide (a ∉ ov)), totalSize := t.totalSize - sumOf acc ov } := by
  induction ov generalizing t with
  | nil =>
    have : t.items.filter (fun a => true) = t.items := List.filter_eq_self.2 (fun _ _ => rfl)
    simp [sumOf, this]
  | cons o ov ih =>
    simp only [List.map_cons, List.foldl_cons]
    have ho := hov o (by simp)
    rw [ih (fun o' h => hov o' (by simp [h]))]
    · unfold Tree.dropOverlap
      simp only [deleteKey_eq_filter_ne hU hsub ho, List.filter_filter, sumOf_cons, Tree.mk.injEq]
      constructor
      · apply List.filter_congr; intro a _; simp [Bool.and_comm, not_or]
      · omega
    · unfold Tree.dropOverlap
      exact (deleteKey_sublist acc).trans hsub

/-- regionTree.update on the main tree: everything overlapping the new range is dropped and reported,
    the item is inserted, the counter stays exact -/
theorem Tree.update_main {acc : Acc} {t : Tree} (hU : Ordered acc t.items) (ht : t.totalSize = sumOf acc t.items)
    {x : Nat} (hwx : WFRange (acc x)) :
    (t.update acc x).2 = (t.items.filter (fun a => Overlap (acc a) (acc x))).map acc ∧
    (t.update acc x).1.items = insertItem acc (t.items.filter (fun a => ¬ Overlap (acc a) (acc x))) x ∧
    (t.update acc x).1.totalSize = sumOf acc (t.update acc x).1.items ∧
    Ordered acc (t.update acc x).1.items := by
  have hov := overlapsOf_eq_filter acc hU (acc x)
  have hkeep : Ordered acc (t.items.filter (fun a => ¬ Overlap (acc a) (acc x))) := hU.filter acc _
  have hno : ∀ a ∈ t.items.filter (fun a => ¬ Overlap (acc a) (acc x)), ¬ Overlap (acc a) (acc x) := by
    intro a ha; simpa using (List.mem_filter.1 ha).2
  have hnew : ∀ b ∈ t.items.filter (fun a => ¬ Overlap (acc a) (acc x)), (acc b).startKey ≠ (acc x).startKey := by
    intro b hb hk
    have hwb := hkeep.2 b hb
    have := hno b hb
    unfold Overlap WFRange at *; grind
  have hfold := foldl_dropOverlap (hU.asc acc) (t.items.filter (fun a => Overlap (acc a) (acc x)))
    (fun o ho => (List.mem_filter.1 ho).1) { t with totalSize := t.totalSize + (acc x).size } (List.Sublist.refl _)
  have hitems : t.items.filter (fun a => decide (a ∉ t.items.filter (fun a => Overlap (acc a) (acc x)))) =
      t.items.filter (fun a => ¬ Overlap (acc a) (acc x)) := by
    apply List.filter_congr; intro a ha; simp [List.mem_filter, ha]
  unfold Tree.update
  simp only [hov, hfold, hitems]
  refine ⟨trivial, trivial, ?_, hkeep.insertItem acc x hwx hno⟩
  rw [sumOf_insertItem acc x hnew, ht]
  have := sumOf_filter_split acc t.items (fun a => decide (Overlap (acc a) (acc x)))
  have e : t.items.filter (fun a => !decide (Overlap (acc a) (acc x))) =
      t.items.filter (fun a => decide (¬ Overlap (acc a) (acc x))) := by
    apply List.filter_congr; intro a _; simp
  rw [e] at this
  omega

end PdModel.RegionTree
