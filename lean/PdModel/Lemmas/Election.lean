import PdModel.Model.Election
set_option linter.unusedSimpArgs false
set_option linter.unusedVariables false
/-! Helper lemmas for the election model: etcd primitives, single-call characterisations,
    lifting of per-contender facts to the global state. -/
namespace PdModel.Election

/-! ### etcd primitives -/

theorem txn_single (e : Etcd) (cmps : List Cmp) (op : EOp) :
    e.txn cmps [op] [] =
      if cmps.all e.holds then (if e.opOk op then (e.apply1 op, .succeeded) else (e, .error))
      else (e, .failed) := by
  unfold Etcd.txn
  by_cases h : cmps.all e.holds = true <;> simp [h]

/-- all that `runTxn` with a single operation can do -/
theorem runTxn_single (e : Etcd) (cmps : List Cmp) (op : EOp) (f : Fault) :
    runTxn e cmps [op] f =
      if f = .errBefore then (e, .err)
      else if cmps.all e.holds then
        (if e.opOk op then (e.apply1 op, if f = .none then .ok else .err) else (e, .err))
      else (e, if f = .none then .conflict else .err) := by
  by_cases h1 : cmps.all e.holds = true <;> by_cases h2 : e.opOk op = true <;>
    cases f <;> simp [runTxn, txn_single, h1, h2]

@[simp] theorem step_snd (s : St) (op : Op) : (step s op).2 = (step0 s op).2 := rfl
@[simp] theorem fireWatchers_etcd (b : Etcd) (s : St) : (fireWatchers b s).etcd = s.etcd := rfl
@[simp] theorem fireWatchers_stamp (b : Etcd) (s : St) : (fireWatchers b s).stamp = s.stamp := rfl
@[simp] theorem step_etcd (s : St) (op : Op) : (step s op).1.etcd = (step0 s op).1.etcd := rfl
@[simp] theorem step_stamp (s : St) (op : Op) : (step s op).1.stamp = (step0 s op).1.stamp := rfl

theorem revoke_kv (e : Etcd) (id : Nat) (k : Key) :
    (e.revoke id).kv k =
      if (id != 0 && e.live id) = true then
        (match e.kv k with | some x => if x.lease == id then none else some x | none => none)
      else e.kv k := by
  unfold Etcd.revoke; split <;> rfl

theorem revoke_live (e : Etcd) (id j : Nat) :
    (e.revoke id).live j = if (id != 0 && e.live id) = true then (j != id && e.live j) else e.live j := by
  unfold Etcd.revoke; split <;> rfl

@[simp] theorem revoke_granted (e : Etcd) (id : Nat) : (e.revoke id).granted = e.granted := by
  unfold Etcd.revoke; split <;> rfl

@[simp] theorem apply1_live (e : Etcd) (op : EOp) : (e.apply1 op).live = e.live := by
  cases op <;> rfl
@[simp] theorem apply1_granted (e : Etcd) (op : EOp) : (e.apply1 op).granted = e.granted := by
  cases op <;> rfl
theorem apply1_put_kv (e : Etcd) (k v l k') :
    (e.apply1 (.put k v l)).kv k' = if k' = k then some ⟨v, l⟩ else e.kv k' := rfl
theorem apply1_del_kv (e : Etcd) (k k') :
    (e.apply1 (.del k)).kv k' = if k' = k then none else e.kv k' := rfl

@[simp] theorem foldl_apply1_live (ops : List EOp) (e : Etcd) : (ops.foldl Etcd.apply1 e).live = e.live := by
  induction ops generalizing e with
  | nil => rfl
  | cons a l ih => simp [List.foldl_cons, ih]

@[simp] theorem foldl_apply1_granted (ops : List EOp) (e : Etcd) :
    (ops.foldl Etcd.apply1 e).granted = e.granted := by
  induction ops generalizing e with
  | nil => rfl
  | cons a l ih => simp [List.foldl_cons, ih]

theorem foldl_apply1_kv_of_not_mem (ops : List EOp) (e : Etcd) (k : Key)
    (h : ∀ o ∈ ops, o.key ≠ k) : (ops.foldl Etcd.apply1 e).kv k = e.kv k := by
  induction ops generalizing e with
  | nil => rfl
  | cons a l ih =>
    simp only [List.foldl_cons]
    rw [ih _ (fun o ho => h o (List.mem_cons_of_mem _ ho))]
    have ha := h a (List.mem_cons_self)
    cases a <;> simp only [Etcd.apply1, EOp.key] at ha ⊢ <;> simp [Ne.symm ha]

theorem txn_fst_cases (e : Etcd) (c t el) :
    (e.txn c t el).1 = e ∨ (e.txn c t el).1 = t.foldl Etcd.apply1 e ∨ (e.txn c t el).1 = el.foldl Etcd.apply1 e := by
  simp only [Etcd.txn]
  by_cases h1 : c.all e.holds = true
  · by_cases h2 : t.all e.opOk = true <;> simp [h1, h2]
  · by_cases h2 : el.all e.opOk = true <;> simp [h1, h2]

@[simp] theorem txn_live (e : Etcd) (c t el) : (e.txn c t el).1.live = e.live := by
  rcases txn_fst_cases e c t el with h | h | h <;> rw [h] <;> simp

@[simp] theorem txn_granted (e : Etcd) (c t el) : (e.txn c t el).1.granted = e.granted := by
  rcases txn_fst_cases e c t el with h | h | h <;> rw [h] <;> simp

theorem txn_kv_of_not_mem (e : Etcd) (c t el) (k : Key) (h : ∀ o ∈ t ++ el, o.key ≠ k) :
    (e.txn c t el).1.kv k = e.kv k := by
  rcases txn_fst_cases e c t el with h1 | h1 | h1 <;> rw [h1]
  · exact foldl_apply1_kv_of_not_mem _ _ _ (fun o ho => h o (by simp [ho]))
  · exact foldl_apply1_kv_of_not_mem _ _ _ (fun o ho => h o (by simp [ho]))

/-! ### Campaign -/

theorem campaignTxn_snd (x : Loc) (l extra f rv) :
    (campaignTxn x l extra f rv).2 =
      (runTxn x.etcd (campaignCmps x.c extra) [.put (.leader x.c.key) x.c.value l.id] f).2 := by
  unfold campaignTxn
  generalize runTxn x.etcd (campaignCmps x.c extra) [.put (.leader x.c.key) x.c.value l.id] f = r
  obtain ⟨e1, o⟩ := r
  cases o <;> rfl

theorem campaignCmps_all (e : Etcd) (c : Cont) (extra : List Cmp) :
    (campaignCmps c extra).all e.holds = (extra.all e.holds && (e.kv (.leader c.key)).isNone) := by
  simp [campaignCmps, List.all_append, Etcd.holds]

theorem campaignTxn_ok_iff (x : Loc) (l extra f rv) :
    (campaignTxn x l extra f rv).2 = .ok ↔
      f = .none ∧ x.etcd.kv (.leader x.c.key) = none ∧ extra.all x.etcd.holds = true ∧
        (l.id = 0 ∨ x.etcd.live l.id = true) := by
  rw [campaignTxn_snd, runTxn_single, campaignCmps_all]
  simp only [Etcd.opOk]
  by_cases h1 : extra.all x.etcd.holds = true <;> by_cases h4 : x.etcd.live l.id = true <;>
    by_cases h2 : x.etcd.kv (.leader x.c.key) = none <;> by_cases h3 : l.id = 0 <;>
    cases f <;> simp [h1, h2, h3, h4]

theorem closeLease_etcd (x : Loc) (rv : Bool) :
    (closeLease x rv).etcd =
      match x.c.lease with
      | none => x.etcd
      | some l => if rv then x.etcd.revoke l.id else x.etcd := by
  cases h : x.c.lease <;> cases rv <;> simp [closeLease, h]

theorem campaignTxn_etcd (x : Loc) (l extra f rv) (hl : x.c.lease = some l) :
    (campaignTxn x l extra f rv).1.etcd =
      let r := runTxn x.etcd (campaignCmps x.c extra) [.put (.leader x.c.key) x.c.value l.id] f
      if r.2 = .ok then r.1 else if rv then r.1.revoke l.id else r.1 := by
  unfold campaignTxn
  generalize runTxn x.etcd (campaignCmps x.c extra) [.put (.leader x.c.key) x.c.value l.id] f = r
  obtain ⟨e1, o⟩ := r
  cases o <;> cases rv <;> simp [closeLease_etcd, hl]

theorem campaignTxn_success_record (x : Loc) (l extra f rv) (hl : x.c.lease = some l)
    (hok : (campaignTxn x l extra f rv).2 = .ok) :
    (campaignTxn x l extra f rv).1.etcd.kv (.leader x.c.key) = some ⟨x.c.value, l.id⟩ := by
  have h := (campaignTxn_ok_iff x l extra f rv).1 hok
  rw [campaignTxn_snd] at hok
  rw [campaignTxn_etcd _ _ _ _ _ hl]
  simp only [hok, if_true]
  obtain ⟨hf, h2, h1, h4⟩ := h
  rw [runTxn_single, campaignCmps_all]
  have : x.etcd.opOk (.put (.leader x.c.key) x.c.value l.id) = true := by
    rcases h4 with h4 | h4 <;> simp [Etcd.opOk, h4]
  simp [hf, h1, h2, this, apply1_put_kv]

theorem campaignTxn_failure_record (x : Loc) (l extra f) (hl : x.c.lease = some l) (hid : l.id ≠ 0)
    (hno : (campaignTxn x l extra f true).2 ≠ .ok) :
    (campaignTxn x l extra f true).1.etcd.kv (.leader x.c.key) = x.etcd.kv (.leader x.c.key) ∨
      (x.etcd.kv (.leader x.c.key)).map (·.lease) = some l.id := by
  rw [campaignTxn_snd] at hno
  rw [campaignTxn_etcd _ _ _ _ _ hl]
  simp only [hno, if_false, if_true]
  rw [runTxn_single, campaignCmps_all] at hno ⊢
  by_cases h1 : extra.all x.etcd.holds = true <;> by_cases h4 : x.etcd.live l.id = true <;>
    by_cases h2 : x.etcd.kv (.leader x.c.key) = none <;>
    cases f <;> simp [h1, h2, hid, h4, Etcd.opOk, revoke_kv, apply1_put_kv] at hno ⊢
  all_goals
    (cases h5 : x.etcd.kv (.leader x.c.key) with
     | none => simp_all
     | some y => by_cases h6 : y.lease = l.id <;> simp [h6])

/-! ### guarded writes -/

/-- the writer's comparison with the leader record holds -/
def owns (x : Loc) (w : WKind) : Bool :=
  match w with
  | .idRebase => x.etcd.holds (.valueEq (.leader x.c.key) x.c.member)
  | _ => x.etcd.holds (leaderCmp x.c)

/-- the single operation of a guarded write -/
def writeOp (x : Loc) (w : WKind) : EOp :=
  match (writeTxn x w).2 with
  | [op] => op
  | _ => .del .enc

theorem writeTxn_snd (x : Loc) (w : WKind) : (writeTxn x w).2 = [writeOp x w] := by
  cases w <;> simp [writeOp, writeTxn] <;> split <;> simp

theorem writeOp_ok (x : Loc) (w : WKind) (e : Etcd) : e.opOk (writeOp x w) = true := by
  cases w <;> simp [writeOp, writeTxn, Etcd.opOk]
  cases x.etcd.kv (Key.allocId x.c.key) <;> simp [Etcd.opOk]

theorem writeTxn_cmps_all (x : Loc) (w : WKind) :
    (writeTxn x w).1.all x.etcd.holds = owns x w := by
  cases w <;> simp [writeTxn, owns]
  split <;> simp_all [Etcd.holds]

/-- everything a guarded write can do -/
theorem writeStep_eq (x : Loc) (w : WKind) (f : Fault) :
    writeStep x w f =
      if (w = .encRotate ∧ x.c.check = false) then (x, .noop)
      else if f = .errBefore then (x, .err)
      else if owns x w = true then
        let x1 : Loc := { x with etcd := x.etcd.apply1 (writeOp x w), stamp := if w.opaque then x.stamp + 1 else x.stamp }
        if f = .none then
          (if w = .tsSync then { x1 with c := { x.c with tsoInit := true } } else x1, .ok)
        else (x1, .err)
      else (x, if f = .none then .conflict else .err) := by
  unfold writeStep
  by_cases h0 : (w = .encRotate ∧ x.c.check = false)
  · simp [h0]
  · have h0' : ¬ ((decide (w = .encRotate) && !x.c.check) = true) := by
      simpa using h0
    simp only [h0, h0', if_false]
    have e1 : writeTxn x w = ((writeTxn x w).1, [writeOp x w]) := by
      rw [← writeTxn_snd]
    rw [e1]
    simp only [runTxn_single, writeTxn_cmps_all, writeOp_ok]
    by_cases ho : owns x w = true <;> cases f <;> cases w <;> simp [ho, WKind.opaque]

end PdModel.Election

/-! ### lease ids: local steps and the global invariant `Inv0` -/

namespace PdModel.Election

/-- id of the lease a contender believes to own (0 = none) -/
def lid (c : Cont) : Nat := match c.lease with | some l => l.id | none => 0

/-- local well-formedness of one contender -/
def LWf (c : Cont) : Prop :=
  (c.pending.isSome → lid c ≠ 0) ∧
  (∀ l, c.lease = some l → (l.expire = .unset → l.id = 0) ∧ (∀ t, l.expire = .at t → l.id ≠ 0))

/-- a building block that neither grants a lease nor changes which lease the contender refers to -/
def Keeps (y z : Loc) : Prop :=
  z.etcd.granted = y.etcd.granted ∧ lid z.c = lid y.c ∧ z.c.key = y.c.key ∧ z.c.member = y.c.member ∧
  (LWf y.c → LWf z.c)

theorem Keeps.refl (y : Loc) : Keeps y y := ⟨rfl, rfl, rfl, rfl, id⟩

theorem Keeps.trans {x y z : Loc} (h1 : Keeps x y) (h2 : Keeps y z) : Keeps x z :=
  ⟨h2.1.trans h1.1, h2.2.1.trans h1.2.1, h2.2.2.1.trans h1.2.2.1, h2.2.2.2.1.trans h1.2.2.2.1,
   fun h => h2.2.2.2.2 (h1.2.2.2.2 h)⟩

theorem closeLease_keeps (x : Loc) (rv : Bool) : Keeps x (closeLease x rv) := by
  unfold closeLease
  cases h : x.c.lease with
  | none => exact Keeps.refl x
  | some l =>
    refine ⟨by cases rv <;> simp, by simp [lid, h], rfl, rfl, ?_⟩
    intro hw
    refine ⟨fun hp => by simpa [lid, h] using hw.1 hp, ?_⟩
    intro l' hl'
    simp at hl'
    subst hl'
    simp

theorem resetStep_keeps (x : Loc) (rv : Bool) : Keeps x (resetStep x rv) := by
  unfold resetStep
  refine Keeps.trans (y := { x with c := { x.c with won := false } }) ?_ (closeLease_keeps _ rv)
  exact ⟨rfl, rfl, rfl, rfl, fun h => h⟩

end PdModel.Election
namespace PdModel.Election

def LidStep (x z : Loc) : Prop :=
  x.etcd.granted ≤ z.etcd.granted ∧ z.c.key = x.c.key ∧ z.c.member = x.c.member ∧
  (LWf x.c → LWf z.c) ∧
  (lid z.c = lid x.c ∨ lid z.c = 0 ∨ (lid z.c = x.etcd.granted + 1 ∧ z.etcd.granted = x.etcd.granted + 1))

theorem Keeps.lidStep {x z : Loc} (h : Keeps x z) : LidStep x z :=
  ⟨Nat.le_of_eq h.1.symm, h.2.2.1, h.2.2.2.1, h.2.2.2.2, Or.inl h.2.1⟩

theorem LidStep.keeps {x y z : Loc} (h1 : LidStep x y) (h2 : Keeps y z) : LidStep x z := by
  obtain ⟨a, b, c, d, e⟩ := h1
  obtain ⟨a', b', c', d', e'⟩ := h2
  refine ⟨by omega, c'.trans b, d'.trans c, fun h => e' (d h), ?_⟩
  rw [b', a']; exact e

theorem grantStep_lidStep (x : Loc) (ttl extra) : LidStep x (grantStep x ttl extra).1 := by
  unfold grantStep
  split
  · refine ⟨Nat.le_refl _, rfl, rfl, ?_, Or.inr (Or.inl (by simp [lid]))⟩
    intro _
    refine ⟨by simp, ?_⟩
    intro l hl; simp at hl; subst hl; simp
  · refine ⟨by simp [Etcd.grant], rfl, rfl, ?_, Or.inr (Or.inr (by simp [lid, Etcd.grant]))⟩
    intro _
    refine ⟨by simp [lid, Etcd.grant], ?_⟩
    intro l hl; simp at hl; subst hl; simp [Etcd.grant]

theorem grantStep_parked (x : Loc) (ttl extra) (h : (grantStep x ttl extra).2 = .parked) :
    (grantStep x ttl extra).1.c.pending = some extra ∧ ∃ l, (grantStep x ttl extra).1.c.lease = some l := by
  unfold grantStep at h ⊢
  split <;> simp_all

theorem campaignTxn_keeps (x : Loc) (l extra f rv) : Keeps x (campaignTxn x l extra f rv).1 := by
  unfold campaignTxn
  have hg := (runTxn_single x.etcd (campaignCmps x.c extra) (.put (.leader x.c.key) x.c.value l.id) f)
  generalize runTxn x.etcd (campaignCmps x.c extra) [.put (.leader x.c.key) x.c.value l.id] f = r at hg
  obtain ⟨e1, o⟩ := r
  have he : e1.granted = x.etcd.granted := by
    have := congrArg (·.1.granted) hg
    simp only at this
    rw [this]; repeat' split
    all_goals simp
  have base : Keeps x { x with etcd := e1, c := { x.c with pending := none } } := by
    refine ⟨he, rfl, rfl, rfl, fun hw => ⟨by simp, hw.2⟩⟩
  cases o
  case ok =>
    refine ⟨he, rfl, rfl, rfl, fun hw => ⟨by simp, hw.2⟩⟩
  all_goals exact Keeps.trans base (closeLease_keeps _ rv)

theorem finishStep_keeps (x : Loc) (f rv) : Keeps x (finishStep x f rv).1 := by
  unfold finishStep
  split
  · exact campaignTxn_keeps _ _ _ _ _
  · exact Keeps.refl x

theorem writeStep_keeps (x : Loc) (w f) : Keeps x (writeStep x w f).1 := by
  rw [writeStep_eq]
  repeat' split
  all_goals first
    | exact Keeps.refl x
    | exact ⟨by simp, rfl, rfl, rfl, fun h => h⟩

end PdModel.Election
namespace PdModel.Election

theorem loc_lidStep (x : Loc) (a : LOp) : LidStep x (loc x a).1 := by
  cases a with
  | clock t => exact (show Keeps x _ from ⟨rfl, rfl, rfl, rfl, fun h => h⟩).lidStep
  | campaign ttl extra f rv =>
    simp only [loc]
    split
    · exact (Keeps.refl x).lidStep
    · have hg := grantStep_lidStep x ttl extra
      generalize grantStep x ttl extra = r at hg
      obtain ⟨x1, o⟩ := r
      cases o
      case parked => exact hg.keeps (finishStep_keeps _ _ _)
      all_goals exact hg
  | gcampaign ttl extra =>
    simp only [loc]; split
    · exact (Keeps.refl x).lidStep
    · exact grantStep_lidStep _ _ _
  | finish f rv => exact (finishStep_keeps _ _ _).lidStep
  | keep =>
    simp only [loc]
    cases h : x.c.lease with
    | none => exact (Keeps.refl x).lidStep
    | some l =>
      simp only
      split
      · exact (Keeps.refl x).lidStep
      · next hb =>
        split
        · apply Keeps.lidStep
          refine ⟨rfl, by simp [lid, h], rfl, rfl, ?_⟩
          intro hw
          refine ⟨by simpa [lid, h] using hw.1, ?_⟩
          intro l' hl'; simp at hl'; subst hl'
          simp at hb
          simp [hb.2]
        · exact (Keeps.refl x).lidStep
  | resetl rv =>
    simp only [loc]; split
    · exact (Keeps.refl x).lidStep
    · exact (resetStep_keeps _ _).lidStep
  | gresetl pre leader =>
    simp only [loc]; split
    · exact (Keeps.refl x).lidStep
    · cases h : x.c.lease with
      | none =>
        apply Keeps.lidStep
        exact ⟨rfl, by simp [lid, h], rfl, rfl, fun hw => ⟨by simpa [lid, h] using hw.1, by simp [h]⟩⟩
      | some l =>
        apply Keeps.lidStep
        refine ⟨by cases pre <;> simp, by simp [lid, h], rfl, rfl, ?_⟩
        intro hw
        refine ⟨fun hp => by simpa [lid, h] using hw.1 hp, ?_⟩
        intro l' hl'; simp at hl'; subst hl'; simp
  | rfinish rv =>
    simp only [loc]
    cases h : x.c.closing with
    | none => exact (Keeps.refl x).lidStep
    | some pl =>
      obtain ⟨pre, leader⟩ := pl
      apply Keeps.lidStep
      refine ⟨by cases pre <;> cases rv <;> simp, rfl, rfl, rfl, fun hw => hw⟩
  | delkey f rv =>
    simp only [loc]; split
    · exact (Keeps.refl x).lidStep
    · have hg := runTxn_single x.etcd [] (.del (.leader x.c.key)) f
      generalize runTxn x.etcd [] [.del (.leader x.c.key)] f = r at hg
      obtain ⟨e1, o⟩ := r
      have he : e1.granted = x.etcd.granted := by
        have := congrArg (·.1.granted) hg
        simp only at this
        rw [this]; repeat' split
        all_goals simp
      have base : Keeps x { x with etcd := e1 } := ⟨he, rfl, rfl, rfl, fun h => h⟩
      cases o
      case ok => exact (Keeps.trans base (resetStep_keeps _ _)).lidStep
      all_goals exact base.lidStep
  | write w f =>
    simp only [loc]; split
    · exact (Keeps.refl x).lidStep
    · exact (writeStep_keeps _ _ _).lidStep
  | idalloc f =>
    simp only [loc]; split
    · exact (Keeps.refl x).lidStep
    · split
      · have hk := writeStep_keeps x .idRebase f
        generalize writeStep x .idRebase f = r at hk
        obtain ⟨x1, o⟩ := r
        cases o
        case ok =>
          apply Keeps.lidStep
          exact Keeps.trans hk ⟨rfl, rfl, rfl, rfl, fun h => h⟩
        all_goals exact hk.lidStep
      · apply Keeps.lidStep
        exact ⟨rfl, rfl, rfl, rfl, fun h => h⟩
  | check => exact (Keeps.refl x).lidStep
  | isleader => exact (Keeps.refl x).lidStep
  | tso => exact (Keeps.refl x).lidStep
  | enable => exact (show Keeps x _ from ⟨rfl, rfl, rfl, rfl, fun h => h⟩).lidStep
  | unset => exact (show Keeps x _ from ⟨rfl, rfl, rfl, rfl, fun h => h⟩).lidStep
  | observe =>
    simp only [loc]
    repeat' split
    · exact (Keeps.refl x).lidStep
    · exact (Keeps.refl x).lidStep
    · exact (Keeps.trans (show Keeps x { x with etcd := x.etcd.apply1 (.del (.leader x.c.key)) } from
        ⟨by simp, rfl, rfl, rfl, fun h => h⟩) (resetStep_keeps _ _)).lidStep
    · exact (show Keeps x _ from ⟨rfl, rfl, rfl, rfl, fun h => h⟩).lidStep
  | unwatch =>
    simp only [loc]; split
    · exact (show Keeps x _ from ⟨rfl, rfl, rfl, rfl, fun h => h⟩).lidStep
    · exact (Keeps.refl x).lidStep
  | tsoreset => exact (show Keeps x _ from ⟨rfl, rfl, rfl, rfl, fun h => h⟩).lidStep
  | stepdown rv =>
    simp only [loc]; split
    · exact (Keeps.refl x).lidStep
    · exact (Keeps.trans (Keeps.trans (show Keeps x { x with c := { x.c with cache := 0, tsoInit := false } } from
        ⟨rfl, rfl, rfl, rfl, fun h => h⟩) (resetStep_keeps _ _)) (resetStep_keeps _ _)).lidStep
  | crash =>
    simp only [loc]; split
    · exact (Keeps.refl x).lidStep
    · refine ⟨Nat.le_refl _, rfl, rfl, ?_, Or.inr (Or.inl (by simp [lid]))⟩
      intro _; exact ⟨by simp, by simp⟩

end PdModel.Election
namespace PdModel.Election

theorem set_cases {α} (l : List α) (i j : Nat) (a b : α)
    (h : (l.set i a)[j]? = some b) : (j = i ∧ b = a) ∨ (j ≠ i ∧ l[j]? = some b) := by
  grind

/-- lease ids are handed out once: all histories -/
structure Inv0 (s : St) : Prop where
  le   : ∀ (i : Nat) (c : Cont), s.conts[i]? = some c → lid c ≤ s.etcd.granted
  uniq : ∀ (i j : Nat) (ci cj : Cont), i ≠ j → s.conts[i]? = some ci → s.conts[j]? = some cj →
           lid ci ≠ 0 → lid ci ≠ lid cj
  wf   : ∀ (i : Nat) (c : Cont), s.conts[i]? = some c → LWf c

theorem inv0_init : Inv0 init := by
  constructor <;> simp [init]

/-- generic preservation: every contender keeps its lease id, drops it, or (only contender `i`)
    gets the fresh one -/
theorem inv0_of_frame (s s' : St) (i : Nat) (h : Inv0 s)
    (hg : s.etcd.granted ≤ s'.etcd.granted)
    (hf : ∀ (j : Nat) (c' : Cont), s'.conts[j]? = some c' →
      LWf c' ∧ (lid c' = 0 ∨ (∃ c, s.conts[j]? = some c ∧ lid c' = lid c) ∨
        (j = i ∧ lid c' = s.etcd.granted + 1 ∧ s'.etcd.granted = s.etcd.granted + 1))) :
    Inv0 s' := by
  constructor
  · intro j c' hc'
    rcases (hf j c' hc').2 with h0 | ⟨c, hc, e⟩ | ⟨_, e1, e2⟩
    · omega
    · have := h.le j c hc; omega
    · omega
  · intro j k cj ck hjk hj hk hne
    rcases (hf j cj hj).2 with h0 | ⟨c, hc, e⟩ | ⟨rfl, e1, e2⟩
    · exact absurd h0 hne
    · rcases (hf k ck hk).2 with h0' | ⟨c2, hc2, e'⟩ | ⟨rfl, e1, e2⟩
      · omega
      · rw [e, e']; exact h.uniq j k c c2 hjk hc hc2 (by omega)
      · have := h.le j c hc; omega
    · rcases (hf k ck hk).2 with h0' | ⟨c2, hc2, e'⟩ | ⟨rfl, e1', e2'⟩
      · omega
      · have := h.le k c2 hc2; omega
      · exact absurd rfl hjk
  · intro j c' hc'; exact (hf j c' hc').1

theorem inv0_step0 (s : St) (h : Inv0 s) (op : Op) : Inv0 (step0 s op).1 := by
  cases op with
  | new k m =>
    refine inv0_of_frame s (step0 s (.new k m)).1 0 h (Nat.le_refl _) ?_
    intro j c' hc'
    simp only [step0] at hc'
    rw [List.getElem?_append] at hc'
    split at hc'
    · exact ⟨h.wf j c' hc', Or.inr (Or.inl ⟨c', hc', rfl⟩)⟩
    · have : c' = { key := k, member := m } := by
        cases hj : j - s.conts.length with
        | zero => simp [hj] at hc'; exact hc'.symm
        | succ n => simp [hj] at hc'
      subst this
      exact ⟨⟨by simp, by simp⟩, Or.inl rfl⟩
  | expire id =>
    apply inv0_of_frame s _ 0 h (by simp [step0])
    intro j c' hc'
    exact ⟨h.wf j c' hc', Or.inr (Or.inl ⟨c', hc', rfl⟩)⟩
  | rawgrant =>
    apply inv0_of_frame s _ s.conts.length h (by simp [step0, Etcd.grant])
    intro j c' hc'
    exact ⟨h.wf j c' hc', Or.inr (Or.inl ⟨c', hc', rfl⟩)⟩
  | rawtxn c t e =>
    have hg : (step0 s (.rawtxn c t e)).1.etcd.granted = s.etcd.granted := by
      simp only [step0]
      have := txn_granted s.etcd c t e
      generalize s.etcd.txn c t e = r at this
      obtain ⟨e1, o⟩ := r
      cases o <;> exact this
    have hc : (step0 s (.rawtxn c t e)).1.conts = s.conts := by
      simp only [step0]
      generalize s.etcd.txn c t e = r
      obtain ⟨e1, o⟩ := r
      cases o <;> rfl
    apply inv0_of_frame s _ 0 h (by rw [hg]; exact Nat.le_refl _)
    intro j c' hc'
    rw [hc] at hc'
    exact ⟨h.wf j c' hc', Or.inr (Or.inl ⟨c', hc', rfl⟩)⟩
  | on i a =>
    simp only [step0]
    cases hi : s.conts[i]? with
    | none => exact h
    | some c =>
      simp only
      have hl := loc_lidStep ⟨s.etcd, s.stamp, c⟩ a
      obtain ⟨g1, _, _, g4, g5⟩ := hl
      apply inv0_of_frame s _ i h g1
      intro j c' hc'
      rcases set_cases _ _ _ _ _ hc' with ⟨rfl, rfl⟩ | ⟨_, hj⟩
      · refine ⟨g4 (h.wf j c hi), ?_⟩
        rcases g5 with e | e | e
        · exact Or.inr (Or.inl ⟨c, hi, e⟩)
        · exact Or.inl e
        · exact Or.inr (Or.inr ⟨rfl, e⟩)
      · exact ⟨h.wf j c' hj, Or.inr (Or.inl ⟨c', hj, rfl⟩)⟩

theorem fireWatchers_getElem (b : Etcd) (s : St) (j : Nat) (c' : Cont)
    (h : (fireWatchers b s).conts[j]? = some c') :
    ∃ c, s.conts[j]? = some c ∧ c'.lease = c.lease ∧ c'.key = c.key ∧ c'.member = c.member ∧
      c'.value = c.value ∧ c'.clock = c.clock ∧ c'.tsoInit = c.tsoInit ∧ c'.won = c.won ∧
      c'.pending = c.pending ∧ (c'.cache = c.cache ∨ c'.cache = 0) ∧ c'.closing = c.closing := by
  simp only [fireWatchers, List.getElem?_map, Option.map_eq_some_iff] at h
  obtain ⟨c, hc, rfl⟩ := h
  refine ⟨c, hc, ?_⟩
  split <;> simp

theorem inv0_step (s : St) (h : Inv0 s) (op : Op) : Inv0 (step s op).1 := by
  have h1 := inv0_step0 s h op
  simp only [step]
  generalize (step0 s op).1 = s1 at h1
  refine inv0_of_frame s1 (fireWatchers s.etcd s1) 0 h1 (Nat.le_refl _) ?_
  intro j c' hc'
  obtain ⟨c, hc, e1, _, _, _, _, _, _, e2, _⟩ := fireWatchers_getElem _ _ _ _ hc'
  have hw := h1.wf j c hc
  refine ⟨?_, Or.inr (Or.inl ⟨c, hc, by simp [lid, e1]⟩)⟩
  simp only [LWf, lid, e1, e2] at hw ⊢
  exact hw

theorem inv0_run (s : St) (h : Inv0 s) (ops : List Op) : Inv0 (run s ops) := by
  induction ops generalizing s with
  | nil => exact h
  | cons op ops ih => simp only [run, List.foldl_cons]; exact ih _ (inv0_step s h op)

end PdModel.Election

/-! ### further helpers used by the property theorems -/

namespace PdModel.Election
open PdModel.Spec

theorem set_self {α} (l : List α) (i : Nat) (a : α) (h : l[i]? = some a) : l.set i a = l := by
  apply List.ext_getElem? ; intro j
  by_cases hj : j = i
  · subst hj; rw [h]; simp [List.getElem?_set]
    by_cases hlt : j < l.length
    · exact hlt
    · have := List.getElem?_eq_none_iff.2 (Nat.le_of_not_lt hlt); simp_all
  · simp [List.getElem?_set, Ne.symm hj]

theorem fireWatchers_self (s : St) : fireWatchers s.etcd s = s := by
  unfold fireWatchers
  have : (s.conts.map fun c =>
      if (c.watching && (s.etcd.kv (.leader c.key)).isSome && (s.etcd.kv (.leader c.key)).isNone) = true
      then { c with cache := 0, watching := false } else c) = s.conts := by
    conv => rhs; rw [← List.map_id s.conts]
    apply List.map_congr_left
    intro c _
    cases s.etcd.kv (.leader c.key) <;> simp
  rw [this]

theorem step0_on (s : St) (i : Nat) (c : Cont) (a : LOp) (hc : s.conts[i]? = some c) :
    step0 s (.on i a) =
      ({ etcd := (loc ⟨s.etcd, s.stamp, c⟩ a).1.etcd, stamp := (loc ⟨s.etcd, s.stamp, c⟩ a).1.stamp,
         conts := s.conts.set i (loc ⟨s.etcd, s.stamp, c⟩ a).1.c }, (loc ⟨s.etcd, s.stamp, c⟩ a).2) := by
  simp [step0, hc]

theorem holds_congr (e1 e2 : Etcd) (h : e1.kv = e2.kv) (c : Cmp) : e1.holds c = e2.holds c := by
  cases c <;> simp [Etcd.holds, h]

theorem closeLease_check (x : Loc) (rv : Bool) : (closeLease x rv).c.check = false := by
  unfold closeLease
  cases h : x.c.lease <;> simp [Cont.check, h, Expire.expiredAt]

theorem resetStep_check (x : Loc) (rv : Bool) : (resetStep x rv).c.check = false :=
  closeLease_check _ _

theorem find_filterMap_key {β} (L : List Nat) (g : Nat → Option β) (k : Nat) :
    ((L.filterMap (fun l => (g l).map (fun e => (l, e)))).find? (fun p => decide (p.1 = k))).map (·.2) =
      if k ∈ L then g k else none := by
  induction L with
  | nil => simp
  | cons a t ih =>
    rw [List.filterMap_cons]
    cases hg : g a with
    | none =>
      simp only [Option.map_none]
      rw [ih]
      by_cases hak : k = a
      · subst hak; simp [hg]
      · simp [hak]
    | some e =>
      simp only [Option.map_some, List.find?_cons]
      by_cases hak : a = k
      · subst hak; simp [hg]
      · have hka : ¬ k = a := fun h => hak h.symm
        simp only [hak, decide_false]
        rw [ih]; simp [hka]

theorem mem_dedup (L : List Nat) (k : Nat) : k ∈ dedup L ↔ k ∈ L := by
  induction L with
  | nil => simp [dedup]
  | cons a t ih =>
    simp only [dedup, List.mem_cons, List.mem_filter, ih, bne_iff_ne, ne_eq]
    by_cases h : k = a <;> simp [h]

theorem snapOf_recOf (s : St) (c : Cont) (hc : c ∈ s.conts) :
    (snapOf s).recOf c.key = (s.etcd.kv (.leader c.key)).map fun e => ⟨e.val, e.lease⟩ := by
  unfold C03.Snap.recOf snapOf
  simp only
  have := find_filterMap_key (dedup (s.conts.map (·.key)))
    (fun l => (s.etcd.kv (.leader l)).map fun e => (⟨e.val, e.lease⟩ : C03.Rec)) c.key
  have hmem : c.key ∈ dedup (s.conts.map (·.key)) := (mem_dedup _ _).2 (List.mem_map.2 ⟨c, hc, rfl⟩)
  simp only [hmem, if_true] at this
  rw [← this]
  congr 2
  congr 1
  funext l
  cases s.etcd.kv (.leader l) <;> rfl

theorem filter_length_le_one {α} (l : List α) (p : α → Bool)
    (h : ∀ (i j : Nat) (a b : α), i < j → l[i]? = some a → l[j]? = some b → p a = true → p b = true → False) :
    (l.filter p).length ≤ 1 := by
  induction l with
  | nil => simp
  | cons a t ih =>
    have ih' := ih (fun i j x y hij hx hy => h (i + 1) (j + 1) x y (by omega) (by simpa using hx) (by simpa using hy))
    by_cases hp : p a = true
    · have : t.filter p = [] := by
        rw [List.filter_eq_nil_iff]
        intro b hb hpb
        obtain ⟨j, hj⟩ := List.getElem?_of_mem hb
        exact h 0 (j + 1) a b (by omega) (by simp) (by simpa using hj) hp hpb
      simp [List.filter_cons, hp, this]
    · simp [List.filter_cons, hp]; exact ih'

end PdModel.Election

/-! ### faithful executions: the local invariant `LF`, the guarantee `Guar`, the global invariant `InvF` -/

namespace PdModel.Election
open PdModel.Spec

/-- what the faithful-execution invariant says about one contender against the store -/
structure LF (e : Etcd) (c : Cont) : Prop where
  live  : ∀ l, c.lease = some l → l.id ≠ 0 → l.expire.expiredAt c.clock = false → e.live l.id = true
  won   : c.won = true → ∃ l, c.lease = some l ∧ l.id ≠ 0 ∧ c.pending = none ∧
            (e.live l.id = true → e.kv (.leader c.key) = some ⟨c.member, l.id⟩)
  serve : (c.tsoInit = true ∨ c.cache = c.member) → c.check = true → c.won = true
  pend  : c.pending.isSome = true → c.value = c.member ∧ c.won = false
  mem   : c.member ≠ 0
  clos  : c.closing.isSome = true → c.won = false ∧ c.pending = none ∧
            ∀ l, c.lease = some l → l.expire = .closed

/-- the call-order / clock assumptions as seen by the acting contender -/
def LPre (x : Loc) : LOp → Prop
  | .clock t => x.c.clock ≤ t
  | .campaign _ _ _ _ | .gcampaign _ _ => x.c.cache ≠ x.c.member ∧ x.c.tsoInit = false
  | .keep | .enable | .write .tsSync _ => x.c.won = true
  | .delkey _ _ =>
    x.c.won = false ∧ x.c.cache ≠ x.c.member ∧ x.c.tsoInit = false ∧
      ∀ y, x.etcd.kv (.leader x.c.key) = some y → y.val = x.c.member
  | .observe => x.c.won = false ∧ x.c.cache ≠ x.c.member ∧ x.c.tsoInit = false
  | _ => True

theorem closeLease_LF (x : Loc) (rv : Bool) (hw : x.c.won = false) (hp : x.c.pending = none)
    (hm : x.c.member ≠ 0) : LF (closeLease x rv).etcd (closeLease x rv).c := by
  have hc := closeLease_check x rv
  unfold closeLease at hc ⊢
  cases h : x.c.lease with
  | none =>
    simp only [h] at hc ⊢
    exact ⟨by simp [h], by simp [hw], by simp [hc], by simp [hp], hm, fun _ => ⟨hw, hp, by simp [h]⟩⟩
  | some l =>
    simp only [h] at hc ⊢
    refine ⟨?_, by simp [hw], by simp [hc], by simp [hp], hm, fun _ => ⟨hw, hp, ?_⟩⟩
    · intro l' hl'; simp at hl'; subst hl'; simp [Expire.expiredAt]
    · intro l' hl'; simp at hl'; subst hl'; rfl

theorem resetStep_LF (x : Loc) (rv : Bool) (hp : x.c.pending = none) (hm : x.c.member ≠ 0) :
    LF (resetStep x rv).etcd (resetStep x rv).c :=
  closeLease_LF _ rv rfl hp hm

end PdModel.Election
namespace PdModel.Election
open PdModel.Spec

theorem expiredAt_mono (x : Expire) (a b : Nat) (hab : a ≤ b) (h : x.expiredAt b = false) :
    x.expiredAt a = false := by
  cases x <;> simp_all [Expire.expiredAt]; omega

theorem check_mono (c : Cont) (t : Nat) (h : c.clock ≤ t) (hc : ({ c with clock := t } : Cont).check = true) :
    c.check = true := by
  simp only [Cont.check] at hc ⊢
  cases hl : c.lease with
  | none => simp [hl] at hc
  | some l =>
    simp only [hl, Bool.not_eq_true'] at hc ⊢
    exact expiredAt_mono _ _ _ h hc

theorem grantStep_LF (x : Loc) (ttl extra) (h : LF x.etcd x.c)
    (hpre : x.c.cache ≠ x.c.member ∧ x.c.tsoInit = false) (hcl : x.c.closing = none) :
    LF (grantStep x ttl extra).1.etcd (grantStep x ttl extra).1.c := by
  unfold grantStep
  split
  · exact ⟨by simp, by simp, by simp [hpre.1, hpre.2], by simp, h.mem, by simp [hcl]⟩
  · refine ⟨?_, by simp, by simp [hpre.1, hpre.2], by simp, h.mem, by simp [hcl]⟩
    intro l hl; simp at hl; subst hl; simp [Etcd.grant]

theorem campaignTxn_LF (x : Loc) (l extra f rv) (h : LF x.etcd x.c) (hw : LWf x.c)
    (hl : x.c.lease = some l) (hp : x.c.pending = some extra) :
    LF (campaignTxn x l extra f rv).1.etcd (campaignTxn x l extra f rv).1.c := by
  have hpend := h.pend (by simp [hp])
  have hid : l.id ≠ 0 := by have := hw.1 (by simp [hp]); simpa [lid, hl] using this
  have hr := runTxn_single x.etcd (campaignCmps x.c extra) (.put (.leader x.c.key) x.c.value l.id) f
  unfold campaignTxn
  generalize runTxn x.etcd (campaignCmps x.c extra) [.put (.leader x.c.key) x.c.value l.id] f = r at *
  obtain ⟨e1, o⟩ := r
  by_cases ho : o = .ok
  · subst ho
    have he1 : e1 = x.etcd.apply1 (.put (.leader x.c.key) x.c.value l.id) := by
      by_cases h1 : f = .errBefore <;>
        by_cases h2 : (campaignCmps x.c extra).all x.etcd.holds = true <;>
        by_cases h3 : x.etcd.opOk (.put (.leader x.c.key) x.c.value l.id) = true <;>
        by_cases h4 : f = .none <;> simp [h1, h2, h3, h4] at hr
      exact hr
    subst he1
    have hcl : x.c.closing = none := by
      cases hc : x.c.closing with
      | none => rfl
      | some v => have := (h.clos (by simp [hc])).2.1; rw [hp] at this; cases this
    refine ⟨?_, ?_, by simp, by simp, h.mem, by simp [hcl]⟩
    · intro l' hl' hne hex
      simp only [apply1_live]
      exact h.live l' (by simpa using hl') hne (by simpa using hex)
    · intro _
      refine ⟨l, by simp [hl], hid, rfl, fun _ => ?_⟩
      simp [apply1_put_kv, hpend.1]
  · have : (match o with
        | .ok => (({ x with etcd := e1, c := { x.c with pending := none, won := true } } : Loc), Out.ok)
        | o => (closeLease { x with etcd := e1, c := { x.c with pending := none } } rv, o)) =
        (closeLease { x with etcd := e1, c := { x.c with pending := none } } rv, o) := by
      cases o <;> first | rfl | exact absurd rfl ho
    simp only [this]
    exact closeLease_LF _ rv hpend.2 rfl h.mem

theorem writeOp_not_leader (x : Loc) (w : WKind) (k : Nat) : (writeOp x w).key ≠ .leader k := by
  cases w <;> simp [writeOp, writeTxn, EOp.key]
  cases x.etcd.kv (Key.allocId x.c.key) <;> simp [EOp.key]

theorem apply1_kv_other (e : Etcd) (op : EOp) (k : Key) (h : op.key ≠ k) : (e.apply1 op).kv k = e.kv k := by
  cases op <;> simp only [Etcd.apply1, EOp.key] at h ⊢ <;> simp [Ne.symm h]

theorem LF_of_etcd_eq (e e' : Etcd) (c : Cont) (h : LF e c) (hl : e'.live = e.live)
    (hk : e'.kv (.leader c.key) = e.kv (.leader c.key)) : LF e' c :=
  ⟨by rw [hl]; exact h.live, by rw [hl, hk]; exact h.won, h.serve, h.pend, h.mem, h.clos⟩

theorem writeStep_LF (x : Loc) (w f) (h : LF x.etcd x.c) (hpre : w = .tsSync → x.c.won = true)
    (hp : x.c.pending = none) :
    LF (writeStep x w f).1.etcd (writeStep x w f).1.c := by
  rw [writeStep_eq]
  have hbase : LF (x.etcd.apply1 (writeOp x w)) x.c :=
    LF_of_etcd_eq _ _ _ h (by simp) (apply1_kv_other _ _ _ (writeOp_not_leader x w _))
  by_cases h0 : (w = .encRotate ∧ x.c.check = false)
  · simp only [h0, and_self, if_true]; exact h
  · by_cases hf : f = .errBefore
    · simp only [h0, hf, if_false, if_true]; exact h
    · by_cases ho : owns x w = true
      · by_cases hn : f = .none
        · by_cases hw : w = .tsSync
          · subst hw
            subst hn
            simp only [ho, if_true]
            simp
            exact ⟨hbase.live, hbase.won, fun _ _ => hpre rfl, by simp [hp], h.mem, h.clos⟩
          · simp only [h0, hf, ho, hn, hw, if_false, if_true]; exact hbase
        · simp only [h0, hf, ho, hn, if_false, if_true]; exact hbase
      · simp only [h0, hf, ho, if_false]; exact h

end PdModel.Election
namespace PdModel.Election
open PdModel.Spec

theorem LF_del_leader (x : Loc) (h : LF x.etcd x.c) (hw : x.c.won = false) :
    LF (x.etcd.apply1 (.del (.leader x.c.key))) x.c :=
  ⟨by simpa using h.live, by simp [hw], h.serve, h.pend, h.mem, h.clos⟩

theorem loc_LF (x : Loc) (a : LOp) (h : LF x.etcd x.c) (hw : LWf x.c) (hpre : LPre x a) :
    LF (loc x a).1.etcd (loc x a).1.c := by
  cases a with
  | clock t =>
    simp only [LPre] at hpre
    refine ⟨?_, h.won, ?_, h.pend, h.mem, h.clos⟩
    · intro l hl hne hex
      exact h.live l hl hne (expiredAt_mono _ _ _ hpre hex)
    · intro hs hc
      exact h.serve hs (check_mono _ _ hpre hc)
  | campaign ttl extra f rv =>
    simp only [loc]
    split
    · exact h
    · next hbusy =>
      have hcl : x.c.closing = none := by
        cases hc : x.c.closing <;> simp [hc] at hbusy ⊢
      have hg := grantStep_LF x ttl extra h hpre hcl
      have hgw := (grantStep_lidStep x ttl extra).2.2.2.1 hw
      have hp := grantStep_parked x ttl extra
      generalize grantStep x ttl extra = r at hg hgw hp
      obtain ⟨x1, o⟩ := r
      cases o
      case parked =>
        obtain ⟨hp1, l, hl⟩ := hp rfl
        simp only at hp1 hl hg hgw
        have e : finishStep x1 f rv = campaignTxn x1 l extra f rv := by
          simp [finishStep, hp1, hl]
        simp only [e]
        exact campaignTxn_LF x1 l extra f rv hg hgw hl hp1
      all_goals exact hg
  | gcampaign ttl extra =>
    simp only [loc]; split
    · exact h
    · next hbusy =>
      have hcl : x.c.closing = none := by
        cases hc : x.c.closing <;> simp [hc] at hbusy ⊢
      exact grantStep_LF x ttl extra h hpre hcl
  | finish f rv =>
    simp only [loc, finishStep]
    split
    · next extra l hp hl => exact campaignTxn_LF x l extra f rv h hw hl hp
    · exact h
  | keep =>
    simp only [loc]
    cases hl : x.c.lease with
    | none => exact h
    | some l =>
      simp only
      split
      · exact h
      · next hb =>
        simp at hb
        split
        · next hlive =>
          simp only [LPre] at hpre
          refine ⟨?_, ?_, fun _ _ => hpre, h.pend, h.mem,
            fun hc => absurd hpre (by simp [(h.clos hc).1])⟩
          · intro l' hl' _ _; simp at hl'; subst hl'; exact hlive
          · intro _
            obtain ⟨l0, hl0, a1, a2, a3⟩ := h.won hpre
            rw [hl] at hl0; cases hl0
            exact ⟨_, rfl, a1, a2, a3⟩
        · exact h
  | resetl rv =>
    simp only [loc]; split
    · exact h
    · next hp => exact resetStep_LF x rv (by simpa using hp) h.mem
  | gresetl pre leader =>
    simp only [loc]; split
    · exact h
    · next hbusy =>
      have hpn : x.c.pending = none := by cases hc : x.c.pending <;> simp [hc] at hbusy ⊢
      have hcl : x.c.closing = none := by cases hc : x.c.closing <;> simp [hc] at hbusy ⊢
      cases hl : x.c.lease with
      | none =>
        exact ⟨by simp [hl], by simp, by simp [Cont.check, hl], by simp [hpn], h.mem, by simp [hcl]⟩
      | some l =>
        refine ⟨?_, by simp, by simp [Cont.check, Expire.expiredAt], by simp [hpn], h.mem, ?_⟩
        · intro l' hl'; simp at hl'; subst hl'; simp [Expire.expiredAt]
        · intro _; exact ⟨rfl, hpn, by intro l' hl'; simp at hl'; subst hl'; rfl⟩
  | rfinish rv =>
    simp only [loc]
    cases hc : x.c.closing with
    | none => exact h
    | some pl =>
      obtain ⟨pre, leader⟩ := pl
      obtain ⟨hw, hpn, hcl⟩ := h.clos (by simp [hc])
      have hck : x.c.check = false := by
        simp only [Cont.check]
        cases hl : x.c.lease with
        | none => rfl
        | some l => simp [hcl l hl, Expire.expiredAt]
      refine ⟨?_, by simp [hw], ?_, by simp [hpn], h.mem, by simp⟩
      · intro l hl _ hex
        simp only at hl hex
        rw [hcl l hl] at hex
        simp [Expire.expiredAt] at hex
      · intro _ hc2
        have : x.c.check = true := by simpa [Cont.check] using hc2
        rw [hck] at this; cases this
  | delkey f rv =>
    simp only [loc]; split
    · exact h
    · next hp =>
      simp only [LPre] at hpre
      have hr := runTxn_single x.etcd [] (.del (.leader x.c.key)) f
      generalize runTxn x.etcd [] [.del (.leader x.c.key)] f = r at hr
      obtain ⟨e1, o⟩ := r
      have he1 : e1 = x.etcd ∨ e1 = x.etcd.apply1 (.del (.leader x.c.key)) := by
        by_cases h1 : f = .errBefore <;> by_cases h4 : f = .none <;> simp [h1, h4, Etcd.opOk] at hr
        all_goals first
          | exact Or.inl hr.1
          | exact Or.inr hr.1
      have hbase : LF e1 x.c := by
        rcases he1 with rfl | rfl
        · exact h
        · exact LF_del_leader x h hpre.1
      cases o
      case ok => exact resetStep_LF { x with etcd := e1 } rv (by simpa using hp) h.mem
      all_goals exact hbase
  | write w f =>
    simp only [loc]; split
    · exact h
    · next hp =>
      apply writeStep_LF x w f h _ (by simpa using hp)
      intro hw'; subst hw'; exact hpre
  | idalloc f =>
    simp only [loc]; split
    · exact h
    · next hp =>
      split
      · have hk := writeStep_LF x .idRebase f h (by intro hh; cases hh) (by simpa using hp)
        generalize writeStep x .idRebase f = r at hk
        obtain ⟨x1, o⟩ := r
        cases o
        case ok => exact ⟨hk.live, hk.won, hk.serve, hk.pend, hk.mem, hk.clos⟩
        all_goals exact hk
      · exact ⟨h.live, h.won, h.serve, h.pend, h.mem, h.clos⟩
  | check => exact h
  | isleader => exact h
  | tso => exact h
  | enable =>
    simp only [LPre] at hpre
    exact ⟨h.live, h.won, fun _ _ => hpre, h.pend, h.mem, h.clos⟩
  | unset =>
    refine ⟨h.live, h.won, ?_, h.pend, h.mem, h.clos⟩
    intro hs hc
    rcases hs with hs | hs
    · exact h.serve (Or.inl hs) hc
    · exact absurd hs.symm h.mem
  | observe =>
    simp only [LPre] at hpre
    simp only [loc]
    split
    · exact h
    · next hp =>
      simp at hp
      split
      · exact h
      · split
        · exact resetStep_LF { x with etcd := x.etcd.apply1 (.del (.leader x.c.key)) } true hp.1 h.mem
        · next y hy hne =>
          refine ⟨h.live, h.won, ?_, h.pend, h.mem, h.clos⟩
          intro hs _
          rcases hs with hs | hs
          · simp [hpre.2.2] at hs
          · exact absurd hs hne
  | unwatch =>
    simp only [loc]; split
    · refine ⟨h.live, h.won, ?_, h.pend, h.mem, h.clos⟩
      intro hs hc
      rcases hs with hs | hs
      · exact h.serve (Or.inl hs) hc
      · exact absurd hs.symm h.mem
    · exact h
  | tsoreset =>
    refine ⟨h.live, h.won, ?_, h.pend, h.mem, h.clos⟩
    intro hs hc
    rcases hs with hs | hs
    · cases hs
    · exact h.serve (Or.inr hs) hc
  | stepdown rv =>
    simp only [loc]; split
    · exact h
    · next hp =>
      have hk := resetStep_keeps { x with c := { x.c with cache := 0, tsoInit := false } } rv
      apply resetStep_LF
      · have : (resetStep { x with c := { x.c with cache := 0, tsoInit := false } } rv).c.pending = none := by
          unfold resetStep closeLease
          cases x.c.lease <;> simp <;> simpa using hp
        exact this
      · rw [hk.2.2.2.1]; exact h.mem
  | crash =>
    simp only [loc]; split
    · exact h
    · exact ⟨by simp, by simp, by simp [Cont.check], by simp, h.mem, by simp⟩

end PdModel.Election
namespace PdModel.Election
open PdModel.Spec

/-- what a call of one contender guarantees to everybody else: it can only kill its own lease,
    never revives an old lease, and a leader record it removes is attached to its own lease or
    names the contender itself -/
structure Guar (x x' : Loc) : Prop where
  live : ∀ id, x.etcd.live id = true → id ≠ lid x.c → id ≠ lid x'.c → x'.etcd.live id = true
  old  : ∀ id, x'.etcd.live id = true → id ≤ x.etcd.granted → x.etcd.live id = true
  recd : ∀ k e, x.etcd.kv (.leader k) = some e →
          x'.etcd.kv (.leader k) = some e ∨ e.lease = lid x.c ∨ e.lease = lid x'.c ∨
          (k = x.c.key ∧ e.val = x.c.member)

theorem Guar.of_eq {x x' : Loc} (h : x'.etcd = x.etcd) : Guar x x' :=
  ⟨fun id hl _ _ => by rw [h]; exact hl, fun id hl _ => by rw [← h]; exact hl,
   fun k e he => Or.inl (by rw [h]; exact he)⟩

theorem Guar.trans {x y z : Loc} (h1 : Guar x y) (h2 : Guar y z)
    (hl : lid y.c = lid x.c ∨ lid y.c = lid z.c) (hk : y.c.key = x.c.key) (hm : y.c.member = x.c.member)
    (hg : x.etcd.granted ≤ y.etcd.granted) : Guar x z := by
  constructor
  · intro id h a b
    have hy : id ≠ lid y.c := by rcases hl with e | e <;> rw [e] <;> assumption
    exact h2.live id (h1.live id h a hy) hy b
  · intro id h a
    exact h1.old id (h2.old id h (by omega)) a
  · intro k e he
    rcases h1.recd k e he with r | r | r | r
    · rcases h2.recd k e r with r2 | r2 | r2 | r2
      · exact Or.inl r2
      · rcases hl with e' | e'
        · exact Or.inr (Or.inl (by rw [← e']; exact r2))
        · exact Or.inr (Or.inr (Or.inl (by rw [← e']; exact r2)))
      · exact Or.inr (Or.inr (Or.inl r2))
      · exact Or.inr (Or.inr (Or.inr (by rw [← hk, ← hm]; exact r2)))
    · exact Or.inr (Or.inl r)
    · rcases hl with e' | e'
      · exact Or.inr (Or.inl (by rw [← e']; exact r))
      · exact Or.inr (Or.inr (Or.inl (by rw [← e']; exact r)))
    · exact Or.inr (Or.inr (Or.inr r))

/-- revoking the contender's own lease -/
theorem guar_revoke (x x' : Loc) (h : x'.etcd = x.etcd.revoke (lid x.c)) : Guar x x' := by
  constructor
  · intro id hl a _
    rw [h, revoke_live]; split <;> simp [hl, a]
  · intro id hl _
    rw [h, revoke_live] at hl; split at hl <;> simp_all
  · intro k e he
    rw [h, revoke_kv]
    split
    · simp only [he]
      by_cases hh : e.lease = lid x.c
      · exact Or.inr (Or.inl hh)
      · simp [hh]
    · exact Or.inl he

theorem closeLease_guar (x : Loc) (rv : Bool) : Guar x (closeLease x rv) := by
  cases hl : x.c.lease with
  | none => exact Guar.of_eq (by simp [closeLease, hl])
  | some l =>
    cases rv
    · exact Guar.of_eq (by simp [closeLease, hl])
    · exact guar_revoke _ _ (by simp [closeLease, hl, lid])

theorem resetStep_guar (x : Loc) (rv : Bool) : Guar x (resetStep x rv) := by
  have := closeLease_guar { x with c := { x.c with won := false } } rv
  exact ⟨this.live, this.old, this.recd⟩

/-- a step that changes the store by one operation that is not on a leader key -/
theorem guar_apply_other (x x' : Loc) (op : EOp) (h : x'.etcd = x.etcd.apply1 op)
    (hk : ∀ k, op.key ≠ .leader k) : Guar x x' := by
  constructor
  · intro id hl _ _; rw [h]; simpa using hl
  · intro id hl _; rw [h] at hl; simpa using hl
  · intro k e he; left; rw [h, apply1_kv_other _ _ _ (hk k)]; exact he

theorem grantStep_guar (x : Loc) (ttl extra) : Guar x (grantStep x ttl extra).1 := by
  unfold grantStep
  split
  · exact Guar.of_eq rfl
  · constructor
    · intro id hl _ _; simp [Etcd.grant, hl]
    · intro id hl hle; simp [Etcd.grant] at hl
      rcases hl with hl | hl
      · omega
      · exact hl
    · intro k e he; left; simpa [Etcd.grant] using he

theorem campaignTxn_guar (x : Loc) (l extra f rv) (hl : x.c.lease = some l) :
    Guar x (campaignTxn x l extra f rv).1 := by
  have hr := runTxn_single x.etcd (campaignCmps x.c extra) (.put (.leader x.c.key) x.c.value l.id) f
  unfold campaignTxn
  generalize runTxn x.etcd (campaignCmps x.c extra) [.put (.leader x.c.key) x.c.value l.id] f = r at *
  obtain ⟨e1, o⟩ := r
  -- the transaction itself
  have g1 : Guar x { x with etcd := e1, c := { x.c with pending := none } } := by
    have he1 : e1 = x.etcd ∨ (e1 = x.etcd.apply1 (.put (.leader x.c.key) x.c.value l.id) ∧
        x.etcd.kv (.leader x.c.key) = none) := by
      by_cases h1 : f = .errBefore <;>
        by_cases h2 : (campaignCmps x.c extra).all x.etcd.holds = true <;>
        by_cases h3 : x.etcd.opOk (.put (.leader x.c.key) x.c.value l.id) = true <;>
        by_cases h4 : f = .none <;> simp [h1, h2, h3, h4] at hr
      all_goals first
        | exact Or.inl hr.1
        | (right; refine ⟨hr.1, ?_⟩
           rw [campaignCmps_all] at h2
           simp at h2
           exact h2.2)
    rcases he1 with rfl | ⟨rfl, habs⟩
    · exact Guar.of_eq rfl
    · constructor
      · intro id h _ _; simpa using h
      · intro id h _; simpa using h
      · intro k e he
        left
        simp only [apply1_put_kv]
        split
        · next hk => cases hk; rw [habs] at he; cases he
        · exact he
  cases o
  case ok => exact ⟨g1.live, g1.old, g1.recd⟩
  all_goals
    exact Guar.trans g1 (closeLease_guar _ rv) (Or.inl (by simp [lid])) rfl rfl
      (by
        have : e1.granted = x.etcd.granted := by
          have := congrArg (·.1.granted) hr
          simp only at this
          rw [this]; repeat' split
          all_goals simp
        simp [this])

end PdModel.Election
namespace PdModel.Election
open PdModel.Spec

theorem guar_del_leader (x x' : Loc) (h : x'.etcd = x.etcd.apply1 (.del (.leader x.c.key)))
    (hpre : ∀ y, x.etcd.kv (.leader x.c.key) = some y → y.val = x.c.member) : Guar x x' := by
  constructor
  · intro id hl _ _; rw [h]; simpa using hl
  · intro id hl _; rw [h] at hl; simpa using hl
  · intro k e he
    by_cases hk : k = x.c.key
    · subst hk; exact Or.inr (Or.inr (Or.inr ⟨rfl, hpre e he⟩))
    · left; rw [h, apply1_del_kv]; simp [hk, he]

theorem writeStep_guar (x : Loc) (w f) : Guar x (writeStep x w f).1 := by
  rw [writeStep_eq]
  have hb : ∀ x' : Loc, x'.etcd = x.etcd.apply1 (writeOp x w) → Guar x x' :=
    fun x' h => guar_apply_other x x' _ h (fun k => writeOp_not_leader x w k)
  repeat' split
  all_goals first
    | exact Guar.of_eq rfl
    | exact hb _ rfl

theorem loc_guar (x : Loc) (a : LOp) (hpre : LPre x a) : Guar x (loc x a).1 := by
  cases a with
  | clock t => exact Guar.of_eq rfl
  | campaign ttl extra f rv =>
    simp only [loc]
    split
    · exact Guar.of_eq rfl
    · have hg := grantStep_guar x ttl extra
      have hs := grantStep_lidStep x ttl extra
      have hp := grantStep_parked x ttl extra
      generalize grantStep x ttl extra = r at hg hs hp
      obtain ⟨x1, o⟩ := r
      cases o
      case parked =>
        obtain ⟨hp1, l, hl⟩ := hp rfl
        simp only at hp1 hl hg hs
        have e : finishStep x1 f rv = campaignTxn x1 l extra f rv := by
          simp [finishStep, hp1, hl]
        simp only [e]
        have hk := campaignTxn_keeps x1 l extra f rv
        exact Guar.trans hg (campaignTxn_guar x1 l extra f rv hl) (Or.inr hk.2.1.symm) hs.2.1 hs.2.2.1 hs.1
      all_goals exact hg
  | gcampaign ttl extra =>
    simp only [loc]; split
    · exact Guar.of_eq rfl
    · exact grantStep_guar _ _ _
  | finish f rv =>
    simp only [loc, finishStep]
    split
    · next extra l hp hl => exact campaignTxn_guar x l extra f rv hl
    · exact Guar.of_eq rfl
  | keep =>
    simp only [loc]
    repeat' split
    all_goals exact Guar.of_eq rfl
  | resetl rv =>
    simp only [loc]; split
    · exact Guar.of_eq rfl
    · exact resetStep_guar _ _
  | gresetl pre leader =>
    simp only [loc]; split
    · exact Guar.of_eq rfl
    · cases hl : x.c.lease with
      | none => exact Guar.of_eq rfl
      | some l =>
        cases pre
        · exact guar_revoke _ _ (by simp [lid, hl])
        · exact Guar.of_eq (by simp)
  | rfinish rv =>
    simp only [loc]
    cases hc : x.c.closing with
    | none => exact Guar.of_eq rfl
    | some pl =>
      obtain ⟨pre, leader⟩ := pl
      cases pre
      · exact Guar.of_eq (by simp)
      · cases rv
        · exact Guar.of_eq (by simp)
        · exact guar_revoke _ _ (by simp [lid]; rfl)
  | delkey f rv =>
    simp only [loc]; split
    · exact Guar.of_eq rfl
    · simp only [LPre] at hpre
      have hr := runTxn_single x.etcd [] (.del (.leader x.c.key)) f
      generalize runTxn x.etcd [] [.del (.leader x.c.key)] f = r at hr
      obtain ⟨e1, o⟩ := r
      have he1 : e1 = x.etcd ∨ e1 = x.etcd.apply1 (.del (.leader x.c.key)) := by
        by_cases h1 : f = .errBefore <;> by_cases h4 : f = .none <;> simp [h1, h4, Etcd.opOk] at hr
        all_goals first
          | exact Or.inl hr.1
          | exact Or.inr hr.1
      have g1 : Guar x { x with etcd := e1 } := by
        rcases he1 with rfl | rfl
        · exact Guar.of_eq rfl
        · exact guar_del_leader _ _ rfl hpre.2.2.2
      have hgr : x.etcd.granted ≤ e1.granted := by rcases he1 with rfl | rfl <;> simp
      cases o
      case ok => exact Guar.trans g1 (resetStep_guar _ rv) (Or.inl rfl) rfl rfl hgr
      all_goals exact g1
  | write w f =>
    simp only [loc]; split
    · exact Guar.of_eq rfl
    · exact writeStep_guar _ _ _
  | idalloc f =>
    simp only [loc]; split
    · exact Guar.of_eq rfl
    · split
      · have hk := writeStep_guar x .idRebase f
        generalize writeStep x .idRebase f = r at hk
        obtain ⟨x1, o⟩ := r
        cases o
        case ok => exact ⟨hk.live, hk.old, hk.recd⟩
        all_goals exact hk
      · exact Guar.of_eq rfl
  | check => exact Guar.of_eq rfl
  | isleader => exact Guar.of_eq rfl
  | tso => exact Guar.of_eq rfl
  | enable => exact Guar.of_eq rfl
  | unset => exact Guar.of_eq rfl
  | observe =>
    simp only [loc]
    split
    · exact Guar.of_eq rfl
    · split
      · exact Guar.of_eq rfl
      · split
        · next y hy hv =>
          have g1 : Guar x { x with etcd := x.etcd.apply1 (.del (.leader x.c.key)) } :=
            guar_del_leader _ _ rfl (fun y' hy' => by rw [hy] at hy'; cases hy'; exact hv)
          exact Guar.trans g1 (resetStep_guar _ true) (Or.inl rfl) rfl rfl (by simp)
        · exact Guar.of_eq rfl
  | unwatch => simp only [loc]; split <;> exact Guar.of_eq rfl
  | tsoreset => exact Guar.of_eq rfl
  | stepdown rv =>
    simp only [loc]; split
    · exact Guar.of_eq rfl
    · have g1 := resetStep_guar { x with c := { x.c with cache := 0, tsoInit := false } } rv
      have k1 := resetStep_keeps { x with c := { x.c with cache := 0, tsoInit := false } } rv
      have g2 := resetStep_guar (resetStep { x with c := { x.c with cache := 0, tsoInit := false } } rv) rv
      have g12 := Guar.trans g1 g2 (Or.inl k1.2.1) k1.2.2.1 k1.2.2.2.1 (Nat.le_of_eq k1.1.symm)
      exact ⟨g12.live, g12.old, g12.recd⟩
  | crash => simp only [loc]; split <;> exact Guar.of_eq rfl

end PdModel.Election
namespace PdModel.Election
open PdModel.Spec

/-- the invariant of faithful executions -/
structure InvF (s : St) : Prop where
  inv0 : Inv0 s
  lf   : ∀ (i : Nat) (c : Cont), s.conts[i]? = some c → LF s.etcd c
  distinct : ∀ (i j : Nat) (ci cj : Cont), i ≠ j → s.conts[i]? = some ci → s.conts[j]? = some cj →
    ¬ (ci.key = cj.key ∧ ci.member = cj.member)

theorem invF_init : InvF init := ⟨inv0_init, by simp [init], by simp [init]⟩

/-- a bystander keeps its invariant across a call of another contender -/
theorem LF_other (x x' : Loc) (cj : Cont) (g : Guar x x') (h : LF x.etcd cj)
    (h1 : lid cj ≠ 0 → lid cj ≠ lid x.c ∧ lid cj ≠ lid x'.c)
    (hle : lid cj ≤ x.etcd.granted)
    (hd : ¬ (cj.key = x.c.key ∧ cj.member = x.c.member)) : LF x'.etcd cj := by
  refine ⟨?_, ?_, h.serve, h.pend, h.mem, h.clos⟩
  · intro l hl hne hex
    have hlid : lid cj = l.id := by simp [lid, hl]
    have := h1 (by rw [hlid]; exact hne)
    exact g.live l.id (h.live l hl hne hex) (by rw [← hlid]; exact this.1) (by rw [← hlid]; exact this.2)
  · intro hw
    obtain ⟨l, hl, hne, hp, hr⟩ := h.won hw
    refine ⟨l, hl, hne, hp, fun hlive' => ?_⟩
    have hlid : lid cj = l.id := by simp [lid, hl]
    have hn := h1 (by rw [hlid]; exact hne)
    have hlive := g.old l.id hlive' (by rw [← hlid]; exact hle)
    rcases g.recd cj.key _ (hr hlive) with r | r | r | r
    · exact r
    · exact absurd (by rw [hlid]; exact r) hn.1
    · exact absurd (by rw [hlid]; exact r) hn.2
    · exact absurd ⟨r.1, r.2⟩ hd

theorem viewOf_getElem (s : St) (i : Nat) : (snapOf s).views[i]? = (s.conts[i]?).map viewOf := by
  simp [snapOf]

theorem faithful_LPre (s : St) (i : Nat) (c : Cont) (a : LOp) (hc : s.conts[i]? = some c)
    (hf : faithful s (.on i a) = true) : LPre ⟨s.etcd, s.stamp, c⟩ a := by
  have hv := viewOf_getElem s i
  rw [hc] at hv
  simp only [Option.map_some] at hv
  have hmem : c ∈ s.conts := List.mem_of_getElem? hc
  cases a
  case delkey f rv =>
    simp only [faithful, actOf, C03.Act.ok, hv, Bool.and_eq_true, Bool.not_eq_true'] at hf
    obtain ⟨⟨⟨a1, a2⟩, a3⟩, a4⟩ := hf
    refine ⟨a1, ?_, a3, ?_⟩
    · simpa [viewOf] using a2
    · intro y hy
      have e : (viewOf c).key = c.key := rfl
      rw [e, snapOf_recOf s c hmem, hy] at a4
      simpa [viewOf] using a4
  case write w f =>
    cases w <;> simp only [LPre]
    simp only [faithful, actOf, C03.Act.ok, hv] at hf
    exact hf
  all_goals
    first
      | (simp only [LPre]; done)
      | (simp only [faithful, actOf, C03.Act.ok, hv, Bool.and_eq_true, Bool.not_eq_true', decide_eq_true_eq] at hf
         simp only [LPre]
         first
           | exact hf
           | (refine ⟨?_, hf.2⟩; simpa [viewOf] using hf.1)
           | (refine ⟨hf.1.1, ?_, hf.2⟩; simpa [viewOf] using hf.1.2))

end PdModel.Election
namespace PdModel.Election
open PdModel.Spec

theorem lid_viewOf (c : Cont) : (viewOf c).lease = lid c := rfl

theorem invF_step0 (s : St) (h : InvF s) (op : Op) (hf : faithful s op = true) : InvF (step0 s op).1 := by
  have h0 := inv0_step0 s h.inv0 op
  cases op with
  | new k m =>
    simp only [faithful, actOf, C03.Act.ok, Bool.and_eq_true, bne_iff_ne, ne_eq, List.all_eq_true,
      Bool.not_eq_true', Bool.and_eq_false_iff, beq_eq_false_iff_ne] at hf
    obtain ⟨hm, hall⟩ := hf
    have hget : ∀ (j : Nat) (c' : Cont), (step0 s (.new k m)).1.conts[j]? = some c' →
        s.conts[j]? = some c' ∨ (j = s.conts.length ∧ c' = { key := k, member := m }) := by
      intro j c' hc'
      simp only [step0] at hc'
      rw [List.getElem?_append] at hc'
      split at hc'
      · exact Or.inl hc'
      · next hlt =>
        right
        cases hj : j - s.conts.length with
        | zero => simp [hj] at hc'; exact ⟨by omega, hc'.symm⟩
        | succ n => simp [hj] at hc'
    have hlt : ∀ (j : Nat) (c' : Cont), s.conts[j]? = some c' → j < s.conts.length := by
      intro j c' hc'
      by_cases hh : j < s.conts.length
      · exact hh
      · have := List.getElem?_eq_none_iff.2 (Nat.le_of_not_lt hh); simp_all
    have hnew : ∀ (j : Nat) (cj : Cont), s.conts[j]? = some cj → ¬ (cj.key = k ∧ cj.member = m) := by
      intro j cj hcj
      have hv : viewOf cj ∈ (snapOf s).views := by
        simp only [snapOf]; exact List.mem_map.2 ⟨cj, List.mem_of_getElem? hcj, rfl⟩
      have := hall _ hv
      intro ⟨a, b⟩
      rcases this with t | t
      · exact t a
      · exact t b
    refine ⟨h0, ?_, ?_⟩
    · intro j c' hc'
      rcases hget j c' hc' with hc | ⟨_, rfl⟩
      · exact h.lf j c' hc
      · exact ⟨by simp, by simp, by simp [Cont.check], by simp, hm, by simp⟩
    · intro i j ci cj hij hci hcj
      rcases hget i ci hci with hi | ⟨hi, rfl⟩ <;> rcases hget j cj hcj with hj | ⟨hj, rfl⟩
      · exact h.distinct i j ci cj hij hi hj
      · intro ⟨a, b⟩; exact hnew i ci hi ⟨a, b⟩
      · intro ⟨a, b⟩; exact hnew j cj hj ⟨a.symm, b.symm⟩
      · omega
  | expire id =>
    simp only [faithful, actOf, C03.Act.ok, List.all_eq_true, Bool.or_eq_true, bne_iff_ne, ne_eq,
      Bool.not_eq_true'] at hf
    refine ⟨h0, ?_, h.distinct⟩
    intro j c hc
    have hlf := h.lf j c hc
    have hv : viewOf c ∈ (snapOf s).views := by
      simp only [snapOf]; exact List.mem_map.2 ⟨c, List.mem_of_getElem? hc, rfl⟩
    have hx := hf _ hv
    rw [lid_viewOf] at hx
    simp only [step0]
    refine ⟨?_, ?_, hlf.serve, hlf.pend, hlf.mem, hlf.clos⟩
    · intro l hl hne hex
      have hlid : lid c = l.id := by simp [lid, hl]
      have hlive := hlf.live l hl hne hex
      rw [revoke_live]
      split
      · rcases hx with hx | hx
        · rw [← hlid] at hlive ⊢; simp [hlive, hx]
        · exfalso
          simp [viewOf, Cont.check, hl, hex] at hx
      · exact hlive
    · intro hw
      obtain ⟨l, hl, hne, hp, hr⟩ := hlf.won hw
      refine ⟨l, hl, hne, hp, fun hlive' => ?_⟩
      rw [revoke_live] at hlive'
      rw [revoke_kv]
      split at hlive'
      · next hcond =>
        simp only [hcond, if_true]
        simp at hlive'
        rw [hr hlive'.2]
        simp [hlive'.1]
      · next hcond => simp only [hcond]; exact hr hlive'
  | rawgrant =>
    refine ⟨h0, ?_, h.distinct⟩
    intro j c hc
    have hlf := h.lf j c hc
    simp only [step0, Etcd.grant]
    refine ⟨?_, ?_, hlf.serve, hlf.pend, hlf.mem, hlf.clos⟩
    · intro l hl hne hex; simp [hlf.live l hl hne hex]
    · intro hw
      obtain ⟨l, hl, hne, hp, hr⟩ := hlf.won hw
      refine ⟨l, hl, hne, hp, fun hlive' => ?_⟩
      have hle := h.inv0.le j c hc
      simp [lid, hl] at hle
      simp at hlive'
      rcases hlive' with e | e
      · omega
      · exact hr e
  | rawtxn cm t e =>
    simp only [faithful, actOf, C03.Act.ok, Bool.not_eq_true', List.any_eq_false] at hf
    have hk : ∀ k, (s.etcd.txn cm t e).1.kv (.leader k) = s.etcd.kv (.leader k) := by
      intro k
      apply txn_kv_of_not_mem
      intro o ho hkey
      have := hf o ho
      simp [hkey, Key.isLeader] at this
    have hl : (s.etcd.txn cm t e).1.live = s.etcd.live := txn_live _ _ _ _
    have hconts : (step0 s (.rawtxn cm t e)).1.conts = s.conts ∧
        (step0 s (.rawtxn cm t e)).1.etcd = (s.etcd.txn cm t e).1 := by
      simp only [step0]
      generalize s.etcd.txn cm t e = r
      obtain ⟨e1, o⟩ := r
      cases o <;> exact ⟨rfl, rfl⟩
    refine ⟨h0, ?_, by rw [hconts.1]; exact h.distinct⟩
    intro j c hc
    rw [hconts.1] at hc
    rw [hconts.2]
    exact LF_of_etcd_eq _ _ _ (h.lf j c hc) hl (hk _)
  | on i a =>
    cases hi : s.conts[i]? with
    | none => simp only [step0, hi]; exact h
    | some c =>
      have e := step0_on s i c a hi
      have hpre := faithful_LPre s i c a hi hf
      have hstep := loc_lidStep ⟨s.etcd, s.stamp, c⟩ a
      have hg := loc_guar ⟨s.etcd, s.stamp, c⟩ a hpre
      have hl := loc_LF ⟨s.etcd, s.stamp, c⟩ a (h.lf i c hi) (h.inv0.wf i c hi) hpre
      rw [e] at h0 ⊢
      refine ⟨h0, ?_, ?_⟩
      · intro j c' hc'
        rcases set_cases _ _ _ _ _ hc' with ⟨rfl, rfl⟩ | ⟨hne, hj⟩
        · exact hl
        · apply LF_other _ _ c' hg (h.lf j c' hj) _ (h.inv0.le j c' hj) (h.distinct j i c' c hne hj hi)
          intro hnz
          refine ⟨h.inv0.uniq j i c' c hne hj hi hnz, ?_⟩
          rcases hstep.2.2.2.2 with e1 | e1 | e1
          · rw [e1]; exact h.inv0.uniq j i c' c hne hj hi hnz
          · rw [e1]; exact hnz
          · rw [e1.1]; have := h.inv0.le j c' hj; simp only at this ⊢; omega
      · intro j k cj ck hjk hcj hck
        have key : ∀ (n : Nat) (cn : Cont), (s.conts.set i (loc ⟨s.etcd, s.stamp, c⟩ a).1.c)[n]? = some cn →
            ∃ c0 : Cont, s.conts[n]? = some c0 ∧ cn.key = c0.key ∧ cn.member = c0.member := by
          intro n cn hcn
          rcases set_cases _ _ _ _ _ hcn with ⟨rfl, rfl⟩ | ⟨_, hn⟩
          · exact ⟨c, hi, hstep.2.1, hstep.2.2.1⟩
          · exact ⟨cn, hn, rfl, rfl⟩
        obtain ⟨c1, h1, k1, m1⟩ := key j cj hcj
        obtain ⟨c2, h2, k2, m2⟩ := key k ck hck
        rw [k1, k2, m1, m2]
        exact h.distinct j k c1 c2 hjk h1 h2

theorem invF_step (s : St) (h : InvF s) (op : Op) (hf : faithful s op = true) : InvF (step s op).1 := by
  have h1 := invF_step0 s h op hf
  have h0 := inv0_step s h.inv0 op
  simp only [step] at h0 ⊢
  generalize (step0 s op).1 = s1 at h1 h0
  refine ⟨h0, ?_, ?_⟩
  · intro j c' hc'
    obtain ⟨c, hc, e1, e2, e3, e4, e5, e6, e7, e8, e9, e10⟩ := fireWatchers_getElem _ _ _ _ hc'
    have hlf := h1.lf j c hc
    simp only [fireWatchers_etcd]
    refine ⟨?_, ?_, ?_, ?_, by rw [e3]; exact hlf.mem, by rw [e10, e7, e8, e1]; exact hlf.clos⟩
    · intro l hl hne hex; rw [e1] at hl; rw [e5] at hex; exact hlf.live l hl hne hex
    · intro hw; rw [e7] at hw
      obtain ⟨l, hl, hne, hp, hr⟩ := hlf.won hw
      exact ⟨l, by rw [e1]; exact hl, hne, by rw [e8]; exact hp, by rw [e2, e3]; exact hr⟩
    · intro hs hc2
      have hck : c'.check = c.check := by simp [Cont.check, e1, e5]
      rw [e7]
      apply hlf.serve _ (by rw [← hck]; exact hc2)
      rcases hs with hs | hs
      · exact Or.inl (by rw [← e6]; exact hs)
      · rcases e9 with e9 | e9
        · exact Or.inr (by rw [← e9, ← e3]; exact hs)
        · exfalso; rw [e9, e3] at hs; exact hlf.mem hs.symm
    · intro hp; rw [e8] at hp; rw [e4, e3, e7]; exact hlf.pend hp
  · intro j k cj ck hjk hcj hck
    obtain ⟨c1, h1', _, k1, m1, _⟩ := fireWatchers_getElem _ _ _ _ hcj
    obtain ⟨c2, h2', _, k2, m2, _⟩ := fireWatchers_getElem _ _ _ _ hck
    rw [k1, k2, m1, m2]
    exact h1.distinct j k c1 c2 hjk h1' h2'

/-- every step of the history respects the environment assumptions -/
def faithfulRun : St → List Op → Bool
  | _, [] => true
  | s, op :: ops => faithful s op && faithfulRun (step s op).1 ops

theorem invF_run (s : St) (h : InvF s) (ops : List Op) (hf : faithfulRun s ops = true) :
    InvF (run s ops) := by
  induction ops generalizing s with
  | nil => exact h
  | cons op ops ih =>
    simp only [faithfulRun, Bool.and_eq_true] at hf
    simp only [run, List.foldl_cons]
    exact ih _ (invF_step s h op hf.1) hf.2

end PdModel.Election
