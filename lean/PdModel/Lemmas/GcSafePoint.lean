import PdModel.Model.GcSafePoint
import PdModel.Spec.C15
set_option linter.unusedSimpArgs false
set_option linter.unusedVariables false
/-!
Cluster safe point: the observable events of a model history, the inductive invariant of the
repaired (atomic) handler and its preservation by every micro-step.
-/
namespace PdModel.GcSafePoint
open PdModel.Spec

/-- event ids: update request `r` ↦ `2r`, the `k`-th read ↦ `2k+1` -/
def uid (r : Nat) : Nat := 2 * r
def gid (k : Nat) : Nat := 2 * k + 1

/-- what clients and an observer of the storage see of one micro-step -/
def evOf (s : CSt) (op : COp) : List C15.Ev :=
  (match op, (cstep s op).2 with
   | .begin _, _ => [C15.Ev.begin (uid s.reqs.length)]
   | .load i _, .done a => [C15.Ev.resp (uid i) a]
   | .save i _, .done a => [C15.Ev.resp (uid i) a]
   | .get, .ok v => [C15.Ev.begin (gid s.gets), C15.Ev.resp (gid s.gets) v]
   | _, _ => []) ++ [C15.Ev.stored (cstep s op).1.stored]

def events : CSt → List COp → List C15.Ev
  | _, [] => []
  | s, op :: ops => evOf s op ++ events (cstep s op).1 ops

/-- invariant of the atomic handler -/
structure Inv (s : CSt) : Prop where
  atomic : s.atomic = true
  ackLe  : s.maxAck ≤ s.stored
  floor  : ∀ (r : Nat) (x : Req), s.reqs[r]? = some x → x.floor ≤ s.maxAck
  holds  : ∀ (r : Nat) (x : Req), s.reqs[r]? = some x →
             (x.phase = .atLoad ∨ ∃ old, x.phase = .atSave old) → s.holder = some r
  saved  : ∀ (r : Nat) (x : Req) (old : Nat), s.reqs[r]? = some x → x.phase = .atSave old →
             old = s.stored ∧ old < x.val

theorem inv_init : Inv (cinit true) := by
  constructor <;> simp [cinit]

theorem set_cases {α} (l : List α) (i j : Nat) (a b : α)
    (h : (l.set i a)[j]? = some b) : (j = i ∧ b = a) ∨ (j ≠ i ∧ l[j]? = some b) := by
  grind

theorem append_cases {α} (l : List α) (a b : α) (j : Nat)
    (h : (l ++ [a])[j]? = some b) : l[j]? = some b ∨ (j = l.length ∧ b = a) := by
  rcases C15.getElem?_snoc_cases l a b j h with ⟨_, h⟩ | ⟨h1, h2⟩
  · exact Or.inl h
  · exact Or.inr ⟨h1, h2⟩

/-- the relation between the summary of the events so far and the model state -/
structure Rel (s : CSt) (p : List C15.Ev) : Prop where
  st  : (C15.summ p).maxStored ≤ s.stored
  rs  : (C15.summ p).maxResp ≤ s.maxAck
  fl  : ∀ (id f : Nat), (id, f) ∈ (C15.summ p).floors → f ≤ s.maxAck
  fr  : ∀ (r f : Nat), (uid r, f) ∈ (C15.summ p).floors → ∃ x : Req, s.reqs[r]? = some x ∧ f ≤ x.floor

theorem rel_nil : Rel (cinit true) [] := by
  constructor <;> simp [C15.summ, cinit]

/-- append an observation of the stored value -/
theorem push_stored (s : CSt) (p : List C15.Ev) (v : Nat) (hp : C15.Holds p)
    (h : (C15.summ p).maxStored ≤ v) :
    C15.Holds (p ++ [.stored v]) ∧ C15.summ (p ++ [.stored v]) = { C15.summ p with maxStored := v } := by
  refine ⟨(C15.holds_snoc p _).2 ⟨hp, by simp [C15.okNext, h]⟩, ?_⟩
  rw [C15.summ_snoc]; simp [C15.Sum.push, Nat.max_eq_right h]

theorem push_begin (p : List C15.Ev) (id : Nat) (hp : C15.Holds p) :
    C15.Holds (p ++ [.begin id]) ∧
    C15.summ (p ++ [.begin id]) = { C15.summ p with floors := (id, (C15.summ p).maxResp) :: (C15.summ p).floors } := by
  refine ⟨(C15.holds_snoc p _).2 ⟨hp, rfl⟩, ?_⟩
  rw [C15.summ_snoc]; simp [C15.Sum.push]

theorem push_resp (p : List C15.Ev) (id v : Nat) (hp : C15.Holds p)
    (h : ∀ f, (id, f) ∈ (C15.summ p).floors → f ≤ v) :
    C15.Holds (p ++ [.resp id v]) ∧
    C15.summ (p ++ [.resp id v]) = { C15.summ p with maxResp := max (C15.summ p).maxResp v } := by
  refine ⟨(C15.holds_snoc p _).2 ⟨hp, ?_⟩, ?_⟩
  · simp only [C15.okNext, List.all_eq_true, Bool.or_eq_true, bne_iff_ne, ne_eq, decide_eq_true_eq]
    rintro ⟨a, f⟩ hf
    by_cases ha : a = id
    · right; subst ha; exact h f hf
    · left; exact ha
  · rw [C15.summ_snoc]; simp [C15.Sum.push]


/-- closing every step: the observer reads the stored value -/
theorem close (s' : CSt) (q : List C15.Ev) (hq : C15.Holds q) (h : Rel s' q) :
    C15.Holds (q ++ [.stored s'.stored]) ∧ Rel s' (q ++ [.stored s'.stored]) := by
  obtain ⟨h1, h2⟩ := push_stored s' q s'.stored hq h.st
  refine ⟨h1, ?_⟩
  constructor
  · rw [h2]; exact Nat.le_refl _
  · rw [h2]; exact h.rs
  · rw [h2]; exact h.fl
  · rw [h2]; exact h.fr

theorem lt_len {α} (l : List α) (r : Nat) (x : α) (h : l[r]? = some x) : r < l.length :=
  C15.lt_length_of_getElem? l r x h

/-- the request `r` answers (error or value) and releases the mutex: invariant and relation for the
    part that does not depend on the answer -/
theorem inv_finish (s : CSt) (hi : Inv s) (r : Nat) (x : Req) (hx : s.reqs[r]? = some x)
    (hh : s.holder = some r) (ack : Option Nat) (st : Nat) (hst : s.stored ≤ st)
    (hack : ∀ a, ack = some a → a ≤ st) :
    Inv (finish { s with stored := st } r x ack) := by
  have hat := hi.atomic
  constructor
  · simp [finish, hat]
  · simp only [finish]
    have := hi.ackLe
    cases ack with
    | none => simp only; omega
    | some a => have := hack a rfl; simp only; omega
  · intro r' y hy
    cases ack with
    | none =>
      simp only [finish] at hy ⊢
      rcases set_cases _ _ _ _ _ hy with ⟨rfl, rfl⟩ | ⟨_, h2⟩
      · exact hi.floor _ x hx
      · exact hi.floor _ y h2
    | some a =>
      simp only [finish] at hy ⊢
      rcases set_cases _ _ _ _ _ hy with ⟨rfl, rfl⟩ | ⟨_, h2⟩
      · have := hi.floor _ x hx; simp only; omega
      · have := hi.floor _ y h2; omega
  · intro r' y hy hph
    simp only [finish] at hy
    rcases set_cases _ _ _ _ _ hy with ⟨rfl, rfl⟩ | ⟨hne, h2⟩
    · rcases hph with h | ⟨o, h⟩ <;> simp at h
    · have := hi.holds r' y h2 hph
      rw [hh] at this; simp at this; exact absurd this.symm hne
  · intro r' y old hy hph
    simp only [finish] at hy
    rcases set_cases _ _ _ _ _ hy with ⟨rfl, rfl⟩ | ⟨hne, h2⟩
    · simp at hph
    · have := hi.holds r' y h2 (Or.inr ⟨old, hph⟩)
      rw [hh] at this; simp at this; exact absurd this.symm hne

theorem rel_finish (s : CSt) (p : List C15.Ev) (hr : Rel s p) (r : Nat) (x : Req)
    (hx : s.reqs[r]? = some x) (st : Nat) (hst : s.stored ≤ st) :
    Rel (finish { s with stored := st } r x none) p := by
  constructor
  · have := hr.st; simp only [finish]; omega
  · exact hr.rs
  · exact hr.fl
  · intro r' f hf
    obtain ⟨y, hy, hfy⟩ := hr.fr r' f hf
    simp only [finish]
    by_cases h : r' = r
    · subst h
      rw [hx] at hy; cases hy
      exact ⟨{ x with phase := .done none }, by simp [List.getElem?_set, lt_len _ _ _ hx], hfy⟩
    · exact ⟨y, by rw [List.getElem?_set_ne (Ne.symm h)]; exact hy, hfy⟩

/-- answering request `r` with value `a` -/
theorem rel_finish_ack (s : CSt) (p : List C15.Ev) (hi : Inv s) (hr : Rel s p) (hp : C15.Holds p)
    (r : Nat) (x : Req) (hx : s.reqs[r]? = some x) (st a : Nat) (hst : s.stored ≤ st)
    (ha : s.stored ≤ a) :
    C15.Holds (p ++ [.resp (uid r) a]) ∧
    Rel (finish { s with stored := st } r x (some a)) (p ++ [.resp (uid r) a]) := by
  have hfl : ∀ f, (uid r, f) ∈ (C15.summ p).floors → f ≤ a := by
    intro f hf
    obtain ⟨y, hy, hfy⟩ := hr.fr r f hf
    rw [hx] at hy; cases hy
    have := hi.floor r x hx
    have := hi.ackLe
    omega
  obtain ⟨h1, h2⟩ := push_resp p (uid r) a hp hfl
  refine ⟨h1, ?_⟩
  constructor
  · rw [h2]; have := hr.st; simp only [finish]; omega
  · rw [h2]; have := hr.rs; simp only [finish]; omega
  · rw [h2]; intro id f hf; have := hr.fl id f hf; simp only [finish]; omega
  · rw [h2]; intro r' f hf
    obtain ⟨y, hy, hfy⟩ := hr.fr r' f hf
    simp only [finish]
    by_cases h : r' = r
    · subst h
      rw [hx] at hy; cases hy
      exact ⟨{ x with phase := .done (some a) }, by simp [List.getElem?_set, lt_len _ _ _ hx], hfy⟩
    · exact ⟨y, by rw [List.getElem?_set_ne (Ne.symm h)]; exact hy, hfy⟩


/-- the relation only looks at stored value, largest acknowledgement and the floors of the requests -/
theorem rel_transfer (s s' : CSt) (p : List C15.Ev) (hr : Rel s p) (h1 : s.stored ≤ s'.stored)
    (h2 : s.maxAck ≤ s'.maxAck)
    (h3 : ∀ (r : Nat) (x : Req), s.reqs[r]? = some x → ∃ y : Req, s'.reqs[r]? = some y ∧ x.floor ≤ y.floor) :
    Rel s' p := by
  constructor
  · have := hr.st; omega
  · have := hr.rs; omega
  · intro id f hf; have := hr.fl id f hf; omega
  · intro r f hf
    obtain ⟨x, hx, hfx⟩ := hr.fr r f hf
    obtain ⟨y, hy, hxy⟩ := h3 r x hx
    exact ⟨y, hy, by omega⟩

theorem set_floor (l : List Req) (r : Nat) (x : Req) (hx : l[r]? = some x) (x' : Req) (hf : x.floor ≤ x'.floor) :
    ∀ (r' : Nat) (y : Req), l[r']? = some y → ∃ y' : Req, (l.set r x')[r']? = some y' ∧ y.floor ≤ y'.floor := by
  intro r' y hy
  by_cases h : r' = r
  · subst h
    rw [hx] at hy; cases hy
    exact ⟨x', by simp [List.getElem?_set, lt_len _ _ _ hx], hf⟩
  · exact ⟨y, by rw [List.getElem?_set_ne (Ne.symm h)]; exact hy, Nat.le_refl _⟩

/-- the part of a step before the observer reads the storage -/
def respPart (s : CSt) (op : COp) : List C15.Ev :=
  match op, (cstep s op).2 with
  | .begin _, _ => [C15.Ev.begin (uid s.reqs.length)]
  | .load i _, .done a => [C15.Ev.resp (uid i) a]
  | .save i _, .done a => [C15.Ev.resp (uid i) a]
  | .get, .ok v => [C15.Ev.begin (gid s.gets), C15.Ev.resp (gid s.gets) v]
  | _, _ => []

theorem evOf_eq (s : CSt) (op : COp) : evOf s op = respPart s op ++ [C15.Ev.stored (cstep s op).1.stored] := rfl

theorem step_begin (s : CSt) (p : List C15.Ev) (v : Nat) (hi : Inv s) (hr : Rel s p) (hp : C15.Holds p) :
    Inv (cstep s (.begin v)).1 ∧ C15.Holds (p ++ respPart s (.begin v)) ∧
    Rel (cstep s (.begin v)).1 (p ++ respPart s (.begin v)) := by
  have hat := hi.atomic
  obtain ⟨h1, h2⟩ := push_begin p (uid s.reqs.length) hp
  have hrel : ∀ (s' : CSt) (ph : Phase), s'.stored = s.stored → s'.maxAck = s.maxAck →
      s'.reqs = s.reqs ++ [{ val := v, phase := ph, floor := s.maxAck }] →
      Rel s' (p ++ [.begin (uid s.reqs.length)]) := by
    intro s' ph e1 e2 e3
    constructor
    · rw [h2, e1]; exact hr.st
    · rw [h2, e2]; exact hr.rs
    · rw [h2, e2]; intro id f hf
      simp only [List.mem_cons, Prod.mk.injEq] at hf
      rcases hf with ⟨_, rfl⟩ | hf
      · exact hr.rs
      · exact hr.fl id f hf
    · rw [h2, e3]; intro r f hf
      simp only [List.mem_cons, Prod.mk.injEq] at hf
      rcases hf with ⟨hid, rfl⟩ | hf
      · have : r = s.reqs.length := by simp only [uid] at hid; omega
        subst this
        exact ⟨{ val := v, phase := ph, floor := s.maxAck }, by simp, hr.rs⟩
      · obtain ⟨y, hy, hfy⟩ := hr.fr r f hf
        exact ⟨y, by rw [List.getElem?_append_left (lt_len _ _ _ hy)]; exact hy, hfy⟩
  simp only [respPart, cstep]
  split
  · next hh =>
    refine ⟨?_, h1, hrel _ .waiting rfl rfl rfl⟩
    constructor
    · exact hat
    · exact hi.ackLe
    · intro r x hx
      rcases append_cases _ _ _ _ hx with h | ⟨_, rfl⟩
      · exact hi.floor r x h
      · exact Nat.le_refl _
    · intro r x hx hph
      rcases append_cases _ _ _ _ hx with h | ⟨_, rfl⟩
      · exact hi.holds r x h hph
      · rcases hph with h | ⟨o, h⟩ <;> simp at h
    · intro r x old hx hph
      rcases append_cases _ _ _ _ hx with h | ⟨_, rfl⟩
      · exact hi.saved r x old h hph
      · simp at hph
  · next hh =>
    have hnone : s.holder = none := by
      cases hs : s.holder with
      | none => rfl
      | some a => simp [hs, hat] at hh
    refine ⟨?_, h1, hrel _ .atLoad rfl rfl rfl⟩
    constructor
    · exact hat
    · exact hi.ackLe
    · intro r x hx
      rcases append_cases _ _ _ _ hx with h | ⟨_, rfl⟩
      · exact hi.floor r x h
      · exact Nat.le_refl _
    · intro r x hx hph
      rcases append_cases _ _ _ _ hx with h | ⟨hr', rfl⟩
      · have := hi.holds r x h hph; rw [hnone] at this; cases this
      · simp [hr', hat]
    · intro r x old hx hph
      rcases append_cases _ _ _ _ hx with h | ⟨_, rfl⟩
      · exact hi.saved r x old h hph
      · simp at hph

theorem step_acquire (s : CSt) (p : List C15.Ev) (r : Nat) (hi : Inv s) (hr : Rel s p) (hp : C15.Holds p) :
    Inv (cstep s (.acquire r)).1 ∧ C15.Holds (p ++ respPart s (.acquire r)) ∧
    Rel (cstep s (.acquire r)).1 (p ++ respPart s (.acquire r)) := by
  simp only [respPart, List.append_nil, cstep]
  split
  · next x hx =>
    split
    · next hc =>
      refine ⟨?_, hp, rel_transfer s _ p hr (Nat.le_refl _) (Nat.le_refl _)
        (set_floor s.reqs r x hx _ (Nat.le_refl _))⟩
      constructor
      · exact hi.atomic
      · exact hi.ackLe
      · intro r' y hy
        simp only [setReq] at hy
        rcases set_cases _ _ _ _ _ hy with ⟨rfl, rfl⟩ | ⟨_, h2⟩
        · exact hi.floor _ x hx
        · exact hi.floor _ y h2
      · intro r' y hy hph
        simp only [setReq] at hy
        rcases set_cases _ _ _ _ _ hy with ⟨rfl, rfl⟩ | ⟨_, h2⟩
        · rfl
        · have := hi.holds r' y h2 hph; rw [hc.2] at this; cases this
      · intro r' y old hy hph
        simp only [setReq] at hy
        rcases set_cases _ _ _ _ _ hy with ⟨rfl, rfl⟩ | ⟨_, h2⟩
        · simp at hph
        · exact hi.saved r' y old h2 hph
    · exact ⟨hi, hp, hr⟩
  · exact ⟨hi, hp, hr⟩

theorem step_load (s : CSt) (p : List C15.Ev) (r : Nat) (f : Fault) (hi : Inv s) (hr : Rel s p)
    (hp : C15.Holds p) :
    Inv (cstep s (.load r f)).1 ∧ C15.Holds (p ++ respPart s (.load r f)) ∧
    Rel (cstep s (.load r f)).1 (p ++ respPart s (.load r f)) := by
  simp only [respPart, cstep]
  split
  · next x hx =>
    split
    · next hph =>
      have hh : s.holder = some r := hi.holds r x hx (Or.inl hph)
      split
      · -- storage error
        have h1 := inv_finish s hi r x hx hh none s.stored (Nat.le_refl _) (by simp)
        have h2 := rel_finish s p hr r x hx s.stored (Nat.le_refl _)
        simp only [List.append_nil]
        exact ⟨h1, hp, h2⟩
      · split
        · -- larger value: go on to the save
          simp only [List.append_nil]
          refine ⟨?_, hp, rel_transfer s _ p hr (Nat.le_refl _) (Nat.le_refl _)
            (set_floor s.reqs r x hx _ (Nat.le_refl _))⟩
          next hgt =>
          constructor
          · exact hi.atomic
          · exact hi.ackLe
          · intro r' y hy
            simp only [setReq] at hy
            rcases set_cases _ _ _ _ _ hy with ⟨rfl, rfl⟩ | ⟨_, h2⟩
            · exact hi.floor _ x hx
            · exact hi.floor _ y h2
          · intro r' y hy hph'
            simp only [setReq] at hy
            rcases set_cases _ _ _ _ _ hy with ⟨rfl, rfl⟩ | ⟨_, h2⟩
            · exact hh
            · exact hi.holds r' y h2 hph'
          · intro r' y old hy hph'
            simp only [setReq] at hy
            rcases set_cases _ _ _ _ _ hy with ⟨rfl, rfl⟩ | ⟨_, h2⟩
            · simp only [Phase.atSave.injEq] at hph'; subst hph'; exact ⟨rfl, hgt⟩
            · exact hi.saved r' y old h2 hph'
        · -- not larger: answer the stored value
          have h1 := inv_finish s hi r x hx hh (some s.stored) s.stored (Nat.le_refl _) (by simp)
          obtain ⟨h2, h3⟩ := rel_finish_ack s p hi hr hp r x hx s.stored s.stored (Nat.le_refl _) (Nat.le_refl _)
          exact ⟨h1, h2, h3⟩
    · simp only [List.append_nil]; exact ⟨hi, hp, hr⟩
  · simp only [List.append_nil]; exact ⟨hi, hp, hr⟩

theorem step_save (s : CSt) (p : List C15.Ev) (r : Nat) (f : Fault) (hi : Inv s) (hr : Rel s p)
    (hp : C15.Holds p) :
    Inv (cstep s (.save r f)).1 ∧ C15.Holds (p ++ respPart s (.save r f)) ∧
    Rel (cstep s (.save r f)).1 (p ++ respPart s (.save r f)) := by
  simp only [respPart, cstep]
  split
  · next x hx =>
    split
    · next old hph =>
      have hh : s.holder = some r := hi.holds r x hx (Or.inr ⟨old, hph⟩)
      obtain ⟨ho, hlt⟩ := hi.saved r x old hx hph
      cases f with
      | before =>
        have h1 := inv_finish s hi r x hx hh none s.stored (Nat.le_refl _) (by simp)
        have h2 := rel_finish s p hr r x hx s.stored (Nat.le_refl _)
        simp only [List.append_nil]
        exact ⟨h1, hp, h2⟩
      | after =>
        have h1 := inv_finish s hi r x hx hh none x.val (by omega) (by simp)
        have h2 := rel_finish s p hr r x hx x.val (by omega)
        simp only [List.append_nil]
        exact ⟨h1, hp, h2⟩
      | none =>
        have h1 := inv_finish s hi r x hx hh (some x.val) x.val (by omega) (by simp)
        obtain ⟨h2, h3⟩ := rel_finish_ack s p hi hr hp r x hx x.val x.val (by omega) (by omega)
        exact ⟨h1, h2, h3⟩
    · simp only [List.append_nil]; exact ⟨hi, hp, hr⟩
  · simp only [List.append_nil]; exact ⟨hi, hp, hr⟩

theorem step_get (s : CSt) (p : List C15.Ev) (hi : Inv s) (hr : Rel s p) (hp : C15.Holds p) :
    Inv (cstep s .get).1 ∧ C15.Holds (p ++ respPart s .get) ∧
    Rel (cstep s .get).1 (p ++ respPart s .get) := by
  simp only [respPart, cstep]
  have hak := hi.ackLe
  obtain ⟨h1, h2⟩ := push_begin p (gid s.gets) hp
  have hfl : ∀ f, (gid s.gets, f) ∈ (C15.summ (p ++ [.begin (gid s.gets)])).floors → f ≤ s.stored := by
    rw [h2]; intro f hf
    simp only [List.mem_cons, Prod.mk.injEq] at hf
    rcases hf with ⟨_, rfl⟩ | hf
    · have := hr.rs; omega
    · have := hr.fl _ f hf; omega
  obtain ⟨h3, h4⟩ := push_resp _ (gid s.gets) s.stored h1 hfl
  have happ : p ++ [C15.Ev.begin (gid s.gets), C15.Ev.resp (gid s.gets) s.stored]
      = (p ++ [.begin (gid s.gets)]) ++ [.resp (gid s.gets) s.stored] := by simp
  rw [happ]
  refine ⟨?_, h3, ?_⟩
  · constructor
    · exact hi.atomic
    · simp only; omega
    · intro r x hx; have := hi.floor r x hx; simp only; omega
    · exact hi.holds
    · exact hi.saved
  · constructor
    · rw [h4, h2]; exact hr.st
    · rw [h4, h2]; have := hr.rs; simp only; omega
    · rw [h4, h2]; intro id f hf
      simp only [List.mem_cons, Prod.mk.injEq] at hf
      rcases hf with ⟨_, rfl⟩ | hf
      · have := hr.rs; simp only; omega
      · have := hr.fl id f hf; simp only; omega
    · rw [h4, h2]; intro r f hf
      simp only [List.mem_cons, Prod.mk.injEq] at hf
      rcases hf with ⟨hid, _⟩ | hf
      · simp only [uid, gid] at hid; omega
      · exact hr.fr r f hf

/-- every micro-step of the atomic handler keeps invariant and relation and extends a good event list
    to a good one -/
theorem step_ok (s : CSt) (p : List C15.Ev) (op : COp) (hi : Inv s) (hr : Rel s p) (hp : C15.Holds p) :
    Inv (cstep s op).1 ∧ C15.Holds (p ++ evOf s op) ∧ Rel (cstep s op).1 (p ++ evOf s op) := by
  have key : Inv (cstep s op).1 ∧ C15.Holds (p ++ respPart s op) ∧ Rel (cstep s op).1 (p ++ respPart s op) := by
    cases op with
    | begin v => exact step_begin s p v hi hr hp
    | acquire r => exact step_acquire s p r hi hr hp
    | load r f => exact step_load s p r f hi hr hp
    | save r f => exact step_save s p r f hi hr hp
    | get => exact step_get s p hi hr hp
  obtain ⟨h1, h2, h3⟩ := key
  obtain ⟨h4, h5⟩ := close _ _ h2 h3
  rw [evOf_eq, ← List.append_assoc]
  exact ⟨h1, h4, h5⟩

end PdModel.GcSafePoint
