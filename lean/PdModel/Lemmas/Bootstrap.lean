import PdModel.Model.Bootstrap
set_option linter.unusedSimpArgs false
set_option linter.unusedVariables false
/-! Inductive invariant of the bootstrap model and its preservation by every micro-step. -/
namespace PdModel.Bootstrap

/-- the records one successful transaction of request `r` writes -/
def full (cid r : Nat) (p : Payload) : Etcd :=
  { root := some (cid, r), stores := [(p.storeId, r)], regions := [(p.regionId, r)], bootTime := some r }

structure Inv (s : St) : Prop where
  winsLe : s.wins.length ≤ 1
  empty  : s.wins = [] → s.etcd = {}
  won    : ∀ r, s.wins = [r] → ∃ x : Req, s.reqs[r]? = some x ∧ checkReq x.payload = none ∧
             s.etcd = full s.cid r x.payload ∧ x.phase ≠ .atTxn
  okIn   : ∀ (r : Nat) (x : Req), s.reqs[r]? = some x → (x.phase = .committed ∨ x.phase = .done .ok) →
             s.wins = [r]
  valid  : ∀ (r : Nat) (x : Req), s.reqs[r]? = some x →
             (x.phase = .atTxn ∨ x.phase = .committed ∨ x.phase = .done .ok) → checkReq x.payload = none
  oksLe  : s.oks.length ≤ 1
  oksPh  : ∀ r ∈ s.oks, ∃ x : Req, s.reqs[r]? = some x ∧ x.phase = .done .ok

theorem inv_init (cid n l : Nat) : Inv (init cid n l) := by
  constructor <;> simp [init]

theorem set_cases {α} (l : List α) (i j : Nat) (a b : α)
    (h : (l.set i a)[j]? = some b) : (j = i ∧ b = a) ∨ (j ≠ i ∧ l[j]? = some b) := by
  grind

theorem lt_len {α} (l : List α) (r : Nat) (x : α) (h : l[r]? = some x) : r < l.length := by
  rcases Nat.lt_or_ge r l.length with h' | h'
  · exact h'
  · simp [List.getElem?_eq_none h'] at h

theorem append_cases {α} (l : List α) (a b : α) (j : Nat)
    (h : (l ++ [a])[j]? = some b) : l[j]? = some b ∨ (j = l.length ∧ b = a) := by
  rcases Nat.lt_or_ge j l.length with h' | h'
  · left; rw [List.getElem?_append_left h'] at h; exact h
  · right
    rw [List.getElem?_append_right h'] at h
    have : j - l.length = 0 := by
      rcases Nat.eq_zero_or_pos (j - l.length) with h0 | h0
      · exact h0
      · have : ([a] : List α).length ≤ j - l.length := by simp; omega
        simp [List.getElem?_eq_none this] at h
    rw [this] at h; simp at h
    exact ⟨by omega, h.symm⟩

/-- a new request that is answered at once, or parks before its transaction (then it is well-formed) -/
theorem inv_addReq (s : St) (h : Inv s) (x : Req)
    (hx : x.phase ≠ .committed ∧ x.phase ≠ .done .ok) (hv : x.phase = .atTxn → checkReq x.payload = none) :
    Inv { s with reqs := s.reqs ++ [x] } := by
  constructor
  · exact h.winsLe
  · exact h.empty
  · intro r hr
    obtain ⟨y, hy, h1, h2, h3⟩ := h.won r hr
    exact ⟨y, by rw [List.getElem?_append_left (lt_len _ _ _ hy)]; exact hy, h1, h2, h3⟩
  · intro r y hy hph
    rcases append_cases _ _ _ _ hy with h1 | ⟨_, rfl⟩
    · exact h.okIn r y h1 hph
    · rcases hph with h2 | h2
      · exact absurd h2 hx.1
      · exact absurd h2 hx.2
  · intro r y hy hph
    rcases append_cases _ _ _ _ hy with h1 | ⟨_, rfl⟩
    · exact h.valid r y h1 hph
    · rcases hph with h2 | h2 | h2
      · exact hv h2
      · exact absurd h2 hx.1
      · exact absurd h2 hx.2
  · exact h.oksLe
  · intro r hr
    obtain ⟨y, hy, hp⟩ := h.oksPh r hr
    exact ⟨y, by rw [List.getElem?_append_left (lt_len _ _ _ hy)]; exact hy, hp⟩

/-- request `r` (standing before its transaction, hence not a winner) is answered with a refusal / error -/
theorem inv_refuse (s : St) (h : Inv s) (r : Nat) (x : Req) (hx : s.reqs[r]? = some x)
    (hph : x.phase = .atTxn) (o : Out) (ho : o ≠ .ok) :
    Inv (setReq s r { x with phase := .done o }) := by
  have hnw : s.wins ≠ [r] := by
    intro hw
    obtain ⟨y, hy, _, _, h3⟩ := h.won r hw
    rw [hx] at hy; cases hy; exact h3 hph
  constructor
  · exact h.winsLe
  · exact h.empty
  · intro r' hr'
    obtain ⟨y, hy, h1, h2, h3⟩ := h.won r' hr'
    have hne : r' ≠ r := by intro e; subst e; exact hnw hr'
    exact ⟨y, by simp only [setReq]; rw [List.getElem?_set_ne (Ne.symm hne)]; exact hy, h1, h2, h3⟩
  · intro r' y hy hp
    simp only [setReq] at hy
    rcases set_cases _ _ _ _ _ hy with ⟨rfl, rfl⟩ | ⟨_, h2⟩
    · rcases hp with h1 | h1
      · simp at h1
      · simp at h1; exact absurd h1 ho
    · exact h.okIn r' y h2 hp
  · intro r' y hy hp
    simp only [setReq] at hy
    rcases set_cases _ _ _ _ _ hy with ⟨rfl, rfl⟩ | ⟨_, h2⟩
    · rcases hp with h1 | h1 | h1
      · simp at h1
      · simp at h1
      · simp at h1; exact absurd h1 ho
    · exact h.valid r' y h2 hp
  · exact h.oksLe
  · intro r' hr'
    obtain ⟨y, hy, hp⟩ := h.oksPh r' hr'
    have hne : r' ≠ r := by
      intro e; subst e; rw [hx] at hy; cases hy; rw [hph] at hp; cases hp
    exact ⟨y, by simp only [setReq]; rw [List.getElem?_set_ne (Ne.symm hne)]; exact hy, hp⟩

/-- the transaction of request `r` succeeds on an empty etcd -/
theorem inv_win (s : St) (h : Inv s) (r : Nat) (x : Req) (hx : s.reqs[r]? = some x)
    (hph : x.phase = .atTxn) (hroot : s.etcd.root.isNone = true) (ph : Phase)
    (hp : ph = .committed ∨ ph = .done .txnErr) :
    Inv (setReq { s with etcd := full s.cid r x.payload, wins := s.wins ++ [r] } r { x with phase := ph }) := by
  have hw : s.wins = [] := by
    cases hs : s.wins with
    | nil => rfl
    | cons a t =>
      have hl := h.winsLe
      rw [hs] at hl
      have : t = [] := by cases t with | nil => rfl | cons _ _ => simp at hl
      subst this
      obtain ⟨y, _, _, h2, _⟩ := h.won a hs
      rw [h2] at hroot; simp [full] at hroot
  have hval : checkReq x.payload = none := h.valid r x hx (Or.inl hph)
  have hlt := lt_len _ _ _ hx
  constructor
  · simp [setReq, hw]
  · simp [setReq, hw]
  · intro r' hr'
    simp only [setReq, hw, List.nil_append, List.cons.injEq, and_true] at hr'
    subst hr'
    refine ⟨{ x with phase := ph }, by simp [setReq, hlt], hval, rfl, ?_⟩
    rcases hp with rfl | rfl <;> simp
  · intro r' y hy hp'
    simp only [setReq] at hy ⊢
    rcases set_cases _ _ _ _ _ hy with ⟨rfl, rfl⟩ | ⟨_, h2⟩
    · simp [hw]
    · have := h.okIn r' y h2 hp'; rw [hw] at this; cases this
  · intro r' y hy hp'
    simp only [setReq] at hy
    rcases set_cases _ _ _ _ _ hy with ⟨rfl, rfl⟩ | ⟨_, h2⟩
    · exact hval
    · exact h.valid r' y h2 hp'
  · exact h.oksLe
  · intro r' hr'
    obtain ⟨y, hy, hp⟩ := h.oksPh r' hr'
    have hne : r' ≠ r := by
      intro e; subst e; rw [hx] at hy; cases hy; rw [hph] at hp; cases hp
    exact ⟨y, by simp only [setReq]; rw [List.getElem?_set_ne (Ne.symm hne)]; exact hy, hp⟩

theorem validate_ne_ok (s : St) (m : Member) (hdr : Nat) (o : Out) (h : validate s m hdr = some o) :
    o = .notLeader ∨ o = .mismatch := by
  unfold validate at h
  split at h
  · simp at h; exact Or.inl h.symm
  · split at h
    · simp at h; exact Or.inr h.symm
    · simp at h

theorem inv_step (s : St) (h : Inv s) (op : Op) : Inv (step s op).1 := by
  cases op with
  | boot m hdr p =>
    simp only [step]
    split
    · exact h
    · next mem hm =>
      split
      · next o ho =>
        rcases validate_ne_ok s mem hdr o ho with rfl | rfl <;>
          exact inv_addReq s h _ (by simp) (by simp)
      · split
        · exact inv_addReq s h _ (by simp) (by simp)
        · split
          · exact inv_addReq s h _ (by simp) (by simp)
          · next hc => exact inv_addReq s h _ (by simp) (by intro _; exact hc)
  | commit r f =>
    simp only [step]
    split
    · exact h
    · next x hx =>
      split
      · next hph =>
        split
        · exact inv_refuse s h r x hx hph _ (by simp)
        · split
          · next hroot =>
            split
            · exact inv_win s h r x hx hph hroot _ (Or.inr rfl)
            · exact inv_win s h r x hx hph hroot _ (Or.inl rfl)
          · exact inv_refuse s h r x hx hph _ (by split <;> simp)
      · exact h
  | start r =>
    simp only [step]
    split
    · exact h
    · next x hx =>
      split
      · next hph =>
        split
        · exact h
        · next mem hm =>
          have hw := h.okIn r x hx (Or.inl hph)
          constructor
          · exact h.winsLe
          · exact h.empty
          · intro r' hr'
            have : r' = r := by
              have : s.wins = [r'] := hr'
              rw [hw] at this; simpa using this.symm
            subst this
            obtain ⟨y, hy, h1, h2, h3⟩ := h.won r' hr'
            rw [hx] at hy; cases hy
            exact ⟨{ x with phase := .done .ok }, by simp [setReq, lt_len _ _ _ hx], h1, h2, by simp⟩
          · intro r' y hy hp
            simp only [setReq] at hy
            rcases set_cases _ _ _ _ _ hy with ⟨rfl, rfl⟩ | ⟨_, h2⟩
            · exact hw
            · exact h.okIn r' y h2 hp
          · intro r' y hy hp
            simp only [setReq] at hy
            rcases set_cases _ _ _ _ _ hy with ⟨rfl, rfl⟩ | ⟨_, h2⟩
            · exact h.valid _ x hx (Or.inr (Or.inl hph))
            · exact h.valid r' y h2 hp
          · -- nobody has been answered ok before: it would be the same winner, which is only committed
            have hemp : s.oks = [] := by
              cases ho : s.oks with
              | nil => rfl
              | cons a t =>
                obtain ⟨y, hy, hp⟩ := h.oksPh a (by rw [ho]; simp)
                have hwa := h.okIn a y hy (Or.inr hp)
                rw [hw] at hwa
                have : a = r := by simpa using hwa.symm
                subst this
                rw [hx] at hy; cases hy; rw [hph] at hp; cases hp
            simp [hemp]
          · intro r' hr'
            simp only [List.mem_append, List.mem_singleton] at hr'
            rcases hr' with hr' | rfl
            · obtain ⟨y, hy, hp⟩ := h.oksPh r' hr'
              have hne : r' ≠ r := by
                intro e; subst e; rw [hx] at hy; cases hy; rw [hph] at hp; cases hp
              exact ⟨y, by simp only [setReq]; rw [List.getElem?_set_ne (Ne.symm hne)]; exact hy, hp⟩
            · exact ⟨{ x with phase := .done .ok }, by simp [setReq, lt_len _ _ _ hx], rfl⟩
      · exact h
  | lead m =>
    simp only [step]
    split
    · exact ⟨h.winsLe, h.empty, h.won, h.okIn, h.valid, h.oksLe, h.oksPh⟩
    · exact h
  | isBoot m hdr =>
    simp only [step]
    split
    · exact h
    · split <;> exact h
  | putConfig m hdr body =>
    simp only [step]; repeat' split
    all_goals exact h
  | tso m hdrs =>
    simp only [step]; split <;> exact h

/-- the requests that only ask (IsBootstrapped, PutClusterConfig, Tso) leave the state alone -/
theorem step_readonly (s : St) (op : Op)
    (h : (∃ m hdr, op = .isBoot m hdr) ∨ (∃ m hdr b, op = .putConfig m hdr b) ∨ (∃ m hs, op = .tso m hs)) :
    (step s op).1 = s := by
  rcases h with ⟨m, hdr, rfl⟩ | ⟨m, hdr, b, rfl⟩ | ⟨m, hs, rfl⟩
  · simp only [step]; repeat' split
    all_goals rfl
  · simp only [step]; repeat' split
    all_goals rfl
  · simp only [step]; split <;> rfl

end PdModel.Bootstrap
