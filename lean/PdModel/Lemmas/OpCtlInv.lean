import PdModel.Lemmas.OpCtl
set_option linter.unusedSimpArgs false
set_option linter.unusedVariables false
/-! Invariant of the controller model: a STARTED operator is the one running on its region. -/
namespace PdModel.OpCtl
open PdModel.Steps PdModel.Spec

/-- every STARTED operator is registered as the running operator of its region -/
def Inv (c : Ctl) : Prop :=
  ∀ k o, c.getOp k = some o → o.status = .started → c.runningOn o.region = some k

/-- the new version of an operator is not STARTED unless the old one was -/
def NoStart (o o' : Op) : Prop := o'.status = .started → o.status = .started

theorem noStart_refl (o : Op) : NoStart o o := fun h => h

theorem noStart_trans {a b c : Op} (h1 : NoStart a b) (h2 : NoStart b c) : NoStart a c := fun h => h1 (h2 h)

theorem noStart_to (o : Op) (dst : Status) (hd : dst ≠ .started) : NoStart o (o.to dst).1 := by
  unfold Op.to NoStart
  split
  · intro h; exact absurd h hd
  · exact fun h => h

theorem noStart_checkSuccess (o : Op) : NoStart o o.checkSuccess.1 := by
  unfold Op.checkSuccess
  split
  · exact noStart_to o .success (by decide)
  · exact noStart_refl o

theorem noStart_checkExpired (o : Op) : NoStart o o.checkExpired.1 := by
  unfold Op.checkExpired
  split
  · split
    · exact noStart_to o .expired (by decide)
    · exact noStart_refl o
  · exact noStart_refl o

theorem noStart_checkTimeout (o : Op) : NoStart o o.checkTimeout.1 := by
  unfold Op.checkTimeout
  have h1 := noStart_checkSuccess o
  generalize o.checkSuccess = r at h1
  obtain ⟨o1, ok⟩ := r
  simp only
  split
  · exact h1
  · split
    · split
      · exact noStart_trans h1 (noStart_to o1 .timeout (by decide))
      · exact h1
    · exact h1

theorem noStart_check (o : Op) (v : View) : NoStart o (o.check v).1 := by
  unfold Op.check
  split
  · exact noStart_refl o
  · have h1 : NoStart o { o with cur := advance v o.range0 (o.steps.drop o.cur) o.cur } := fun h => h
    exact noStart_trans h1 (noStart_checkTimeout _)

theorem runningOn_setOp (c : Ctl) (o : Op) (r : Nat) : (c.setOp o).runningOn r = c.runningOn r := rfl

/-- replacing a stored operator by a version with the same region that is not newly STARTED -/
theorem inv_setOp (c : Ctl) (k : Nat) (o o' : Op) (hi : Inv c) (h : c.getOp k = some o)
    (hr : Rel o o') (hs : NoStart o o') : Inv (c.setOp o') := by
  intro j x hx hst
  rw [getOp_setOp] at hx
  cases hg : c.getOp j with
  | none => rw [hg] at hx; cases hx
  | some y =>
    rw [hg] at hx
    simp only [Option.map_some, Option.some.injEq] at hx
    rw [runningOn_setOp]
    by_cases e : y.id = o'.id
    · simp only [e, beq_self_eq_true, if_true] at hx
      have hj : j = k := by rw [← getOp_some hg, e, hr.id, getOp_some h]
      subst hj
      rw [hg] at h
      have hyo : y = o := Option.some.inj h
      subst hx
      rw [hr.region, ← hyo]
      exact hi j y hg (hyo ▸ hs hst)
    · have : (y.id == o'.id) = false := by simpa using e
      simp only [this, Bool.false_eq_true, if_false] at hx
      subst hx
      exact hi j y hg hst

theorem inv_of_eq {c c' : Ctl} (hi : Inv c) (h1 : c'.ops = c.ops) (h2 : c'.running = c.running) : Inv c' := by
  intro k o ho hst
  have hg : c'.getOp k = c.getOp k := by unfold Ctl.getOp; rw [h1]
  have hr : ∀ r, c'.runningOn r = c.runningOn r := fun r => by unfold Ctl.runningOn; rw [h2]
  rw [hr]; exact hi k o (hg ▸ ho) hst

theorem inv_bury (c : Ctl) (id : Nat) (hi : Inv c) : Inv (bury c id) := by
  unfold bury
  split
  · exact hi
  · next o ho =>
    have hr : Rel o (if !o.status.isEnd then (o.to .canceled).1 else o) := by
      split
      · exact rel_to o .canceled
      · exact Rel.refl o
    have hs : NoStart o (if !o.status.isEnd then (o.to .canceled).1 else o) := by
      split
      · exact noStart_to o .canceled (by decide)
      · exact noStart_refl o
    exact inv_of_eq (inv_setOp c id o _ hi ho hr hs) rfl rfl

theorem runningOn_filter_ne (l : List (Nat × Nat)) (r r' : Nat) (h : r' ≠ r) :
    ((l.filter (fun x => x.1 != r)).find? (fun x => x.1 == r')) = l.find? (fun x => x.1 == r') := by
  induction l with
  | nil => rfl
  | cons x rest ih =>
    simp only [List.filter_cons]
    by_cases e : x.1 = r
    · have : (x.1 != r) = false := by simp [e]
      simp only [this, Bool.false_eq_true, if_false, List.find?_cons]
      have : (x.1 == r') = false := by simp [e, Ne.symm h]
      simp only [this, ih]
    · have : (x.1 != r) = true := by simpa using e
      simp only [this, if_true, List.find?_cons, ih]

theorem runningOn_filter_eq (l : List (Nat × Nat)) (r : Nat) :
    ((l.filter (fun x => x.1 != r)).find? (fun x => x.1 == r)) = none := by
  simp only [List.find?_eq_none, List.mem_filter, bne_iff_ne, ne_eq, beq_iff_eq]
  intro x hx; exact hx.2

/-- take an operator out of the running map and move it to CANCELED / REPLACED -/
theorem inv_remove_then (c : Ctl) (k : Nat) (o : Op) (dst : Status) (hi : Inv c) (h : c.getOp k = some o)
    (hd : dst = .canceled ∨ dst = .replaced) : Inv ((removeLocked c o).1.setOp (o.to dst).1) := by
  have hok : o.id = k := getOp_some h
  have hns : (o.to dst).1.status ≠ .started := by
    unfold Op.to
    split
    · rcases hd with e | e <;> simp [e]
    · next hc =>
      intro hs
      simp only at hs
      rw [hs] at hc
      rcases hd with e | e <;> rw [e] at hc <;> exact hc (by decide)
  intro j x hx hst
  rw [getOp_setOp, getOp_removeLocked] at hx
  cases hg : c.getOp j with
  | none => rw [hg] at hx; cases hx
  | some y =>
    rw [hg] at hx
    simp only [Option.map_some, Option.some.injEq] at hx
    by_cases e : y.id = (o.to dst).1.id
    · simp only [e, beq_self_eq_true, if_true] at hx
      subst hx
      exact absurd hst hns
    · have : (y.id == (o.to dst).1.id) = false := by simpa using e
      simp only [this, Bool.false_eq_true, if_false] at hx
      subst hx
      have hy := hi j y hg hst
      have hjk : j ≠ k := by
        intro ejk
        apply e
        rw [(rel_to o dst).id, getOp_some hg, ejk, hok]
      rw [runningOn_setOp]
      unfold removeLocked
      split
      · next hrun =>
        -- o was the running one on its region; y is started, so it runs on another region
        have hne : y.region ≠ o.region := by
          intro er
          have hrun' : c.runningOn o.region = some o.id := by simpa using hrun
          rw [er, hrun', hok] at hy
          exact hjk (Option.some.inj hy).symm
        show (Ctl.runningOn { c with running := c.running.filter (fun x => x.1 != o.region) } y.region) = some j
        unfold Ctl.runningOn at hy ⊢
        simp only
        rw [runningOn_filter_ne _ _ _ hne]; exact hy
      · exact hy

theorem inv_removeOperator (c : Ctl) (id : Nat) (hi : Inv c) : Inv (removeOperator c id).1 := by
  unfold removeOperator
  split
  · exact hi
  · next o ho =>
    cases hrl : (removeLocked c o).2 with
    | false =>
      have : removeLocked c o = ((removeLocked c o).1, false) := by rw [← hrl]
      rw [this]; simp only [Bool.false_eq_true, if_false]
      -- nothing was removed
      unfold removeLocked at hrl ⊢
      split at hrl
      · cases hrl
      · next hne => simp only [hne, Bool.false_eq_true, if_false]; exact hi
    | true =>
      have : removeLocked c o = ((removeLocked c o).1, true) := by rw [← hrl]
      rw [this]; simp only [if_true]
      exact inv_bury _ id (inv_remove_then c id o .canceled hi ho (Or.inl rfl))

theorem inv_rejectAll (c : Ctl) (ids : List Nat) (hi : Inv c) : Inv (rejectAll c ids) := by
  unfold rejectAll
  induction ids generalizing c with
  | nil => exact hi
  | cons id rest ih =>
    simp only [List.foldl_cons]
    apply ih
    split
    · exact hi
    · next o ho =>
      exact inv_bury _ id (inv_setOp c id o _ hi ho (rel_to o .canceled) (noStart_to o .canceled (by decide)))

theorem inv_expireAll (c : Ctl) (ids : List Nat) (hi : Inv c) : Inv (expireAll c ids).1 := by
  unfold expireAll
  suffices H : ∀ (l : List Nat) (acc : Ctl × Bool), Inv acc.1 →
      Inv (l.foldl (fun (acc : Ctl × Bool) id =>
        match acc.1.getOp id with
        | none => acc
        | some o => ((acc.1.setOp o.checkExpired.1), acc.2 || o.checkExpired.2)) acc).1 from H ids (c, false) hi
  intro l
  induction l with
  | nil => intro acc h; exact h
  | cons id rest ih =>
    intro acc h
    simp only [List.foldl_cons]
    apply ih
    split
    · exact h
    · next o ho => exact inv_setOp acc.1 id o _ h ho (rel_checkExpired o) (noStart_checkExpired o)

theorem inv_checkAdd (c : Ctl) (ids : List Nat) (hi : Inv c) : Inv (checkAdd c ids).1 := by
  unfold checkAdd
  split
  · exact hi
  · exact inv_expireAll c ids hi

/-- after `replaceOld` no STARTED operator is left on the region -/
theorem inv_replaceOld (c : Ctl) (r : Nat) (hi : Inv c) :
    Inv (replaceOld c r) ∧ ∀ k o, (replaceOld c r).getOp k = some o → o.region = r → o.status ≠ .started := by
  unfold replaceOld
  split
  · next oldId hrun =>
    split
    · next old hold =>
      have h1 := inv_remove_then c oldId old .replaced hi hold (Or.inr rfl)
      refine ⟨inv_bury _ oldId h1, ?_⟩
      intro k o ho hreg hst
      -- o is started, so by the invariant of the new state it is running on r; but r was vacated
      have h2 := inv_bury _ oldId h1 k o ho hst
      rw [hreg] at h2
      -- runningOn r in the new state
      have hb : (bury ((removeLocked c old).1.setOp (old.to .replaced).1) oldId).runningOn r
          = (removeLocked c old).1.runningOn r := by
        unfold bury; split
        · rfl
        · rfl
      rw [hb] at h2
      have hreg_old : old.region = r := by
        -- the running entry of r names oldId; by Inv?  we only know runningOn r = some oldId.
        -- removeLocked removes r's entry only if old.region's entry is oldId; distinguish the cases
        by_cases e : old.region = r
        · exact e
        · exfalso
          -- then r's entry is still oldId after removeLocked, so k = oldId and o = the replaced old
          have hr' : (removeLocked c old).1.runningOn r = some oldId := by
            unfold removeLocked
            split
            · show Ctl.runningOn { c with running := c.running.filter (fun x => x.1 != old.region) } r = some oldId
              unfold Ctl.runningOn at hrun ⊢
              simp only
              rw [runningOn_filter_ne _ _ _ (Ne.symm e)]; exact hrun
            · exact hrun
          rw [hr'] at h2
          have hk : k = oldId := (Option.some.inj h2).symm
          subst hk
          -- the stored version of oldId is the replaced one with old's region ≠ r
          have : o.region = old.region := by
            have hl := (Le.trans (le_removeLocked c old)
              (Le.trans (le_setOp' _ k old _ ((getOp_removeLocked c old k).trans hold) (rel_to old .replaced))
                (le_bury _ k))).some k old hold
            obtain ⟨o', ho', hrel⟩ := hl
            rw [ho] at ho'; cases ho'
            exact hrel.region
          exact e (this ▸ hreg)
      have hvac : (removeLocked c old).1.runningOn r = none := by
        unfold removeLocked
        have : c.runningOn old.region = some old.id := by rw [hreg_old, getOp_some hold]; exact hrun
        simp only [this, beq_self_eq_true, if_true]
        show Ctl.runningOn { c with running := c.running.filter (fun x => x.1 != old.region) } r = none
        unfold Ctl.runningOn
        simp only
        rw [← hreg_old, runningOn_filter_eq]; rfl
      rw [hvac] at h2; cases h2
    · next hnone =>
      refine ⟨hi, ?_⟩
      intro k o ho hreg hst
      have := hi k o ho hst
      rw [hreg, hrun] at this
      have hk : k = oldId := (Option.some.inj this).symm
      subst hk
      rw [ho] at hnone; cases hnone
  · next hnone =>
    refine ⟨hi, ?_⟩
    intro k o ho hreg hst
    have := hi k o ho hst
    rw [hreg] at this
    rw [hnone] at this; cases this

theorem find_replace_eq (l : List (Nat × Nat)) (r id : Nat) :
    ((l.filter (fun x => x.1 != r) ++ [(r, id)]).find? (fun x => x.1 == r)) = some (r, id) := by
  rw [List.find?_append, runningOn_filter_eq]; simp

theorem find_replace_ne (l : List (Nat × Nat)) (r r' id : Nat) (h : r' ≠ r) :
    ((l.filter (fun x => x.1 != r) ++ [(r, id)]).find? (fun x => x.1 == r')) = l.find? (fun x => x.1 == r') := by
  rw [List.find?_append, runningOn_filter_ne _ _ _ h]
  have : ([(r, id)].find? (fun x => x.1 == r')) = none := by simp [Ne.symm h]
  rw [this]; simp

theorem inv_startLocked (c : Ctl) (k : Nat) (o0 o : Op) (hi : Inv c) (h : c.getOp k = some o0) (hr : Rel o0 o)
    (hfree : ∀ j x, c.getOp j = some x → x.region = o.region → x.status ≠ .started) :
    Inv (startLocked c o).1 := by
  have hk : o.id = k := by rw [hr.id]; exact getOp_some h
  -- the state after registering the operator
  have h1 : Inv ({ c.setOp o with running := c.running.filter (fun x => x.1 != o.region) ++ [(o.region, o.id)] } : Ctl) := by
    intro j x hx hst
    have hx' : (c.setOp o).getOp j = some x := hx
    rw [getOp_setOp] at hx'
    cases hg : c.getOp j with
    | none => rw [hg] at hx'; cases hx'
    | some y =>
      rw [hg] at hx'
      simp only [Option.map_some, Option.some.injEq] at hx'
      show (Ctl.runningOn { c.setOp o with running := c.running.filter (fun x => x.1 != o.region) ++ [(o.region, o.id)] } x.region) = some j
      unfold Ctl.runningOn
      simp only
      by_cases e : y.id = o.id
      · simp only [e, beq_self_eq_true, if_true] at hx'
        subst hx'
        rw [find_replace_eq]
        simp only [Option.map_some]
        rw [← e, getOp_some hg]
      · have : (y.id == o.id) = false := by simpa using e
        simp only [this, Bool.false_eq_true, if_false] at hx'
        subst hx'
        have hne : y.region ≠ o.region := fun er => hfree j y hg er hst
        rw [find_replace_ne _ _ _ _ hne]
        exact hi j y hg hst
  have hg1 : ({ c.setOp o with running := c.running.filter (fun x => x.1 != o.region) ++ [(o.region, o.id)] } : Ctl).getOp k = some o := by
    show (c.setOp o).getOp k = some o
    rw [getOp_setOp, h]
    have : o0.id = o.id := hr.id.symm
    simp [this]
  unfold startLocked
  simp only
  split
  · next v hv =>
    exact inv_of_eq (inv_setOp _ k o _ h1 hg1 (rel_check o v) (noStart_check o v)) rfl rfl
  · exact inv_of_eq h1 rfl rfl

theorem inv_addLocked (c : Ctl) (id : Nat) (hi : Inv c) : Inv (addLocked c id).1 := by
  unfold addLocked
  split
  · exact hi
  · next o0 ho0 =>
    obtain ⟨h1, hfree⟩ := inv_replaceOld c o0.region hi
    simp only
    split
    · exact h1
    · next o ho =>
      split
      · exact h1
      · have hreg : (o.to .started).1.region = o0.region := by
          rw [(rel_to o .started).region]
          obtain ⟨o', ho', hrel⟩ := (le_replaceOld c o0.region).some id o0 ho0
          rw [ho] at ho'; cases ho'
          exact hrel.region
        exact inv_startLocked _ id o _ h1 ho (rel_to o .started)
          (fun j x hx hxr => hfree j x hx (hxr.trans hreg))

theorem inv_addAll (c : Ctl) (ids : List Nat) (hi : Inv c) : Inv (addAll c ids).1 := by
  induction ids generalizing c with
  | nil => exact hi
  | cons id rest ih =>
    simp only [addAll]
    have h1 := inv_addLocked c id hi
    generalize addLocked c id = r at h1
    obtain ⟨c1, m, ok⟩ := r
    simp only
    split
    · exact h1
    · have h2 := ih c1 h1
      generalize addAll c1 rest = r2 at h2
      obtain ⟨c2, m2, ok2⟩ := r2
      exact h2

theorem inv_addOperator (c : Ctl) (ids : List Nat) (hi : Inv c) : Inv (addOperator c ids).1 := by
  unfold addOperator
  have h1 := inv_checkAdd c ids hi
  generalize checkAdd c ids = r at h1
  obtain ⟨c1, ok⟩ := r
  simp only
  split
  · exact inv_rejectAll c1 ids h1
  · exact inv_addAll c1 ids h1

theorem inv_takeFrom (c : Ctl) (i : Nat) (hi : Inv c) : Inv (takeFrom c i).1 := by
  apply inv_of_eq hi <;> (unfold takeFrom; repeat' split) <;> rfl

theorem inv_promote (c : Ctl) (rs : List Nat) (hi : Inv c) : Inv (promote c rs).1 := by
  induction rs generalizing c with
  | nil => exact hi
  | cons r rest ih =>
    simp only [promote]
    split
    · unfold bumpUnlessEmpty; split
      · exact hi
      · exact inv_of_eq hi rfl rfl
    · next i _ =>
      have h1 := inv_takeFrom (bump c) i (inv_of_eq hi rfl rfl)
      generalize takeFrom (bump c) i = t at h1
      obtain ⟨c1, ids⟩ := t
      simp only
      split
      · exact h1
      · next first tl =>
        have h2 := inv_checkAdd c1 (first :: tl) h1
        generalize checkAdd c1 (first :: tl) = q at h2
        obtain ⟨c2, ok⟩ := q
        simp only
        have h3 : Inv (decWaiting c2 first) := inv_of_eq h2 rfl rfl
        split
        · exact ih _ (inv_rejectAll _ _ h3)
        · have h4 := inv_addAll (decWaiting c2 first) (first :: tl) h3
          generalize addAll (decWaiting c2 first) (first :: tl) = q2 at h4
          obtain ⟨c3, m, ok3⟩ := q2
          exact h4

theorem inv_putWaiting (c : Ctl) (id : Nat) (hi : Inv c) : Inv (putWaiting c id) := inv_of_eq hi rfl rfl
theorem inv_incWaiting (c : Ctl) (id : Nat) (hi : Inv c) : Inv (incWaiting c id) := inv_of_eq hi rfl rfl

theorem inv_addWaitingLoop (c : Ctl) (ids : List Nat) (added : Nat) (hi : Inv c) :
    Inv (addWaitingLoop c ids added).1 := by
  induction c, ids, added using addWaitingLoop.induct with
  | case1 c added => simpa [addWaitingLoop] using hi
  | case2 c id added hm => simpa [addWaitingLoop, hm] using hi
  | case3 c id added hm c1 ok hca hok =>
    simp only [addWaitingLoop, hm, hca, hok]
    have := inv_checkAdd c [id] hi; rw [hca] at this
    exact inv_rejectAll _ _ this
  | case4 c id added hm c1 ok hca hok =>
    simp only [addWaitingLoop, hm, hca, hok]
    have := inv_checkAdd c [id] hi; rw [hca] at this
    exact inv_incWaiting _ _ (inv_putWaiting _ _ this)
  | case5 c id nxt rest added hm hn => simpa [addWaitingLoop, hm, hn] using hi
  | case6 c id nxt rest added hm hn c1 ok hca hok =>
    simp only [addWaitingLoop, hm, hn, hca, hok]
    have := inv_checkAdd c [id] hi; rw [hca] at this
    exact inv_rejectAll _ _ this
  | case7 c id nxt rest added hm hn c1 ok hca hok ih =>
    simp only [addWaitingLoop, hm, hn, hca, hok]
    have := inv_checkAdd c [id] hi; rw [hca] at this
    exact ih (inv_incWaiting _ _ (inv_putWaiting _ _ (inv_putWaiting _ _ this)))
  | case8 c id nxt rest added hm c1 ok hca hok =>
    simp only [addWaitingLoop, hm, hca, hok]
    have := inv_checkAdd c [id] hi; rw [hca] at this
    exact inv_rejectAll _ _ this
  | case9 c id nxt rest added hm c1 ok hca hok ih =>
    simp only [addWaitingLoop, hm, hca, hok]
    have := inv_checkAdd c [id] hi; rw [hca] at this
    exact ih (inv_incWaiting _ _ (inv_putWaiting _ _ this))

theorem inv_addWaiting (c : Ctl) (ids rs : List Nat) (hi : Inv c) : Inv (addWaiting c ids rs).1 := by
  unfold addWaiting
  have h1 := inv_addWaitingLoop c ids 0 hi
  generalize addWaitingLoop c ids 0 = r at h1
  obtain ⟨c1, added, completed⟩ := r
  simp only
  split
  · have h2 := inv_promote c1 rs h1
    generalize promote c1 rs = q at h2
    obtain ⟨c2, m⟩ := q
    exact h2
  · exact h1

theorem inv_checkStale (c : Ctl) (o : Op) (s : Step) (v : View) (hi : Inv c) : Inv (checkStale c o s v).1 := by
  unfold checkStale
  split
  · have := inv_removeOperator c o.id hi
    generalize removeOperator c o.id = r at this
    obtain ⟨c1, b⟩ := r; exact this
  · split
    · have := inv_removeOperator c o.id hi
      generalize removeOperator c o.id = r at this
      obtain ⟨c1, b⟩ := r; exact this
    · exact hi

theorem inv_dispatch (c : Ctl) (v : View) (hb : Bool) (rs : List Nat) (hi : Inv c) : Inv (dispatch c v hb rs).1 := by
  unfold dispatch
  split
  · exact hi
  · next id _ =>
    split
    · exact hi
    · next o ho =>
      have h1 : Inv (c.setOp (o.check v).1) := inv_setOp c id o _ hi ho (rel_check o v) (noStart_check o v)
      have hgx : (c.setOp (o.check v).1).getOp id = some (o.check v).1 := by
        rw [getOp_setOp, ho]
        have : o.id = (o.check v).1.id := (rel_check o v).id.symm
        simp [this]
      generalize hch : o.check v = ch at h1 hgx
      obtain ⟨o1, step⟩ := ch
      simp only at h1 hgx ⊢
      split
      · -- started
        split
        · next s =>
          split
          · have h2 := inv_checkStale (c.setOp o1) o1 s v h1
            generalize checkStale (c.setOp o1) o1 s v = q at h2
            obtain ⟨c2, stale⟩ := q
            simp only
            split
            · have h3 := inv_promote c2 rs h2
              generalize promote c2 rs = q3 at h3
              obtain ⟨c3, m⟩ := q3
              exact h3
            · exact h2
          · exact h1
        · exact h1
      all_goals first
        | (have h2 := inv_removeOperator (c.setOp o1) id h1
           generalize removeOperator (c.setOp o1) id = q at h2
           obtain ⟨c2, removed⟩ := q
           simp only
           split
           · exact inv_promote c2 rs h2
           · exact h2)
        | (have h3 := inv_remove_then (c.setOp o1) id o1 .canceled h1 hgx (Or.inl rfl)
           cases hrl : (removeLocked (c.setOp o1) o1).2 with
           | false =>
             have : removeLocked (c.setOp o1) o1 = ((removeLocked (c.setOp o1) o1).1, false) := by rw [← hrl]
             rw [this]; simp only [Bool.false_eq_true, if_false]
             unfold removeLocked at hrl ⊢
             split at hrl
             · cases hrl
             · next hne => simp only [hne, Bool.false_eq_true, if_false]; exact h1
           | true =>
             have : removeLocked (c.setOp o1) o1 = ((removeLocked (c.setOp o1) o1).1, true) := by rw [← hrl]
             rw [this]; simp only [if_true]
             exact inv_promote _ rs (inv_bury _ id h3))

theorem inv_pushLoop (c : Ctl) (rs : List Nat) (fuel : Nat) (hi : Inv c) : Inv (pushLoop c rs fuel).1 := by
  induction fuel generalizing c rs with
  | zero => exact hi
  | succ n ih =>
    simp only [pushLoop]
    split
    · exact hi
    · next item _ _ =>
      have h0 : Inv (dropItem c item.seq) := inv_of_eq hi rfl rfl
      split
      · exact ih _ _ h0
      · next o ho =>
        have hoid := polledOp_some ho
        split
        · exact ih _ _ (inv_bury _ _ (inv_remove_then _ o.id o .canceled h0 hoid (Or.inl rfl)))
        · next v _ =>
          have h1 : Inv ((dropItem c item.seq).setOp (o.check v).1) :=
            inv_setOp _ o.id o _ h0 hoid (rel_check o v) (noStart_check o v)
          split
          · have h2 := inv_dispatch ((dropItem c item.seq).setOp (o.check v).1) v false rs h1
            generalize dispatch ((dropItem c item.seq).setOp (o.check v).1) v false rs = q at h2
            obtain ⟨c3, m⟩ := q
            simp only
            show Inv (pushLoop c3 _ n).1
            exact ih _ _ h2
          · next s _ =>
            split
            · exact inv_of_eq h1 rfl rfl
            · generalize hc2 : ({ (dropItem c item.seq).setOp (o.check v).1 with
                  queue := ((dropItem c item.seq).setOp (o.check v).1).queue ++
                    [⟨item.op, notifyAfter (some s), ((dropItem c item.seq).setOp (o.check v).1).seq⟩],
                  seq := ((dropItem c item.seq).setOp (o.check v).1).seq + 1 } : Ctl) = c2'
              have h1' : Inv c2' := by subst hc2; exact inv_of_eq h1 rfl rfl
              have h2 := inv_dispatch c2' v false rs h1'
              generalize dispatch c2' v false rs = q at h2
              obtain ⟨c3, m⟩ := q
              simp only
              show Inv (pushLoop c3 _ n).1
              exact ih _ _ h2

theorem inv_touchRunning (c : Ctl) (hi : Inv c) : Inv (touchRunning c) := by
  unfold touchRunning
  suffices H : ∀ (l : List (Nat × Nat)) (acc : Ctl), Inv acc →
      Inv (l.foldl (fun c x => match c.getOp x.2 with | some o => c.setOp o.checkTimeout.1 | none => c) acc) from
    H c.running c hi
  intro l
  induction l with
  | nil => intro acc h; exact h
  | cons x rest ih =>
    intro acc h
    simp only [List.foldl_cons]
    apply ih
    split
    · next o ho => exact inv_setOp acc x.2 o _ h ho (rel_checkTimeout o) (noStart_checkTimeout o)
    · exact h

theorem inv_stepEv (c : Ctl) (e : Ev) (hi : Inv c) : Inv (stepEv c e).1 := by
  cases e with
  | putRegion v => exact inv_of_eq hi rfl rfl
  | delRegion r => exact inv_of_eq hi rfl rfl
  | newOp n =>
    simp only [stepEv]
    split
    · exact hi
    · next hnone =>
      intro k o ho hst
      have hnone' : c.getOp n.id = none := by simpa using hnone
      have ho' : (c.ops ++ [{ n with cur := 0, status := Status.created, createdOld := false, startedOld := false }]).find?
          (fun x => x.id == k) = some o := ho
      rw [List.find?_append] at ho'
      cases hg : c.ops.find? (fun x => x.id == k) with
      | some y =>
        rw [hg] at ho'
        simp only [Option.some_or, Option.some.injEq] at ho'
        subst ho'
        exact hi k y hg hst
      | none =>
        rw [hg] at ho'
        simp only [Option.none_or, List.find?_cons] at ho'
        split at ho'
        · cases ho'; cases hst
        · cases ho'
  | add ids => exact inv_addOperator c ids hi
  | addWaiting ids rs => exact inv_addWaiting c ids rs hi
  | promote rs => exact inv_promote c rs hi
  | heartbeat v rs => exact inv_dispatch (putView c v) v true rs (inv_of_eq hi rfl rfl)
  | push rs => exact inv_pushLoop c rs _ hi
  | remove id => exact inv_removeOperator c id hi
  | expire id =>
    simp only [stepEv]
    split
    · next x hx =>
      exact inv_setOp c id x { x with createdOld := true } hi hx
        ⟨rfl, rfl, rfl, rfl, rfl, rfl, rfl, rfl, rfl, Reach.refl _⟩ (fun h => h)
    · exact hi
  | markTimeout id =>
    simp only [stepEv]
    split
    · next x hx =>
      split
      · exact inv_setOp c id x { x with startedOld := true } hi hx
          ⟨rfl, rfl, rfl, rfl, rfl, rfl, rfl, rfl, rfl, Reach.refl _⟩ (fun h => h)
      · exact hi
    · exact hi
  | sleep ms => exact inv_of_eq hi rfl rfl
  | influence => exact inv_touchRunning c hi

theorem inv_runEv_placeholder : True := trivial

theorem inv_runEv (c : Ctl) (evs : List Ev) (hi : Inv c) : Inv (runEv c evs) := by
  induction evs generalizing c with
  | nil => exact hi
  | cons e rest ih => exact ih _ (inv_stepEv c e hi)

theorem inv_init : Inv ({} : Ctl) := by
  intro k o ho; cases ho

end PdModel.OpCtl
