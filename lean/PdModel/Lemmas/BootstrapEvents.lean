import PdModel.Model.Bootstrap
import PdModel.Lemmas.Bootstrap
import PdModel.Spec.C20
set_option linter.unusedSimpArgs false
set_option linter.unusedVariables false
/-!
The observable events of a history of the bootstrap model, and the invariant that ties the event list to
the model state (`EInv`), preserved by every micro-step.  `Props/C20.lean` derives `Spec.C20.Holds` from it.
-/
namespace PdModel.Bootstrap
open PdModel.Spec

/-- the model's payload check is the specification's notion of a well-formed payload -/
def infoOf (p : Payload) (foreign : Bool) : C20.Info :=
  { store := if p.hasStore then some p.storeId else none,
    region := if p.hasRegion then some p.regionId else none,
    keysEmpty := p.startLen = 0 ∧ p.endLen = 0, peers := p.peers, foreign := foreign }

theorem checkReq_iff_wellFormed (p : Payload) (foreign : Bool) :
    checkReq p = none ↔ (infoOf p foreign).wellFormed = true := by
  unfold checkReq infoOf C20.Info.wellFormed
  cases hs : p.hasStore <;> cases hr : p.hasRegion <;> simp
  · split <;> simp
  · by_cases h1 : p.storeId = 0
    · simp [h1]
      split <;> simp_all
    · simp only [h1, if_false]
      by_cases h2 : p.startLen > 0 ∨ p.endLen > 0
      · simp only [h2, if_true]
        split <;> simp_all <;> omega
      · simp only [h2, if_false]
        by_cases h3 : p.regionId = 0
        · simp [h3]; split <;> simp_all
        · simp only [h3, if_false]
          have h2' : p.startLen = 0 ∧ p.endLen = 0 := by omega
          match hp : p.peers with
          | [] => simp
          | [(pid, sid)] =>
            simp only
            by_cases h4 : sid = p.storeId
            · by_cases h5 : pid = 0 <;> simp [h1, h3, h4, h5, h2']
            · simp [h4]
          | _ :: _ :: _ => simp


/-! ### events -/

def kindOf : Out → C20.Kind
  | .ok => .accepted
  | .txnErr => .unknown
  | _ => .refused

/-- the stored bootstrap records as an observer sees them -/
def recsOf (s : St) : C20.Recs :=
  { cluster := s.etcd.root.map (·.1), stores := s.etcd.stores.map (·.1),
    regions := s.etcd.regions.map (·.1), time := s.etcd.bootTime.isSome }

/-- what clients and an observer of the records see of one micro-step: the request being issued, its
    answer (if it is answered in this step), and the records afterwards -/
def evOf (s : St) (op : Op) : List C20.Ev :=
  (match op, (step s op).2 with
   | .boot _ hdr p, .parked => [C20.Ev.req s.reqs.length (infoOf p (decide (hdr ≠ s.cid)))]
   | .boot _ hdr p, .resp o =>
     [C20.Ev.req s.reqs.length (infoOf p (decide (hdr ≠ s.cid))), C20.Ev.resp s.reqs.length (kindOf o)]
   | .commit r _, .resp o => [C20.Ev.resp r (kindOf o)]
   | .start r, .resp o => [C20.Ev.resp r (kindOf o)]
   | _, _ => []) ++ [C20.Ev.recs (recsOf (step s op).1)]

def events : St → List Op → List C20.Ev
  | _, [] => []
  | s, op :: ops => evOf s op ++ events (step s op).1 ops

/-! ### list plumbing -/

theorem getEv_snoc_lt (p : List C20.Ev) (e : C20.Ev) (l : Nat) (h : l < p.length) :
    C20.getEv (p ++ [e]) l = C20.getEv p l := by
  simp [C20.getEv, List.getD, List.getElem?_append_left h]

theorem getEv_snoc_eq (p : List C20.Ev) (e : C20.Ev) : C20.getEv (p ++ [e]) p.length = e := by
  simp [C20.getEv, List.getD]

theorem snoc_idx (p : List C20.Ev) (e : C20.Ev) (l : Nat) (h : l < (p ++ [e]).length) :
    l < p.length ∨ l = p.length := by
  simp at h; omega

/-- the payload request `r` carries -/
def payloadOf (s : St) (r : Nat) (p : Payload) : Prop := ∃ x : Req, s.reqs[r]? = some x ∧ x.payload = p

/-- the invariant tying the events so far to the state -/
structure EInv (s : St) (evs : List C20.Ev) : Prop where
  reqEv  : ∀ (r : Nat) (x : Req), s.reqs[r]? = some x → ∃ j fgn, j < evs.length ∧
             C20.getEv evs j = .req r (infoOf x.payload fgn) ∧
             ((x.phase = .atTxn ∨ x.phase = .committed ∨ x.phase = .done .ok ∨ s.wins = [r]) → fgn = false)
  bound  : ∀ (l r : Nat) (k : C20.Kind), l < evs.length → C20.getEv evs l = .resp r k → r < s.reqs.length
  pend   : ∀ (r : Nat) (x : Req), s.reqs[r]? = some x → (x.phase = .atTxn ∨ x.phase = .committed) →
             ∀ (l : Nat) (k : C20.Kind), l < evs.length → C20.getEv evs l ≠ .resp r k
  noRef  : ∀ r, s.wins = [r] → ∀ l, l < evs.length → C20.getEv evs l ≠ .resp r .refused
  compl  : ∀ l, l < evs.length → C20.isComplete (C20.getEv evs l) = true →
             C20.getEv evs l = .recs (recsOf s) ∧
             ∃ r p j, s.wins = [r] ∧ payloadOf s r p ∧ j < l ∧ C20.getEv evs j = .req r (infoOf p false)
  stable : ∀ i j, i < j → j < evs.length → C20.isComplete (C20.getEv evs i) = true →
             C20.sameRecs (C20.getEv evs i) (C20.getEv evs j) = true
  acc    : ∀ k, k < evs.length → C20.isAccepted (C20.getEv evs k) = true →
             ∃ r p j, s.wins = [r] ∧ s.oks = [r] ∧ payloadOf s r p ∧ C20.getEv evs k = .resp r .accepted ∧
               j < k ∧ C20.getEv evs j = .req r (infoOf p false) ∧
               ∀ l, k < l → l < evs.length → C20.recordsOf s.cid (C20.getEv evs l) (C20.getEv evs j) = true
  accU   : ∀ k k', k < evs.length → k' < evs.length → C20.isAccepted (C20.getEv evs k) = true →
             C20.isAccepted (C20.getEv evs k') = true → k = k'

theorem einv_nil (s : St) (h : s.reqs = []) : EInv s [] := by
  constructor <;> simp [h]

/-- the records of a winner's transaction are the records of its request -/
theorem recordsOf_full (cid r : Nat) (p : Payload) (hp : checkReq p = none) (s : St)
    (he : s.etcd = full cid r p) :
    C20.recordsOf cid (.recs (recsOf s)) (.req r (infoOf p false)) = true := by
  have hs : p.hasStore = true := by
    unfold checkReq at hp; cases h : p.hasStore <;> simp_all
  have hr : p.hasRegion = true := by
    unfold checkReq at hp; rw [hs] at hp; simp at hp
    cases h : p.hasRegion
    · simp [h] at hp; split at hp <;> simp at hp
    · rfl
  simp [C20.recordsOf, recsOf, he, full, infoOf, hs, hr]

theorem recsOf_empty (s : St) (h : s.etcd = {}) : recsOf s = {} := by simp [recsOf, h]

/-! ### appending one event (state unchanged) -/

/-- an event that is neither an observation of records nor an acceptance -/
theorem einv_snoc_neutral (s : St) (evs : List C20.Ev) (e : C20.Ev) (h : EInv s evs)
    (hacc : C20.isAccepted e = false) (hcomp : C20.isComplete e = false)
    (hsame : ∀ c, C20.sameRecs c e = true) (hrec : ∀ x, C20.recordsOf s.cid e x = true)
    (hresp : ∀ r k, e = .resp r k → r < s.reqs.length ∧
      (∀ x : Req, s.reqs[r]? = some x → ¬ (x.phase = .atTxn ∨ x.phase = .committed)) ∧
      (k = .refused → s.wins ≠ [r])) :
    EInv s (evs ++ [e]) := by
  have hlen : (evs ++ [e]).length = evs.length + 1 := by simp
  constructor
  · intro r x hx
    obtain ⟨j, fgn, hj, h1, h2⟩ := h.reqEv r x hx
    exact ⟨j, fgn, by omega, by rw [getEv_snoc_lt _ _ _ hj]; exact h1, h2⟩
  · intro l r k hl hg
    rcases snoc_idx _ _ _ hl with h1 | rfl
    · rw [getEv_snoc_lt _ _ _ h1] at hg; exact h.bound l r k h1 hg
    · rw [getEv_snoc_eq] at hg; exact (hresp r k hg).1
  · intro r x hx hp l k hl hg
    rcases snoc_idx _ _ _ hl with h1 | rfl
    · rw [getEv_snoc_lt _ _ _ h1] at hg; exact h.pend r x hx hp l k h1 hg
    · rw [getEv_snoc_eq] at hg; exact (hresp r k hg).2.1 x hx hp
  · intro r hw l hl hg
    rcases snoc_idx _ _ _ hl with h1 | rfl
    · rw [getEv_snoc_lt _ _ _ h1] at hg; exact h.noRef r hw l h1 hg
    · rw [getEv_snoc_eq] at hg; exact (hresp r _ hg).2.2 rfl hw
  · intro l hl hc
    rcases snoc_idx _ _ _ hl with h1 | rfl
    · rw [getEv_snoc_lt _ _ _ h1] at hc ⊢
      obtain ⟨h2, r, p, j, h3, h4, h5, h6⟩ := h.compl l h1 hc
      exact ⟨h2, r, p, j, h3, h4, h5, by rw [getEv_snoc_lt _ _ _ (by omega)]; exact h6⟩
    · rw [getEv_snoc_eq] at hc; rw [hcomp] at hc; cases hc
  · intro i j hij hj hc
    rcases snoc_idx _ _ _ hj with h1 | rfl
    · rw [getEv_snoc_lt _ _ _ (by omega)] at hc ⊢
      rw [getEv_snoc_lt _ _ _ h1]
      exact h.stable i j hij h1 hc
    · rw [getEv_snoc_eq]; exact hsame _
  · intro k hk ha
    rcases snoc_idx _ _ _ hk with h1 | rfl
    · rw [getEv_snoc_lt _ _ _ h1] at ha ⊢
      obtain ⟨r, p, j, h2, h3, h4, h5, h6, h7, h8⟩ := h.acc k h1 ha
      refine ⟨r, p, j, h2, h3, h4, h5, h6, by rw [getEv_snoc_lt _ _ _ (by omega)]; exact h7, ?_⟩
      intro l hkl hl
      rw [getEv_snoc_lt _ _ _ (by omega : j < evs.length)]
      rcases snoc_idx _ _ _ hl with h9 | rfl
      · rw [getEv_snoc_lt _ _ _ h9]; exact h8 l hkl h9
      · rw [getEv_snoc_eq]; exact hrec _
    · rw [getEv_snoc_eq] at ha; rw [hacc] at ha; cases ha
  · intro k k' hk hk' ha ha'
    rcases snoc_idx _ _ _ hk with h1 | rfl
    · rcases snoc_idx _ _ _ hk' with h2 | rfl
      · rw [getEv_snoc_lt _ _ _ h1] at ha; rw [getEv_snoc_lt _ _ _ h2] at ha'
        exact h.accU k k' h1 h2 ha ha'
      · rw [getEv_snoc_eq] at ha'; rw [hacc] at ha'; cases ha'
    · rw [getEv_snoc_eq] at ha; rw [hacc] at ha; cases ha

theorem wins_of_etcd (s : St) (hi : Inv s) (h : s.etcd ≠ {}) : ∃ r, s.wins = [r] := by
  cases hw : s.wins with
  | nil => exact absurd (hi.empty hw) h
  | cons a t =>
    have hl := hi.winsLe
    rw [hw] at hl
    cases t with
    | nil => exact ⟨a, rfl⟩
    | cons _ _ => simp at hl

theorem payloadOf_won (s : St) (hi : Inv s) (r : Nat) (p : Payload) (hw : s.wins = [r])
    (hp : payloadOf s r p) : checkReq p = none ∧ s.etcd = full s.cid r p := by
  obtain ⟨x, hx, h1, h2, _⟩ := hi.won r hw
  obtain ⟨y, hy, rfl⟩ := hp
  rw [hx] at hy; cases hy
  exact ⟨h1, h2⟩

/-- the observer reads the records -/
theorem einv_snoc_recs (s : St) (evs : List C20.Ev) (h : EInv s evs) (hi : Inv s) :
    EInv s (evs ++ [.recs (recsOf s)]) := by
  constructor
  · intro r x hx
    obtain ⟨j, fgn, hj, h1, h2⟩ := h.reqEv r x hx
    exact ⟨j, fgn, by simp; omega, by rw [getEv_snoc_lt _ _ _ hj]; exact h1, h2⟩
  · intro l r k hl hg
    rcases snoc_idx _ _ _ hl with h1 | rfl
    · rw [getEv_snoc_lt _ _ _ h1] at hg; exact h.bound l r k h1 hg
    · rw [getEv_snoc_eq] at hg; cases hg
  · intro r x hx hp l k hl hg
    rcases snoc_idx _ _ _ hl with h1 | rfl
    · rw [getEv_snoc_lt _ _ _ h1] at hg; exact h.pend r x hx hp l k h1 hg
    · rw [getEv_snoc_eq] at hg; cases hg
  · intro r hw l hl hg
    rcases snoc_idx _ _ _ hl with h1 | rfl
    · rw [getEv_snoc_lt _ _ _ h1] at hg; exact h.noRef r hw l h1 hg
    · rw [getEv_snoc_eq] at hg; cases hg
  · intro l hl hc
    rcases snoc_idx _ _ _ hl with h1 | rfl
    · rw [getEv_snoc_lt _ _ _ h1] at hc ⊢
      obtain ⟨h2, r, p, j, h3, h4, h5, h6⟩ := h.compl l h1 hc
      exact ⟨h2, r, p, j, h3, h4, h5, by rw [getEv_snoc_lt _ _ _ (by omega)]; exact h6⟩
    · rw [getEv_snoc_eq] at hc ⊢
      refine ⟨rfl, ?_⟩
      have hne : s.etcd ≠ {} := by
        intro he; rw [recsOf_empty s he] at hc; simp [C20.isComplete] at hc
      obtain ⟨r, hw⟩ := wins_of_etcd s hi hne
      obtain ⟨x, hx, _, _, _⟩ := hi.won r hw
      obtain ⟨j, fgn, hj, h1, h2⟩ := h.reqEv r x hx
      have hf : fgn = false := h2 (Or.inr (Or.inr (Or.inr hw)))
      subst hf
      exact ⟨r, x.payload, j, hw, ⟨x, hx, rfl⟩, hj, by rw [getEv_snoc_lt _ _ _ hj]; exact h1⟩
  · intro i j hij hj hc
    rcases snoc_idx _ _ _ hj with h1 | rfl
    · rw [getEv_snoc_lt _ _ _ (by omega)] at hc ⊢
      rw [getEv_snoc_lt _ _ _ h1]
      exact h.stable i j hij h1 hc
    · rw [getEv_snoc_lt _ _ _ hij] at hc ⊢
      rw [getEv_snoc_eq, (h.compl i hij hc).1]
      simp [C20.sameRecs]
  · intro k hk ha
    rcases snoc_idx _ _ _ hk with h1 | rfl
    · rw [getEv_snoc_lt _ _ _ h1] at ha ⊢
      obtain ⟨r, p, j, h2, h3, h4, h5, h6, h7, h8⟩ := h.acc k h1 ha
      refine ⟨r, p, j, h2, h3, h4, h5, h6, by rw [getEv_snoc_lt _ _ _ (by omega)]; exact h7, ?_⟩
      intro l hkl hl
      rw [getEv_snoc_lt _ _ _ (by omega : j < evs.length)]
      rcases snoc_idx _ _ _ hl with h9 | rfl
      · rw [getEv_snoc_lt _ _ _ h9]; exact h8 l hkl h9
      · rw [getEv_snoc_eq, h7]
        obtain ⟨hc, he⟩ := payloadOf_won s hi r p h2 h4
        exact recordsOf_full s.cid r p hc s he
    · rw [getEv_snoc_eq] at ha; simp [C20.isAccepted] at ha
  · intro k k' hk hk' ha ha'
    rcases snoc_idx _ _ _ hk with h1 | rfl
    · rcases snoc_idx _ _ _ hk' with h2 | rfl
      · rw [getEv_snoc_lt _ _ _ h1] at ha; rw [getEv_snoc_lt _ _ _ h2] at ha'
        exact h.accU k k' h1 h2 ha ha'
      · rw [getEv_snoc_eq] at ha'; simp [C20.isAccepted] at ha'
    · rw [getEv_snoc_eq] at ha; simp [C20.isAccepted] at ha

/-- request `r` is answered `ok` -/
theorem einv_snoc_accepted (s : St) (evs : List C20.Ev) (r : Nat) (x : Req) (h : EInv s evs)
    (hw : s.wins = [r]) (ho : s.oks = [r]) (hx : s.reqs[r]? = some x) (hph : x.phase = .done .ok)
    (hno : ∀ k, k < evs.length → C20.isAccepted (C20.getEv evs k) = false) :
    EInv s (evs ++ [.resp r .accepted]) := by
  constructor
  · intro r' y hy
    obtain ⟨j, fgn, hj, h1, h2⟩ := h.reqEv r' y hy
    exact ⟨j, fgn, by simp; omega, by rw [getEv_snoc_lt _ _ _ hj]; exact h1, h2⟩
  · intro l r' k hl hg
    rcases snoc_idx _ _ _ hl with h1 | rfl
    · rw [getEv_snoc_lt _ _ _ h1] at hg; exact h.bound l r' k h1 hg
    · rw [getEv_snoc_eq] at hg; cases hg; exact lt_len _ _ _ hx
  · intro r' y hy hp l k hl hg
    rcases snoc_idx _ _ _ hl with h1 | rfl
    · rw [getEv_snoc_lt _ _ _ h1] at hg; exact h.pend r' y hy hp l k h1 hg
    · rw [getEv_snoc_eq] at hg; cases hg
      rw [hx] at hy; cases hy
      rcases hp with hp | hp <;> rw [hph] at hp <;> cases hp
  · intro r' hw' l hl hg
    rcases snoc_idx _ _ _ hl with h1 | rfl
    · rw [getEv_snoc_lt _ _ _ h1] at hg; exact h.noRef r' hw' l h1 hg
    · rw [getEv_snoc_eq] at hg; cases hg
  · intro l hl hc
    rcases snoc_idx _ _ _ hl with h1 | rfl
    · rw [getEv_snoc_lt _ _ _ h1] at hc ⊢
      obtain ⟨h2, r', p, j, h3, h4, h5, h6⟩ := h.compl l h1 hc
      exact ⟨h2, r', p, j, h3, h4, h5, by rw [getEv_snoc_lt _ _ _ (by omega)]; exact h6⟩
    · rw [getEv_snoc_eq] at hc; simp [C20.isComplete] at hc
  · intro i j hij hj hc
    rcases snoc_idx _ _ _ hj with h1 | rfl
    · rw [getEv_snoc_lt _ _ _ (by omega)] at hc ⊢
      rw [getEv_snoc_lt _ _ _ h1]
      exact h.stable i j hij h1 hc
    · rw [getEv_snoc_eq]; simp [C20.sameRecs]
  · intro k hk ha
    rcases snoc_idx _ _ _ hk with h1 | rfl
    · rw [getEv_snoc_lt _ _ _ h1] at ha; rw [hno k h1] at ha; cases ha
    · obtain ⟨j, fgn, hj, h1, h2⟩ := h.reqEv r x hx
      have hf : fgn = false := h2 (Or.inr (Or.inr (Or.inl hph)))
      subst hf
      refine ⟨r, x.payload, j, hw, ho, ⟨x, hx, rfl⟩, getEv_snoc_eq _ _, hj,
        by rw [getEv_snoc_lt _ _ _ hj]; exact h1, ?_⟩
      intro l hkl hl
      simp at hl; omega
  · intro k k' hk hk' ha ha'
    rcases snoc_idx _ _ _ hk with h1 | rfl
    · rw [getEv_snoc_lt _ _ _ h1] at ha; rw [hno k h1] at ha; cases ha
    · rcases snoc_idx _ _ _ hk' with h2 | rfl
      · rw [getEv_snoc_lt _ _ _ h2] at ha'; rw [hno k' h2] at ha'; cases ha'
      · rfl

/-! ### changing the state (events unchanged) -/

/-- generic transfer: the request-indexed facts are re-established by the caller, the event-indexed ones
    carry over when the winner, the answered request, the records and the payloads stay what they were -/
theorem einv_transfer (s s1 : St) (evs : List C20.Ev) (h : EInv s evs)
    (hreq : ∀ (r : Nat) (x : Req), s1.reqs[r]? = some x → ∃ j fgn, j < evs.length ∧
       C20.getEv evs j = .req r (infoOf x.payload fgn) ∧
       ((x.phase = .atTxn ∨ x.phase = .committed ∨ x.phase = .done .ok ∨ s1.wins = [r]) → fgn = false))
    (hlen : s.reqs.length ≤ s1.reqs.length)
    (hpend : ∀ (r : Nat) (x : Req), s1.reqs[r]? = some x → (x.phase = .atTxn ∨ x.phase = .committed) →
       ∀ (l : Nat) (k : C20.Kind), l < evs.length → C20.getEv evs l ≠ .resp r k)
    (hnoRef : ∀ r, s1.wins = [r] → ∀ l, l < evs.length → C20.getEv evs l ≠ .resp r .refused)
    (hpay : ∀ r p, payloadOf s r p → payloadOf s1 r p)
    (hwin : ∀ r, s.wins = [r] → s1.wins = [r] ∧ recsOf s1 = recsOf s)
    (hoks : ∀ r, s.oks = [r] → s1.oks = [r]) (hcid : s1.cid = s.cid) :
    EInv s1 evs := by
  constructor
  · exact hreq
  · intro l r k hl hg; have := h.bound l r k hl hg; omega
  · exact hpend
  · exact hnoRef
  · intro l hl hc
    obtain ⟨h2, r, p, j, h3, h4, h5, h6⟩ := h.compl l hl hc
    obtain ⟨h7, h8⟩ := hwin r h3
    exact ⟨by rw [h8]; exact h2, r, p, j, h7, hpay r p h4, h5, h6⟩
  · exact h.stable
  · intro k hk ha
    obtain ⟨r, p, j, h2, h3, h4, h5, h6, h7, h8⟩ := h.acc k hk ha
    exact ⟨r, p, j, (hwin r h2).1, hoks r h3, hpay r p h4, h5, h6, h7, by rw [hcid]; exact h8⟩
  · exact h.accU

theorem payloadOf_append (s : St) (x : Req) (r : Nat) (p : Payload) (h : payloadOf s r p) :
    payloadOf { s with reqs := s.reqs ++ [x] } r p := by
  obtain ⟨y, hy, hp⟩ := h
  exact ⟨y, by simp only; rw [List.getElem?_append_left (lt_len _ _ _ hy)]; exact hy, hp⟩

theorem payloadOf_set (reqs' : List Req) (s s1 : St) (r : Nat) (x y : Req) (hx : s.reqs[r]? = some x)
    (hy : y.payload = x.payload) (hs : s1.reqs = s.reqs.set r y) (r' : Nat) (p : Payload)
    (h : payloadOf s r' p) : payloadOf s1 r' p := by
  obtain ⟨z, hz, hp⟩ := h
  by_cases e : r' = r
  · subst e
    rw [hx] at hz; cases hz
    exact ⟨y, by rw [hs]; simp [List.getElem?_set, lt_len _ _ _ hx], by rw [hy]; exact hp⟩
  · exact ⟨z, by rw [hs, List.getElem?_set_ne (Ne.symm e)]; exact hz, hp⟩

/-- a new request whose `req` event has just been appended -/
theorem einv_addReq (s : St) (evs : List C20.Ev) (x : Req) (h : EInv s evs) (hi : Inv s)
    (hj : ∃ j fgn, j < evs.length ∧ C20.getEv evs j = .req s.reqs.length (infoOf x.payload fgn) ∧
       (x.phase = .atTxn → fgn = false))
    (hx : x.phase ≠ .committed ∧ x.phase ≠ .done .ok) :
    EInv { s with reqs := s.reqs ++ [x] } evs := by
  have hnw : s.wins ≠ [s.reqs.length] := by
    intro hw
    obtain ⟨y, hy, _⟩ := hi.won _ hw
    have := lt_len _ _ _ hy; omega
  apply einv_transfer s _ evs h
  · intro r y hy
    rcases append_cases _ _ _ _ hy with h1 | ⟨rfl, rfl⟩
    · exact h.reqEv r y h1
    · obtain ⟨j, fgn, h2, h3, h4⟩ := hj
      refine ⟨j, fgn, h2, h3, ?_⟩
      rintro (h5 | h5 | h5 | h5)
      · exact h4 h5
      · exact absurd h5 hx.1
      · exact absurd h5 hx.2
      · exact absurd h5 hnw
  · simp
  · intro r y hy hp l k hl hg
    rcases append_cases _ _ _ _ hy with h1 | ⟨rfl, rfl⟩
    · exact h.pend r y h1 hp l k hl hg
    · have := h.bound l _ k hl hg; omega
  · exact h.noRef
  · intro r p hp; exact payloadOf_append s x r p hp
  · intro r hw; exact ⟨hw, rfl⟩
  · intro r ho; exact ho
  · rfl

/-- request `r`, standing before its transaction, is answered with a refusal or an error (state only) -/
theorem einv_setPhase (s : St) (evs : List C20.Ev) (r : Nat) (x : Req) (ph : Phase) (h : EInv s evs)
    (hi : Inv s) (hx : s.reqs[r]? = some x) (hph : x.phase = .atTxn)
    (hnew : ph ≠ .atTxn ∧ ph ≠ .committed ∧ ph ≠ .done .ok) :
    EInv (setReq s r { x with phase := ph }) evs := by
  have hnw : s.wins ≠ [r] := by
    intro hw
    obtain ⟨y, hy, _, _, h3⟩ := hi.won r hw
    rw [hx] at hy; cases hy; exact h3 hph
  apply einv_transfer s _ evs h
  · intro r' y hy
    simp only [setReq] at hy
    rcases set_cases _ _ _ _ _ hy with ⟨rfl, rfl⟩ | ⟨_, h2⟩
    · obtain ⟨j, fgn, h2, h3, _⟩ := h.reqEv _ x hx
      refine ⟨j, fgn, h2, h3, ?_⟩
      rintro (h5 | h5 | h5 | h5)
      · exact absurd h5 hnew.1
      · exact absurd h5 hnew.2.1
      · exact absurd h5 hnew.2.2
      · exact absurd h5 hnw
    · exact h.reqEv r' y h2
  · simp [setReq]
  · intro r' y hy hp l k hl hg
    simp only [setReq] at hy
    rcases set_cases _ _ _ _ _ hy with ⟨rfl, rfl⟩ | ⟨_, h2⟩
    · rcases hp with h5 | h5
      · exact hnew.1 h5
      · exact hnew.2.1 h5
    · exact h.pend r' y h2 hp l k hl hg
  · exact h.noRef
  · intro r' p hp; exact payloadOf_set [] s _ r x { x with phase := ph } hx rfl rfl r' p hp
  · intro r' hw; exact ⟨hw, rfl⟩
  · intro r' ho; exact ho
  · rfl

/-- the transaction of request `r` succeeds (state only) -/
theorem einv_win (s : St) (evs : List C20.Ev) (r : Nat) (x : Req) (ph : Phase) (h : EInv s evs)
    (hx : s.reqs[r]? = some x) (hph : x.phase = .atTxn) (hw : s.wins = []) :
    EInv (setReq { s with etcd := full s.cid r x.payload, wins := s.wins ++ [r] } r { x with phase := ph }) evs := by
  apply einv_transfer s _ evs h
  · intro r' y hy
    simp only [setReq] at hy
    rcases set_cases _ _ _ _ _ hy with ⟨rfl, rfl⟩ | ⟨hne, h2⟩
    · obtain ⟨j, fgn, h2, h3, h4⟩ := h.reqEv _ x hx
      exact ⟨j, fgn, h2, h3, fun _ => h4 (Or.inl hph)⟩
    · obtain ⟨j, fgn, h3, h4, h5⟩ := h.reqEv r' y h2
      refine ⟨j, fgn, h3, h4, ?_⟩
      rintro (h6 | h6 | h6 | h6)
      · exact h5 (Or.inl h6)
      · exact h5 (Or.inr (Or.inl h6))
      · exact h5 (Or.inr (Or.inr (Or.inl h6)))
      · simp only [setReq, hw, List.nil_append, List.cons.injEq, and_true] at h6
        exact absurd h6.symm hne
  · simp [setReq]
  · intro r' y hy hp l k hl hg
    simp only [setReq] at hy
    rcases set_cases _ _ _ _ _ hy with ⟨rfl, rfl⟩ | ⟨_, h2⟩
    · exact h.pend _ x hx (Or.inl hph) l k hl hg
    · exact h.pend r' y h2 hp l k hl hg
  · intro r' hw' l hl hg
    simp only [setReq, hw, List.nil_append, List.cons.injEq, and_true] at hw'
    subst hw'
    exact h.pend _ x hx (Or.inl hph) l _ hl hg
  · intro r' p hp; exact payloadOf_set [] s _ r x { x with phase := ph } hx rfl rfl r' p hp
  · intro r' hw'; rw [hw] at hw'; cases hw'
  · intro r' ho; exact ho
  · rfl

/-- the raft cluster of the winner's member starts and the request is about to be answered `ok` (state only) -/
theorem einv_start (s : St) (evs : List C20.Ev) (r : Nat) (x : Req) (ms : List Member) (h : EInv s evs)
    (hx : s.reqs[r]? = some x) (hph : x.phase = .committed) (ho : s.oks = []) :
    EInv { setReq s r { x with phase := .done .ok } with members := ms, oks := s.oks ++ [r] } evs := by
  apply einv_transfer s _ evs h
  · intro r' y hy
    simp only [setReq] at hy
    rcases set_cases _ _ _ _ _ hy with ⟨rfl, rfl⟩ | ⟨_, h2⟩
    · obtain ⟨j, fgn, h2, h3, h4⟩ := h.reqEv _ x hx
      exact ⟨j, fgn, h2, h3, fun _ => h4 (Or.inr (Or.inl hph))⟩
    · exact h.reqEv r' y h2
  · simp [setReq]
  · intro r' y hy hp l k hl hg
    simp only [setReq] at hy
    rcases set_cases _ _ _ _ _ hy with ⟨rfl, rfl⟩ | ⟨_, h2⟩
    · rcases hp with h5 | h5 <;> simp at h5
    · exact h.pend r' y h2 hp l k hl hg
  · exact h.noRef
  · intro r' p hp; exact payloadOf_set [] s _ r x { x with phase := .done .ok } hx rfl rfl r' p hp
  · intro r' hw; exact ⟨hw, rfl⟩
  · intro r' ho'; rw [ho] at ho'; cases ho'
  · rfl

/-- only the members change (leader change) -/
theorem einv_members (s : St) (evs : List C20.Ev) (ms : List Member) (h : EInv s evs) :
    EInv { s with members := ms } evs :=
  einv_transfer s _ evs h h.reqEv (Nat.le_refl _) h.pend h.noRef (fun _ _ hp => hp)
    (fun _ hw => ⟨hw, rfl⟩) (fun _ ho => ho) rfl

/-! ### one micro-step -/

theorem oks_empty_of_committed (s : St) (hi : Inv s) (r : Nat) (x : Req) (hx : s.reqs[r]? = some x)
    (hph : x.phase = .committed) : s.oks = [] := by
  have hw := hi.okIn r x hx (Or.inl hph)
  cases ho : s.oks with
  | nil => rfl
  | cons a t =>
    obtain ⟨y, hy, hp⟩ := hi.oksPh a (by rw [ho]; simp)
    have hwa := hi.okIn a y hy (Or.inr hp)
    rw [hw] at hwa
    have : a = r := by simpa using hwa.symm
    subst this
    rw [hx] at hy; cases hy; rw [hph] at hp; cases hp

theorem wins_empty_of_root (s : St) (hi : Inv s) (h : s.etcd.root.isNone = true) : s.wins = [] := by
  cases hs : s.wins with
  | nil => rfl
  | cons a t =>
    have hl := hi.winsLe
    rw [hs] at hl
    have : t = [] := by cases t with | nil => rfl | cons _ _ => simp at hl
    subst this
    obtain ⟨y, _, _, h2, _⟩ := hi.won a hs
    rw [h2] at h; simp [full] at h

theorem not_winner_of_atTxn (s : St) (hi : Inv s) (r : Nat) (x : Req) (hx : s.reqs[r]? = some x)
    (hph : x.phase = .atTxn) : s.wins ≠ [r] := by
  intro hw
  obtain ⟨y, hy, _, _, h3⟩ := hi.won r hw
  rw [hx] at hy; cases hy; exact h3 hph

/-- the `req` event of a new request is neutral -/
theorem einv_snoc_req (s : St) (evs : List C20.Ev) (r : Nat) (i : C20.Info) (h : EInv s evs) :
    EInv s (evs ++ [.req r i]) :=
  einv_snoc_neutral s evs _ h rfl rfl (fun c => by simp [C20.sameRecs]) (fun x => by simp [C20.recordsOf])
    (fun r' k he => by cases he)

/-- a refusal or an error answer to request `r`, which is not pending any more -/
theorem einv_snoc_resp (s : St) (evs : List C20.Ev) (r : Nat) (x : Req) (k : C20.Kind) (h : EInv s evs)
    (hx : s.reqs[r]? = some x) (hph : x.phase ≠ .atTxn ∧ x.phase ≠ .committed) (hk : k ≠ .accepted)
    (hw : k = .refused → s.wins ≠ [r]) :
    EInv s (evs ++ [.resp r k]) :=
  einv_snoc_neutral s evs _ h (by cases k <;> simp_all [C20.isAccepted]) rfl
    (fun c => by simp [C20.sameRecs]) (fun y => by simp [C20.recordsOf])
    (fun r' k' he => by
      cases he
      refine ⟨lt_len _ _ _ hx, ?_, hw⟩
      intro y hy hp
      rw [hx] at hy; cases hy
      rcases hp with hp | hp
      · exact hph.1 hp
      · exact hph.2 hp)

/-- a new request: `req` event, the state change, and – when it is answered at once – the refusal -/
theorem einv_boot (s : St) (evs : List C20.Ev) (x : Req) (fgn : Bool) (h : EInv s evs) (hi : Inv s)
    (hx : x.phase ≠ .committed ∧ x.phase ≠ .done .ok) (hf : x.phase = .atTxn → fgn = false) :
    EInv { s with reqs := s.reqs ++ [x] } (evs ++ [.req s.reqs.length (infoOf x.payload fgn)]) := by
  apply einv_addReq s _ x (einv_snoc_req s evs _ _ h) hi ?_ hx
  exact ⟨evs.length, fgn, by simp, getEv_snoc_eq _ _, hf⟩

theorem einv_step (s : St) (evs : List C20.Ev) (op : Op) (hi : Inv s) (h : EInv s evs) :
    EInv (step s op).1 (evs ++ evOf s op) := by
  have hi1 := inv_step s hi op
  cases op with
  | boot m hdr p =>
    -- the four ways to be answered at once share one argument
    have answered : ∀ o : Out, o ≠ .ok → kindOf o = .refused →
        step s (.boot m hdr p) =
          ({ s with reqs := s.reqs ++ [{ member := m, payload := p, phase := .done o }] }, .resp o) →
        EInv (step s (.boot m hdr p)).1 (evs ++ evOf s (.boot m hdr p)) := by
      intro o ho hk hst
      have hev : evOf s (.boot m hdr p) =
          [.req s.reqs.length (infoOf p (decide (hdr ≠ s.cid))), .resp s.reqs.length .refused,
           .recs (recsOf (step s (.boot m hdr p)).1)] := by
        simp [evOf, hst, hk]
      rw [hev]
      rw [hst] at hi1 ⊢
      have e1 := einv_boot s evs { member := m, payload := p, phase := .done o } (decide (hdr ≠ s.cid)) h hi
        (by simp [ho]) (by simp)
      have hnw : s.wins ≠ [s.reqs.length] := by
        intro hw
        obtain ⟨y, hy, _⟩ := hi.won _ hw
        have := lt_len _ _ _ hy; omega
      have e2 := einv_snoc_resp _ _ s.reqs.length { member := m, payload := p, phase := .done o } .refused e1
        (by simp) (by simp) (by simp) (fun _ => hnw)
      have e3 := einv_snoc_recs _ _ e2 hi1
      simpa using e3
    cases hm : s.members[m]? with
    | none =>
      have hst : step s (.boot m hdr p) = (s, .bad) := by simp [step, hm]
      have hev : evOf s (.boot m hdr p) = [.recs (recsOf s)] := by simp [evOf, hst]
      rw [hev, hst]; exact einv_snoc_recs s evs h hi
    | some mem =>
      cases hv : validate s mem hdr with
      | some o =>
        rcases validate_ne_ok s mem hdr o hv with rfl | rfl
        · exact answered .notLeader (by simp) rfl (by simp [step, hm, hv])
        · exact answered .mismatch (by simp) rfl (by simp [step, hm, hv])
      | none =>
        by_cases hr : mem.running = true
        · exact answered .already (by simp) rfl (by simp [step, hm, hv, hr])
        · cases hc : checkReq p with
          | some b => exact answered (.malformed b) (by simp) rfl (by simp [step, hm, hv, hr, hc])
          | none =>
            have hst : step s (.boot m hdr p) =
                ({ s with reqs := s.reqs ++ [{ member := m, payload := p, phase := .atTxn }] }, .parked) := by
              simp [step, hm, hv, hr, hc]
            have hev : evOf s (.boot m hdr p) =
                [.req s.reqs.length (infoOf p (decide (hdr ≠ s.cid))),
                 .recs (recsOf (step s (.boot m hdr p)).1)] := by
              simp [evOf, hst]
            have hfg : decide (hdr ≠ s.cid) = false := by
              unfold validate at hv
              split at hv
              · simp at hv
              · split at hv
                · simp at hv
                · rename_i h2; simpa using h2
            rw [hev]
            rw [hst] at hi1 ⊢
            have e1 := einv_boot s evs { member := m, payload := p, phase := .atTxn } (decide (hdr ≠ s.cid)) h hi
              (by simp) (fun _ => hfg)
            have e3 := einv_snoc_recs _ _ e1 hi1
            simpa using e3
  | commit r f =>
    have noop : step s (.commit r f) = (s, .bad) →
        EInv (step s (.commit r f)).1 (evs ++ evOf s (.commit r f)) := by
      intro hst
      have hev : evOf s (.commit r f) = [.recs (recsOf s)] := by simp [evOf, hst]
      rw [hev, hst]; exact einv_snoc_recs s evs h hi
    cases hx : s.reqs[r]? with
    | none => exact noop (by simp [step, hx])
    | some x =>
      by_cases hph : x.phase = .atTxn
      · -- an answer of kind `k` (not an acceptance) after the state change `s1`
        have answer : ∀ (s1 : St) (o : Out) (ph : Phase), o ≠ .ok → EInv s1 evs →
            s1.reqs[r]? = some { x with phase := ph } → ph ≠ .atTxn ∧ ph ≠ .committed →
            (kindOf o = .refused → s1.wins ≠ [r]) →
            step s (.commit r f) = (s1, .resp o) →
            EInv (step s (.commit r f)).1 (evs ++ evOf s (.commit r f)) := by
          intro s1 o ph ho e1 hx1 hph1 hw1 hst
          have hev : evOf s (.commit r f) = [.resp r (kindOf o), .recs (recsOf s1)] := by
            simp [evOf, hst]
          rw [hev]
          rw [hst] at hi1 ⊢
          have e2 := einv_snoc_resp s1 evs r _ (kindOf o) e1 hx1 hph1 (by cases o <;> simp_all [kindOf]) hw1
          have e3 := einv_snoc_recs _ _ e2 hi1
          simpa using e3
        have hlt := lt_len _ _ _ hx
        by_cases hf : f = .before
        · exact answer _ .txnErr (.done .txnErr) (by simp) (einv_setPhase s evs r x (.done .txnErr) h hi hx hph (by simp))
            (by simp [setReq, hlt]) (by simp) (by simp [kindOf]) (by simp [step, hx, hph, hf])
        · by_cases hroot : s.etcd.root.isNone = true
          · have hw := wins_empty_of_root s hi hroot
            by_cases hf2 : f = .after
            · exact answer _ .txnErr (.done .txnErr) (by simp) (einv_win s evs r x (.done .txnErr) h hx hph hw)
                (by simp [setReq, hlt]) (by simp) (by simp [kindOf])
                (by simp [step, hx, hph, hf, hroot, hf2, full])
            · have hst : step s (.commit r f) =
                  (setReq { s with etcd := full s.cid r x.payload, wins := s.wins ++ [r] } r
                    { x with phase := .committed }, .done) := by
                simp [step, hx, hph, hf, hroot, hf2, full]
              have hev : evOf s (.commit r f) = [.recs (recsOf (step s (.commit r f)).1)] := by
                simp [evOf, hst]
              rw [hev]
              rw [hst] at hi1 ⊢
              exact einv_snoc_recs _ _ (einv_win s evs r x .committed h hx hph hw) hi1
          · have hnw := not_winner_of_atTxn s hi r x hx hph
            by_cases hf2 : f = .after
            · exact answer _ .txnErr (.done .txnErr) (by simp) (einv_setPhase s evs r x (.done .txnErr) h hi hx hph (by simp))
                (by simp [setReq, hlt]) (by simp) (by simp [kindOf])
                (by simp [step, hx, hph, hf, hroot, hf2])
            · exact answer _ .conflict (.done .conflict) (by simp) (einv_setPhase s evs r x (.done .conflict) h hi hx hph (by simp))
                (by simp [setReq, hlt]) (by simp) (fun _ => by simpa [setReq] using hnw)
                (by simp [step, hx, hph, hf, hroot, hf2])
      · exact noop (by simp [step, hx, hph])
  | start r =>
    have noop : step s (.start r) = (s, .bad) →
        EInv (step s (.start r)).1 (evs ++ evOf s (.start r)) := by
      intro hst
      have hev : evOf s (.start r) = [.recs (recsOf s)] := by simp [evOf, hst]
      rw [hev, hst]; exact einv_snoc_recs s evs h hi
    cases hx : s.reqs[r]? with
    | none => exact noop (by simp [step, hx])
    | some x =>
      by_cases hph : x.phase = .committed
      · cases hm : s.members[x.member]? with
        | none => exact noop (by simp [step, hx, hph, hm])
        | some mem =>
          have hst : step s (.start r) =
              ({ setReq s r { x with phase := .done .ok } with
                   members := s.members.set x.member { mem with running := true },
                   oks := s.oks ++ [r] }, .resp .ok) := by
            simp [step, hx, hph, hm]
          have hev : evOf s (.start r) = [.resp r .accepted, .recs (recsOf (step s (.start r)).1)] := by
            simp [evOf, hst, kindOf]
          rw [hev]
          rw [hst] at hi1 ⊢
          have ho := oks_empty_of_committed s hi r x hx hph
          have hw := hi.okIn r x hx (Or.inl hph)
          have e1 := einv_start s evs r x (s.members.set x.member { mem with running := true }) h hx hph ho
          have hno : ∀ k, k < evs.length → C20.isAccepted (C20.getEv evs k) = false := by
            intro k hk
            cases ha : C20.isAccepted (C20.getEv evs k) with
            | false => rfl
            | true =>
              obtain ⟨r', _, _, _, h3, _⟩ := h.acc k hk ha
              rw [ho] at h3; cases h3
          have e2 := einv_snoc_accepted _ evs r { x with phase := .done .ok } e1
            (by simpa [setReq] using hw) (by simp [ho]) (by simp [setReq, lt_len _ _ _ hx]) rfl hno
          have e3 := einv_snoc_recs _ _ e2 hi1
          simpa using e3
      · exact noop (by simp [step, hx, hph])
  | lead m =>
    by_cases hm : m < s.members.length
    · have hst : (step s (.lead m)).2 = .done ∧ ∃ ms, (step s (.lead m)).1 = { s with members := ms } := by
        simp [step, hm]
      obtain ⟨h1, ms, h2⟩ := hst
      have hev : evOf s (.lead m) = [.recs (recsOf (step s (.lead m)).1)] := by simp [evOf, h1]
      rw [hev]
      rw [h2] at hi1 ⊢
      exact einv_snoc_recs _ _ (einv_members s evs ms h) hi1
    · have hst : step s (.lead m) = (s, .bad) := by simp [step, hm]
      have hev : evOf s (.lead m) = [.recs (recsOf s)] := by simp [evOf, hst]
      rw [hev, hst]; exact einv_snoc_recs s evs h hi
  | isBoot m hdr =>
    have hst : (step s (.isBoot m hdr)).1 = s := by
      simp only [step]; repeat' split
      all_goals rfl
    have hev : evOf s (.isBoot m hdr) = [.recs (recsOf s)] := by simp [evOf, hst]
    rw [hev, hst]; exact einv_snoc_recs s evs h hi
  | putConfig m hdr body =>
    have hst : (step s (.putConfig m hdr body)).1 = s := step_readonly s _ (Or.inr (Or.inl ⟨m, hdr, body, rfl⟩))
    have hev : evOf s (.putConfig m hdr body) = [.recs (recsOf s)] := by simp [evOf, hst]
    rw [hev, hst]; exact einv_snoc_recs s evs h hi
  | tso m hdrs =>
    have hst : (step s (.tso m hdrs)).1 = s := step_readonly s _ (Or.inr (Or.inr ⟨m, hdrs, rfl⟩))
    have hev : evOf s (.tso m hdrs) = [.recs (recsOf s)] := by simp [evOf, hst]
    rw [hev, hst]; exact einv_snoc_recs s evs h hi

end PdModel.Bootstrap
