import PdModel.Lemmas.Builder
set_option linter.unusedSimpArgs false
set_option linter.unusedVariables false
/-! The joint-consensus builder of the model produces a step list of the shape covered by
    `joint_core_safe`, on data satisfying `JointCtx`. -/
namespace PdModel.Builder
open PdModel.Steps PdModel.Spec PdModel.Spec.C08

/-- fields the loops of `buildJoint` never touch -/
structure Keeps (b b' : B) : Prop where
  c : b'.c = b.c
  originPeers : b'.originPeers = b.originPeers
  originLeader : b'.originLeader = b.originLeader
  targetPeers : b'.targetPeers = b.targetPeers
  lightWeight : b'.lightWeight = b.lightWeight

theorem Keeps.refl (b : B) : Keeps b b := ⟨rfl, rfl, rfl, rfl, rfl⟩

theorem Keeps.trans {a b c : B} (h1 : Keeps a b) (h2 : Keeps b c) : Keeps a c :=
  ⟨h2.c.trans h1.c, h2.originPeers.trans h1.originPeers, h2.originLeader.trans h1.originLeader,
   h2.targetPeers.trans h1.targetPeers, h2.lightWeight.trans h1.lightWeight⟩

theorem addStep_asLearner (lw : Bool) (p : Peer) :
    addStep lw ⟨p.store, p.id, .learner⟩ = addStep lw p := rfl

theorem jointAddBody_spec (b : B) (x : Peer) :
    Keeps b (jointAddBody b x) ∧
    (jointAddBody b x).targetLeader = b.targetLeader ∧
    (jointAddBody b x).steps = b.steps ++ [addStep b.lightWeight x] ∧
    (jointAddBody b x).toPromote = (if !isLearner x then pmSet b.toPromote x else b.toPromote) ∧
    (jointAddBody b x).cur.leader = b.cur.leader ∧
    (jointAddBody b x).toRemove = b.toRemove ∧
    (jointAddBody b x).toDemote = b.toDemote := by
  cases hx : isLearner x
  · have hr : ¬ x.role = .learner := by simpa [isLearner] using hx
    refine ⟨⟨?_, ?_, ?_, ?_, ?_⟩, ?_, ?_, ?_, ?_, ?_, ?_⟩ <;>
      simp [jointAddBody, execAddPeer, isLearner, hr, addStep]
  · have hr : x.role = .learner := by simpa [isLearner] using hx
    refine ⟨⟨?_, ?_, ?_, ?_, ?_⟩, ?_, ?_, ?_, ?_, ?_, ?_⟩ <;>
      simp [jointAddBody, execAddPeer, isLearner, hr, addStep]

theorem addLoop_spec (xs : List Peer) (b : B) :
    Keeps b (xs.foldl jointAddBody b) ∧
    (xs.foldl jointAddBody b).targetLeader = b.targetLeader ∧
    (xs.foldl jointAddBody b).steps = b.steps ++ xs.map (addStep b.lightWeight) ∧
    (xs.foldl jointAddBody b).toPromote = (xs.filter (fun p => !isLearner p)).foldl pmSet b.toPromote ∧
    (xs.foldl jointAddBody b).cur.leader = b.cur.leader ∧
    (xs.foldl jointAddBody b).toRemove = b.toRemove ∧
    (xs.foldl jointAddBody b).toDemote = b.toDemote := by
  induction xs generalizing b with
  | nil => simp [Keeps.refl]
  | cons x rest ih =>
    simp only [List.foldl_cons]
    obtain ⟨k, h0, h1, h2, h3, h4, h5⟩ := ih (jointAddBody b x)
    obtain ⟨k', g0, g1, g2, g3, g4, g5⟩ := jointAddBody_spec b x
    refine ⟨Keeps.trans k' k, h0.trans g0, ?_, ?_, h3.trans g3, h4.trans g4, h5.trans g5⟩
    · rw [h1, g1, k'.lightWeight]; simp [List.append_assoc]
    · rw [h2, g2]
      cases hx : isLearner x <;> simp [List.filter_cons, hx]

theorem jointDemoteBody_spec (b : B) (x : Peer) :
    Keeps b (jointDemoteBody b x) ∧
    (jointDemoteBody b x).targetLeader = b.targetLeader ∧
    (jointDemoteBody b x).steps = b.steps ∧
    (jointDemoteBody b x).toPromote = b.toPromote ∧
    (jointDemoteBody b x).cur.leader = b.cur.leader ∧
    (jointDemoteBody b x).toRemove = b.toRemove ∧
    (jointDemoteBody b x).toDemote =
      (if !isLearner x then pmSet b.toDemote (asLearner x) else b.toDemote) := by
  cases hx : isLearner x
  · have hr : ¬ x.role = .learner := by simpa [isLearner] using hx
    refine ⟨⟨?_, ?_, ?_, ?_, ?_⟩, ?_, ?_, ?_, ?_, ?_, ?_⟩ <;> simp [jointDemoteBody, isLearner, hr, asLearner]
  · have hr : x.role = .learner := by simpa [isLearner] using hx
    refine ⟨⟨?_, ?_, ?_, ?_, ?_⟩, ?_, ?_, ?_, ?_, ?_, ?_⟩ <;> simp [jointDemoteBody, isLearner, hr]

theorem demoteLoop_spec (xs : List Peer) (b : B) :
    Keeps b (xs.foldl jointDemoteBody b) ∧
    (xs.foldl jointDemoteBody b).targetLeader = b.targetLeader ∧
    (xs.foldl jointDemoteBody b).steps = b.steps ∧
    (xs.foldl jointDemoteBody b).toPromote = b.toPromote ∧
    (xs.foldl jointDemoteBody b).cur.leader = b.cur.leader ∧
    (xs.foldl jointDemoteBody b).toRemove = b.toRemove ∧
    (xs.foldl jointDemoteBody b).toDemote =
      ((xs.filter (fun p => !isLearner p)).map asLearner).foldl pmSet b.toDemote := by
  induction xs generalizing b with
  | nil => simp [Keeps.refl]
  | cons x rest ih =>
    simp only [List.foldl_cons]
    obtain ⟨k, h0, h1, h2, h3, h4, h5⟩ := ih (jointDemoteBody b x)
    obtain ⟨k', g0, g1, g2, g3, g4, g5⟩ := jointDemoteBody_spec b x
    refine ⟨Keeps.trans k' k, h0.trans g0, h1.trans g1, h2.trans g2, h3.trans g3, h4.trans g4, ?_⟩
    rw [h5, g5]
    cases hx : isLearner x <;> simp [List.filter_cons, hx]

theorem removeLoop_steps (xs : List Peer) (b : B) :
    (xs.foldl jointRemoveBody b).steps = b.steps ++ xs.map rmStep := by
  induction xs generalizing b with
  | nil => simp
  | cons x rest ih =>
    simp only [List.foldl_cons, ih]
    simp [jointRemoveBody, execRemovePeer, rmStep, List.append_assoc]

/-- what `setTargetLeaderIfNotExist` picks is 0 or the store of a target peer that is not a learner -/
theorem setTarget_spec (b : B) :
    let b' := setTargetLeaderIfNotExist b
    Keeps b b' ∧ b'.steps = b.steps ∧ b'.toPromote = b.toPromote ∧ b'.toDemote = b.toDemote ∧
    b'.toRemove = b.toRemove ∧ b'.cur = b.cur ∧
    ((b.targetLeader ≠ 0 ∧ b'.targetLeader = b.targetLeader) ∨
     (b.targetLeader = 0 ∧ (b'.targetLeader = 0 ∨
        ∃ p ∈ b.targetPeers, p.store = b'.targetLeader ∧ p.role ≠ .learner ∧ p.role ≠ .demoting))) := by
  intro b'
  by_cases h0 : b.targetLeader = 0
  · have hb' : b' = { b with targetLeader := (pmSorted b.targetPeers).foldl (pickLeaderStep b) 0 } := by
      simp [b', setTargetLeaderIfNotExist, h0]
    rw [hb']
    refine ⟨⟨rfl, rfl, rfl, rfl, rfl⟩, rfl, rfl, rfl, rfl, rfl, Or.inr ⟨h0, ?_⟩⟩
    simp only
    generalize hl : pmSorted b.targetPeers = l
    have hsub : ∀ p ∈ l, p ∈ b.targetPeers := fun p hp => mem_pmSorted_mem (hl ▸ hp)
    clear hl hb'
    suffices H : ∀ (init : Nat), (init = 0 ∨ ∃ p ∈ b.targetPeers, p.store = init ∧ p.role ≠ .learner ∧ p.role ≠ .demoting) →
        (l.foldl (pickLeaderStep b) init = 0 ∨
         ∃ p ∈ b.targetPeers, p.store = l.foldl (pickLeaderStep b) init ∧ p.role ≠ .learner ∧ p.role ≠ .demoting)
      from H 0 (Or.inl rfl)
    induction l with
    | nil => intro init hi; simpa using hi
    | cons x rest ih =>
      intro init hi
      simp only [List.foldl_cons]
      apply ih (fun p hp => hsub p (List.mem_cons_of_mem _ hp))
      have hx := hsub x (List.mem_cons_self ..)
      unfold pickLeaderStep
      by_cases ha : allowLeader b x b.force = true
      · have hrole : x.role ≠ .learner ∧ x.role ≠ .demoting := by
          unfold allowLeader at ha
          split at ha
          · cases ha
          · next hne => simpa using hne
        have hxok : ∃ p ∈ b.targetPeers, p.store = x.store ∧ p.role ≠ .learner ∧ p.role ≠ .demoting :=
          ⟨x, hx, rfl, hrole⟩
        simp only [ha, Bool.not_true, Bool.false_eq_true, if_false]
        repeat' split
        all_goals first | exact hi | exact Or.inr hxok
      · simp only [Bool.not_eq_true] at ha
        simp [ha, hi]
  · have : b' = b := by simp [b', setTargetLeaderIfNotExist, h0]
    rw [this]
    exact ⟨Keeps.refl b, rfl, rfl, rfl, rfl, rfl, Or.inl ⟨h0, rfl⟩⟩

/-! ### the middle part -/

theorem execChangePeerV2_spec (b : B) (nt : Bool) :
    (execChangePeerV2 b true nt).steps =
      b.steps ++ [.enter (toItems (pmSorted b.toPromote)) (toItems (pmSorted b.toDemote))] ++
      (if nt && b.originLeader != b.targetLeader then [.transferLeader b.cur.leader b.targetLeader] else []) ++
      [.leave (toItems (pmSorted b.toPromote)) (toItems (pmSorted b.toDemote))] ∧
    (execChangePeerV2 b true nt).toRemove = b.toRemove ∧
    (execChangePeerV2 b true nt).originLeader = b.originLeader ∧
    (execChangePeerV2 b true nt).targetLeader = b.targetLeader ∧
    (execChangePeerV2 b true nt).cur.leader =
      (if nt && b.originLeader != b.targetLeader then b.targetLeader else b.cur.leader) := by
  cases hc : (nt && b.originLeader != b.targetLeader) <;>
    simp [execChangePeerV2, hc, execTransferLeader, List.append_assoc]

theorem jointMid_spec (b : B) (S : List Peer) (hcur : b.cur.leader = b.originLeader)
    (hl0 : b.originLeader ≠ 0)
    (hOS : ∀ p ∈ b.originPeers, p ∈ S) (hplainO : plainRoles b.originPeers)
    (hplainT : plainRoles b.targetPeers)
    (ht : ∃ p, pmGet b.targetPeers b.targetLeader = some p ∧ p.role = .voter) :
    ∃ mid, (jointMid b).steps = b.steps ++ mid ∧ (jointMid b).toRemove = b.toRemove ∧
      MidForm S b.targetPeers (toItems (pmSorted b.toPromote)) (toItems (pmSorted b.toDemote))
        b.originLeader b.targetLeader mid := by
  unfold jointMid
  by_cases hc : targetLeaderWasVoter b = true
  · simp only [hc, if_true]
    -- transfer first
    have hv : ∃ p ∈ S, p.store = b.targetLeader ∧ p.role = .voter := by
      unfold targetLeaderWasVoter at hc
      split at hc
      · next p hp =>
        obtain ⟨hm, hs⟩ := pmGet_some hp
        refine ⟨p, hOS p hm, hs, ?_⟩
        rcases hplainO p hm with e | e
        · exact e
        · simp [isLearner, e] at hc
      · cases hc
    by_cases e : b.originLeader = b.targetLeader
    · have e' : (b.originLeader != b.targetLeader) = false := by simp [e]
      simp only [e', Bool.false_eq_true, if_false]
      obtain ⟨h1, h2, _⟩ := execChangePeerV2_spec b false
      refine ⟨[.enter (toItems (pmSorted b.toPromote)) (toItems (pmSorted b.toDemote)),
               .leave (toItems (pmSorted b.toPromote)) (toItems (pmSorted b.toDemote))], ?_, h2, ?_⟩
      · rw [h1]; simp
      · have := MidForm.before (T := b.targetPeers) (P := toItems (pmSorted b.toPromote))
          (D := toItems (pmSorted b.toDemote)) (l := b.originLeader) hv
        simp only [e', Bool.false_eq_true, if_false, List.nil_append] at this
        exact this
    · have e' : (b.originLeader != b.targetLeader) = true := by simpa using e
      simp only [e', if_true]
      obtain ⟨h1, h2, _⟩ := execChangePeerV2_spec
        { execTransferLeader b b.targetLeader with kindLeader := true } false
      refine ⟨[.transferLeader b.originLeader b.targetLeader,
               .enter (toItems (pmSorted b.toPromote)) (toItems (pmSorted b.toDemote)),
               .leave (toItems (pmSorted b.toPromote)) (toItems (pmSorted b.toDemote))], ?_, h2, ?_⟩
      · rw [h1]; simp [execTransferLeader, hcur, List.append_assoc]
      · have := MidForm.before (T := b.targetPeers) (P := toItems (pmSorted b.toPromote))
          (D := toItems (pmSorted b.toDemote)) (l := b.originLeader) hv
        simp only [e', if_true] at this
        exact this
  · simp only [hc, Bool.false_eq_true, if_false]
    by_cases hc2 : originLeaderStaysVoter b = true
    · simp only [hc2, if_true]
      have hf : finV b.targetPeers b.originLeader = true := by
        unfold originLeaderStaysVoter at hc2
        simp only [Bool.or_eq_true, beq_iff_eq] at hc2
        rcases hc2 with h0 | h1
        · exact absurd h0 hl0
        · split at h1
          · next p hp =>
            obtain ⟨hm, hs⟩ := pmGet_some hp
            refine finV_iff.2 ⟨p, hm, hs, ?_⟩
            rcases hplainT p hm with e | e
            · exact e
            · simp [isLearner, e] at h1
          · cases h1
      obtain ⟨h1, h2, h3, h4, h5⟩ := execChangePeerV2_spec b false
      by_cases e : b.originLeader = b.targetLeader
      · have e' : (b.originLeader != b.targetLeader) = false := by simp [e]
        have e'' : ((execChangePeerV2 b true false).originLeader != (execChangePeerV2 b true false).targetLeader) = false := by
          rw [h3, h4]; exact e'
        simp only [e'', Bool.false_eq_true, if_false]
        refine ⟨[.enter (toItems (pmSorted b.toPromote)) (toItems (pmSorted b.toDemote)),
                 .leave (toItems (pmSorted b.toPromote)) (toItems (pmSorted b.toDemote))], ?_, h2, ?_⟩
        · rw [h1]; simp
        · have := MidForm.after (S := S) (P := toItems (pmSorted b.toPromote))
            (D := toItems (pmSorted b.toDemote)) (t := b.targetLeader) hf
          simp only [e', Bool.false_eq_true, if_false, List.append_nil] at this
          exact this
      · have e' : (b.originLeader != b.targetLeader) = true := by simpa using e
        have e'' : ((execChangePeerV2 b true false).originLeader != (execChangePeerV2 b true false).targetLeader) = true := by
          rw [h3, h4]; exact e'
        simp only [e'', if_true]
        refine ⟨[.enter (toItems (pmSorted b.toPromote)) (toItems (pmSorted b.toDemote)),
                 .leave (toItems (pmSorted b.toPromote)) (toItems (pmSorted b.toDemote)),
                 .transferLeader b.originLeader b.targetLeader], ?_, ?_, ?_⟩
        · simp only [execTransferLeader, h1, h4, h5, hcur]
          simp [List.append_assoc]
        · simp [execTransferLeader, h2]
        · have := MidForm.after (S := S) (P := toItems (pmSorted b.toPromote))
            (D := toItems (pmSorted b.toDemote)) (t := b.targetLeader) hf
          simp only [e', if_true] at this
          exact this
    · simp only [hc2, Bool.false_eq_true, if_false]
      -- leader transferred inside the joint state; origin leader ≠ target leader here
      have hne : b.originLeader ≠ b.targetLeader := by
        intro e
        apply hc2
        obtain ⟨p, hp, hr⟩ := ht
        rw [← e] at hp
        simp [originLeaderStaysVoter, hp, isLearner, hr]
      have e' : (b.originLeader != b.targetLeader) = true := by simpa using hne
      obtain ⟨h1, h2, _⟩ := execChangePeerV2_spec b true
      refine ⟨[.enter (toItems (pmSorted b.toPromote)) (toItems (pmSorted b.toDemote)),
               .transferLeader b.originLeader b.targetLeader,
               .leave (toItems (pmSorted b.toPromote)) (toItems (pmSorted b.toDemote))], ?_,
              by simpa using h2, MidForm.inside⟩
      simp only [h1, e', Bool.and_self, if_true, hcur]
      simp [List.append_assoc]

/-! ### prepareBuild -/

theorem allocIds_spec (l : List Peer) (nid : Nat) (l' : List Peer) (h : allocIds l nid = .ok l') :
    l'.map (fun p => (p.store, p.role)) = l.map (fun p => (p.store, p.role)) := by
  induction l generalizing nid l' with
  | nil => simp [allocIds] at h; subst h; rfl
  | cons n rest ih =>
    simp only [allocIds] at h
    split at h
    · split at h
      · cases h
      · cases hr : allocIds rest (nid + 1) with
        | error e => simp [hr, Except.map] at h
        | ok r =>
          simp only [hr, Except.map, Except.ok.injEq] at h
          subst h
          simp [ih _ _ hr]
    · cases hr : allocIds rest nid with
      | error e => simp [hr, Except.map] at h
      | ok r =>
        simp only [hr, Except.map, Except.ok.injEq] at h
        subst h
        simp [ih _ _ hr]

theorem targetOf_eq (b : B) (o n0 : Peer) (h : pmGet b.targetPeers o.store = some n0) :
    targetOf b o = some ⟨o.store, o.id, n0.role⟩ := by
  unfold targetOf
  rw [h]
  simp only [Option.map_some, Option.some.injEq]
  split
  · rfl
  · next hid =>
    have hs := (pmGet_some h).2
    have : o.id = n0.id := by simpa using hid
    cases n0; simp_all

theorem targetOf_none (b : B) (o : Peer) (h : pmGet b.targetPeers o.store = none) :
    targetOf b o = none := by
  unfold targetOf; rw [h]; rfl

section
variable (b : B) (hd : b.allowDemote = true)
include hd

theorem mem_toRemove_joint (o : Peer) :
    o ∈ (diffOrigin b).toRemove ↔ o ∈ b.originPeers ∧ o.store ∉ stores b.targetPeers := by
  simp only [diffOrigin, List.mem_filter]
  constructor
  · rintro ⟨ho, hc⟩
    refine ⟨ho, ?_⟩
    cases hg : pmGet b.targetPeers o.store with
    | none => exact pmGet_none.1 hg
    | some n0 => rw [targetOf_eq b o n0 hg] at hc; simp [hd] at hc
  · rintro ⟨ho, hs⟩
    refine ⟨ho, ?_⟩
    rw [targetOf_none b o (pmGet_none.2 hs)]

theorem mem_toPromote_joint (n : Peer) :
    n ∈ (diffOrigin b).toPromote ↔
      ∃ o ∈ b.originPeers, o.role = .learner ∧ ∃ n0, pmGet b.targetPeers o.store = some n0 ∧
        n0.role ≠ .learner ∧ n = ⟨o.store, o.id, n0.role⟩ := by
  simp only [diffOrigin, List.mem_filterMap]
  constructor
  · rintro ⟨o, ho, hc⟩
    cases hg : pmGet b.targetPeers o.store with
    | none => rw [targetOf_none b o hg] at hc; cases hc
    | some n0 =>
      rw [targetOf_eq b o n0 hg] at hc
      simp only at hc
      by_cases hcond : (isLearner o && !isLearner ⟨o.store, o.id, n0.role⟩) = true
      · rw [if_pos hcond] at hc
        simp only [isLearner, Bool.and_eq_true, beq_iff_eq, Bool.not_eq_true', beq_eq_false_iff_ne, ne_eq] at hcond
        cases hc
        exact ⟨o, ho, hcond.1, n0, hg, hcond.2, rfl⟩
      · rw [if_neg hcond] at hc; cases hc
  · rintro ⟨o, ho, hl, n0, hg, hr, rfl⟩
    refine ⟨o, ho, ?_⟩
    rw [targetOf_eq b o n0 hg]
    simp [isLearner, hl, hr]

theorem mem_toDemote_joint (n : Peer) :
    n ∈ (diffOrigin b).toDemote ↔
      ∃ o ∈ b.originPeers, o.role ≠ .learner ∧ ∃ n0, pmGet b.targetPeers o.store = some n0 ∧
        n0.role = .learner ∧ n = ⟨o.store, o.id, .learner⟩ := by
  simp only [diffOrigin, List.mem_filterMap]
  constructor
  · rintro ⟨o, ho, hc⟩
    cases hg : pmGet b.targetPeers o.store with
    | none => rw [targetOf_none b o hg] at hc; cases hc
    | some n0 =>
      rw [targetOf_eq b o n0 hg] at hc
      simp only at hc
      by_cases hcond : (!isLearner o && isLearner ⟨o.store, o.id, n0.role⟩ && b.allowDemote) = true
      · rw [if_pos hcond] at hc
        simp only [isLearner, Bool.and_eq_true, beq_iff_eq, Bool.not_eq_true', beq_eq_false_iff_ne, ne_eq] at hcond
        cases hc
        exact ⟨o, ho, hcond.1.1, n0, hg, hcond.1.2, by rw [hcond.1.2]⟩
      · rw [if_neg hcond] at hc; cases hc
  · rintro ⟨o, ho, hl, n0, hg, hr, rfl⟩
    refine ⟨o, ho, ?_⟩
    rw [targetOf_eq b o n0 hg]
    simp [isLearner, hl, hr, hd]

theorem needAdd_joint (n : Peer) : needAdd (diffOrigin b) n = true ↔ n.store ∉ stores b.originPeers := by
  unfold needAdd
  have e1 : (diffOrigin b).originPeers = b.originPeers := rfl
  have e2 : (diffOrigin b).allowDemote = b.allowDemote := rfl
  rw [e1, e2, hd]
  cases hg : pmGet b.originPeers n.store with
  | none => simp [pmGet_none.1 hg]
  | some o =>
    have := pmGet_some hg
    simp only [Bool.not_true, Bool.false_and, Bool.false_eq_true, false_iff, Classical.not_not]
    exact mem_stores.2 ⟨o, this.1, this.2⟩

end

theorem prepareBuild_spec (b0 b1 : B) (nid : Nat) (h : prepareBuild b0 nid = .ok b1) :
    Keeps b0 b1 ∧ b1.steps = b0.steps ∧ b1.cur = ⟨b0.originPeers, b0.originLeader⟩ ∧
    b1.toRemove = (diffOrigin (clearPending b0)).toRemove ∧
    b1.toPromote = (diffOrigin (clearPending b0)).toPromote ∧
    b1.toDemote = (diffOrigin (clearPending b0)).toDemote ∧
    allocIds ((pmSorted b0.targetPeers).filter (needAdd (diffOrigin (clearPending b0)))) nid = .ok b1.toAdd ∧
    b1.allowDemote = b0.allowDemote ∧ (b1.useJoint = true → b0.useJoint = true) ∧
    b1.targetLeader = reqLeader b0 := by
  unfold prepareBuild at h
  by_cases hv : ((b0.targetPeers.filter (fun p => !isLearner p)).length == 0) = true
  · rw [if_pos hv] at h; cases h
  · rw [if_neg hv] at h
    have hdt : diffTarget (diffOrigin (clearPending b0)) nid =
        (allocIds ((pmSorted b0.targetPeers).filter (needAdd (diffOrigin (clearPending b0)))) nid).map
          (fun l => { diffOrigin (clearPending b0) with toAdd := l }) := rfl
    rw [hdt] at h
    cases ha : allocIds ((pmSorted b0.targetPeers).filter (needAdd (diffOrigin (clearPending b0)))) nid with
    | error e => rw [ha] at h; simp [Except.map] at h
    | ok l =>
      rw [ha] at h
      simp only [Except.map] at h
      generalize hb : ({ diffOrigin (clearPending b0) with toAdd := l } : B) = bb at h
      have hbb : bb.c = b0.c ∧ bb.originPeers = b0.originPeers ∧ bb.originLeader = b0.originLeader ∧
          bb.targetPeers = b0.targetPeers ∧ bb.lightWeight = b0.lightWeight ∧ bb.steps = b0.steps ∧
          bb.toRemove = (diffOrigin (clearPending b0)).toRemove ∧
          bb.toPromote = (diffOrigin (clearPending b0)).toPromote ∧
          bb.toDemote = (diffOrigin (clearPending b0)).toDemote ∧ bb.toAdd = l ∧
          bb.allowDemote = b0.allowDemote ∧ bb.useJoint = b0.useJoint ∧ bb.targetLeader = b0.targetLeader := by
        subst hb; simp [diffOrigin, clearPending]
      obtain ⟨e1, e2, e3, e4, e5, e6, e7, e8, e9, e10, e11, e12, e13⟩ := hbb
      by_cases hal : ((startCurrent (cancelTargetLeader bb)).targetLeader != 0 &&
          !targetLeaderAllowed (startCurrent (cancelTargetLeader bb))) = true
      · rw [if_pos hal] at h; cases h
      · rw [if_neg hal] at h
        simp only [Except.ok.injEq] at h
        subst h
        have hc : (cancelTargetLeader bb).targetLeader = reqLeader bb := by
          unfold cancelTargetLeader reqLeader
          cases hg : pmGet bb.targetPeers bb.targetLeader with
          | none => rfl
          | some p => cases hl : isLearner p <;> simp [hl]
        have hk : ∀ (x : B), (cancelTargetLeader x).c = x.c ∧ (cancelTargetLeader x).originPeers = x.originPeers ∧
            (cancelTargetLeader x).originLeader = x.originLeader ∧ (cancelTargetLeader x).targetPeers = x.targetPeers ∧
            (cancelTargetLeader x).lightWeight = x.lightWeight ∧ (cancelTargetLeader x).steps = x.steps ∧
            (cancelTargetLeader x).toRemove = x.toRemove ∧ (cancelTargetLeader x).toPromote = x.toPromote ∧
            (cancelTargetLeader x).toDemote = x.toDemote ∧ (cancelTargetLeader x).toAdd = x.toAdd ∧
            (cancelTargetLeader x).allowDemote = x.allowDemote ∧ (cancelTargetLeader x).useJoint = x.useJoint := by
          intro x
          unfold cancelTargetLeader
          split
          · split <;> simp
          · simp
        obtain ⟨k1, k2, k3, k4, k5, k6, k7, k8, k9, k10, k11, k12⟩ := hk bb
        have hf : ∀ (x : B), (finishPrepare x).c = x.c ∧ (finishPrepare x).originPeers = x.originPeers ∧
            (finishPrepare x).originLeader = x.originLeader ∧ (finishPrepare x).targetPeers = x.targetPeers ∧
            (finishPrepare x).lightWeight = x.lightWeight ∧ (finishPrepare x).steps = x.steps ∧
            (finishPrepare x).toRemove = x.toRemove ∧ (finishPrepare x).toPromote = x.toPromote ∧
            (finishPrepare x).toDemote = x.toDemote ∧ (finishPrepare x).toAdd = x.toAdd ∧
            (finishPrepare x).allowDemote = x.allowDemote ∧ ((finishPrepare x).useJoint = true → x.useJoint = true) ∧
            (finishPrepare x).targetLeader = x.targetLeader ∧ (finishPrepare x).cur = x.cur := by
          intro x
          unfold finishPrepare
          split <;> simp
        obtain ⟨f1, f2, f3, f4, f5, f6, f7, f8, f9, f10, f11, f12, f13, f14⟩ :=
          hf (startCurrent (cancelTargetLeader bb))
        refine ⟨⟨?_, ?_, ?_, ?_, ?_⟩, ?_, ?_, ?_, ?_, ?_, ?_, ?_, ?_, ?_⟩
        · rw [f1]; simp only [startCurrent]; rw [k1, e1]
        · rw [f2]; simp only [startCurrent]; rw [k2, e2]
        · rw [f3]; simp only [startCurrent]; rw [k3, e3]
        · rw [f4]; simp only [startCurrent]; rw [k4, e4]
        · rw [f5]; simp only [startCurrent]; rw [k5, e5]
        · rw [f6]; simp only [startCurrent]; rw [k6, e6]
        · rw [f14]; simp only [startCurrent]; rw [k2, k3, e2, e3]
        · rw [f7]; simp only [startCurrent]; rw [k7, e7]
        · rw [f8]; simp only [startCurrent]; rw [k8, e8]
        · rw [f9]; simp only [startCurrent]; rw [k9, e9]
        · rw [f10]; simp only [startCurrent]; rw [k10, e10]
        · rw [f11]; simp only [startCurrent]; rw [k11, e11]
        · intro hu; have := f12 hu; simp only [startCurrent] at this; rw [k12, e12] at this; exact this
        · rw [f13]; simp only [startCurrent]
          rw [hc]; unfold reqLeader; rw [e4, e13]

/-! ### the data of the joint builder satisfies `JointCtx` -/

/-- what the recording calls of the builder leave behind for a well-formed region -/
structure Recorded (b0 : B) : Prop where
  nodupO  : (stores b0.originPeers).Nodup
  plainO  : plainRoles b0.originPeers
  store0  : ∀ p ∈ b0.originPeers, p.store ≠ 0
  leader  : ∃ p ∈ b0.originPeers, p.store = b0.originLeader ∧ p.role = .voter
  nodupT  : (stores b0.targetPeers).Nodup
  plainT  : plainRoles b0.targetPeers
  noSteps : b0.steps = []
  demote  : b0.useJoint = true → b0.allowDemote = true

theorem stores_filterMap_nodup (l : List Peer) (f : Peer → Option Peer)
    (hf : ∀ o n, f o = some n → n.store = o.store) (hn : (stores l).Nodup) :
    (stores (l.filterMap f)).Nodup := by
  induction l with
  | nil => simp [stores]
  | cons o rest ih =>
    simp only [stores, List.map_cons, List.nodup_cons] at hn
    simp only [List.filterMap_cons]
    cases hfo : f o with
    | none => exact ih hn.2
    | some n =>
      simp only [stores, List.map_cons, List.nodup_cons]
      refine ⟨?_, ih hn.2⟩
      intro hm
      obtain ⟨x, hx, e⟩ := List.mem_map.1 hm
      obtain ⟨y, hy, hfy⟩ := List.mem_filterMap.1 hx
      apply hn.1
      rw [← hf o n hfo, ← e, hf y x hfy]
      exact List.mem_map.2 ⟨y, hy, rfl⟩

theorem stores_toItems (l : List Peer) : (toItems l).map (·.store) = stores l := by
  simp [toItems, stores, List.map_map, Function.comp_def]

theorem inItems_toItems_sorted (X : List Peer) (s : Nat) :
    inItems (toItems (pmSorted X)) s = true ↔ s ∈ stores X := by
  rw [inItems_iff]
  constructor
  · rintro ⟨it, hit, rfl⟩
    have : it.store ∈ (toItems (pmSorted X)).map (·.store) := List.mem_map.2 ⟨it, hit, rfl⟩
    rw [stores_toItems, stores_pmSorted] at this
    exact mem_sortIds.1 this
  · intro hs
    have : s ∈ (toItems (pmSorted X)).map (·.store) := by
      rw [stores_toItems, stores_pmSorted]; exact mem_sortIds.2 hs
    obtain ⟨it, hit, e⟩ := List.mem_map.1 this
    exact ⟨it, hit, e⟩

theorem map_eq_mem {α β : Type} (f : α → β) (l l' : List α) (h : l'.map f = l.map f) :
    (∀ a ∈ l', ∃ n ∈ l, f n = f a) ∧ (∀ n ∈ l, ∃ a ∈ l', f a = f n) := by
  constructor
  · intro a ha
    have : f a ∈ l.map f := h ▸ List.mem_map.2 ⟨a, ha, rfl⟩
    obtain ⟨n, hn, e⟩ := List.mem_map.1 this
    exact ⟨n, hn, e⟩
  · intro n hn
    have : f n ∈ l'.map f := h ▸ List.mem_map.2 ⟨n, hn, rfl⟩
    obtain ⟨a, ha, e⟩ := List.mem_map.1 this
    exact ⟨a, ha, e⟩

theorem pmGet_iff {l : List Peer} (hn : (stores l).Nodup) {s : Nat} {p : Peer} :
    pmGet l s = some p ↔ p ∈ l ∧ p.store = s := by
  constructor
  · exact pmGet_some
  · rintro ⟨hp, rfl⟩; exact pmGet_of_mem hn hp

theorem finV_false_of_learner {T : List Peer} (hn : (stores T).Nodup) {n : Peer} (h : n ∈ T)
    (hr : n.role = .learner) : finV T n.store = false := by
  cases hf : finV T n.store
  · rfl
  · rw [(finV_of_mem hn h).1 hf] at hr; cases hr

theorem finV_false_of_not_mem {T : List Peer} {s : Nat} (h : s ∉ stores T) : finV T s = false := by
  cases hf : finV T s
  · rfl
  · obtain ⟨n, hn, e, _⟩ := finV_iff.1 hf
    exact absurd (mem_stores.2 ⟨n, hn, e⟩) h

end PdModel.Builder
