import PdModel.Lemmas.RuleSweep
set_option linter.unusedSimpArgs false
set_option linter.unusedVariables false
/-! From the per-key specification of buildRuleList to the answers of the three queries. -/
namespace PdModel.Rules
open PdModel.Spec.C13

def segOf (rules : List GRule) (x : Nat) : RangeRules :=
  ⟨x, coverList rules x, prepareRulesForApply (coverList rules x)⟩

/-- the rule set of key `x` is accepted: some rule covers it and the rules that apply are valid -/
def SegOK (rules : List GRule) (x : Nat) : Prop :=
  coverList rules x ≠ [] ∧ checkApplyRules (prepareRulesForApply (coverList rules x)) = .ok ()

theorem specLoop_ok (rules : List GRule) : ∀ (keys : List Nat) (acc rl : RuleList),
    specLoop rules keys acc = .ok rl ↔ (rl = acc ++ keys.map (segOf rules) ∧ ∀ x ∈ keys, SegOK rules x) := by
  intro keys
  induction keys with
  | nil => intro acc rl; simp [specLoop, eq_comm]
  | cons x xs ih =>
    intro acc rl
    simp only [specLoop, pushSeg]
    by_cases he : (coverList rules x).isEmpty = true
    · simp only [he, ↓reduceIte]
      constructor
      · intro h; cases h
      · rintro ⟨_, h⟩
        exact absurd (List.isEmpty_iff.1 he) (h x List.mem_cons_self).1
    · have hne : coverList rules x ≠ [] := fun h => he (List.isEmpty_iff.2 h)
      simp only [he, Bool.false_eq_true, ↓reduceIte]
      cases hc : checkApplyRules (prepareRulesForApply (coverList rules x)) with
      | error e =>
        simp only
        constructor
        · intro h; cases h
        · rintro ⟨_, h⟩
          have := (h x List.mem_cons_self).2
          rw [hc] at this; cases this
      | ok u =>
        simp only [ih]
        constructor
        · rintro ⟨h1, h2⟩
          refine ⟨by rw [h1]; simp [segOf], ?_⟩
          intro y hy
          rcases List.mem_cons.1 hy with e | e
          · subst e; exact ⟨hne, hc⟩
          · exact h2 y e
        · rintro ⟨h1, h2⟩
          exact ⟨by rw [h1]; simp [segOf], fun y hy => h2 y (List.mem_cons_of_mem _ hy)⟩

theorem bkeys_sorted (rules : List GRule) : (bkeys rules).Pairwise (· < ·) := (foldr_insertNat _).1

theorem mem_bkeys (rules : List GRule) (x : Nat) :
    x ∈ bkeys rules ↔ ∃ r ∈ rules, x = r.rule.start ∨ (r.rule.end_ ≠ 0 ∧ x = r.rule.end_) := by
  unfold bkeys
  rw [(foldr_insertNat _).2, List.mem_map]
  constructor
  · rintro ⟨p, hp, rfl⟩
    obtain ⟨r, hr, e | ⟨he, e⟩⟩ := (mem_points rules p).1 hp
    · exact ⟨r, hr, Or.inl (by rw [e]; rfl)⟩
    · exact ⟨r, hr, Or.inr ⟨he, by rw [e]; rfl⟩⟩
  · rintro ⟨r, hr, e | ⟨he, e⟩⟩
    · exact ⟨startPt r, (mem_points rules _).2 ⟨r, hr, Or.inl rfl⟩, by rw [e]; rfl⟩
    · exact ⟨endPt r, (mem_points rules _).2 ⟨r, hr, Or.inr ⟨he, rfl⟩⟩, by rw [e]; rfl⟩

/-- what an accepted build returns -/
theorem buildSpec_ok (rules : List GRule) (rl : RuleList) :
    buildSpec rules = .ok rl ↔
      (rules ≠ [] ∧ (∃ r ∈ rules, r.rule.start = 0) ∧ rl = (bkeys rules).map (segOf rules) ∧
        ∀ x ∈ bkeys rules, SegOK rules x) := by
  unfold buildSpec
  by_cases h1 : rules.isEmpty = true
  · simp only [h1, ↓reduceIte]
    constructor
    · intro h; cases h
    · rintro ⟨h, _⟩; exact absurd (List.isEmpty_iff.1 h1) h
  · have hne : rules ≠ [] := fun h => h1 (List.isEmpty_iff.2 h)
    simp only [h1, Bool.false_eq_true, ↓reduceIte]
    by_cases h2 : (!rules.any (fun r => r.rule.start == 0)) = true
    · simp only [h2, ↓reduceIte]
      constructor
      · intro h; cases h
      · rintro ⟨_, ⟨r, hr, h0⟩, _⟩
        simp only [Bool.not_eq_true', List.any_eq_false, beq_iff_eq] at h2
        exact absurd h0 (h2 r hr)
    · simp only [h2, Bool.false_eq_true, ↓reduceIte, specLoop_ok, List.nil_append]
      have : ∃ r ∈ rules, r.rule.start = 0 := by
        simp only [Bool.not_eq_true', Bool.not_eq_false, List.any_eq_true, beq_iff_eq] at h2
        exact h2
      constructor
      · rintro ⟨h3, h4⟩; exact ⟨hne, this, h3, h4⟩
      · rintro ⟨_, _, h3, h4⟩; exact ⟨h3, h4⟩

/-! ### searching a strictly ascending key list -/

theorem sorted_takeWhile (k : Nat) : ∀ (l : List Nat), l.Pairwise (· < ·) →
    l.takeWhile (fun x => decide (x ≤ k)) = l.filter (fun x => decide (x ≤ k)) ∧
    l.dropWhile (fun x => decide (x ≤ k)) = l.filter (fun x => !decide (x ≤ k)) := by
  intro l
  induction l with
  | nil => intro _; simp
  | cons y ys ih =>
    intro h
    rw [List.pairwise_cons] at h
    by_cases hy : y ≤ k
    · simp only [List.takeWhile_cons, List.dropWhile_cons, List.filter_cons, hy, decide_true, ↓reduceIte,
        Bool.not_true, Bool.false_eq_true]
      exact ⟨by rw [(ih h.2).1], (ih h.2).2⟩
    · have hall : ∀ z ∈ ys, ¬ z ≤ k := fun z hz => by have := h.1 z hz; omega
      have e1 : ys.filter (fun x => decide (x ≤ k)) = [] := by
        rw [List.filter_eq_nil_iff]; intro z hz; simpa using hall z hz
      have e2 : ys.filter (fun x => !decide (x ≤ k)) = ys := by
        rw [List.filter_eq_self]; intro z hz; simpa using hall z hz
      simp [List.takeWhile_cons, List.dropWhile_cons, List.filter_cons, hy, e1, e2]

/-- the last key ≤ k of an ascending key list is the greatest one -/
theorem floor_spec (k x : Nat) (l : List Nat) (hs : l.Pairwise (· < ·))
    (h : (l.filter (fun y => decide (y ≤ k))).getLast? = some x) :
    x ∈ l ∧ x ≤ k ∧ ∀ y ∈ l, y ≤ k → y ≤ x := by
  obtain ⟨ys, hys⟩ := List.getLast?_eq_some_iff.1 h
  have hx : x ∈ l.filter (fun y => decide (y ≤ k)) := by rw [hys]; simp
  rw [List.mem_filter] at hx
  refine ⟨hx.1, by simpa using hx.2, ?_⟩
  intro y hy hyk
  have hyf : y ∈ l.filter (fun y => decide (y ≤ k)) := List.mem_filter.2 ⟨hy, by simpa using hyk⟩
  have hp := hs.filter (fun y => decide (y ≤ k))
  rw [hys, List.pairwise_append] at hp
  rw [hys] at hyf
  rcases List.mem_append.1 hyf with e | e
  · have := hp.2.2 y e x (by simp); omega
  · simp at e; omega

/-- no start or end key lies between the floor key and `k`: the same rules cover both -/
theorem cover_floor (rules : List GRule) (k x : Nat) (hx : x ≤ k)
    (hmax : ∀ y ∈ bkeys rules, y ≤ k → y ≤ x) : coverList rules x = coverList rules k := by
  unfold coverList
  congr 1
  apply List.filter_congr
  intro r hr
  have hs := hmax r.rule.start ((mem_bkeys rules _).2 ⟨r, hr, Or.inl rfl⟩)
  simp only [covers]
  by_cases he : r.rule.end_ = 0
  · simp only [he, beq_self_eq_true, Bool.true_or, Bool.and_true, decide_eq_decide]
    constructor
    · intro h; omega
    · intro h; exact hs h
  · have hend := hmax r.rule.end_ ((mem_bkeys rules _).2 ⟨r, hr, Or.inr ⟨he, rfl⟩⟩)
    have hne : (r.rule.end_ == 0) = false := by simpa using he
    simp only [hne, Bool.false_or]
    by_cases h1 : r.rule.start ≤ k
    · have h1' := hs h1
      by_cases h2 : k < r.rule.end_
      · have : x < r.rule.end_ := by omega
        simp [h1, h1', h2, this]
      · have : ¬ x < r.rule.end_ := by have := hend (by omega); omega
        simp [h1, h1', h2, this]
    · have : ¬ r.rule.start ≤ x := by omega
      simp [h1, this]

structure Built (rules : List GRule) (rl : RuleList) : Prop where
  ne    : rules ≠ []
  zero  : ∃ r ∈ rules, r.rule.start = 0
  eq    : rl = (bkeys rules).map (segOf rules)
  segs  : ∀ x ∈ bkeys rules, SegOK rules x

theorem built_of_ok {rules : List GRule} (hw : RulesWF rules) (hr : RangeWF rules) {rl : RuleList}
    (h : buildRuleList rules = .ok rl) : Built rules rl := by
  rw [buildRuleList_eq hw hr, buildSpec_ok] at h
  exact ⟨h.1, h.2.1, h.2.2.1, h.2.2.2⟩

theorem rangesLE_built (rules : List GRule) (k : Nat) :
    rangesLE ((bkeys rules).map (segOf rules)) k =
      ((bkeys rules).filter (fun x => decide (x ≤ k))).map (segOf rules) := by
  unfold rangesLE
  rw [List.takeWhile_map]
  have : ((fun r : RangeRules => decide (r.startKey ≤ k)) ∘ segOf rules) = fun x => decide (x ≤ k) := by
    funext x; rfl
  rw [this, (sorted_takeWhile k _ (bkeys_sorted rules)).1]

theorem rangesGT_built (rules : List GRule) (k : Nat) :
    rangesGT ((bkeys rules).map (segOf rules)) k =
      ((bkeys rules).filter (fun x => !decide (x ≤ k))).map (segOf rules) := by
  unfold rangesGT
  rw [List.dropWhile_map]
  have : ((fun r : RangeRules => decide (r.startKey ≤ k)) ∘ segOf rules) = fun x => decide (x ≤ k) := by
    funext x; rfl
  rw [this, (sorted_takeWhile k _ (bkeys_sorted rules)).2]

/-- the floor key exists (the smallest key is 0) -/
theorem floor_exists {rules : List GRule} {rl : RuleList} (hb : Built rules rl) (k : Nat) :
    ∃ x, ((bkeys rules).filter (fun y => decide (y ≤ k))).getLast? = some x := by
  obtain ⟨r, hr, h0⟩ := hb.zero
  have : 0 ∈ (bkeys rules).filter (fun y => decide (y ≤ k)) :=
    List.mem_filter.2 ⟨(mem_bkeys rules 0).2 ⟨r, hr, Or.inl h0.symm⟩, by simp⟩
  cases h : ((bkeys rules).filter (fun y => decide (y ≤ k))).getLast? with
  | none => rw [List.getLast?_eq_none_iff] at h; rw [h] at this; simp at this
  | some x => exact ⟨x, rfl⟩

/-- **index exactness for a key** -/
theorem getRulesByKey_built {rules : List GRule} {rl : RuleList} (hb : Built rules rl) (k : Nat) :
    getRulesByKey rl k = some (coverList rules k) := by
  obtain ⟨x, hx⟩ := floor_exists hb k
  obtain ⟨_, h2, h3⟩ := floor_spec k x _ (bkeys_sorted rules) hx
  unfold getRulesByKey
  rw [hb.eq, rangesLE_built, List.getLast?_map, hx]
  simp only [Option.map_some, segOf, Option.some.injEq]
  exact cover_floor rules k x h2 h3

/-- every key is covered and its rule set is valid -/
theorem built_key_ok {rules : List GRule} {rl : RuleList} (hb : Built rules rl) (k : Nat) : SegOK rules k := by
  obtain ⟨x, hx⟩ := floor_exists hb k
  obtain ⟨h1, h2, h3⟩ := floor_spec k x _ (bkeys_sorted rules) hx
  have := hb.segs x h1
  unfold SegOK at this ⊢
  rw [cover_floor rules k x h2 h3] at this
  exact this

end PdModel.Rules

namespace PdModel.Rules
open PdModel.Spec.C13

/-- on a list sorted by `R`, a predicate that is inherited by smaller elements holds on a prefix -/
theorem takeWhile_eq_filter {α : Type} (R : α → α → Prop) (p : α → Bool)
    (hdown : ∀ a b, R a b → p b = true → p a = true) :
    ∀ (l : List α), l.Pairwise R → l.takeWhile p = l.filter p := by
  intro l
  induction l with
  | nil => intro _; rfl
  | cons y ys ih =>
    intro h
    rw [List.pairwise_cons] at h
    by_cases hy : p y = true
    · simp [List.takeWhile_cons, List.filter_cons, hy, ih h.2]
    · have : ys.filter p = [] := by
        rw [List.filter_eq_nil_iff]
        intro z hz hpz
        exact hy (hdown y z (h.1 z hz) hpz)
      simp [List.takeWhile_cons, List.filter_cons, hy, this]

/-- **split keys**: the start/end keys strictly inside the range, ascending -/
theorem getSplitKeys_built {rules : List GRule} {rl : RuleList} (hb : Built rules rl) (s e : Nat) :
    getSplitKeys rl s e = (bkeys rules).filter (inside s e) := by
  unfold getSplitKeys
  rw [hb.eq, rangesGT_built, List.takeWhile_map, List.map_map]
  have h1 : ((fun r : RangeRules => r.startKey) ∘ segOf rules) = id := by funext x; rfl
  have h2 : ((fun r : RangeRules => (e == 0 || decide (r.startKey < e))) ∘ segOf rules)
      = fun x => (e == 0 || decide (x < e)) := by funext x; rfl
  rw [h1, h2, List.map_id]
  rw [takeWhile_eq_filter (· < ·) (fun x => (e == 0 || decide (x < e))) _ _
    ((bkeys_sorted rules).filter _)]
  · rw [List.filter_filter]
    apply List.filter_congr
    intro x _
    simp only [inside]
    by_cases h1 : s < x
    · have : ¬ x ≤ s := by omega
      simp [h1, this]
    · have : x ≤ s := by omega
      simp [h1, this]
  · intro a b hab hb
    simp only [Bool.or_eq_true, beq_iff_eq, decide_eq_true_eq] at hb ⊢
    rcases hb with h | h
    · exact Or.inl h
    · exact Or.inr (by omega)

/-- **rules for a region**: those of the segment of its start key if no start/end key lies strictly inside it -/
theorem getRulesForApplyRegion_built {rules : List GRule} {rl : RuleList} (hb : Built rules rl) (s e : Nat) :
    getRulesForApplyRegion rl s e =
      if (bkeys rules).any (inside s e) then none
      else some (prepareRulesForApply (coverList rules s)) := by
  obtain ⟨x, hx⟩ := floor_exists hb s
  obtain ⟨_, h2, h3⟩ := floor_spec s x _ (bkeys_sorted rules) hx
  unfold getRulesForApplyRegion
  rw [hb.eq, rangesLE_built, rangesGT_built, List.getLast?_map, hx, List.head?_map]
  simp only [Option.map_some, segOf]
  rw [cover_floor rules s x h2 h3]
  have hsorted := (bkeys_sorted rules).filter (fun x => !decide (x ≤ s))
  cases hF : (bkeys rules).filter (fun x => !decide (x ≤ s)) with
  | nil =>
    have : (bkeys rules).any (inside s e) = false := by
      rw [List.any_eq_false]
      intro b hb' hin
      simp only [inside, Bool.and_eq_true, decide_eq_true_eq] at hin
      have : b ∈ (bkeys rules).filter (fun x => !decide (x ≤ s)) :=
        List.mem_filter.2 ⟨hb', by simp; omega⟩
      rw [hF] at this; simp at this
    simp [this]
  | cons nxt tl =>
    rw [hF, List.pairwise_cons] at hsorted
    have hn : nxt ∈ (bkeys rules).filter (fun x => !decide (x ≤ s)) := by rw [hF]; exact List.mem_cons_self
    rw [List.mem_filter] at hn
    have hns : s < nxt := by have := hn.2; simp at this; omega
    simp only [List.head?_cons, Option.map_some]
    by_cases hc : (e == 0 || decide (e > nxt)) = true
    · have : (bkeys rules).any (inside s e) = true := by
        rw [List.any_eq_true]
        refine ⟨nxt, hn.1, ?_⟩
        simp only [Bool.or_eq_true, beq_iff_eq, decide_eq_true_eq] at hc
        simp only [inside, Bool.and_eq_true, decide_eq_true_eq, Bool.or_eq_true, beq_iff_eq]
        exact ⟨hns, by omega⟩
      simp only [Bool.or_eq_true, beq_iff_eq, decide_eq_true_eq] at hc
      have hc' : (e == 0 || decide (e > (segOf rules nxt).startKey)) = true := by
        simpa [segOf] using hc
      simp [hc', this]
    · have : (bkeys rules).any (inside s e) = false := by
        rw [List.any_eq_false]
        intro b hb' hin
        simp only [inside, Bool.and_eq_true, decide_eq_true_eq, Bool.or_eq_true, beq_iff_eq] at hin
        simp only [Bool.or_eq_true, beq_iff_eq, decide_eq_true_eq, not_or] at hc
        have hbF : b ∈ nxt :: tl := by
          rw [← hF]; exact List.mem_filter.2 ⟨hb', by simp; omega⟩
        rcases List.mem_cons.1 hbF with e1 | e1
        · omega
        · have := hsorted.1 b e1; omega
      have hc' : ¬ (e == 0 || decide (e > (segOf rules nxt).startKey)) = true := by
        simp only [segOf]; exact hc
      simp [hc', this]

/-! ### checkApplyRules -/

def leaderSum (l : List GRule) : Int := (l.filter (fun r => r.rule.role = .leader)).foldl (fun n r => n + r.rule.count) 0
def voterSum (l : List GRule) : Int := (l.filter (fun r => r.rule.role = .voter)).foldl (fun n r => n + r.rule.count) 0

theorem foldl_add (l : List GRule) (a : Int) :
    l.foldl (fun n r => n + r.rule.count) a = a + l.foldl (fun n r => n + r.rule.count) 0 := by
  induction l generalizing a with
  | nil => simp
  | cons x xs ih => simp only [List.foldl_cons]; rw [ih, ih (0 + x.rule.count)]; omega

theorem leaderSum_cons (r : GRule) (l : List GRule) :
    leaderSum (r :: l) = (if r.rule.role = .leader then r.rule.count else 0) + leaderSum l := by
  unfold leaderSum
  by_cases h : r.rule.role = .leader
  · simp only [List.filter_cons, h, decide_true, ↓reduceIte, List.foldl_cons]
    rw [foldl_add]; omega
  · simp [List.filter_cons, h]

theorem voterSum_cons (r : GRule) (l : List GRule) :
    voterSum (r :: l) = (if r.rule.role = .voter then r.rule.count else 0) + voterSum l := by
  unfold voterSum
  by_cases h : r.rule.role = .voter
  · simp only [List.filter_cons, h, decide_true, ↓reduceIte, List.foldl_cons]
    rw [foldl_add]; omega
  · simp [List.filter_cons, h]

/-- an accepted rule set has at most one leader replica and at least one leader or voter replica -/
theorem checkLoop_ok (l : List GRule) (a b : Int) (ha : a ≤ 1) (h : checkLoop l a b = .ok ()) :
    a + leaderSum l ≤ 1 ∧ a + leaderSum l + b + voterSum l ≥ 1 := by
  induction l generalizing a b with
  | nil =>
    simp only [checkLoop] at h
    by_cases hc : a + b < 1
    · simp [hc] at h
    · simp [leaderSum, voterSum]; omega
  | cons r rest ih =>
    rw [leaderSum_cons, voterSum_cons]
    simp only [checkLoop] at h
    by_cases hl : r.rule.role = .leader
    · simp only [hl, ↓reduceIte, reduceCtorEq] at h ⊢
      by_cases hc : a + r.rule.count > 1
      · simp [hc] at h
      · simp only [hc, ↓reduceIte] at h
        have := ih _ _ (by omega) h
        omega
    · by_cases hv : r.rule.role = .voter
      · simp only [hl, hv, ↓reduceIte, reduceCtorEq] at h ⊢
        have hc : ¬ a > 1 := by omega
        simp only [hc, ↓reduceIte] at h
        have := ih _ _ ha h
        omega
      · simp only [hl, hv, ↓reduceIte] at h ⊢
        have hc : ¬ a > 1 := by omega
        simp only [hc, ↓reduceIte] at h
        have := ih _ _ ha h
        omega

theorem checkApplyRules_ok (l : List GRule) (h : checkApplyRules l = .ok ()) :
    leaderSum l ≤ 1 ∧ leaderSum l + voterSum l ≥ 1 := by
  have := checkLoop_ok l 0 0 (by omega) h
  omega

/-- a rule set with several leader replicas, or without any leader or voter replica, is refused
    (counts are positive for validated rules; only non-negativity is needed) -/
theorem checkLoop_reject (l : List GRule) (hpos : ∀ r ∈ l, 0 ≤ r.rule.count) (a b : Int) (ha : 0 ≤ a) (ha1 : a ≤ 1)
    (h : a + leaderSum l > 1 ∨ a + leaderSum l + b + voterSum l < 1) : checkLoop l a b ≠ .ok () := by
  induction l generalizing a b with
  | nil =>
    simp only [leaderSum, voterSum, List.filter_nil, List.foldl_nil] at h
    simp only [checkLoop]
    by_cases hc : a + b < 1
    · simp [hc]
    · simp only [hc, ↓reduceIte]; intro _; omega
  | cons r rest ih =>
    have hr := hpos r List.mem_cons_self
    have hrest : ∀ x ∈ rest, 0 ≤ x.rule.count := fun x hx => hpos x (List.mem_cons_of_mem _ hx)
    have hls : 0 ≤ leaderSum rest := by
      clear ih h
      induction rest with
      | nil => simp [leaderSum]
      | cons y ys ih2 =>
        rw [leaderSum_cons]
        have := ih2 (fun x hx => hpos x (by simp at hx ⊢; rcases hx with e | e <;> simp [e]))
          (fun x hx => hrest x (List.mem_cons_of_mem _ hx))
        have := hrest y List.mem_cons_self
        split <;> omega
    rw [leaderSum_cons, voterSum_cons] at h
    simp only [checkLoop]
    by_cases hl : r.rule.role = .leader
    · simp only [hl, ↓reduceIte, reduceCtorEq] at h ⊢
      by_cases hc : a + r.rule.count > 1
      · simp [hc]
      · simp only [hc, ↓reduceIte]
        exact ih hrest _ _ (by omega) (by omega) (by omega)
    · by_cases hv : r.rule.role = .voter
      · simp only [hl, hv, ↓reduceIte, reduceCtorEq] at h ⊢
        by_cases hc : a > 1
        · simp [hc]
        · simp only [hc, ↓reduceIte]
          exact ih hrest _ _ ha ha1 (by omega)
      · simp only [hl, hv, ↓reduceIte] at h ⊢
        by_cases hc : a > 1
        · simp [hc]
        · simp only [hc, ↓reduceIte]
          exact ih hrest _ _ ha ha1 (by omega)


theorem bkeys_perm (r1 r2 : List GRule) (hp : r1.Perm r2) : bkeys r1 = bkeys r2 := by
  apply sorted_ext (· < ·) (fun a => Nat.lt_irrefl a) (fun a b c => Nat.lt_trans) _ _ (bkeys_sorted r1) (bkeys_sorted r2)
  intro x
  rw [mem_bkeys, mem_bkeys]
  constructor
  · rintro ⟨r, hr, h⟩; exact ⟨r, hp.mem_iff.1 hr, h⟩
  · rintro ⟨r, hr, h⟩; exact ⟨r, hp.mem_iff.2 hr, h⟩

theorem coverList_perm (r1 r2 : List GRule) (hw : RulesWF r1) (hp : r1.Perm r2) (k : Nat) :
    coverList r1 k = coverList r2 k :=
  sortRules_perm _ _ (hw.sublist List.filter_sublist) (hp.filter _)

theorem specLoop_perm (r1 r2 : List GRule) (hw : RulesWF r1) (hp : r1.Perm r2) (keys : List Nat) (acc : RuleList) :
    specLoop r1 keys acc = specLoop r2 keys acc := by
  induction keys generalizing acc with
  | nil => rfl
  | cons x xs ih =>
    simp only [specLoop, coverList_perm r1 r2 hw hp x]
    cases pushSeg x (coverList r2 x) acc with
    | error e => rfl
    | ok acc' => exact ih acc'

/-- the Go map: the result does not depend on the order in which the rules are iterated -/
theorem build_iteration_order_independent' (r1 r2 : List GRule) (hw : RulesWF r1) (hr : RangeWF r1)
    (hp : r1.Perm r2) : buildRuleList r1 = buildRuleList r2 := by
  have hw2 : RulesWF r2 := ⟨(hp.pairwise_iff (fun h => Ne.symm h)).1 hw.keys,
    fun a ha b hb => hw.grp a (hp.mem_iff.2 ha) b (hp.mem_iff.2 hb)⟩
  have hr2 : RangeWF r2 := fun r h => hr r (hp.mem_iff.2 h)
  rw [buildRuleList_eq hw hr, buildRuleList_eq hw2 hr2]
  unfold buildSpec
  have e1 : r1.isEmpty = r2.isEmpty := by
    cases r1 <;> cases r2 <;> simp_all
  have e2 : r1.any (fun r => r.rule.start == 0) = r2.any (fun r => r.rule.start == 0) := by
    rw [Bool.eq_iff_iff, List.any_eq_true, List.any_eq_true]
    constructor
    · rintro ⟨r, h1, h2⟩; exact ⟨r, hp.mem_iff.1 h1, h2⟩
    · rintro ⟨r, h1, h2⟩; exact ⟨r, hp.mem_iff.2 h1, h2⟩
  rw [e1, e2, bkeys_perm r1 r2 hp, specLoop_perm r1 r2 hw hp]

end PdModel.Rules
