import PdModel.Spec.C12
set_option linter.unusedSimpArgs false
set_option linter.unusedVariables false
/-! The documented order on rule-fit keys: Prop-level forms and their algebra. -/
namespace PdModel.Spec.C12

/-- `a` is strictly worse than `b` -/
def Key.lt (a b : Key) : Prop :=
  a.n < b.n ∨ (a.n = b.n ∧ (a.mis > b.mis ∨ (a.mis = b.mis ∧ a.score < b.score)))

/-- equally good -/
def Key.eqv (a b : Key) : Prop := a.n = b.n ∧ a.mis = b.mis ∧ a.score = b.score

theorem Key.cmp_eq_neg_one (a b : Key) : Key.cmp a b = -1 ↔ Key.lt a b := by
  unfold Key.cmp Key.lt
  repeat' split
  all_goals omega

theorem Key.cmp_eq_zero (a b : Key) : Key.cmp a b = 0 ↔ Key.eqv a b := by
  unfold Key.cmp Key.eqv
  repeat' split
  all_goals omega

theorem Key.cmp_eq_one (a b : Key) : Key.cmp a b = 1 ↔ Key.lt b a := by
  unfold Key.cmp Key.lt
  repeat' split
  all_goals omega

theorem Key.cmp_range (a b : Key) : Key.cmp a b = -1 ∨ Key.cmp a b = 0 ∨ Key.cmp a b = 1 := by
  unfold Key.cmp
  repeat' split
  all_goals omega

theorem Key.cmp_antisymm (a b : Key) : Key.cmp a b = - Key.cmp b a := by
  unfold Key.cmp
  repeat' split
  all_goals omega

theorem Key.trichotomy (a b : Key) : Key.lt a b ∨ Key.eqv a b ∨ Key.lt b a := by
  unfold Key.lt Key.eqv; omega

theorem Key.lt_trans {a b c : Key} : Key.lt a b → Key.lt b c → Key.lt a c := by
  unfold Key.lt; omega
theorem Key.lt_eqv {a b c : Key} : Key.lt a b → Key.eqv b c → Key.lt a c := by
  unfold Key.lt Key.eqv; omega
theorem Key.eqv_lt {a b c : Key} : Key.eqv a b → Key.lt b c → Key.lt a c := by
  unfold Key.lt Key.eqv; omega
theorem Key.eqv_trans {a b c : Key} : Key.eqv a b → Key.eqv b c → Key.eqv a c := by
  unfold Key.eqv; omega
theorem Key.eqv_refl (a : Key) : Key.eqv a a := by unfold Key.eqv; omega
theorem Key.eqv_symm {a b : Key} : Key.eqv a b → Key.eqv b a := by unfold Key.eqv; omega
theorem Key.lt_irrefl (a : Key) : ¬ Key.lt a a := by unfold Key.lt; omega
theorem Key.lt_asymm {a b : Key} : Key.lt a b → ¬ Key.lt b a := by unfold Key.lt; omega
theorem Key.not_lt_of_eqv {a b : Key} : Key.eqv a b → ¬ Key.lt a b := by unfold Key.lt Key.eqv; omega

/-- `as` is not better than `bs`, rule by rule (lists of different length: only the common prefix counts) -/
def LexLE : List Key → List Key → Prop
  | a :: as, b :: bs => Key.lt a b ∨ (Key.eqv a b ∧ LexLE as bs)
  | _, _ => True

/-- equally good on the common prefix -/
def LexEq : List Key → List Key → Prop
  | a :: as, b :: bs => Key.eqv a b ∧ LexEq as bs
  | _, _ => True

theorem lexCmp_ne_one (as bs : List Key) : lexCmp as bs ≠ 1 ↔ LexLE as bs := by
  induction as generalizing bs with
  | nil => simp [lexCmp, LexLE]
  | cons a as ih =>
    cases bs with
    | nil => simp [lexCmp, LexLE]
    | cons b bs =>
      simp only [lexCmp, LexLE]
      rcases Key.trichotomy a b with h | h | h
      · have := (Key.cmp_eq_neg_one a b).2 h
        simp [this, h]
      · have h0 := (Key.cmp_eq_zero a b).2 h
        simp only [h0, ne_eq, not_true_eq_false, ↓reduceIte, ih bs]
        constructor
        · intro x; exact Or.inr ⟨h, x⟩
        · rintro (x | ⟨_, x⟩)
          · exact absurd x (Key.not_lt_of_eqv h)
          · exact x
      · have h1 := (Key.cmp_eq_one a b).2 h
        simp only [h1]
        constructor
        · intro x; simp at x
        · rintro (x | ⟨x, _⟩)
          · exact absurd x (Key.lt_asymm h)
          · exact absurd h (Key.not_lt_of_eqv (Key.eqv_symm x))

theorem lexCmp_eq_zero (as bs : List Key) : lexCmp as bs = 0 ↔ LexEq as bs := by
  induction as generalizing bs with
  | nil => simp [lexCmp, LexEq]
  | cons a as ih =>
    cases bs with
    | nil => simp [lexCmp, LexEq]
    | cons b bs =>
      simp only [lexCmp, LexEq]
      by_cases h0 : Key.cmp a b = 0
      · simp [h0, ih bs, (Key.cmp_eq_zero a b).1 h0]
      · simp only [ne_eq, h0, not_false_eq_true, ↓reduceIte, false_iff, not_and]
        intro h; exact absurd ((Key.cmp_eq_zero a b).2 h) h0

theorem lexCmp_range (as bs : List Key) : lexCmp as bs = -1 ∨ lexCmp as bs = 0 ∨ lexCmp as bs = 1 := by
  induction as generalizing bs with
  | nil => simp [lexCmp]
  | cons a as ih =>
    cases bs with
    | nil => simp [lexCmp]
    | cons b bs =>
      simp only [lexCmp]
      split
      · exact Key.cmp_range a b
      · exact ih bs

theorem lexCmp_antisymm (as bs : List Key) : lexCmp as bs = - lexCmp bs as := by
  induction as generalizing bs with
  | nil => cases bs <;> simp [lexCmp]
  | cons a as ih =>
    cases bs with
    | nil => simp [lexCmp]
    | cons b bs =>
      simp only [lexCmp]
      have := Key.cmp_antisymm a b
      by_cases h : Key.cmp a b = 0
      · have h' : Key.cmp b a = 0 := by omega
        simp [h, h', ih bs]
      · have h' : Key.cmp b a ≠ 0 := by omega
        simp [h, h', this]

theorem LexLE.refl (as : List Key) : LexLE as as := by
  induction as with
  | nil => trivial
  | cons a as ih => exact Or.inr ⟨Key.eqv_refl a, ih⟩

theorem LexLE.trans {as bs cs : List Key} (h1 : as.length = bs.length) (h2 : bs.length = cs.length) :
    LexLE as bs → LexLE bs cs → LexLE as cs := by
  induction as generalizing bs cs with
  | nil => intro _ _; cases cs <;> trivial
  | cons a as ih =>
    cases bs with
    | nil => simp at h1
    | cons b bs =>
      cases cs with
      | nil => simp at h2
      | cons c cs =>
        simp only [LexLE]
        simp only [List.length_cons, Nat.add_right_cancel_iff] at h1 h2
        rintro (x | ⟨x, xs⟩) (y | ⟨y, ys⟩)
        · exact Or.inl (Key.lt_trans x y)
        · exact Or.inl (Key.lt_eqv x y)
        · exact Or.inl (Key.eqv_lt x y)
        · exact Or.inr ⟨Key.eqv_trans x y, ih h1 h2 xs ys⟩

theorem LexLE.total (as bs : List Key) : LexLE as bs ∨ LexLE bs as := by
  induction as generalizing bs with
  | nil => left; trivial
  | cons a as ih =>
    cases bs with
    | nil => left; trivial
    | cons b bs =>
      simp only [LexLE]
      rcases Key.trichotomy a b with h | h | h
      · exact Or.inl (Or.inl h)
      · rcases ih bs with x | x
        · exact Or.inl (Or.inr ⟨h, x⟩)
        · exact Or.inr (Or.inr ⟨Key.eqv_symm h, x⟩)
      · exact Or.inr (Or.inl h)

/-- raising every peer count by one (used to give "no fit yet" the lowest key) does not change the order -/
def Key.up (k : Key) : Key := { k with n := k.n + 1 }

theorem Key.lt_up (a b : Key) : Key.lt a.up b.up ↔ Key.lt a b := by
  unfold Key.lt Key.up; simp only; omega
theorem Key.eqv_up (a b : Key) : Key.eqv a.up b.up ↔ Key.eqv a b := by
  unfold Key.eqv Key.up; simp only; omega

theorem LexLE_up (as bs : List Key) : LexLE (as.map Key.up) (bs.map Key.up) ↔ LexLE as bs := by
  induction as generalizing bs with
  | nil => simp [LexLE]
  | cons a as ih =>
    cases bs with
    | nil => simp [LexLE]
    | cons b bs => simp only [List.map_cons, LexLE, Key.lt_up, Key.eqv_up, ih bs]

end PdModel.Spec.C12
