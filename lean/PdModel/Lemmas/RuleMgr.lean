import PdModel.Lemmas.RuleMaps
import PdModel.Lemmas.RuleIndex
set_option linter.unusedSimpArgs false
set_option linter.unusedVariables false
/-! ruleConfig / ruleConfigPatch as finite maps: what the patched view, trim and commit are, extensionally. -/
namespace PdModel.Rules
open PdModel.Spec.C13

/-- lookup in the patched view: the patch entry if there is one (none = deleted), else the served rule -/
def Patch.findR (c : Config) (p : Patch) (k : K) : Option Rule :=
  match mapGet (·.1) k p.mutR with
  | some kv => kv.2
  | none => getR k c.rules

structure ConfigWF (c : Config) : Prop where
  keys  : KeysNodup Rule.key c.rules
  valid : ∀ r ∈ c.rules, ruleOK r = true
  gkeys : KeysNodup gKey c.groups

structure PatchWF (p : Patch) : Prop where
  keys  : KeysNodup (fun kv : K × Option Rule => kv.1) p.mutR
  self  : ∀ kv ∈ p.mutR, ∀ r, kv.2 = some r → kv.1 = r.key ∧ ruleOK r = true
  gkeys : KeysNodup gKey p.mutG

theorem patchWF_empty : PatchWF {} := ⟨List.Pairwise.nil, by simp, List.Pairwise.nil⟩

theorem adjustRule_ok (r r' : Rule) (g : Nat) (h : adjustRule r g = some r') : ruleOK r' = true := by
  unfold adjustRule at h
  split at h
  · cases h
  · dsimp only at h
    generalize (if g ≠ 0 ∧ r.group = 0 then { r with group := g } else r) = x at h
    by_cases hk : ruleOK x = true
    · simp only [hk, ↓reduceIte, Option.some.injEq] at h; subst h; exact hk
    · simp [hk] at h

theorem PatchWF.setRule {p : Patch} (h : PatchWF p) (r : Rule) (hr : ruleOK r = true) :
    PatchWF (p.setRule r) := by
  refine ⟨keysNodup_mapSet _ _ _ h.keys, ?_, h.gkeys⟩
  intro kv hkv r' hr'
  rcases (mem_mapSet _ _ kv _).1 hkv with e | ⟨e, _⟩
  · subst e; simp only [Option.some.injEq] at hr'; subst hr'; exact ⟨rfl, hr⟩
  · exact h.self kv e r' hr'

theorem PatchWF.deleteRule {p : Patch} (h : PatchWF p) (k : K) : PatchWF (p.deleteRule k) := by
  refine ⟨keysNodup_mapSet _ _ _ h.keys, ?_, h.gkeys⟩
  intro kv hkv r' hr'
  rcases (mem_mapSet _ _ kv _).1 hkv with e | ⟨e, _⟩
  · subst e; simp at hr'
  · exact h.self kv e r' hr'

theorem PatchWF.setGroup {p : Patch} (h : PatchWF p) (g : Group) : PatchWF (p.setGroup g) :=
  ⟨h.keys, h.self, keysNodup_mapSet _ _ _ h.gkeys⟩

theorem PatchWF.deleteGroup {p : Patch} (h : PatchWF p) (id : Nat) : PatchWF (p.deleteGroup id) := h.setGroup _

theorem foldl_deleteRule_wf (l : List Rule) (p : Patch) (h : PatchWF p) :
    PatchWF (l.foldl (fun p r => p.deleteRule r.key) p) := by
  induction l generalizing p with
  | nil => exact h
  | cons r rs ih => exact ih _ (h.deleteRule _)

theorem foldl_deleteGroup_wf (l : List Group) (p : Patch) (h : PatchWF p) :
    PatchWF (l.foldl (fun p g => p.deleteGroup g.id) p) := by
  induction l generalizing p with
  | nil => exact h
  | cons r rs ih => exact ih _ (h.deleteGroup _)

theorem addRules_wf (g : Nat) : ∀ (l : List Rule) (p p' : Patch), PatchWF p → addRules p g l = some p' → PatchWF p' := by
  intro l
  induction l with
  | nil => intro p p' h e; simp only [addRules, Option.some.injEq] at e; subst e; exact h
  | cons r rs ih =>
    intro p p' h e
    simp only [addRules] at e
    cases ha : adjustRule r g with
    | none => simp [ha] at e
    | some r' =>
      simp only [ha] at e
      exact ih _ _ (h.setRule r' (adjustRule_ok r r' g ha)) e

theorem addBundles_wf : ∀ (l : List Bundle) (p p' : Patch), PatchWF p → addBundles p l = some p' → PatchWF p' := by
  intro l
  induction l with
  | nil => intro p p' h e; simp only [addBundles, Option.some.injEq] at e; subst e; exact h
  | cons b bs ih =>
    intro p p' h e
    simp only [addBundles] at e
    cases ha : addRules (p.setGroup ⟨b.id, b.index, b.override⟩) b.id b.rules with
    | none => simp [ha] at e
    | some p1 =>
      simp only [ha] at e
      exact ih _ _ (addRules_wf _ _ _ _ (h.setGroup _) ha) e

/-- every patch an operation builds is well formed -/
theorem patchOf_wf (c : Config) (op : Op) (p : Patch) (h : patchOf c op = some p) : PatchWF p := by
  cases op with
  | setRule r => exact addRules_wf _ _ _ _ patchWF_empty h
  | deleteRule k => simp only [patchOf, Option.some.injEq] at h; subst h; exact patchWF_empty.deleteRule k
  | setRules rs => exact addRules_wf _ _ _ _ patchWF_empty h
  | batch ops =>
    simp only [patchOf] at h
    split at h
    · simp only [Option.some.injEq] at h
      subst h
      have : ∀ (l : List BatchOp) (p0 : Patch), PatchWF p0 → PatchWF (l.foldl (fun p o =>
          match o with
          | .add r => match adjustRule r 0 with | some r' => p.setRule r' | none => p
          | .del k => p.deleteRule k
          | .delPrefix g lo hi =>
            (c.rules.filter (fun r => r.group = g ∧ lo ≤ r.id ∧ r.id < hi)).foldl (fun p r => p.deleteRule r.key) p) p0) := by
        intro l
        induction l with
        | nil => intro p0 h0; exact h0
        | cons o os ih =>
          intro p0 h0
          apply ih
          cases o with
          | add r =>
            simp only
            cases ha : adjustRule r 0 with
            | none => exact h0
            | some r' => exact h0.setRule r' (adjustRule_ok r r' 0 ha)
          | del k => exact h0.deleteRule k
          | delPrefix g lo hi => exact foldl_deleteRule_wf _ _ h0
      exact this ops {} patchWF_empty
    · cases h
  | setGroup g => simp only [patchOf, Option.some.injEq] at h; subst h; exact patchWF_empty.setGroup g
  | deleteGroup id => simp only [patchOf, Option.some.injEq] at h; subst h; exact patchWF_empty.deleteGroup id
  | setBundle b =>
    simp only [patchOf] at h
    refine addBundles_wf _ _ _ ?_ h
    split
    · exact foldl_deleteRule_wf _ _ patchWF_empty
    · exact patchWF_empty
  | setAllBundles bs ov =>
    simp only [patchOf] at h
    exact addBundles_wf _ _ _ (foldl_deleteGroup_wf _ _ (foldl_deleteRule_wf _ _ patchWF_empty)) h
  | deleteBundle ids =>
    simp only [patchOf, Option.some.injEq] at h
    subst h
    exact foldl_deleteGroup_wf _ _ (foldl_deleteRule_wf _ _ patchWF_empty)
  | getModSet k cnt =>
    simp only [patchOf] at h
    split at h
    · cases h
    · exact addRules_wf _ _ _ _ patchWF_empty h

end PdModel.Rules

namespace PdModel.Rules
open PdModel.Spec.C13

section generic
variable {α : Type} (key : α → K)

/-- lookup in a filtered map with different keys -/
theorem mapGet_filter (q : α → Bool) (k : K) (l : List α) (h : KeysNodup key l) :
    mapGet key k (l.filter q) = (mapGet key k l).filter q := by
  unfold mapGet
  induction l with
  | nil => simp
  | cons x xs ih =>
    rw [KeysNodup, List.pairwise_cons] at h
    simp only [List.filter_cons, List.find?_cons]
    by_cases hk : key x = k
    · have hnone : xs.find? (fun y => decide (key y = k)) = none := by
        rw [List.find?_eq_none]; intro y hy; simpa using fun e => h.1 y hy (hk.trans e.symm)
      by_cases hq : q x = true
      · simp [hq, hk, Option.filter]
      · have hnone' : (xs.filter q).find? (fun y => decide (key y = k)) = none := by
          rw [List.find?_eq_none]; intro y hy
          simpa using fun e => h.1 y (List.mem_filter.1 hy).1 (hk.trans e.symm)
        simp [hq, hk, hnone', Option.filter]
    · by_cases hq : q x = true
      · simp only [hq, ↓reduceIte, List.find?_cons, hk, decide_false, Bool.false_eq_true]; exact ih h.2
      · simp only [hq, Bool.false_eq_true, ↓reduceIte, hk, decide_false]; exact ih h.2

end generic

/-! ### the patched view -/

theorem mem_patch_rules (c : Config) (hc : ConfigWF c) (p : Patch) (hp : PatchWF p) (r : Rule) :
    r ∈ p.rules c ↔ p.findR c r.key = some r := by
  unfold Patch.rules Patch.findR
  rw [List.mem_append, List.mem_filterMap, List.mem_filter]
  constructor
  · rintro (⟨kv, hkv, h2⟩ | ⟨hr, hnone⟩)
    · have hk := (hp.self kv hkv r h2).1
      have := mapGet_of_mem (fun kv : K × Option Rule => kv.1) p.mutR hp.keys kv hkv
      rw [← hk, this]; exact h2
    · simp only [Option.isNone_iff_eq_none] at hnone
      rw [hnone]
      exact mapGet_of_mem Rule.key c.rules hc.keys r hr
  · intro h
    cases hm : mapGet (fun kv : K × Option Rule => kv.1) r.key p.mutR with
    | some kv =>
      rw [hm] at h
      exact Or.inl ⟨kv, (mapGet_some _ _ _ _ hm).2, h⟩
    | none =>
      rw [hm] at h
      exact Or.inr ⟨(mapGet_some _ _ _ _ h).2, by simp [hm]⟩

theorem patch_rules_keys (c : Config) (hc : ConfigWF c) (p : Patch) (hp : PatchWF p) :
    KeysNodup Rule.key (p.rules c) := by
  unfold Patch.rules KeysNodup
  rw [List.pairwise_append]
  refine ⟨?_, hc.keys.sublist List.filter_sublist, ?_⟩
  · rw [List.pairwise_filterMap]
    refine hp.keys.imp_of_mem ?_
    intro a b ha hb hab r1 h1 r2 h2
    rw [← (hp.self a ha r1 h1).1, ← (hp.self b hb r2 h2).1]; exact hab
  · intro r1 h1 r2 h2 e
    obtain ⟨kv, hkv, hs⟩ := List.mem_filterMap.1 h1
    have hk := (hp.self kv hkv r1 hs).1
    have hnone := (List.mem_filter.1 h2).2
    have := mapGet_of_mem (fun kv : K × Option Rule => kv.1) p.mutR hp.keys kv hkv
    simp only [Option.isNone_iff_eq_none] at hnone
    rw [← e, ← hk, this] at hnone
    cases hnone

theorem patch_rules_valid (c : Config) (hc : ConfigWF c) (p : Patch) (hp : PatchWF p) :
    ∀ r ∈ p.rules c, ruleOK r = true := by
  intro r hr
  unfold Patch.rules at hr
  rcases List.mem_append.1 hr with h | h
  · obtain ⟨kv, hkv, hs⟩ := List.mem_filterMap.1 h
    exact (hp.self kv hkv r hs).2
  · exact hc.valid r (List.mem_filter.1 h).1

/-! ### commit -/

def commitRules (mutR : List (K × Option Rule)) (rs : List Rule) : List Rule :=
  mutR.foldl (fun rs kv => match kv.2 with | none => mapDel Rule.key kv.1 rs | some r => setR r rs) rs

def commitGroups (mutG : List Group) (gs : List Group) : List Group := mutG.foldl (fun gs g => setG g gs) gs

theorem commit_eq (c : Config) (p : Patch) :
    p.commit c = ({ rules := commitRules p.mutR c.rules, groups := commitGroups p.mutG c.groups } : Config).adjust := rfl

theorem commitRules_get (mutR : List (K × Option Rule))
    (hk : KeysNodup (fun kv : K × Option Rule => kv.1) mutR)
    (hs : ∀ kv ∈ mutR, ∀ r, kv.2 = some r → kv.1 = r.key) (rs : List Rule) (k : K) :
    getR k (commitRules mutR rs) =
      match mapGet (fun kv : K × Option Rule => kv.1) k mutR with
      | some kv => kv.2
      | none => getR k rs := by
  induction mutR generalizing rs with
  | nil => simp [commitRules, mapGet]
  | cons kv rest ih =>
    rw [KeysNodup, List.pairwise_cons] at hk
    have ih' := ih hk.2 (fun x hx => hs x (List.mem_cons_of_mem _ hx))
    simp only [commitRules, List.foldl_cons] at ih' ⊢
    rw [ih']
    have hstep : getR k (match kv.2 with | none => mapDel Rule.key kv.1 rs | some r => setR r rs) =
        if kv.1 = k then kv.2 else getR k rs := by
      cases hv : kv.2 with
      | none =>
        simp only [getR, mapGet_mapDel]
        by_cases e : kv.1 = k
        · simp [e]
        · have : ¬ k = kv.1 := fun h => e h.symm
          simp [e, this]
      | some r =>
        have := hs kv List.mem_cons_self r hv
        simp only [getR, setR, mapGet_mapSet, ← this]
    have hm : mapGet (fun kv : K × Option Rule => kv.1) k (kv :: rest) =
        if kv.1 = k then some kv else mapGet (fun kv : K × Option Rule => kv.1) k rest := by
      unfold mapGet; simp only [List.find?_cons]
      by_cases e : kv.1 = k <;> simp [e]
    rw [hm, hstep]
    by_cases e : kv.1 = k
    · have hnone : mapGet (fun kv : K × Option Rule => kv.1) k rest = none := by
        unfold mapGet; rw [List.find?_eq_none]; intro y hy
        simpa using fun e' => hk.1 y hy (e.trans e'.symm)
      simp only [hnone, e, ↓reduceIte]
    · simp only [e, ↓reduceIte]

theorem commitRules_keys (mutR : List (K × Option Rule)) (rs : List Rule) (h : KeysNodup Rule.key rs) :
    KeysNodup Rule.key (commitRules mutR rs) := by
  induction mutR generalizing rs with
  | nil => exact h
  | cons kv rest ih =>
    simp only [commitRules, List.foldl_cons]
    apply ih
    cases kv.2 with
    | none => exact keysNodup_mapDel _ _ _ h
    | some r => exact keysNodup_mapSet _ _ _ h

theorem commitGroups_get (mutG : List Group) (hk : KeysNodup gKey mutG) (gs : List Group) (id : Nat) :
    getG id (commitGroups mutG gs) = match getG id mutG with | some g => some g | none => getG id gs := by
  induction mutG generalizing gs with
  | nil => simp [commitGroups, getG, mapGet]
  | cons g rest ih =>
    rw [KeysNodup, List.pairwise_cons] at hk
    have ih' := ih hk.2
    simp only [commitGroups, List.foldl_cons] at ih' ⊢
    rw [ih']
    simp only [getG, setG, mapGet_mapSet]
    have hm : mapGet gKey (id, 0) (g :: rest) = if gKey g = (id, 0) then some g else mapGet gKey (id, 0) rest := by
      unfold mapGet; simp only [List.find?_cons]
      by_cases e : gKey g = (id, 0) <;> simp [e]
    rw [hm]
    by_cases e : gKey g = (id, 0)
    · have hnone : mapGet gKey (id, 0) rest = none := by
        unfold mapGet; rw [List.find?_eq_none]; intro y hy
        simpa using fun e' => hk.1 y hy (e.trans e'.symm)
      simp only [hnone, e, ↓reduceIte]
    · simp only [e, ↓reduceIte]

theorem commitGroups_keys (mutG : List Group) (gs : List Group) (h : KeysNodup gKey gs) :
    KeysNodup gKey (commitGroups mutG gs) := by
  induction mutG generalizing gs with
  | nil => exact h
  | cons g rest ih =>
    simp only [commitGroups, List.foldl_cons]
    exact ih _ (keysNodup_mapSet _ _ _ h)

/-! ### adjust -/

theorem getG_key (id : Nat) (gs : List Group) (g : Group) (h : getG id gs = some g) : g.id = id := by
  have := (mapGet_some gKey _ _ _ h).1
  simp only [gKey, Prod.mk.injEq, and_true] at this
  exact this

theorem adjust_fold_getGroup (rules : List Rule) (gs : List Group) (id : Nat) :
    (getG id (rules.foldl (fun gs r => if (getG r.group gs).isSome then gs else setG (defaultGroup r.group) gs) gs)).getD
      (defaultGroup id) = (getG id gs).getD (defaultGroup id) := by
  induction rules generalizing gs with
  | nil => rfl
  | cons r rs ih =>
    simp only [List.foldl_cons]
    rw [ih]
    split
    · rfl
    · next hn =>
      simp only [getG, setG, mapGet_mapSet, gKey, defaultGroup, Prod.mk.injEq, and_true]
      by_cases e : r.group = id
      · subst e
        have hn' : mapGet gKey (r.group, 0) gs = none := by
          cases h : mapGet gKey (r.group, 0) gs with
          | none => rfl
          | some g => exfalso; apply hn; unfold getG; rw [h]; rfl
        simp [hn']
      · simp [e]

theorem adjust_fold_keys (rules : List Rule) (gs : List Group) (h : KeysNodup gKey gs) :
    KeysNodup gKey (rules.foldl (fun gs r => if (getG r.group gs).isSome then gs else setG (defaultGroup r.group) gs) gs) := by
  induction rules generalizing gs with
  | nil => exact h
  | cons r rs ih =>
    simp only [List.foldl_cons]
    apply ih
    split
    · exact h
    · exact keysNodup_mapSet _ _ _ h

/-- adjust changes neither the rules nor what any group's configuration is -/
theorem adjust_getGroup (c : Config) (h : KeysNodup gKey c.groups) (id : Nat) :
    c.adjust.getGroup id = c.getGroup id := by
  unfold Config.adjust Config.getGroup
  simp only
  rw [adjust_fold_getGroup]
  unfold getG
  rw [mapGet_filter gKey _ _ _ h]
  cases hg : mapGet gKey (id, 0) c.groups with
  | none => rfl
  | some g =>
    have hid : g.id = id := getG_key id c.groups g hg
    by_cases hd : g.isDefault = true
    · simp only [Option.filter, hd, Bool.not_true, Bool.false_eq_true, ↓reduceIte, Option.getD_none, Option.getD_some]
      unfold Group.isDefault at hd
      simp only [Bool.and_eq_true, beq_iff_eq, Bool.not_eq_true'] at hd
      cases g
      simp_all [defaultGroup]
    · simp [Option.filter, hd]

theorem adjust_rules (c : Config) : c.adjust.rules = c.rules := rfl

theorem adjust_gkeys (c : Config) (h : KeysNodup gKey c.groups) : KeysNodup gKey c.adjust.groups := by
  unfold Config.adjust
  exact adjust_fold_keys _ _ (h.sublist List.filter_sublist)

/-! ### trim -/

theorem trim_findR (c : Config) (p : Patch) (hp : PatchWF p) (k : K) : (p.trim c).findR c k = p.findR c k := by
  unfold Patch.findR Patch.trim
  simp only
  rw [mapGet_filter _ _ _ _ hp.keys]
  cases hm : mapGet (fun kv : K × Option Rule => kv.1) k p.mutR with
  | none => rfl
  | some kv =>
    have hk : kv.1 = k := (mapGet_some _ _ _ _ hm).1
    by_cases he : kv.2 = getR kv.1 c.rules
    · simp [Option.filter, he, hk]
    · simp [Option.filter, he]

theorem trim_getGroup (c : Config) (p : Patch) (hp : PatchWF p) (id : Nat) :
    (p.trim c).getGroup c id = p.getGroup c id := by
  unfold Patch.getGroup Patch.trim getG
  simp only
  rw [mapGet_filter _ _ _ _ hp.gkeys]
  cases hm : mapGet gKey (id, 0) p.mutG with
  | none => rfl
  | some g =>
    have hid : g.id = id := getG_key id p.mutG g hm
    by_cases he : g = c.getGroup g.id
    · have hf : Option.filter (fun g => decide (g ≠ c.getGroup g.id)) (some g) = none := by
        simp only [Option.filter]
        rw [if_neg]; simpa using he
      rw [hf, ← hid]; exact he.symm
    · have hf : Option.filter (fun g => decide (g ≠ c.getGroup g.id)) (some g) = some g := by
        simp only [Option.filter]
        rw [if_pos]; simpa using he
      rw [hf]

theorem trim_wf (c : Config) (p : Patch) (hp : PatchWF p) : PatchWF (p.trim c) :=
  ⟨hp.keys.sublist List.filter_sublist,
   fun kv hkv => hp.self kv (List.mem_filter.1 hkv).1,
   hp.gkeys.sublist List.filter_sublist⟩

end PdModel.Rules

namespace PdModel.Rules
open PdModel.Spec.C13

/-! ### what an accepted commit serves -/

theorem commit_findR (c : Config) (hc : ConfigWF c) (p : Patch) (hp : PatchWF p) (k : K) :
    getR k ((p.trim c).commit c).rules = p.findR c k := by
  have hp' := trim_wf c p hp
  rw [commit_eq, adjust_rules]
  simp only
  rw [commitRules_get _ hp'.keys (fun kv hkv r hr => (hp'.self kv hkv r hr).1), ← trim_findR c p hp k]
  rfl

theorem commit_getGroup (c : Config) (hc : ConfigWF c) (p : Patch) (hp : PatchWF p) (id : Nat) :
    ((p.trim c).commit c).getGroup id = p.getGroup c id := by
  have hp' := trim_wf c p hp
  rw [commit_eq, adjust_getGroup _ (commitGroups_keys _ _ hc.gkeys), ← trim_getGroup c p hp id]
  unfold Config.getGroup Patch.getGroup
  simp only
  rw [commitGroups_get _ hp'.gkeys]
  cases getG id (p.trim c).mutG <;> rfl

theorem commit_wf (c : Config) (hc : ConfigWF c) (p : Patch) (hp : PatchWF p) :
    ConfigWF ((p.trim c).commit c) := by
  refine ⟨?_, ?_, ?_⟩
  · rw [commit_eq, adjust_rules]; exact commitRules_keys _ _ hc.keys
  · intro r hr
    have hk : KeysNodup Rule.key ((p.trim c).commit c).rules := by
      rw [commit_eq, adjust_rules]; exact commitRules_keys _ _ hc.keys
    have := mapGet_of_mem Rule.key _ hk r hr
    have h2 : getR r.key ((p.trim c).commit c).rules = some r := this
    rw [commit_findR c hc p hp] at h2
    exact patch_rules_valid c hc p hp r ((mem_patch_rules c hc p hp r).2 h2)
  · rw [commit_eq]; exact adjust_gkeys _ (commitGroups_keys _ _ hc.gkeys)

theorem ruleOK_range (r : Rule) (h : ruleOK r = true) : r.end_ = 0 ∨ r.start < r.end_ := by
  unfold ruleOK at h
  simp only [Bool.and_eq_true, Bool.not_eq_true', Bool.and_eq_false_imp, decide_eq_true_eq, decide_eq_false_iff_not] at h
  have := h.1.1.1.1.1
  by_cases h0 : r.end_ = 0
  · exact Or.inl h0
  · right; have := this h0; omega

theorem grules_wf (rules : List Rule) (f : Nat → Group) (hk : KeysNodup Rule.key rules)
    (hv : ∀ r ∈ rules, ruleOK r = true) :
    RulesWF (rules.map (fun r => (⟨r, f r.group⟩ : GRule))) ∧ RangeWF (rules.map (fun r => (⟨r, f r.group⟩ : GRule))) := by
  refine ⟨⟨?_, ?_⟩, ?_⟩
  · rw [List.pairwise_map]; exact hk
  · intro a ha b hb hab
    obtain ⟨ra, _, rfl⟩ := List.mem_map.1 ha
    obtain ⟨rb, _, rfl⟩ := List.mem_map.1 hb
    simp only at hab ⊢; rw [hab]
  · intro x hx
    obtain ⟨r, hr, rfl⟩ := List.mem_map.1 hx
    exact ruleOK_range r (hv r hr)

/-- the index built from the patched view is the index of the committed configuration -/
theorem commit_build (c : Config) (hc : ConfigWF c) (p : Patch) (hp : PatchWF p) :
    buildRuleList ((p.trim c).commit c).grules = buildRuleList (p.grules c) := by
  have hc' := commit_wf c hc p hp
  have h1 := grules_wf ((p.trim c).commit c).rules ((p.trim c).commit c).getGroup hc'.keys hc'.valid
  have h2 := grules_wf (p.rules c) (p.getGroup c) (patch_rules_keys c hc p hp) (patch_rules_valid c hc p hp)
  apply build_iteration_order_independent' _ _ h1.1 h1.2
  show List.Perm _ ((p.rules c).map (fun r => (⟨r, p.getGroup c r.group⟩ : GRule)))
  rw [List.perm_ext_iff_of_nodup (nodup_of_keys h1.1) (nodup_of_keys h2.1)]
  intro x
  simp only [List.mem_map]
  constructor
  · rintro ⟨r, hr, rfl⟩
    have := mapGet_of_mem Rule.key _ hc'.keys r hr
    have h3 : getR r.key ((p.trim c).commit c).rules = some r := this
    rw [commit_findR c hc p hp] at h3
    exact ⟨r, (mem_patch_rules c hc p hp r).2 h3, by rw [commit_getGroup c hc p hp]⟩
  · rintro ⟨r, hr, rfl⟩
    have h3 := (mem_patch_rules c hc p hp r).1 hr
    rw [← commit_findR c hc p hp] at h3
    exact ⟨r, (mapGet_some _ _ _ _ h3).2, by rw [commit_getGroup c hc p hp]⟩

end PdModel.Rules
