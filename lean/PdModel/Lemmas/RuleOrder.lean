import PdModel.Model.Rules
set_option linter.unusedSimpArgs false
set_option linter.unusedVariables false
/-! compareRule as a strict order; sorted insertion and deletion; uniqueness of strictly sorted lists. -/
namespace PdModel.Rules
open PdModel.Spec.C13

/-- strictly sorted lists with the same members are equal -/
theorem sorted_ext {α : Type} (lt : α → α → Prop) (irrefl : ∀ a, ¬ lt a a)
    (trans : ∀ a b c, lt a b → lt b c → lt a c) :
    ∀ (l1 l2 : List α), l1.Pairwise lt → l2.Pairwise lt → (∀ x, x ∈ l1 ↔ x ∈ l2) → l1 = l2 := by
  intro l1
  induction l1 with
  | nil =>
    intro l2 _ _ h
    cases l2 with
    | nil => rfl
    | cons b t => exact absurd ((h b).2 List.mem_cons_self) (by simp)
  | cons a t1 ih =>
    intro l2 h1 h2 h
    cases l2 with
    | nil => exact absurd ((h a).1 List.mem_cons_self) (by simp)
    | cons b t2 =>
      rw [List.pairwise_cons] at h1 h2
      have hab : a = b := by
        rcases List.mem_cons.1 ((h a).1 List.mem_cons_self) with e | e
        · exact e
        · rcases List.mem_cons.1 ((h b).2 List.mem_cons_self) with e' | e'
          · exact e'.symm
          · exact absurd (trans _ _ _ (h1.1 b e') (h2.1 a e)) (irrefl a)
      subst hab
      congr 1
      apply ih t2 h1.2 h2.2
      intro x
      constructor
      · intro hx
        rcases List.mem_cons.1 ((h x).1 (List.mem_cons_of_mem _ hx)) with e | e
        · subst e; exact absurd (h1.1 x hx) (irrefl x)
        · exact e
      · intro hx
        rcases List.mem_cons.1 ((h x).2 (List.mem_cons_of_mem _ hx)) with e | e
        · subst e; exact absurd (h2.1 x hx) (irrefl x)
        · exact e

/-- `a` is applied before `b`: (group index, group id, index, id) lexicographically -/
def RLt (a b : GRule) : Prop :=
  a.grp.index < b.grp.index ∨ (a.grp.index = b.grp.index ∧
    (a.rule.group < b.rule.group ∨ (a.rule.group = b.rule.group ∧
      (a.rule.index < b.rule.index ∨ (a.rule.index = b.rule.index ∧ a.rule.id < b.rule.id)))))

theorem compareRule_neg (a b : GRule) : compareRule a b < 0 ↔ RLt a b := by
  unfold compareRule RLt; repeat' split
  all_goals omega

theorem compareRule_pos (a b : GRule) : compareRule a b > 0 ↔ RLt b a := by
  unfold compareRule RLt; repeat' split
  all_goals omega

theorem compareRule_zero (a b : GRule) : compareRule a b = 0 ↔
    (a.grp.index = b.grp.index ∧ a.rule.group = b.rule.group ∧ a.rule.index = b.rule.index ∧ a.rule.id = b.rule.id) := by
  unfold compareRule; repeat' split
  all_goals omega

theorem RLt.irrefl (a : GRule) : ¬ RLt a a := by unfold RLt; omega
theorem RLt.trans (a b c : GRule) : RLt a b → RLt b c → RLt a c := by unfold RLt; omega
/-- two rules are comparable unless they have the same (group, id) – given that rules of one group point to
    one group configuration -/
theorem RLt.total (a b : GRule) (hg : a.rule.group = b.rule.group → a.grp = b.grp) :
    RLt a b ∨ RLt b a ∨ a.rule.key = b.rule.key := by
  unfold RLt Rule.key
  by_cases h : a.rule.group = b.rule.group
  · have := hg h
    simp only [this, h, Prod.mk.injEq, true_and]
    omega
  · simp only [Prod.mk.injEq]; omega

/-! ### insertRule / deleteRule / sortRules -/

theorem mem_insertRule (r x : GRule) (l : List GRule) : x ∈ insertRule r l ↔ x = r ∨ x ∈ l := by
  induction l with
  | nil => simp [insertRule]
  | cons y ys ih =>
    simp only [insertRule]
    split
    · simp
    · simp only [List.mem_cons, ih]
      constructor
      · rintro (h | h | h) <;> simp [h]
      · rintro (h | h | h) <;> simp [h]

/-- inserting into a strictly sorted list keeps it strictly sorted, provided the new rule is comparable with
    every member (different (group, id), consistent group pointers) -/
theorem insertRule_sorted (r : GRule) (l : List GRule) (hs : l.Pairwise RLt)
    (hc : ∀ x ∈ l, RLt x r ∨ RLt r x) : (insertRule r l).Pairwise RLt := by
  induction l with
  | nil => simp [insertRule]
  | cons y ys ih =>
    rw [List.pairwise_cons] at hs
    simp only [insertRule]
    split
    · next h =>
      have hry : RLt r y := (compareRule_pos y r).1 h
      rw [List.pairwise_cons]
      refine ⟨?_, List.pairwise_cons.2 hs⟩
      intro z hz
      rcases List.mem_cons.1 hz with e | e
      · subst e; exact hry
      · exact RLt.trans _ _ _ hry (hs.1 z e)
    · next h =>
      have hyr : RLt y r := by
        rcases hc y List.mem_cons_self with h' | h'
        · exact h'
        · exact absurd ((compareRule_pos y r).2 h') h
      rw [List.pairwise_cons]
      refine ⟨?_, ih hs.2 (fun x hx => hc x (List.mem_cons_of_mem _ hx))⟩
      intro z hz
      rcases (mem_insertRule r z ys).1 hz with e | e
      · subst e; exact hyr
      · exact hs.1 z e

theorem deleteRule_sublist (r : GRule) (l : List GRule) : (deleteRule r l).Sublist l := by
  induction l with
  | nil => exact List.Sublist.refl _
  | cons y ys ih =>
    simp only [deleteRule]
    split
    · exact List.sublist_cons_self _ _
    · exact ih.cons_cons y

/-- in a list with pairwise different (group, id), deleteRule removes exactly the rule with that key -/
theorem mem_deleteRule (r x : GRule) (l : List GRule)
    (hk : l.Pairwise (fun a b => a.rule.key ≠ b.rule.key)) :
    x ∈ deleteRule r l ↔ x ∈ l ∧ x.rule.key ≠ r.rule.key := by
  induction l with
  | nil => simp [deleteRule]
  | cons y ys ih =>
    rw [List.pairwise_cons] at hk
    simp only [deleteRule]
    split
    · next h =>
      simp only [List.mem_cons]
      constructor
      · intro hx
        exact ⟨Or.inr hx, fun e => hk.1 x hx (h.trans e.symm)⟩
      · rintro ⟨e | e, hne⟩
        · subst e; exact absurd h hne
        · exact e
    · next h =>
      simp only [List.mem_cons, ih hk.2]
      constructor
      · rintro (e | ⟨e, hne⟩)
        · subst e; exact ⟨Or.inl rfl, h⟩
        · exact ⟨Or.inr e, hne⟩
      · rintro ⟨e | e, hne⟩
        · exact Or.inl e
        · exact Or.inr ⟨e, hne⟩

theorem insertSorted_eq_insertRule : insertSorted = insertRule := by
  funext r l
  induction l with
  | nil => rfl
  | cons x xs ih => simp only [insertSorted, insertRule, ih]

theorem mem_sortRules (x : GRule) (l : List GRule) : x ∈ sortRules l ↔ x ∈ l := by
  induction l with
  | nil => simp [sortRules]
  | cons y ys ih =>
    simp only [sortRules, List.foldr_cons] at ih ⊢
    rw [insertSorted_eq_insertRule, mem_insertRule, ← insertSorted_eq_insertRule, ih]
    simp [eq_comm]

/-- a rule list in which different entries have different (group, id) and rules of one group share their
    group configuration -/
structure RulesWF (rules : List GRule) : Prop where
  keys : rules.Pairwise (fun a b => a.rule.key ≠ b.rule.key)
  grp  : ∀ a ∈ rules, ∀ b ∈ rules, a.rule.group = b.rule.group → a.grp = b.grp

theorem RulesWF.keyInj {rules : List GRule} (h : RulesWF rules) :
    ∀ a ∈ rules, ∀ b ∈ rules, a.rule.key = b.rule.key → a = b := by
  intro a ha b hb hk
  induction rules with
  | nil => simp at ha
  | cons y ys ih =>
    have hp := List.pairwise_cons.1 h.keys
    rcases List.mem_cons.1 ha with e1 | e1 <;> rcases List.mem_cons.1 hb with e2 | e2
    · rw [e1, e2]
    · subst e1; exact absurd hk (hp.1 b e2)
    · subst e2; exact absurd hk.symm (hp.1 a e1)
    · exact ih ⟨hp.2, fun a ha b hb => h.grp a (List.mem_cons_of_mem _ ha) b (List.mem_cons_of_mem _ hb)⟩ e1 e2

/-- a strictly sorted list of members of a well-formed rule set has pairwise different (group, id) -/
theorem sorted_keys_ne {rules : List GRule} (hw : RulesWF rules) (l : List GRule) (h : l.Pairwise RLt)
    (hsub : ∀ x ∈ l, x ∈ rules) : l.Pairwise (fun a b => a.rule.key ≠ b.rule.key) := by
  induction l with
  | nil => exact List.Pairwise.nil
  | cons y ys ih =>
    rw [List.pairwise_cons] at h ⊢
    refine ⟨?_, ih h.2 (fun x hx => hsub x (List.mem_cons_of_mem _ hx))⟩
    intro z hz hk
    have := hw.keyInj y (hsub y List.mem_cons_self) z (hsub z (List.mem_cons_of_mem _ hz)) hk
    subst this
    exact RLt.irrefl _ (h.1 _ hz)

theorem RulesWF.sublist {l1 l2 : List GRule} (h : RulesWF l2) (hs : l1.Sublist l2) : RulesWF l1 :=
  ⟨h.keys.sublist hs, fun a ha b hb => h.grp a (hs.subset ha) b (hs.subset hb)⟩

theorem sortRules_sorted (l : List GRule) (h : RulesWF l) : (sortRules l).Pairwise RLt := by
  induction l with
  | nil => simp [sortRules]
  | cons y ys ih =>
    have hk := List.pairwise_cons.1 h.keys
    have hys : RulesWF ys := h.sublist (List.sublist_cons_self _ _)
    have key : (insertRule y (sortRules ys)).Pairwise RLt := by
      apply insertRule_sorted _ _ (ih hys)
      intro x hx
      have hx' : x ∈ ys := (mem_sortRules x ys).1 hx
      rcases RLt.total x y (h.grp x (List.mem_cons_of_mem _ hx') y List.mem_cons_self) with h1 | h1 | h1
      · exact Or.inl h1
      · exact Or.inr h1
      · exact absurd h1.symm (hk.1 x hx')
    simpa [sortRules, insertSorted_eq_insertRule] using key

/-- the sorted list of a rule set does not depend on the order in which the set is given -/
theorem sortRules_perm (l1 l2 : List GRule) (h : RulesWF l1) (hp : l1.Perm l2) : sortRules l1 = sortRules l2 := by
  have h2 : RulesWF l2 := ⟨hp.pairwise_iff (fun h => Ne.symm h) |>.1 h.keys,
    fun a ha b hb => h.grp a (hp.mem_iff.2 ha) b (hp.mem_iff.2 hb)⟩
  apply sorted_ext RLt RLt.irrefl RLt.trans _ _ (sortRules_sorted l1 h) (sortRules_sorted l2 h2)
  intro x
  rw [mem_sortRules, mem_sortRules]
  exact hp.mem_iff

end PdModel.Rules
