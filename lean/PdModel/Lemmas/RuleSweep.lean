import PdModel.Lemmas.RuleOrder
set_option linter.unusedSimpArgs false
set_option linter.unusedVariables false
/-! The sweep of buildRuleList over the sorted split points computes, for every distinct key, the sorted list
    of the rules that cover it – whatever the order among points with equal keys. -/
namespace PdModel.Rules
open PdModel.Spec.C13

def startPt (r : GRule) : Point := ⟨.tStart, r.rule.start, r⟩
def endPt (r : GRule) : Point := ⟨.tEnd, r.rule.end_, r⟩

/-- the sorted rules after the points `Q` have been applied -/
def srAfter (Q : List Point) : List GRule := Q.foldl (fun sr p => applyPoint p sr) []

theorem srAfter_snoc (Q : List Point) (p : Point) : srAfter (Q ++ [p]) = applyPoint p (srAfter Q) := by
  simp [srAfter, List.foldl_append]

/-- every bounded range is non-empty -/
def RangeWF (rules : List GRule) : Prop := ∀ r ∈ rules, r.rule.end_ = 0 ∨ r.rule.start < r.rule.end_

theorem pointsOf_eq (r : GRule) : pointsOf r = startPt r :: (if r.rule.end_ ≠ 0 then [endPt r] else []) := rfl

theorem mem_points (rules : List GRule) (p : Point) :
    p ∈ rules.flatMap pointsOf ↔ ∃ r ∈ rules, p = startPt r ∨ (r.rule.end_ ≠ 0 ∧ p = endPt r) := by
  simp only [List.mem_flatMap, pointsOf_eq, List.mem_cons]
  constructor
  · rintro ⟨r, hr, h | h⟩
    · exact ⟨r, hr, Or.inl h⟩
    · by_cases he : r.rule.end_ ≠ 0
      · rw [if_pos he, List.mem_singleton] at h; exact ⟨r, hr, Or.inr ⟨he, h⟩⟩
      · rw [if_neg he] at h; simp at h
  · rintro ⟨r, hr, h | ⟨he, h⟩⟩
    · exact ⟨r, hr, Or.inl h⟩
    · exact ⟨r, hr, Or.inr (by simp [he, h])⟩

theorem points_nodup (rules : List GRule) (h : rules.Nodup) : (rules.flatMap pointsOf).Nodup := by
  induction rules with
  | nil => simp
  | cons r rs ih =>
    rw [List.nodup_cons] at h
    simp only [List.flatMap_cons, List.nodup_append]
    refine ⟨?_, ih h.2, ?_⟩
    · rw [pointsOf_eq]; split <;> simp [startPt, endPt]
    · intro a ha b hb hab
      subst hab
      have hra : a.rule = r := by
        rw [pointsOf_eq] at ha
        rcases List.mem_cons.1 ha with e | e
        · rw [e]; rfl
        · split at e
          · rw [List.mem_singleton.1 e]; rfl
          · simp at e
      obtain ⟨r', hr', e | ⟨_, e⟩⟩ := (mem_points rs a).1 hb
      · rw [e] at hra; simp only [startPt] at hra; subst hra; exact h.1 hr'
      · rw [e] at hra; simp only [endPt] at hra; subst hra; exact h.1 hr'

/-- the points of `rules`, in some order that is sorted by key -/
structure PointsWF (rules : List GRule) (P : List Point) : Prop where
  perm   : P.Perm (rules.flatMap pointsOf)
  sorted : P.Pairwise (fun a b => a.key ≤ b.key)

theorem nodup_of_keys {rules : List GRule} (hw : RulesWF rules) : rules.Nodup :=
  hw.keys.imp (fun h e => h (by rw [e]))

/-- invariant of the sweep after the points `done` -/
structure SweepInv (done : List Point) : Prop where
  sorted : (srAfter done).Pairwise RLt
  mem    : ∀ r, r ∈ srAfter done ↔ (startPt r ∈ done ∧ ¬ (r.rule.end_ ≠ 0 ∧ endPt r ∈ done))

theorem sweepInv_nil : SweepInv [] := ⟨by simp [srAfter], by simp [srAfter]⟩

theorem sweepInv_step {rules : List GRule} (hw : RulesWF rules) (hr : RangeWF rules) {P : List Point}
    (hP : PointsWF rules P) (done : List Point) (p : Point) (rest : List Point) (hsplit : done ++ p :: rest = P)
    (inv : SweepInv done) : SweepInv (done ++ [p]) := by
  have hnd : P.Nodup := hP.perm.nodup_iff.2 (points_nodup rules (nodup_of_keys hw))
  have hp_notin : p ∉ done := by
    rw [← hsplit, List.nodup_append] at hnd
    intro h; exact hnd.2.2 p h p List.mem_cons_self rfl
  have hmemP : ∀ q, q ∈ P → ∃ r ∈ rules, q = startPt r ∨ (r.rule.end_ ≠ 0 ∧ q = endPt r) :=
    fun q hq => (mem_points rules q).1 (hP.perm.mem_iff.1 hq)
  have hdone_le : ∀ q ∈ done, q.key ≤ p.key := by
    intro q hq
    have := hP.sorted
    rw [← hsplit, List.pairwise_append] at this
    exact this.2.2 q hq p List.mem_cons_self
  have hsr_rules : ∀ x ∈ srAfter done, x ∈ rules := by
    intro x hx
    have hs := ((inv.mem x).1 hx).1
    obtain ⟨r, hr', e | ⟨_, e⟩⟩ := hmemP (startPt x) (by rw [← hsplit]; exact List.mem_append_left _ hs)
    · simp only [startPt, Point.mk.injEq, true_and] at e; rw [e.2]; exact hr'
    · simp [startPt, endPt] at e
  obtain ⟨r, hrr, hp | ⟨hend, hp⟩⟩ := hmemP p (by rw [← hsplit]; simp)
  · -- a start point: insertRule
    subst hp
    have hr_notin : r ∉ srAfter done := fun h => hp_notin ((inv.mem r).1 h).1
    constructor
    · rw [srAfter_snoc]
      simp only [applyPoint, startPt]
      apply insertRule_sorted _ _ inv.sorted
      intro x hx
      have hxr := hsr_rules x hx
      rcases RLt.total x r (hw.grp x hxr r hrr) with h | h | h
      · exact Or.inl h
      · exact Or.inr h
      · have := hw.keyInj x hxr r hrr h
        subst this; exact absurd hx hr_notin
    · intro x
      rw [srAfter_snoc]
      simp only [applyPoint, startPt, mem_insertRule, List.mem_append, List.mem_singleton, inv.mem x]
      constructor
      · rintro (e | ⟨h1, h2⟩)
        · subst e
          refine ⟨Or.inr rfl, ?_⟩
          rintro ⟨he, h | h⟩
          · have := hdone_le _ h
            simp only [endPt, startPt] at this
            rcases hr x hrr with h0 | h0
            · exact he h0
            · omega
          · simp [endPt] at h
        · refine ⟨Or.inl h1, ?_⟩
          rintro ⟨he, h | h⟩
          · exact h2 ⟨he, h⟩
          · simp [endPt] at h
      · rintro ⟨h1 | h1, h2⟩
        · exact Or.inr ⟨h1, fun h => h2 ⟨h.1, Or.inl h.2⟩⟩
        · left
          simp only [startPt, Point.mk.injEq, true_and] at h1
          exact h1.2
  · -- an end point: deleteRule
    subst hp
    have hkeys := sorted_keys_ne hw (srAfter done) inv.sorted hsr_rules
    constructor
    · rw [srAfter_snoc]
      simp only [applyPoint, endPt]
      exact inv.sorted.sublist (deleteRule_sublist _ _)
    · intro x
      rw [srAfter_snoc]
      simp only [applyPoint, endPt, mem_deleteRule r x _ hkeys, List.mem_append, List.mem_singleton]
      constructor
      · rintro ⟨hx, hne⟩
        have hm := (inv.mem x).1 hx
        refine ⟨Or.inl hm.1, ?_⟩
        rintro ⟨he, h | h⟩
        · exact hm.2 ⟨he, h⟩
        · simp only [endPt, Point.mk.injEq, true_and] at h
          exact hne (by rw [h.2])
      · rintro ⟨h1 | h1, h2⟩
        · have hx : x ∈ srAfter done := (inv.mem x).2 ⟨h1, fun h => h2 ⟨h.1, Or.inl h.2⟩⟩
          refine ⟨hx, ?_⟩
          intro hk
          have := hw.keyInj x (hsr_rules x hx) r hrr hk
          subst this
          exact h2 ⟨hend, Or.inr rfl⟩
        · simp [startPt] at h1

end PdModel.Rules

namespace PdModel.Rules
open PdModel.Spec.C13

/-- the rules covering key `x`, in apply order -/
def coverList (rules : List GRule) (x : Nat) : List GRule := sortRules (rules.filter (fun r => covers r.rule x))

/-- buildRuleList, stated over the *set* of rules: one range per distinct key -/
def specLoop (rules : List GRule) : List Nat → RuleList → Except BuildErr RuleList
  | [], acc => .ok acc
  | x :: xs, acc =>
    match pushSeg x (coverList rules x) acc with
    | .error e => .error e
    | .ok acc' => specLoop rules xs acc'

/-- the keys at which the sweep pushes a range -/
def dkeys : List Point → List Nat
  | [] => []
  | p :: rest => if lastOfKey p rest then p.key :: dkeys rest else dkeys rest

theorem lastOfKey_gt (p : Point) (rest : List Point) (hs : (p :: rest).Pairwise (fun a b => a.key ≤ b.key))
    (hl : lastOfKey p rest = true) : ∀ q ∈ rest, p.key < q.key := by
  cases rest with
  | nil => simp
  | cons q0 qs =>
    simp only [lastOfKey, bne_iff_ne, ne_eq] at hl
    rw [List.pairwise_cons, List.pairwise_cons] at hs
    have h0 : p.key < q0.key := by have := hs.1 q0 List.mem_cons_self; omega
    intro q hq
    rcases List.mem_cons.1 hq with e | e
    · rw [e]; exact h0
    · have := hs.2.1 q e; omega

/-- at a key boundary the sweep holds exactly the rules covering that key, sorted -/
theorem srAfter_boundary {rules : List GRule} (hw : RulesWF rules) {P : List Point} (hP : PointsWF rules P)
    (done : List Point) (p : Point) (rest : List Point) (hsplit : done ++ p :: rest = P)
    (inv : SweepInv (done ++ [p])) (hl : lastOfKey p rest = true) :
    srAfter (done ++ [p]) = coverList rules p.key := by
  have hsorted := hP.sorted
  rw [← hsplit, List.pairwise_append] at hsorted
  have hrest_gt := lastOfKey_gt p rest hsorted.2.1 hl
  have hdone_le : ∀ q ∈ done ++ [p], q.key ≤ p.key := by
    intro q hq
    rcases List.mem_append.1 hq with h | h
    · exact hsorted.2.2 q h p List.mem_cons_self
    · rw [List.mem_singleton.1 h]; exact Nat.le_refl _
  have hmemP : ∀ q, q ∈ P ↔ ∃ r ∈ rules, q = startPt r ∨ (r.rule.end_ ≠ 0 ∧ q = endPt r) :=
    fun q => (hP.perm.mem_iff).trans (mem_points rules q)
  have hPsplit : ∀ q, q ∈ P ↔ q ∈ done ++ [p] ∨ q ∈ rest := by
    intro q; rw [← hsplit]; simp only [List.mem_append, List.mem_cons, List.mem_singleton, List.not_mem_nil, or_false]
    constructor
    · rintro (h | h | h) <;> simp [h]
    · rintro ((h | h) | h) <;> simp [h]
  apply sorted_ext RLt RLt.irrefl RLt.trans _ _ inv.sorted
    (sortRules_sorted _ (hw.sublist List.filter_sublist))
  intro x
  rw [mem_sortRules, List.mem_filter, inv.mem x]
  constructor
  · rintro ⟨h1, h2⟩
    have hxr : x ∈ rules := by
      obtain ⟨r, hr', e | ⟨_, e⟩⟩ := (hmemP (startPt x)).1 ((hPsplit _).2 (Or.inl h1))
      · simp only [startPt, Point.mk.injEq, true_and] at e; rw [e.2]; exact hr'
      · simp [startPt, endPt] at e
    refine ⟨hxr, ?_⟩
    have hs := hdone_le _ h1
    simp only [startPt] at hs
    simp only [covers, Bool.and_eq_true, decide_eq_true_eq, Bool.or_eq_true, beq_iff_eq]
    refine ⟨hs, ?_⟩
    by_cases he : x.rule.end_ = 0
    · exact Or.inl he
    · right
      have hin : endPt x ∈ P := (hmemP _).2 ⟨x, hxr, Or.inr ⟨he, rfl⟩⟩
      rcases (hPsplit _).1 hin with h | h
      · exact absurd ⟨he, h⟩ h2
      · have := hrest_gt _ h; simpa [endPt] using this
  · rintro ⟨hxr, hc⟩
    simp only [covers, Bool.and_eq_true, decide_eq_true_eq, Bool.or_eq_true, beq_iff_eq] at hc
    constructor
    · have hin : startPt x ∈ P := (hmemP _).2 ⟨x, hxr, Or.inl rfl⟩
      rcases (hPsplit _).1 hin with h | h
      · exact h
      · have := hrest_gt _ h; simp only [startPt] at this; omega
    · rintro ⟨he, h⟩
      have := hdone_le _ h
      simp only [endPt] at this
      rcases hc.2 with h0 | h0
      · exact he h0
      · omega

/-- **the sweep is the per-key specification**, for every admissible order of the points -/
theorem sweep_eq {rules : List GRule} (hw : RulesWF rules) (hr : RangeWF rules) {P : List Point}
    (hP : PointsWF rules P) : ∀ (rest done : List Point) (acc : RuleList), done ++ rest = P → SweepInv done →
      sweep rest (srAfter done) acc = specLoop rules (dkeys rest) acc := by
  intro rest
  induction rest with
  | nil => intro done acc _ _; simp [sweep, dkeys, specLoop]
  | cons p rest ih =>
    intro done acc hsplit inv
    have inv' := sweepInv_step hw hr hP done p rest hsplit inv
    have hsplit' : (done ++ [p]) ++ rest = P := by rw [List.append_assoc]; exact hsplit
    simp only [sweep, dkeys, ← srAfter_snoc]
    by_cases hl : lastOfKey p rest = true
    · simp only [hl, ↓reduceIte, specLoop]
      rw [srAfter_boundary hw hP done p rest hsplit inv' hl]
      cases hps : pushSeg p.key (coverList rules p.key) acc with
      | error e => rfl
      | ok acc' =>
        simp only
        rw [← srAfter_boundary hw hP done p rest hsplit inv' hl]
        exact ih (done ++ [p]) acc' hsplit' inv'
    · simp only [hl, Bool.false_eq_true, ↓reduceIte]
      exact ih (done ++ [p]) acc hsplit' inv'

/-! ### the distinct keys -/

theorem mem_dkeys (P : List Point) (x : Nat) : x ∈ dkeys P ↔ ∃ p ∈ P, p.key = x := by
  induction P with
  | nil => simp [dkeys]
  | cons p rest ih =>
    simp only [dkeys]
    split
    · simp only [List.mem_cons, ih]
      constructor
      · rintro (h | ⟨q, hq, h⟩)
        · exact ⟨p, Or.inl rfl, h.symm⟩
        · exact ⟨q, Or.inr hq, h⟩
      · rintro ⟨q, hq | hq, h⟩
        · left; rw [← h, hq]
        · right; exact ⟨q, hq, h⟩
    · next hl =>
      rw [ih]
      constructor
      · rintro ⟨q, hq, h⟩; exact ⟨q, List.mem_cons_of_mem _ hq, h⟩
      · rintro ⟨q, hq, h⟩
        rcases List.mem_cons.1 hq with e | e
        · cases rest with
          | nil => simp [lastOfKey] at hl
          | cons q0 qs =>
            simp only [lastOfKey, bne_iff_ne, ne_eq, Bool.not_eq_true, Decidable.not_not] at hl
            have hl' : q0.key = p.key := by simpa using hl
            exact ⟨q0, List.mem_cons_self, by rw [hl', ← h, e]⟩
        · exact ⟨q, e, h⟩

theorem dkeys_sorted (P : List Point) (hs : P.Pairwise (fun a b => a.key ≤ b.key)) :
    (dkeys P).Pairwise (· < ·) := by
  induction P with
  | nil => simp [dkeys]
  | cons p rest ih =>
    have hs' := (List.pairwise_cons.1 hs).2
    simp only [dkeys]
    split
    · next hl =>
      rw [List.pairwise_cons]
      refine ⟨?_, ih hs'⟩
      intro x hx
      obtain ⟨q, hq, rfl⟩ := (mem_dkeys rest x).1 hx
      exact lastOfKey_gt p rest hs hl q hq
    · exact ih hs'

/-- all keys at which a rule starts or ends, ascending and distinct (independent of any order) -/
def bkeys (rules : List GRule) : List Nat :=
  ((rules.flatMap pointsOf).map (·.key)).foldr insertNat []

theorem mem_insertNat (n x : Nat) (l : List Nat) : x ∈ insertNat n l ↔ x = n ∨ x ∈ l := by
  induction l with
  | nil => simp [insertNat]
  | cons y ys ih =>
    simp only [insertNat]
    split
    · simp
    · split
      · next h => subst h; simp
      · simp only [List.mem_cons, ih]
        constructor
        · rintro (h | h | h) <;> simp [h]
        · rintro (h | h | h) <;> simp [h]

theorem insertNat_sorted (n : Nat) (l : List Nat) (h : l.Pairwise (· < ·)) : (insertNat n l).Pairwise (· < ·) := by
  induction l with
  | nil => simp [insertNat]
  | cons y ys ih =>
    rw [List.pairwise_cons] at h
    simp only [insertNat]
    split
    · next hlt =>
      rw [List.pairwise_cons]
      refine ⟨?_, List.pairwise_cons.2 h⟩
      intro z hz
      rcases List.mem_cons.1 hz with e | e
      · omega
      · have := h.1 z e; omega
    · split
      · exact List.pairwise_cons.2 h
      · rw [List.pairwise_cons]
        refine ⟨?_, ih h.2⟩
        intro z hz
        rcases (mem_insertNat n z ys).1 hz with e | e
        · omega
        · exact h.1 z e

theorem foldr_insertNat (l : List Nat) :
    (l.foldr insertNat []).Pairwise (· < ·) ∧ ∀ x, x ∈ l.foldr insertNat [] ↔ x ∈ l := by
  induction l with
  | nil => simp
  | cons y ys ih =>
    simp only [List.foldr_cons]
    exact ⟨insertNat_sorted _ _ ih.1, fun x => by rw [mem_insertNat, ih.2]; simp⟩

theorem dkeys_eq_bkeys {rules : List GRule} {P : List Point} (hP : PointsWF rules P) : dkeys P = bkeys rules := by
  apply sorted_ext (· < ·) (fun a => Nat.lt_irrefl a) (fun a b c => Nat.lt_trans) _ _
    (dkeys_sorted P hP.sorted) (foldr_insertNat _).1
  intro x
  rw [mem_dkeys, (foldr_insertNat _).2, List.mem_map]
  constructor
  · rintro ⟨p, hp, h⟩; exact ⟨p, hP.perm.mem_iff.1 hp, h⟩
  · rintro ⟨p, hp, h⟩; exact ⟨p, hP.perm.mem_iff.2 hp, h⟩

/-- buildRuleList as a function of the rule set -/
def buildSpec (rules : List GRule) : Except BuildErr RuleList :=
  if rules.isEmpty then .error .noRuleLeft
  else if !rules.any (fun r => r.rule.start == 0) then .error .noRuleForRange
  else specLoop rules (bkeys rules) []

theorem buildSorted_eq {rules : List GRule} (hw : RulesWF rules) (hr : RangeWF rules) {P : List Point}
    (hP : PointsWF rules P) : buildSorted P = buildSpec rules := by
  unfold buildSorted buildSpec
  cases hPl : P with
  | nil =>
    have : rules = [] := by
      cases rules with
      | nil => rfl
      | cons r rs =>
        have := hP.perm.length_eq
        rw [hPl] at this
        simp [pointsOf_eq] at this
    simp [this]
  | cons p rest =>
    have hne : rules.isEmpty = false := by
      cases rules with
      | nil => have := hP.perm.length_eq; rw [hPl] at this; simp at this
      | cons r rs => rfl
    simp only [hne, Bool.false_eq_true, ↓reduceIte]
    have hhead : (p.key ≠ 0) ↔ (!rules.any (fun r => r.rule.start == 0)) = true := by
      have hs := hP.sorted
      rw [hPl, List.pairwise_cons] at hs
      simp only [Bool.not_eq_true', List.any_eq_false, beq_iff_eq]
      constructor
      · intro h r hr' h0
        have : startPt r ∈ P := hP.perm.mem_iff.2 ((mem_points rules _).2 ⟨r, hr', Or.inl rfl⟩)
        rw [hPl] at this
        rcases List.mem_cons.1 this with e | e
        · rw [← e] at h; simp [startPt, h0] at h
        · have := hs.1 _ e; simp only [startPt, h0] at this; omega
      · intro h h0
        have hp : p ∈ P := by rw [hPl]; exact List.mem_cons_self
        obtain ⟨r, hr', e | ⟨he, e⟩⟩ := (mem_points rules p).1 (hP.perm.mem_iff.1 hp)
        · rw [e] at h0; exact h r hr' h0
        · rw [e] at h0; exact he h0
    by_cases hk : p.key ≠ 0
    · simp [hk, hhead.1 hk]
    · have : ¬ ((!rules.any (fun r => r.rule.start == 0)) = true) := fun h => hk (hhead.2 h)
      simp only [hk, this, ↓reduceIte]
      rw [← hPl, ← dkeys_eq_bkeys hP]
      have := sweep_eq hw hr hP P [] [] (by simp) sweepInv_nil
      simpa [srAfter] using this

theorem insertPoint_perm (p : Point) (l : List Point) : (insertPoint p l).Perm (p :: l) := by
  induction l with
  | nil => exact List.Perm.refl _
  | cons x xs ih =>
    simp only [insertPoint]
    split
    · exact List.Perm.refl _
    · exact (List.Perm.cons x ih).trans (List.Perm.swap p x xs)

theorem mem_insertPoint (p q : Point) (l : List Point) : q ∈ insertPoint p l ↔ q = p ∨ q ∈ l := by
  rw [(insertPoint_perm p l).mem_iff]; simp

theorem insertPoint_sorted (p : Point) (l : List Point) (h : l.Pairwise (fun a b => a.key ≤ b.key)) :
    (insertPoint p l).Pairwise (fun a b => a.key ≤ b.key) := by
  induction l with
  | nil => simp [insertPoint]
  | cons x xs ih =>
    rw [List.pairwise_cons] at h
    simp only [insertPoint]
    split
    · next hlt =>
      rw [List.pairwise_cons]
      refine ⟨?_, List.pairwise_cons.2 h⟩
      intro z hz
      rcases List.mem_cons.1 hz with e | e
      · rw [e]; omega
      · have := h.1 z e; omega
    · next hge =>
      rw [List.pairwise_cons]
      refine ⟨?_, ih h.2⟩
      intro z hz
      rcases (mem_insertPoint p z xs).1 hz with e | e
      · rw [e]; omega
      · exact h.1 z e

theorem sortPoints_perm (ps : List Point) : (sortPoints ps).Perm ps := by
  induction ps with
  | nil => exact List.Perm.refl _
  | cons p ps ih => exact (insertPoint_perm p _).trans (List.Perm.cons p ih)

theorem sortPoints_sorted (ps : List Point) : (sortPoints ps).Pairwise (fun a b => a.key ≤ b.key) := by
  induction ps with
  | nil => simp [sortPoints]
  | cons p ps ih => exact insertPoint_sorted p _ ih

theorem sortPoints_wf (rules : List GRule) : PointsWF rules (sortPoints (rules.flatMap pointsOf)) :=
  ⟨sortPoints_perm _, sortPoints_sorted _⟩

/-- **buildRuleList = its order-free specification** -/
theorem buildRuleList_eq {rules : List GRule} (hw : RulesWF rules) (hr : RangeWF rules) :
    buildRuleList rules = buildSpec rules :=
  buildSorted_eq hw hr (sortPoints_wf rules)

end PdModel.Rules
