import PdModel.Lemmas.Tso
set_option linter.unusedSimpArgs false
set_option linter.unusedVariables false
/-! Which steps grant timestamps: the ghost log versus the outputs. -/
namespace PdModel.Tso

def Out.isTs : Out → Bool
  | .ts _ _ => true
  | _ => false

theorem getTSLoop_obs (s : St) (m count fuel : Nat) :
    let r := getTSLoop s m count fuel
    (∃ p l, r.2 = .ts (msOf p) (l * 2 ^ s.cfg.bits + s.cfg.suffix) ∧ l = (r.1.mems m).logical ∧
        r.1.grants = ⟨m, msOf p, l - count, l, p, s.stored⟩ :: s.grants ∧ count ≤ l ∧ r.1.stored = s.stored)
    ∨ (r.2.isTs = false ∧ r.1.grants = s.grants ∧ r.1.stored = s.stored) := by
  induction fuel generalizing s with
  | zero => right; exact ⟨rfl, rfl, rfl⟩
  | succ fuel ih =>
    unfold getTSLoop
    simp only
    split
    · split
      · exact ih s
      · right; exact ⟨rfl, rfl, rfl⟩
    · next p hp =>
      split
      · have := ih (s.setMem m { s.mems m with logical := (s.mems m).logical + count })
        simpa using this
      · split
        · right; exact ⟨rfl, rfl, rfl⟩
        · left
          refine ⟨p, (s.mems m).logical + count, rfl, by simp, ?_, by omega, rfl⟩
          simp

theorem saveTxn_grants (s : St) (m sv : Nat) (f : Fault) :
    (saveTxn s m sv f).1.grants = s.grants ∧ (saveTxn s m sv f).2.2.isTs = false := by
  unfold saveTxn; cases f <;> simp only <;> (try split) <;> simp [Out.isTs] <;> (try split) <;> simp [Out.isTs]

theorem updFinish_obs (s : St) (m next : Nat) (save : Option Nat) (f : Fault) :
    (updFinish s m next save f).1.grants = s.grants ∧ (updFinish s m next save f).2.isTs = false := by
  unfold updFinish
  cases save with
  | none => exact ⟨rfl, rfl⟩
  | some sv =>
    simp only
    have := saveTxn_grants s m sv f
    generalize saveTxn s m sv f = r at this
    obtain ⟨s1, b, o⟩ := r
    simp only at this ⊢
    split
    · exact ⟨this.1, rfl⟩
    · exact ⟨by simp [stepDown, this.1], this.2⟩

theorem syncFinish_obs (s : St) (m : Nat) (last : Option Nat) (now : Nat) (f : Fault) :
    (syncFinish s m last now f).1.grants = s.grants ∧ (syncFinish s m last now f).2.isTs = false := by
  unfold syncFinish
  simp only
  have := saveTxn_grants s m (syncNext s.cfg last now + s.cfg.saveInterval) f
  generalize saveTxn s m (syncNext s.cfg last now + s.cfg.saveInterval) f = r at this
  obtain ⟨s1, b, o⟩ := r
  simp only at this ⊢
  split
  · exact ⟨this.1, rfl⟩
  · exact ⟨by simp [stepDown, this.1], this.2⟩

theorem resetUser_obs (s : St) (m tms tlog : Nat) (ig : Bool) (f : Fault) :
    (resetUser s m tms tlog ig f).1.grants = s.grants ∧ (resetUser s m tms tlog ig f).2.isTs = false := by
  unfold resetUser
  simp only
  split
  · exact ⟨rfl, rfl⟩
  · split
    · exact ⟨rfl, rfl⟩
    · split
      · exact ⟨rfl, by split <;> rfl⟩
      · split
        · exact ⟨rfl, by split <;> rfl⟩
        · split
          · exact ⟨rfl, rfl⟩
          · split
            · have := saveTxn_grants s m (tms * 1000000 + s.cfg.saveInterval) f
              generalize saveTxn s m (tms * 1000000 + s.cfg.saveInterval) f = r at this
              obtain ⟨s1, b, o⟩ := r
              simp only at this ⊢
              split
              · exact ⟨this.1, rfl⟩
              · exact this
            · exact ⟨rfl, rfl⟩

/-- a step either is a successful `getTS` – it then reports exactly the grant it logs – or it
    logs nothing and reports no timestamp -/
theorem step_obs (s : St) (op : Op) :
    (∃ m count p l, (op = .getTS m count ∨ op = .tryTS m count) ∧ (step s op).2 = .ts (msOf p) (l * 2 ^ s.cfg.bits + s.cfg.suffix) ∧
        (step s op).1.grants = ⟨m, msOf p, l - count, l, p, s.stored⟩ :: s.grants ∧ count ≤ l ∧ 0 < count ∧
        (step s op).1.stored = s.stored)
    ∨ ((step s op).2.isTs = false ∧ (step s op).1.grants = s.grants) := by
  cases op with
  | getTS m count =>
    simp only [step, getTS]
    split
    · right; exact ⟨rfl, rfl⟩
    · split
      · right; exact ⟨rfl, rfl⟩
      · next hc =>
        rcases getTSLoop_obs s m count s.cfg.maxRetry with ⟨p, l, h1, _, h3, h4, h5⟩ | ⟨h1, h2, _⟩
        · left; exact ⟨m, count, p, l, Or.inl rfl, h1, h3, h4, by omega, h5⟩
        · right; exact ⟨h1, h2⟩
  | tryTS m count =>
    simp only [step]
    split
    · right; exact ⟨rfl, rfl⟩
    · next hc =>
      rcases getTSLoop_obs s m count 1 with ⟨p, l, h1, _, h3, h4, h5⟩ | ⟨h1, h2, _⟩
      · left; exact ⟨m, count, p, l, Or.inr rfl, h1, h3, h4, by omega, h5⟩
      · right; exact ⟨h1, h2⟩
  | lead m => right; simp only [step]; split <;> exact ⟨rfl, rfl⟩
  | expire m => right; exact ⟨rfl, rfl⟩
  | resign => right; exact ⟨rfl, rfl⟩
  | extWin v => right; exact ⟨rfl, rfl⟩
  | dropKey => right; exact ⟨rfl, rfl⟩
  | update m now f =>
    right; simp only [step]
    split
    · exact ⟨rfl, rfl⟩
    split
    · exact ⟨rfl, rfl⟩
    split
    · exact ⟨rfl, rfl⟩
    · split
      · exact ⟨rfl, rfl⟩
      · next nx sv _ => have := updFinish_obs s m nx sv f; exact ⟨this.2, this.1⟩
  | gupdate m now =>
    right; simp only [step]
    split
    · exact ⟨rfl, rfl⟩
    split
    · exact ⟨rfl, rfl⟩
    split
    · exact ⟨rfl, rfl⟩
    · split
      · exact ⟨rfl, rfl⟩
      · next nx _ => have := updFinish_obs s m nx none .none; exact ⟨this.2, this.1⟩
      · exact ⟨rfl, rfl⟩
  | sync m now f =>
    right; simp only [step]
    split
    · exact ⟨rfl, rfl⟩
    · have := syncFinish_obs s m (optMax s.stored s.ext) now f; exact ⟨this.2, this.1⟩
  | gsync m now => right; simp only [step]; split <;> exact ⟨rfl, rfl⟩
  | finish m f =>
    right; simp only [step]
    split
    · exact ⟨rfl, rfl⟩
    · next nx sv _ => have := updFinish_obs s m nx sv f; exact ⟨this.2, this.1⟩
    · next last now _ => have := syncFinish_obs s m last now f; exact ⟨this.2, this.1⟩
  | setTS m ms logical ig f =>
    right; simp only [step]
    split
    · exact ⟨rfl, rfl⟩
    · have := resetUser_obs s m ms logical ig f; exact ⟨this.2, this.1⟩
  | resetMem m => right; exact ⟨rfl, rfl⟩

/-- the retry loop of `getTS` is the iteration of single attempts (`Op.tryTS`): between two attempts the
    caller only sleeps, so a history may interleave anything there -/
theorem getTSLoop_succ (s : St) (m count n : Nat) :
    getTSLoop s m count (n + 1) =
      (if (getTSLoop s m count 1).2 = .errExceeded then getTSLoop (getTSLoop s m count 1).1 m count n
       else getTSLoop s m count 1) := by
  cases hph : (s.mems m).phys with
  | none =>
    cases hl : (s.mems m).lease <;> simp [getTSLoop, hph, hl]
  | some p =>
    by_cases hov : ((s.mems m).logical + count) * 2 ^ s.cfg.bits + s.cfg.suffix ≥ s.cfg.maxLogical
    · simp [getTSLoop, hph, hov]
    · cases hl : (s.mems m).lease <;> simp [getTSLoop, hph, hov, hl]

end PdModel.Tso
