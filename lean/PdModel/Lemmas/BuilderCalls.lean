import PdModel.Lemmas.BuilderJoint
set_option linter.unusedSimpArgs false
set_option linter.unusedVariables false
/-! `NewBuilder` followed by any list of recording calls leaves a state satisfying `Recorded`. -/
namespace PdModel.Builder
open PdModel.Steps PdModel.Spec PdModel.Spec.C08

theorem mem_pmSet {m : List Peer} {p q : Peer} (h : q ∈ pmSet m p) : q = p ∨ q ∈ m := by
  unfold pmSet at h
  split at h
  · obtain ⟨x, hx, e⟩ := List.mem_map.1 h
    split at e
    · left; exact e.symm
    · right; exact e ▸ hx
  · rcases List.mem_append.1 h with h | h
    · right; exact h
    · left; simpa using h

theorem stores_pmSet_of_has {m : List Peer} {p : Peer} (h : pmHas m p.store = true) :
    stores (pmSet m p) = stores m := by
  unfold pmSet
  simp only [h, if_true, stores, List.map_map]
  apply List.map_congr_left
  intro x _
  simp only [Function.comp]
  split
  · next e => simp at e; exact e.symm
  · rfl

theorem nodup_pmSet {m : List Peer} {p : Peer} (hn : (stores m).Nodup) : (stores (pmSet m p)).Nodup := by
  cases h : pmHas m p.store
  · rw [pmSet_fresh (pmHas_false.1 h)]
    simp only [stores, List.map_append, List.map_cons, List.map_nil]
    rw [List.nodup_append]
    refine ⟨hn, by simp, ?_⟩
    intro a ha b hb e
    simp only [List.mem_singleton] at hb
    subst hb; subst e
    exact pmHas_false.1 h ha
  · rw [stores_pmSet_of_has h]; exact hn

theorem nodup_foldl_pmSet (m xs : List Peer) (hn : (stores m).Nodup) : (stores (xs.foldl pmSet m)).Nodup := by
  induction xs generalizing m with
  | nil => exact hn
  | cons x rest ih => exact ih _ (nodup_pmSet hn)

theorem mem_foldl_pmSet {m xs : List Peer} {q : Peer} (h : q ∈ xs.foldl pmSet m) : q ∈ m ∨ q ∈ xs := by
  induction xs generalizing m with
  | nil => left; exact h
  | cons x rest ih =>
    rcases ih h with h1 | h1
    · rcases mem_pmSet h1 with e | e
      · right; exact e ▸ List.mem_cons_self ..
      · left; exact e
    · right; exact List.mem_cons_of_mem _ h1

/-- the part of `Recorded` that the recording calls maintain -/
structure RecInv (origin : Region) (b : B) : Prop where
  originPeers : b.originPeers = origin.peers
  originLeader : b.originLeader = origin.leader
  nodupT : (stores b.targetPeers).Nodup
  plainT : plainRoles b.targetPeers
  noSteps : b.steps = []
  demote : b.useJoint = true → b.allowDemote = true

theorem plain_of_not_joint {r : Role} (h : isJointRole r = false) : r = .voter ∨ r = .learner := by
  cases r <;> simp [isJointRole] at h <;> simp

theorem recInv_applyCall (origin : Region) (b b' : B) (call : Call) (h : RecInv origin b)
    (hc : applyCall b call = .ok b') : RecInv origin b' := by
  cases call with
  | addPeer p =>
    simp only [applyCall] at hc
    split at hc; · cases hc
    split at hc; · cases hc
    split at hc; · cases hc
    next h1 h2 h3 =>
    cases hc
    refine ⟨h.originPeers, h.originLeader, nodup_pmSet h.nodupT, ?_, h.noSteps, h.demote⟩
    intro q hq
    rcases mem_pmSet hq with e | e
    · subst e; exact plain_of_not_joint (by simpa using h2)
    · exact h.plainT q e
  | removePeer s =>
    simp only [applyCall] at hc
    split at hc; · cases hc
    split at hc; · cases hc
    cases hc
    refine ⟨h.originPeers, h.originLeader, ?_, ?_, h.noSteps, h.demote⟩
    · exact List.Nodup.sublist (List.Sublist.map _ List.filter_sublist) h.nodupT
    · intro q hq; exact h.plainT q (List.mem_filter.1 hq).1
  | promoteLearner s =>
    simp only [applyCall] at hc
    split at hc; · cases hc
    next p hp =>
    split at hc; · cases hc
    split at hc; · cases hc
    cases hc
    refine ⟨h.originPeers, h.originLeader, nodup_pmSet h.nodupT, ?_, h.noSteps, h.demote⟩
    intro q hq
    rcases mem_pmSet hq with e | e
    · subst e; left; rfl
    · exact h.plainT q e
  | demoteVoter s =>
    simp only [applyCall] at hc
    split at hc; · cases hc
    next p hp =>
    split at hc; · cases hc
    cases hc
    refine ⟨h.originPeers, h.originLeader, nodup_pmSet h.nodupT, ?_, h.noSteps, h.demote⟩
    intro q hq
    rcases mem_pmSet hq with e | e
    · subst e; right; rfl
    · exact h.plainT q e
  | setLeader s =>
    simp only [applyCall] at hc
    split at hc; · cases hc
    split at hc; · cases hc
    split at hc; · cases hc
    cases hc
    exact ⟨h.originPeers, h.originLeader, h.nodupT, h.plainT, h.noSteps, h.demote⟩
  | setPeers ps =>
    simp only [applyCall] at hc
    split at hc; · cases hc
    next hany =>
    cases hc
    refine ⟨h.originPeers, h.originLeader, nodup_foldl_pmSet [] ps (by simp [stores]), ?_, h.noSteps, h.demote⟩
    intro q hq
    have : ¬ (q.store == 0 || isJointRole q.role) = true := by
      intro hc
      apply hany
      exact List.any_eq_true.2 ⟨q, hq, hc⟩
    simp only [Bool.or_eq_true, not_or, Bool.not_eq_true] at this
    exact plain_of_not_joint this.2
  | setExpectedRoles rs =>
    simp only [applyCall] at hc
    split at hc; · cases hc
    split at hc; · cases hc
    cases hc
    exact ⟨h.originPeers, h.originLeader, h.nodupT, h.plainT, h.noSteps, h.demote⟩
  | lightWeight => cases hc; exact ⟨h.originPeers, h.originLeader, h.nodupT, h.plainT, h.noSteps, h.demote⟩
  | forceTargetLeader => cases hc; exact ⟨h.originPeers, h.originLeader, h.nodupT, h.plainT, h.noSteps, h.demote⟩

theorem recInv_applyCalls (origin : Region) (b b' : B) (calls : List Call) (h : RecInv origin b)
    (hc : applyCalls b calls = .ok b') : RecInv origin b' := by
  induction calls generalizing b with
  | nil => simp only [applyCalls] at hc; cases hc; exact h
  | cons c rest ih =>
    simp only [applyCalls] at hc
    split at hc
    · cases hc
    · next b1 h1 => exact ih b1 (recInv_applyCall origin b b1 c h h1) hc

/-- a well-formed region that is not in a joint state -/
structure GoodOrigin (origin : Region) : Prop where
  wf : C08.WellFormed origin
  noJoint : inJoint origin = false

theorem plain_of_noJoint {origin : Region} (h : inJoint origin = false) : plainRoles origin.peers := by
  intro p hp
  unfold inJoint at h
  have := List.any_eq_false.1 h p hp
  exact plain_of_not_joint (by simpa using this)

theorem recInv_newBuilder (c : Cluster) (origin : Region) (uh : List Nat) (skip : Bool) (b : B)
    (hg : GoodOrigin origin) (h : newBuilder c origin uh skip = .ok b) : RecInv origin b := by
  have hn : (stores origin.peers).Nodup := hg.wf.1
  have hO : origin.peers.foldl pmSet [] = origin.peers := by
    have := foldl_pmSet_fresh [] origin.peers (by simp [stores]) hn
    simpa using this
  unfold newBuilder at h
  split at h; · cases h
  simp only at h
  split at h; · cases h
  split at h; · cases h
  split at h; · cases h
  cases h
  refine ⟨hO, rfl, ?_, ?_, rfl, ?_⟩
  · show (stores (origin.peers.foldl pmSet [])).Nodup
    rw [hO]; exact hn
  · show plainRoles (origin.peers.foldl pmSet [])
    rw [hO]; exact plain_of_noJoint hg.noJoint
  · intro hu
    simp only [Bool.and_eq_true] at hu
    exact hu.1

/-- **`NewBuilder` + any recording calls establish `Recorded`** for a good origin. -/
theorem recorded_of_calls (c : Cluster) (origin : Region) (uh : List Nat) (skip : Bool) (calls : List Call)
    (bn b0 : B) (hg : GoodOrigin origin) (hn : newBuilder c origin uh skip = .ok bn)
    (hc : applyCalls bn calls = .ok b0) :
    Recorded b0 ∧ b0.originPeers = origin.peers ∧ b0.originLeader = origin.leader := by
  have h := recInv_applyCalls origin bn b0 calls (recInv_newBuilder c origin uh skip bn hg hn) hc
  refine ⟨⟨?_, ?_, ?_, ?_, h.nodupT, h.plainT, h.noSteps, h.demote⟩, h.originPeers, h.originLeader⟩
  · rw [h.originPeers]; exact hg.wf.1
  · rw [h.originPeers]; exact plain_of_noJoint hg.noJoint
  · rw [h.originPeers]; exact hg.wf.2.1
  · rw [h.originPeers, h.originLeader]
    obtain ⟨p, hp, hr⟩ := hg.wf.2.2
    have hm := pmGet_some (l := origin.peers) hp
    refine ⟨p, hm.1, hm.2, ?_⟩
    rcases plain_of_noJoint hg.noJoint p hm.1 with e | e
    · exact e
    · exact absurd e hr

end PdModel.Builder
