import PdModel.Model.HistoryBuf
import PdModel.Spec.C16
set_option linter.unusedSimpArgs false
set_option linter.unusedVariables false
/-!
The ring buffer of the history buffer refines a plain window `(next, win)`:
`win` = the records currently held, oldest first.  All modular arithmetic lives here; the property
theorems (Props/C16) are stated over lists only.
-/
namespace PdModel.HistoryBuf
variable {α : Type}

/-- `a mod n` for `a < 2n`, without `%` (so that `omega` can work with it) -/
def wrap (n a : Nat) : Nat := if a < n then a else a - n

theorem mod_eq_wrap (n a : Nat) (h : a < 2 * n) : a % n = wrap n a := by
  unfold wrap
  split
  · exact Nat.mod_eq_of_lt ‹_›
  · rw [Nat.mod_eq_sub_mod (by omega)]
    exact Nat.mod_eq_of_lt (by omega)

/-- `distanceToTail` as a function of numbers -/
def dist (n t p : Nat) : Nat := if t < p then t + n - p else t - p

theorem distanceToTail_eq (b : Buf α) (p : Nat) : distanceToTail b p = dist b.size b.tail p := rfl

theorem wrap_lt (n a : Nat) (hn : 0 < n) (h : a < 2 * n) : wrap n a < n := by
  unfold wrap; split <;> omega

theorem dist_lt (n t p : Nat) (ht : t < n) (hp : p < n) : dist n t p < n := by
  unfold dist; split <;> omega

theorem dist_eq_zero (n t p : Nat) (ht : t < n) (hp : p < n) : dist n t p = 0 ↔ p = t := by
  unfold dist; split <;> omega

theorem dist_step (n t i : Nat) (ht : t < n) (hi : i < n) (hne : i ≠ t) :
    dist n t (wrap n (i + 1)) + 1 = dist n t i := by
  unfold dist wrap; repeat' split
  all_goals omega

theorem wrap_wrap (n i j : Nat) (hi : i < n) (hj : i + j + 1 < 2 * n) :
    wrap n (wrap n (i + 1) + j) = wrap n (i + (j + 1)) := by
  unfold wrap; repeat' split
  all_goals omega

theorem wrap_add (n h k j : Nat) (hh : h < n) (hk : h + k + j < 2 * n) :
    wrap n (wrap n (h + k) + j) = wrap n (h + (k + j)) := by
  unfold wrap; repeat' split
  all_goals omega

theorem wrap_dist (n t h : Nat) (ht : t < n) (hh : h < n) : wrap n (h + dist n t h) = t := by
  unfold wrap dist; repeat' split
  all_goals omega

theorem wrap_ne_tail (n t h k : Nat) (ht : t < n) (hh : h < n) (hk : k < dist n t h) :
    wrap n (h + k) ≠ t := by
  unfold wrap dist at *; repeat' split
  all_goals (split at hk <;> omega)

/-- the code's loop yields the slots `i, i+1, …` (cyclically) up to the tail -/
theorem collect_get (b : Buf α) (hs : 0 < b.size) (ht : b.tail < b.size) :
    ∀ (fuel i j : Nat), i < b.size → dist b.size b.tail i ≤ fuel →
      (collect b fuel i)[j]? =
        if j < dist b.size b.tail i then some (b.records.getD (wrap b.size (i + j)) none) else none := by
  intro fuel
  induction fuel with
  | zero =>
    intro i j hi hd
    have : dist b.size b.tail i = 0 := by omega
    simp [collect, this]
  | succ f ih =>
    intro i j hi hd
    unfold collect
    by_cases hit : i = b.tail
    · have : dist b.size b.tail i = 0 := (dist_eq_zero _ _ _ ht hi).2 hit
      rw [if_pos hit, this]; simp
    · simp only [hit, if_false]
      have hstep := dist_step b.size b.tail i ht hi hit
      have hmod : (i + 1) % b.size = wrap b.size (i + 1) := mod_eq_wrap _ _ (by omega)
      have hlt : wrap b.size (i + 1) < b.size := wrap_lt _ _ hs (by omega)
      rw [hmod]
      cases j with
      | zero =>
        have : 0 < dist b.size b.tail i := by omega
        simp [this, wrap, hi]
      | succ j =>
        rw [List.getElem?_cons_succ, ih (wrap b.size (i + 1)) j hlt (by omega)]
        by_cases hj : j < dist b.size b.tail (wrap b.size (i + 1))
        · have h2 : j + 1 < dist b.size b.tail i := by omega
          have hd' := dist_lt b.size b.tail i ht hi
          rw [if_pos hj, if_pos h2, wrap_wrap b.size i j hi (by omega)]
        · have h2 : ¬ (j + 1 < dist b.size b.tail i) := by omega
          rw [if_neg hj, if_neg h2]

/-- the abstract window -/
structure Abs (α : Type) where
  next : Nat
  win  : List α

/-- refinement relation between the ring buffer and the window -/
structure Rel (b : Buf α) (a : Abs α) : Prop where
  size2   : 2 ≤ b.size
  recsLen : b.records.length = b.size
  hd      : b.head < b.size
  tl      : b.tail < b.size
  idx     : b.index = a.next
  len     : dist b.size b.tail b.head = a.win.length
  content : ∀ (k : Nat) (x : α), a.win[k]? = some x →
              b.records[wrap b.size (b.head + k)]? = some (some x)
  le      : a.win.length ≤ a.next

theorem Rel.congr {b b' : Buf α} {a : Abs α} (h : Rel b a) (h1 : b'.size = b.size)
    (h2 : b'.records = b.records) (h3 : b'.head = b.head) (h4 : b'.tail = b.tail)
    (h5 : b'.index = b.index) : Rel b' a := by
  constructor
  · rw [h1]; exact h.size2
  · rw [h1, h2]; exact h.recsLen
  · rw [h1, h3]; exact h.hd
  · rw [h1, h4]; exact h.tl
  · rw [h5]; exact h.idx
  · rw [h1, h3, h4]; exact h.len
  · rw [h1, h2, h3]; exact h.content
  · exact h.le

/-- capacity of a buffer = slots − 1 -/
def capOf (b : Buf α) : Nat := b.size - 1

def Abs.record (cap : Nat) (a : Abs α) (r : α) : Abs α :=
  { next := a.next + 1, win := if a.win.length < cap then a.win ++ [r] else (a.win ++ [r]).drop 1 }

def Abs.reset (n : Nat) : Abs α := { next := n, win := [] }

theorem rel_new (cap : Nat) (kv : Option Nat) (flush : Nat) :
    Rel (new cap kv flush : Buf α) { next := kv.getD 0, win := [] } := by
  constructor <;> simp [new, dist]
  · split <;> omega
  · split <;> omega
  · split <;> omega

theorem new_size (cap : Nat) (kv : Option Nat) (flush : Nat) :
    (new cap kv flush : Buf α).size = max cap 1 + 1 := by
  simp [new]; split <;> omega

theorem record_fields (b : Buf α) (r : α) (f : Bool) :
    (record b r f).size = b.size ∧ (record b r f).records = b.records.set b.tail (some r) ∧
    (record b r f).tail = (b.tail + 1) % b.size ∧
    (record b r f).head = (if (b.tail + 1) % b.size = b.head then (b.head + 1) % b.size else b.head) ∧
    (record b r f).index = b.index + 1 ∧ (record b r f).flush = b.flush := by
  unfold record persist
  by_cases h1 : b.flushCount - 1 = 0 <;> by_cases h2 : f = true <;> simp [h1, h2]

theorem rel_record (b : Buf α) (a : Abs α) (h : Rel b a) (r : α) (f : Bool) :
    Rel (record b r f) (a.record (capOf b) r) := by
  obtain ⟨e1, e2, e3, e4, e5, _⟩ := record_fields b r f
  have hs := h.size2
  have hhd := h.hd
  have htl := h.tl
  have hmt : (b.tail + 1) % b.size = wrap b.size (b.tail + 1) := mod_eq_wrap _ _ (by omega)
  have hmh : (b.head + 1) % b.size = wrap b.size (b.head + 1) := mod_eq_wrap _ _ (by omega)
  have hlen := h.len
  have hdl := dist_lt b.size b.tail b.head htl hhd
  have hset : ∀ j : Nat, j ≠ b.tail → (b.records.set b.tail (some r))[j]? = b.records[j]? := by
    intro j hj; rw [List.getElem?_set]; simp [Ne.symm hj]
  have hsett : (b.records.set b.tail (some r))[b.tail]? = some (some r) := by
    rw [List.getElem?_set]; simp [h.recsLen, htl]
  by_cases hfull : a.win.length < capOf b
  · -- not full: the head stays
    have hne : wrap b.size (b.tail + 1) ≠ b.head := by
      intro he
      unfold capOf at hfull
      rw [← hlen] at hfull
      unfold wrap dist at *
      repeat' split at he
      all_goals (split at hfull <;> omega)
    have hhead : (record b r f).head = b.head := by rw [e4, hmt]; simp [hne]
    constructor
    · rw [e1]; exact hs
    · rw [e1, e2]; simp [h.recsLen]
    · rw [e1, hhead]; exact hhd
    · rw [e1, e3, hmt]; exact wrap_lt _ _ (by omega) (by omega)
    · rw [e5, h.idx]; rfl
    · rw [e1, e3, hhead, hmt]
      simp only [Abs.record, hfull, if_true, List.length_append, List.length_singleton]
      rw [← hlen]
      unfold capOf at hfull
      rw [← hlen] at hfull
      unfold wrap dist at *
      repeat' split
      all_goals (first | omega | (split at hfull <;> omega))
    · intro k x hk
      simp only [Abs.record, hfull, if_true] at hk
      rw [e1, e2, hhead]
      rw [List.getElem?_append] at hk
      split at hk
      · next hlt =>
        rw [hset _ (wrap_ne_tail _ _ _ _ htl hhd (by omega))]
        exact h.content k x hk
      · next hge =>
        have hk0 : k = a.win.length := by
          rcases Nat.lt_or_ge (k - a.win.length) 1 with h1 | h1
          · omega
          · simp [List.getElem?_eq_none (l := [r]) (by simpa using h1)] at hk
        subst hk0
        simp at hk
        subst hk
        rw [← hlen, wrap_dist _ _ _ htl hhd]
        exact hsett
    · simp only [Abs.record, hfull, if_true, List.length_append, List.length_singleton]
      have := h.le; omega
  · -- full: the oldest record is dropped
    have hL : a.win.length = b.size - 1 := by
      unfold capOf at hfull
      have := hlen; omega
    have heq : wrap b.size (b.tail + 1) = b.head := by
      rw [← hlen] at hL
      unfold wrap dist at *
      repeat' split
      all_goals (split at hL <;> omega)
    have hhead : (record b r f).head = wrap b.size (b.head + 1) := by rw [e4, hmt, hmh]; simp [heq]
    have hwl : wrap b.size (b.head + 1) < b.size := wrap_lt _ _ (by omega) (by omega)
    constructor
    · rw [e1]; exact hs
    · rw [e1, e2]; simp [h.recsLen]
    · rw [e1, hhead]; exact hwl
    · rw [e1, e3, hmt]; exact wrap_lt _ _ (by omega) (by omega)
    · rw [e5, h.idx]; rfl
    · rw [e1, e3, hhead, hmt, heq]
      simp only [Abs.record, hfull, if_false, List.length_drop, List.length_append, List.length_singleton]
      rw [hL]
      unfold wrap dist
      repeat' split
      all_goals omega
    · intro k x hk
      simp only [Abs.record, hfull, if_false] at hk
      rw [List.getElem?_drop, List.getElem?_append] at hk
      rw [e1, e2, hhead]
      have hw : wrap b.size (wrap b.size (b.head + 1) + k) = wrap b.size (b.head + (1 + k)) := by
        by_cases hk2 : b.head + k + 1 < 2 * b.size
        · have := wrap_add b.size b.head 1 k hhd (by omega); simpa using this
        · -- k is out of range anyway
          split at hk
          · next hlt => omega
          · next hge =>
            have : 1 ≤ 1 + k - a.win.length := by omega
            rcases Nat.lt_or_ge (1 + k - a.win.length) 1 with h1 | h1
            · omega
            · have hn : ([r] : List α)[1 + k - a.win.length]? = none := by
                apply List.getElem?_eq_none; simpa using h1
              rw [hn] at hk; cases hk
      rw [hw]
      split at hk
      · next hlt =>
        rw [hset _ (wrap_ne_tail _ _ _ _ htl hhd (by omega))]
        exact h.content (1 + k) x hk
      · next hge =>
        have hk0 : 1 + k = a.win.length := by
          rcases Nat.lt_or_ge (1 + k - a.win.length) 1 with h1 | h1
          · omega
          · have hn : ([r] : List α)[1 + k - a.win.length]? = none := by
              apply List.getElem?_eq_none; simpa using h1
            rw [hn] at hk; cases hk
        rw [hk0] at hk ⊢
        simp at hk
        subst hk
        rw [← hlen, wrap_dist _ _ _ htl hhd]
        exact hsett
    · simp only [Abs.record, hfull, if_false, List.length_drop, List.length_append, List.length_singleton]
      have := h.le; omega

theorem rel_reset (b : Buf α) (a : Abs α) (h : Rel b a) (n : Nat) (f : Bool) :
    Rel (resetWithIndex b n f) (Abs.reset n) := by
  have hs := h.size2
  unfold resetWithIndex persist
  split <;> (constructor <;> simp [Abs.reset, dist, h.recsLen] <;> omega)

theorem rel_resetUnfixed (b : Buf α) (a : Abs α) (h : Rel b a) (n : Nat) :
    Rel (resetWithIndexUnfixed b n) (Abs.reset n) := by
  have hs := h.size2
  unfold resetWithIndexUnfixed
  constructor <;> simp [Abs.reset, dist, h.recsLen] <;> omega

theorem len_eq (b : Buf α) (a : Abs α) (h : Rel b a) : len b = a.win.length := h.len

/-- `RecordsFrom` on the ring = a suffix of the window -/
theorem recordsFrom_rel (b : Buf α) (a : Abs α) (h : Rel b a) (i : Nat) :
    recordsFrom b i =
      if a.next - a.win.length ≤ i ∧ i < a.next then (a.win.drop (i - (a.next - a.win.length))).map some
      else [] := by
  have hs := h.size2
  have hhd := h.hd
  have htl := h.tl
  have hlen : len b = a.win.length := h.len
  have hle := h.le
  unfold recordsFrom nextIndex firstIndex
  rw [hlen, h.idx]
  by_cases hc : a.next - a.win.length ≤ i ∧ i < a.next
  · have hc' : i < a.next ∧ i ≥ a.next - a.win.length := ⟨hc.2, hc.1⟩
    rw [if_pos hc', if_pos hc]
    have hk : i - (a.next - a.win.length) < a.win.length := by omega
    have hdl := dist_lt b.size b.tail b.head htl hhd
    have hl := h.len
    have hmod : (b.head + (i - (a.next - a.win.length))) % b.size =
        wrap b.size (b.head + (i - (a.next - a.win.length))) := mod_eq_wrap _ _ (by omega)
    simp only [hmod]
    generalize hk0 : i - (a.next - a.win.length) = k at *
    have hpl : wrap b.size (b.head + k) < b.size := wrap_lt _ _ (by omega) (by omega)
    have hdk : dist b.size b.tail (wrap b.size (b.head + k)) = a.win.length - k := by
      rw [← hl]
      rw [← hl] at hk
      unfold wrap dist at *
      repeat' split
      all_goals (split at hk <;> omega)
    apply List.ext_getElem?
    intro j
    rw [collect_get b (by omega) htl b.size _ j hpl (by omega), hdk, List.getElem?_map, List.getElem?_drop]
    by_cases hj : j < a.win.length - k
    · rw [if_pos hj]
      have hx : ∃ x, a.win[k + j]? = some x := by
        have : k + j < a.win.length := by omega
        exact ⟨a.win[k + j], by simp [this]⟩
      obtain ⟨x, hx⟩ := hx
      have hcont := h.content (k + j) x hx
      rw [wrap_add b.size b.head k j hhd (by omega)]
      rw [hx]
      simp [List.getD, hcont]
    · rw [if_neg hj]
      have : a.win[k + j]? = none := List.getElem?_eq_none (by omega)
      simp [this]
  · have hc' : ¬ (i < a.next ∧ i ≥ a.next - a.win.length) := fun hh => hc ⟨hh.2, hh.1⟩
    rw [if_neg hc', if_neg hc]


/-! ### from the window to the client's log -/

/-- the `n` newest entries -/
def lastN (n : Nat) (l : List α) : List α := l.drop (l.length - n)

theorem lastN_length (n : Nat) (l : List α) : (lastN n l).length = min n l.length := by
  simp [lastN]; omega

theorem lastN_nil (n : Nat) : lastN n ([] : List α) = [] := by simp [lastN]

theorem lastN_snoc (n : Nat) (hn : 0 < n) (l : List α) (r : α) :
    lastN n (l ++ [r]) =
      if (lastN n l).length < n then lastN n l ++ [r] else (lastN n l ++ [r]).drop 1 := by
  rw [lastN_length]
  unfold lastN
  simp only [List.length_append, List.length_singleton]
  by_cases h : l.length < n
  · have h1 : min n l.length < n := by omega
    have h2 : l.length + 1 - n = 0 := by omega
    have h3 : l.length - n = 0 := by omega
    simp [h1, h2, h3]
  · have h1 : ¬ (min n l.length < n) := by omega
    rw [if_neg h1]
    rw [List.drop_append_of_le_length (by omega)]
    rw [List.drop_append_of_le_length (by simp; omega)]
    rw [List.drop_drop]
    congr 2
    omega

open PdModel.Spec in
/-- the window answer and the answer demanded by the specification coincide -/
theorem expected_of_window (cap : Nat) (l : C16.Log α) (a : Abs α)
    (hn : a.next = l.next) (hw : a.win = lastN (max cap 1) l.log) (hle : a.win.length ≤ a.next) (i : Nat) :
    (if a.next - a.win.length ≤ i ∧ i < a.next then a.win.drop (i - (a.next - a.win.length)) else [])
      = C16.expected cap l i := by
  have hlen : a.win.length = min (max cap 1) l.log.length := by rw [hw, lastN_length]
  unfold C16.expected C16.first C16.window
  rw [← hlen, ← hn]
  by_cases hc : a.next - a.win.length ≤ i ∧ i < a.next
  · rw [if_pos hc, if_pos hc, hw]
    unfold lastN
    rw [List.drop_drop]
    congr 1
    simp only [List.length_drop]
    omega
  · rw [if_neg hc, if_neg hc]

/-! ### persisted index -/

/-- as long as no `kv.Save` fails, the persisted index trails the next index by exactly the number of
    records since the last persist, which is below the flush interval -/
structure Pers (F : Nat) (b : Buf α) : Prop where
  fl  : b.flush = F
  fc1 : 1 ≤ b.flushCount
  fc2 : b.flushCount ≤ b.flush
  eq  : b.kv.getD 0 + (b.flush - b.flushCount) = b.index

theorem pers_new (cap : Nat) (kv : Option Nat) (flush : Nat) (hf : 0 < flush) :
    Pers flush (new cap kv flush : Buf α) := by
  constructor <;> simp [new] <;> omega

theorem pers_record (F : Nat) (b : Buf α) (h : Pers F b) (r : α) : Pers F (record b r false) := by
  have h0 := h.fl
  have h1 := h.fc1
  have h2 := h.fc2
  have h3 := h.eq
  unfold record persist
  by_cases hc : b.flushCount - 1 = 0
  · simp only [hc, if_true]
    constructor <;> simp <;> omega
  · simp only [hc, if_false]
    constructor <;> simp <;> omega

theorem pers_reset (F : Nat) (b : Buf α) (h : Pers F b) (n : Nat) : Pers F (resetWithIndex b n false) := by
  have h0 := h.fl
  have h1 := h.fc1
  have h2 := h.fc2
  unfold resetWithIndex persist
  constructor <;> simp <;> omega

theorem restart_index (b : Buf α) (c : Nat) : (restart b c).index = b.kv.getD 0 := by
  simp [restart, new]

end PdModel.HistoryBuf
