import PdModel.Model.GcSafePoint
set_option linter.unusedSimpArgs false
set_option linter.unusedVariables false
/-!
Service safe points: what `LoadMinServiceGCSafePoint` (model: `scan`, `loadMin`) guarantees about the
minimum it returns and the table it leaves, for every table, every time and every failing write.
-/
namespace PdModel.GcSafePoint

theorem mem_tins (t : Table) (e x : Entry) : x ∈ tins t e ↔ x = e ∨ x ∈ t := by
  induction t with
  | nil => simp [tins]
  | cons y ys ih =>
    simp only [tins]
    split
    · simp
    · simp only [List.mem_cons, ih]
      constructor
      · rintro (h | h | h)
        · exact Or.inr (Or.inl h)
        · exact Or.inl h
        · exact Or.inr (Or.inr h)
      · rintro (h | h | h)
        · exact Or.inr (Or.inl h)
        · exact Or.inl h
        · exact Or.inr (Or.inr h)

theorem mem_tremove (t : Table) (id : String) (x : Entry) : x ∈ tremove t id ↔ x ∈ t ∧ x.id ≠ id := by
  simp [tremove]

theorem mem_tput (t : Table) (e x : Entry) : x ∈ tput t e ↔ x = e ∨ (x ∈ t ∧ x.id ≠ e.id) := by
  simp [tput, mem_tins, mem_tremove]

theorem tick_nofail (w : W) (h : w.failAt = 0) : w.tick.2 = false ∧ w.tick.1.failAt = 0 := by
  simp [W.tick, h]

theorem tick_failAt (w : W) : w.tick.1.failAt = w.failAt := by simp [W.tick]

/-- the entries the loop compares: not expired, or the garbage collector's own -/
def cmp (gc : String) (now : Int) (e : Entry) : Prop := e.id = gc ∨ now ≤ e.exp

theorem takeMin_spec (m : Option Entry) (e : Entry) :
    ∃ m', takeMin m e = some m' ∧ m'.sp ≤ e.sp ∧ (∀ m0, m = some m0 → m'.sp ≤ m0.sp) ∧
      (m' = e ∨ m = some m') := by
  unfold takeMin
  cases m with
  | none => exact ⟨e, rfl, Nat.le_refl _, by simp, Or.inl rfl⟩
  | some x =>
    simp only
    split
    · next h => exact ⟨e, rfl, Nat.le_refl _, by intro m0 h0; cases h0; omega, Or.inl rfl⟩
    · next h => exact ⟨x, rfl, by omega, by intro m0 h0; cases h0; exact Nat.le_refl _, Or.inr rfl⟩

/-- invariant of the loop: `done` = records already visited, `es` = records still to visit -/
structure SInv (gc : String) (now : Int) (done es : List Entry) (a : Scan) : Prop where
  minle  : ∀ e ∈ done, cmp gc now e → ∃ m, a.min = some m ∧ m.sp ≤ e.sp
  minsrc : ∀ m, a.min = some m → ∃ e ∈ done, cmp gc now e ∧ m.sp = e.sp
  src    : ∀ x ∈ a.tbl, x ∈ done ++ es ∨ ∃ e ∈ done, e.id = gc ∧ x.id = gc ∧ x.sp = e.sp
  livep  : a.w.failAt = 0 → ∀ x ∈ a.tbl, now ≤ x.exp ∨ x ∈ es
  gcp    : (a.hasGC = true ∨ ∃ e ∈ es, e.id = gc ∧ e.exp = maxI64) →
             ∃ x ∈ a.tbl, x.id = gc ∧ x.exp = maxI64
  nofail : a.failed = false

theorem scan_inv (gc : String) (now : Int) (hnow : now ≤ maxI64) (es : List Entry) :
    ∀ (done : List Entry) (a : Scan), SInv gc now done es a → (scan gc now es a).failed = false →
      SInv gc now (done ++ es) [] (scan gc now es a) := by
  induction es with
  | nil => intro done a h _; simpa [scan] using h
  | cons e es ih =>
    intro done a h hnf
    have happ : done ++ e :: es = (done ++ [e]) ++ es := by simp
    rw [happ]
    unfold scan at hnf ⊢
    by_cases hfin : e.id = gc ∧ e.exp ≠ maxI64
    · -- finite gc_worker record: repaired
      rw [if_pos hfin] at hnf ⊢
      simp only at hnf ⊢
      by_cases hfail : a.w.tick.2 = true
      · rw [if_pos hfail] at hnf; simp at hnf
      · rw [if_neg hfail] at hnf ⊢
        apply ih _ _ _ hnf
        obtain ⟨m', hm1, hm2, hm3, hm4⟩ := takeMin_spec a.min { e with exp := maxI64 }
        constructor
        · intro d hd hc
          simp only [List.mem_append, List.mem_singleton] at hd
          rcases hd with hd | rfl
          · obtain ⟨m, hm, hle⟩ := h.minle d hd hc
            exact ⟨m', hm1, by have := hm3 m hm; omega⟩
          · exact ⟨m', hm1, hm2⟩
        · intro m hm
          simp only at hm
          rw [hm1] at hm; cases hm
          rcases hm4 with hme | hold
          · exact ⟨e, by simp, Or.inl hfin.1, by rw [hme]⟩
          · obtain ⟨d, hd, hc, hs⟩ := h.minsrc _ hold
            exact ⟨d, by simp [hd], hc, hs⟩
        · intro x hx
          simp only [mem_tput] at hx
          rcases hx with rfl | ⟨hx, _⟩
          · right; exact ⟨e, by simp, hfin.1, hfin.1, rfl⟩
          · rcases h.src x hx with h1 | ⟨d, hd, h2⟩
            · left; rw [← happ]; exact h1
            · right; exact ⟨d, by simp [hd], h2⟩
        · intro hw x hx
          simp only [mem_tput] at hx
          rcases hx with rfl | ⟨hx, hne⟩
          · left; exact hnow
          · have hw' : a.w.failAt = 0 := by simpa [tick_failAt] using hw
            rcases h.livep hw' x hx with h1 | h1
            · left; exact h1
            · simp only [List.mem_cons] at h1
              rcases h1 with h1 | h1
              · rw [h1] at hne; exact absurd rfl hne
              · right; exact h1
        · intro _
          exact ⟨{ e with exp := maxI64 }, by simp [mem_tput], hfin.1, rfl⟩
        · exact h.nofail
    · have hnfin := hfin
      rw [if_neg hfin] at hnf ⊢
      simp only at hnf ⊢
      -- `a1`: remember gc_worker
      have hgcinf : e.id = gc → e.exp = maxI64 := by
        intro hid
        by_cases hx : e.exp = maxI64
        · exact hx
        · exact absurd ⟨hid, hx⟩ hnfin
      by_cases hexp : e.exp < now
      · -- expired: removed (a failing removal is ignored)
        rw [if_pos hexp] at hnf ⊢
        have hne : e.id ≠ gc := by
          intro hid; have := hgcinf hid; omega
        have hncmp : ¬ cmp gc now e := by
          rintro (h1 | h1)
          · exact hne h1
          · omega
        simp only [if_neg hne] at hnf ⊢
        apply ih _ _ _ hnf
        constructor
        · intro d hd hc
          simp only [List.mem_append, List.mem_singleton] at hd
          rcases hd with hd | rfl
          · exact h.minle d hd hc
          · exact absurd hc hncmp
        · intro m hm
          obtain ⟨d, hd, hc, hs⟩ := h.minsrc m hm
          exact ⟨d, by simp [hd], hc, hs⟩
        · intro x hx
          have hx' : x ∈ a.tbl := by
            simp only at hx
            split at hx
            · exact hx
            · exact ((mem_tremove _ _ _).1 hx).1
          rcases h.src x hx' with h1 | ⟨d, hd, h2⟩
          · left; rw [← happ]; exact h1
          · right; exact ⟨d, by simp [hd], h2⟩
        · intro hw x hx
          have hw' : a.w.failAt = 0 := by simpa [tick_failAt] using hw
          have hnf' := (tick_nofail a.w hw').1
          simp only [hnf', Bool.false_eq_true, if_false, mem_tremove] at hx
          rcases h.livep hw' x hx.1 with h1 | h1
          · left; exact h1
          · simp only [List.mem_cons] at h1
            rcases h1 with rfl | h1
            · exact absurd rfl hx.2
            · right; exact h1
        · intro hp
          have : ∃ x ∈ a.tbl, x.id = gc ∧ x.exp = maxI64 := by
            apply h.gcp
            rcases hp with hp | ⟨d, hd, h2⟩
            · left; exact hp
            · right; exact ⟨d, by simp [hd], h2⟩
          obtain ⟨x, hx, hid, hex⟩ := this
          refine ⟨x, ?_, hid, hex⟩
          simp only
          split
          · exact hx
          · exact (mem_tremove _ _ _).2 ⟨hx, by rw [hid]; exact Ne.symm hne⟩
        · exact h.nofail
      · -- compared
        rw [if_neg hexp] at hnf ⊢
        have hcmp : cmp gc now e := by right; omega
        apply ih _ _ _ hnf
        -- the state before the comparison
        have hmin1 : (if e.id = gc then { a with hasGC := true } else a).min = a.min := by
          split <;> rfl
        have htbl1 : (if e.id = gc then { a with hasGC := true } else a).tbl = a.tbl := by
          split <;> rfl
        have hw1 : (if e.id = gc then { a with hasGC := true } else a).w = a.w := by
          split <;> rfl
        have hf1 : (if e.id = gc then { a with hasGC := true } else a).failed = a.failed := by
          split <;> rfl
        obtain ⟨m', hm1, hm2, hm3, hm4⟩ := takeMin_spec a.min e
        constructor
        · intro d hd hc
          simp only [hmin1]
          simp only [List.mem_append, List.mem_singleton] at hd
          rcases hd with hd | rfl
          · obtain ⟨m, hm, hle⟩ := h.minle d hd hc
            exact ⟨m', hm1, by have := hm3 m hm; omega⟩
          · exact ⟨m', hm1, hm2⟩
        · intro m hm
          simp only [hmin1] at hm
          rw [hm1] at hm; cases hm
          rcases hm4 with hme | hold
          · exact ⟨e, by simp, hcmp, by rw [hme]⟩
          · obtain ⟨d, hd, hc, hs⟩ := h.minsrc _ hold
            exact ⟨d, by simp [hd], hc, hs⟩
        · intro x hx
          simp only [htbl1] at hx
          rcases h.src x hx with h1 | ⟨d, hd, h2⟩
          · left; rw [← happ]; exact h1
          · right; exact ⟨d, by simp [hd], h2⟩
        · intro hw x hx
          simp only [htbl1] at hx
          simp only [hw1] at hw
          rcases h.livep hw x hx with h1 | h1
          · left; exact h1
          · simp only [List.mem_cons] at h1
            rcases h1 with rfl | h1
            · left; omega
            · right; exact h1
        · intro hp
          simp only [htbl1]
          apply h.gcp
          rcases hp with hp | ⟨d, hd, h2⟩
          · by_cases hid : e.id = gc
            · right; exact ⟨e, by simp, hid, hgcinf hid⟩
            · left; simpa [hid] using hp
          · right; exact ⟨d, by simp [hd], h2⟩
        · simp only [hf1]; exact h.nofail

theorem sinv_start (gc : String) (now : Int) (t : Table) (w : W) :
    SInv gc now [] t { tbl := t, w := w } := by
  constructor
  · intro e he; simp at he
  · intro m hm; simp at hm
  · intro x hx; left; simpa using hx
  · intro _ x hx; right; exact hx
  · rintro (h | ⟨e, he, h1, h2⟩)
    · simp at h
    · exact ⟨e, he, h1, h2⟩
  · rfl

/-- what a successful LoadMinServiceGCSafePoint guarantees -/
structure LoadMinOk (gc : String) (now : Int) (t : Table) (w : W) (t2 : Table) (w2 : W) (m : Entry) : Prop where
  /-- the minimum is not above any record that is not expired (nor above gc_worker's) -/
  below  : ∀ x ∈ t2, cmp gc now x → m.sp ≤ x.sp
  /-- every record left is an old one, or gc_worker's with an old safe point, or the new gc_worker record
      which carries the minimum -/
  frame  : ∀ x ∈ t2, x ∈ t ∨ (x.id = gc ∧ ((∃ e ∈ t, e.id = gc ∧ x.sp = e.sp) ∨ x.sp = m.sp))
  /-- the minimum is the safe point of a compared record, if there is one -/
  attain : (∃ e ∈ t, cmp gc now e) → ∃ e ∈ t, cmp gc now e ∧ m.sp = e.sp
  /-- without storage failures no expired record is left -/
  pruned : w.failAt = 0 → ∀ x ∈ t2, now ≤ x.exp
  gc     : ∃ x ∈ t2, x.id = gc ∧ x.exp = maxI64
  wfail  : w2.failAt = w.failAt

theorem scan_failAt (gc : String) (now : Int) (es : List Entry) :
    ∀ a : Scan, (scan gc now es a).w.failAt = a.w.failAt := by
  induction es with
  | nil => intro a; rfl
  | cons e es ih =>
    intro a
    unfold scan
    split
    · simp only
      split
      · simp [tick_failAt]
      · rw [ih]; simp [tick_failAt]
    · simp only
      split
      · rw [ih]; simp only [tick_failAt]; split <;> rfl
      · rw [ih]; split <;> rfl

theorem initGC_ok (gc : String) (t : Table) (w : W) (v : Nat) (t2 : Table) (w2 : W) (m : Entry)
    (h : initGC gc t w v = (t2, w2, .ok m)) :
    m = { id := gc, sp := v, exp := maxI64 } ∧ t2 = tput t m ∧ w2.failAt = w.failAt := by
  unfold initGC at h
  simp only at h
  split at h
  · simp at h
  · simp only [Prod.mk.injEq, Except.ok.injEq] at h
    obtain ⟨h1, h2, h3⟩ := h
    subst h3
    exact ⟨rfl, h1.symm, by rw [← h2, tick_failAt]⟩

theorem loadMin_ok (gc : String) (now : Int) (hnow : now ≤ maxI64) (t : Table) (w : W)
    (t2 : Table) (w2 : W) (m : Entry) (h : loadMin gc now t w = (t2, w2, .ok m)) :
    LoadMinOk gc now t w t2 w2 m := by
  unfold loadMin at h
  split at h
  · next hemp =>
    have ht : t = [] := by simpa using hemp
    obtain ⟨hm, ht2, hw⟩ := initGC_ok gc t w 0 t2 w2 m h
    subst ht
    constructor
    · intro x hx _; simp [hm]
    · intro x hx
      rw [ht2, mem_tput] at hx
      rcases hx with rfl | ⟨hx, _⟩
      · right; exact ⟨by simp [hm], Or.inr rfl⟩
      · simp at hx
    · rintro ⟨e, he, _⟩; simp at he
    · intro _ x hx
      rw [ht2, mem_tput] at hx
      rcases hx with rfl | ⟨hx, _⟩
      · simp [hm]; exact hnow
      · simp at hx
    · exact ⟨m, by rw [ht2, mem_tput]; left; rfl, by simp [hm], by simp [hm]⟩
    · exact hw
  · simp only at h
    split at h
    · simp at h
    · next hnf =>
      have hnf' : (scan gc now t { tbl := t, w := w }).failed = false := by simpa using hnf
      have hinv := scan_inv gc now hnow t [] _ (sinv_start gc now t w) hnf'
      simp only [List.nil_append] at hinv
      have hwf := scan_failAt gc now t { tbl := t, w := w }
      generalize scan gc now t { tbl := t, w := w } = a at h hinv hwf
      have hsrc : ∀ x ∈ a.tbl, x ∈ t ∨ (x.id = gc ∧ ∃ e ∈ t, e.id = gc ∧ x.sp = e.sp) := by
        intro x hx
        rcases hinv.src x hx with h1 | ⟨e, he, h1, h2, h3⟩
        · left; simpa using h1
        · right; exact ⟨h2, e, he, h1, h3⟩
      have hlive : w.failAt = 0 → ∀ x ∈ a.tbl, now ≤ x.exp := by
        intro hw x hx
        rcases hinv.livep (by rw [hwf]; exact hw) x hx with h1 | h1
        · exact h1
        · simp at h1
      split at h
      · next hmin =>
        -- nothing compared: gc_worker := 0
        obtain ⟨hm, ht2, hw⟩ := initGC_ok gc a.tbl a.w 0 t2 w2 m h
        constructor
        · intro x hx _; simp [hm]
        · intro x hx
          rw [ht2, mem_tput] at hx
          rcases hx with rfl | ⟨hx, _⟩
          · right; exact ⟨by simp [hm], Or.inr rfl⟩
          · rcases hsrc x hx with h1 | ⟨h1, h2⟩
            · left; exact h1
            · right; exact ⟨h1, Or.inl h2⟩
        · rintro ⟨e, he, hc⟩
          obtain ⟨m0, hm0, _⟩ := hinv.minle e he hc
          rw [hmin] at hm0; cases hm0
        · intro hw0 x hx
          rw [ht2, mem_tput] at hx
          rcases hx with rfl | ⟨hx, _⟩
          · simp [hm]; exact hnow
          · exact hlive hw0 x hx
        · exact ⟨m, by rw [ht2, mem_tput]; left; rfl, by simp [hm], by simp [hm]⟩
        · rw [hw, hwf]
      · next m0 hmin =>
        have hbelow : ∀ x ∈ a.tbl, cmp gc now x → m0.sp ≤ x.sp := by
          intro x hx hc
          rcases hinv.src x hx with h1 | ⟨e, he, h1, h2, h3⟩
          · obtain ⟨m1, hm1, hle⟩ := hinv.minle x (by simpa using h1) hc
            rw [hmin] at hm1; cases hm1; exact hle
          · obtain ⟨m1, hm1, hle⟩ := hinv.minle e he (Or.inl h1)
            rw [hmin] at hm1; cases hm1; omega
        have hattain : ∃ e ∈ t, cmp gc now e ∧ m0.sp = e.sp := hinv.minsrc m0 hmin
        split at h
        · next hno =>
          -- no gc_worker record: created with the minimum
          obtain ⟨hm, ht2, hw⟩ := initGC_ok gc a.tbl a.w m0.sp t2 w2 m h
          have hmsp : m.sp = m0.sp := by simp [hm]
          constructor
          · intro x hx hc
            rw [ht2, mem_tput] at hx
            rcases hx with rfl | ⟨hx, _⟩
            · exact Nat.le_refl _
            · rw [hmsp]; exact hbelow x hx hc
          · intro x hx
            rw [ht2, mem_tput] at hx
            rcases hx with rfl | ⟨hx, _⟩
            · right; exact ⟨by simp [hm], Or.inr rfl⟩
            · rcases hsrc x hx with h1 | ⟨h1, h2⟩
              · left; exact h1
              · right; exact ⟨h1, Or.inl h2⟩
          · intro _; rw [hmsp]; exact hattain
          · intro hw0 x hx
            rw [ht2, mem_tput] at hx
            rcases hx with rfl | ⟨hx, _⟩
            · simp [hm]; exact hnow
            · exact hlive hw0 x hx
          · exact ⟨m, by rw [ht2, mem_tput]; left; rfl, by simp [hm], by simp [hm]⟩
          · rw [hw, hwf]
        · next hhas =>
          simp only [Prod.mk.injEq, Except.ok.injEq] at h
          obtain ⟨rfl, rfl, rfl⟩ := h
          constructor
          · exact hbelow
          · intro x hx
            rcases hsrc x hx with h1 | ⟨h1, h2⟩
            · left; exact h1
            · right; exact ⟨h1, Or.inl h2⟩
          · intro _; exact hattain
          · exact hlive
          · apply hinv.gcp; left; simpa using hhas
          · exact hwf

end PdModel.GcSafePoint

namespace PdModel.GcSafePoint

/-- the ways `usp` can answer `ok` -/
inductive UspOk (gc : String) (t : Table) (svc : String) (ttl : Int) (sp : Nat) (now : Int) (failAt : Nat)
    (t' : Table) (msp : Nat) : Prop where
  /-- ttl ≤ 0: the record is removed, the minimum of the rest is reported -/
  | removed (w1 : W) (w2 : W) (m : Entry) (h0 : ttl ≤ 0) (hgc : svc ≠ gc) (hv : validId svc = true)
      (hw : w1.failAt = failAt) (hl : loadMin gc now (tremove t svc) w1 = (t', w2, .ok m)) (hm : msp = m.sp)
  /-- ttl > 0 but below the minimum: nothing is recorded -/
  | refused (w2 : W) (m : Entry) (h0 : 0 < ttl) (hlt : sp < m.sp)
      (hl : loadMin gc now t { failAt := failAt } = (t', w2, .ok m)) (hm : msp = m.sp)
  /-- recorded, some other service holds the minimum -/
  | saved (w2 : W) (t2 : Table) (m : Entry) (h0 : 0 < ttl) (hge : m.sp ≤ sp) (hv : validId svc = true)
      (hgc : svc = gc → (newEntry svc ttl sp now).exp = maxI64)
      (hl : loadMin gc now t { failAt := failAt } = (t2, w2, .ok m))
      (ht : t' = tput t2 (newEntry svc ttl sp now)) (hm : msp = m.sp)
  /-- recorded, the service itself held the minimum: the minimum is loaded again -/
  | reloaded (w2 w3 w4 : W) (t2 : Table) (m m' : Entry) (h0 : 0 < ttl) (hge : m.sp ≤ sp)
      (hv : validId svc = true) (hgc : svc = gc → (newEntry svc ttl sp now).exp = maxI64)
      (hl : loadMin gc now t { failAt := failAt } = (t2, w2, .ok m)) (hw : w3.failAt = w2.failAt)
      (hl' : loadMin gc now (tput t2 (newEntry svc ttl sp now)) w3 = (t', w4, .ok m')) (hm : msp = m'.sp)

theorem uspRemove_ok (gc : String) (t : Table) (svc : String) (ttl : Int) (w : W) (t1 : Table) (w1 : W)
    (h : uspRemove gc t svc ttl w = .ok (t1, w1)) :
    w1.failAt = w.failAt ∧
    ((0 < ttl ∧ t1 = t ∧ w1 = w) ∨ (ttl ≤ 0 ∧ svc ≠ gc ∧ validId svc = true ∧ t1 = tremove t svc)) := by
  unfold uspRemove at h
  by_cases h0 : ttl ≤ 0
  · rw [if_pos h0] at h
    by_cases hgc : svc = gc
    · rw [if_pos hgc] at h; cases h
    · rw [if_neg hgc] at h
      cases hv : validId svc with
      | false => simp [hv] at h
      | true =>
        simp only [hv, Bool.not_true, Bool.false_eq_true, if_false] at h
        by_cases hf : w.tick.2 = true
        · rw [if_pos hf] at h; cases h
        · rw [if_neg hf] at h
          simp only [Except.ok.injEq, Prod.mk.injEq] at h
          obtain ⟨rfl, rfl⟩ := h
          exact ⟨tick_failAt _, Or.inr ⟨h0, hgc, rfl, rfl⟩⟩
  · rw [if_neg h0] at h
    simp only [Except.ok.injEq, Prod.mk.injEq] at h
    obtain ⟨rfl, rfl⟩ := h
    exact ⟨rfl, Or.inl ⟨by omega, rfl, rfl⟩⟩

theorem okOut_inv (t : Table) (m : Entry) (now : Int) (t' : Table) (mid : String) (mttl : Int) (msp : Nat)
    (h : okOut t m now = (t', .ok mid mttl msp)) : t' = t ∧ msp = m.sp := by
  simp only [okOut, Prod.mk.injEq, SOut.ok.injEq] at h
  exact ⟨h.1.symm, h.2.2.2.symm⟩

theorem usp_ok_inv (gc : String) (t : Table) (svc : String) (ttl : Int) (sp : Nat) (now : Int) (failAt : Nat)
    (t' : Table) (mid : String) (mttl : Int) (msp : Nat)
    (h : usp gc t svc ttl sp now failAt = (t', .ok mid mttl msp)) :
    UspOk gc t svc ttl sp now failAt t' msp := by
  unfold usp at h
  generalize hr : uspRemove gc t svc ttl { failAt := failAt } = r at h
  cases r with
  | error e => simp at h
  | ok p =>
    obtain ⟨t1, w1⟩ := p
    obtain ⟨hw1, hcase⟩ := uspRemove_ok gc t svc ttl _ t1 w1 hr
    simp only at h
    unfold uspLoad at h
    generalize hl : loadMin gc now t1 w1 = r2 at h
    obtain ⟨t2, w2, res⟩ := r2
    cases res with
    | error e => simp at h
    | ok m =>
      simp only at h
      unfold uspSave at h
      by_cases hc : ttl > 0 ∧ sp ≥ m.sp
      · rw [if_pos hc] at h
        simp only at h
        rcases hcase with ⟨hpos, rfl, rfl⟩ | ⟨h0, _⟩
        · by_cases he : svc = ""
          · rw [if_pos he] at h; simp at h
          · rw [if_neg he] at h
            by_cases hg : svc = gc ∧ (newEntry svc ttl sp now).exp ≠ maxI64
            · rw [if_pos hg] at h; simp at h
            · rw [if_neg hg] at h
              have hgc' : svc = gc → (newEntry svc ttl sp now).exp = maxI64 := by
                intro hs
                by_cases hx : (newEntry svc ttl sp now).exp = maxI64
                · exact hx
                · exact absurd ⟨hs, hx⟩ hg
              cases hv : validId svc with
              | false => simp [hv] at h
              | true =>
                simp only [hv, Bool.not_true, Bool.false_eq_true, if_false] at h
                by_cases hf : w2.tick.2 = true
                · rw [if_pos hf] at h; simp at h
                · rw [if_neg hf] at h
                  by_cases hmid : svc = m.id
                  · rw [if_pos hmid] at h
                    unfold uspReload at h
                    generalize hl' : loadMin gc now (tput t2 (newEntry svc ttl sp now)) w2.tick.1 = r3 at h
                    obtain ⟨t4, w4, res'⟩ := r3
                    cases res' with
                    | error e => simp at h
                    | ok m' =>
                      simp only at h
                      obtain ⟨rfl, rfl⟩ := okOut_inv _ _ _ _ _ _ _ h
                      exact .reloaded w2 _ w4 t2 m m' hpos hc.2 hv hgc' hl (tick_failAt _) hl' rfl
                  · rw [if_neg hmid] at h
                    obtain ⟨rfl, rfl⟩ := okOut_inv _ _ _ _ _ _ _ h
                    exact .saved w2 t2 m hpos hc.2 hv hgc' hl rfl rfl
        · omega
      · rw [if_neg hc] at h
        obtain ⟨rfl, rfl⟩ := okOut_inv _ _ _ _ _ _ _ h
        rcases hcase with ⟨hpos, rfl, rfl⟩ | ⟨h0, hgc, hv, rfl⟩
        · exact .refused w2 m hpos (by omega) hl rfl
        · exact .removed w1 w2 m h0 hgc hv hw1 hl rfl

end PdModel.GcSafePoint
