import PdModel.Model.Rules
set_option linter.unusedSimpArgs false
set_option linter.unusedVariables false
/-! Association lists as maps: lookups after set / delete / folds. -/
namespace PdModel.Rules
open PdModel.Spec.C13

section generic
variable {α : Type} (key : α → K)

theorem mapIns_perm (v : α) (l : List α) : (mapIns key v l).Perm (v :: l) := by
  induction l with
  | nil => exact List.Perm.refl _
  | cons x xs ih =>
    simp only [mapIns]
    split
    · exact List.Perm.refl _
    · exact (List.Perm.cons x ih).trans (List.Perm.swap v x xs)

theorem mem_mapSet (v x : α) (l : List α) : x ∈ mapSet key v l ↔ (x = v ∨ (x ∈ l ∧ key x ≠ key v)) := by
  unfold mapSet
  rw [(mapIns_perm key v _).mem_iff, List.mem_cons, List.mem_filter]
  simp

theorem mapGet_mapIns (v : α) (k : K) (l : List α) (hno : ∀ x ∈ l, key x ≠ key v) :
    mapGet key k (mapIns key v l) = if key v = k then some v else mapGet key k l := by
  induction l with
  | nil => simp [mapIns, mapGet]
  | cons x xs ih =>
    have hx : key x ≠ key v := hno x List.mem_cons_self
    simp only [mapIns]
    split
    · simp only [mapGet, List.find?_cons]
      by_cases h2 : key v = k <;> simp [h2]
    · have ih' := ih (fun y hy => hno y (List.mem_cons_of_mem _ hy))
      simp only [mapGet, List.find?_cons] at ih' ⊢
      by_cases h3 : key x = k
      · have : key v ≠ k := fun h => hx (h3.trans h.symm)
        simp [h3, this]
      · simp only [h3, decide_false, Bool.false_eq_true]
        exact ih'

theorem mapGet_filter_ne (k k' : K) (l : List α) :
    mapGet key k (l.filter (fun x => key x ≠ k')) = if k = k' then none else mapGet key k l := by
  unfold mapGet
  induction l with
  | nil => simp
  | cons x xs ih =>
    simp only [List.filter_cons]
    by_cases h1 : key x = k'
    · simp only [h1, ne_eq, not_true_eq_false, decide_false, Bool.false_eq_true, ↓reduceIte, ih, List.find?_cons]
      by_cases h2 : k = k'
      · simp [h2]
      · have : ¬ k' = k := fun h => h2 h.symm
        simp [h2, this]
    · simp only [ne_eq, h1, not_false_eq_true, decide_true, ↓reduceIte, List.find?_cons, ih]
      by_cases h2 : key x = k
      · have : ¬ k = k' := fun h => h1 (h2.trans h)
        simp [h2, this]
      · simp [h2]

theorem mapGet_mapSet (v : α) (k : K) (l : List α) :
    mapGet key k (mapSet key v l) = if key v = k then some v else mapGet key k l := by
  unfold mapSet
  rw [mapGet_mapIns key v k _ (fun x hx => by simpa using (List.mem_filter.1 hx).2), mapGet_filter_ne]
  by_cases h : key v = k
  · simp [h]
  · have : ¬ k = key v := fun e => h e.symm
    simp [h, this]

theorem mapGet_mapDel (k k' : K) (l : List α) :
    mapGet key k (mapDel key k' l) = if k = k' then none else mapGet key k l :=
  mapGet_filter_ne key k k' l

theorem mapGet_some (k : K) (l : List α) (v : α) (h : mapGet key k l = some v) : key v = k ∧ v ∈ l := by
  unfold mapGet at h
  exact ⟨by simpa using List.find?_some h, List.mem_of_find?_eq_some h⟩

/-- all keys different -/
def KeysNodup (l : List α) : Prop := l.Pairwise (fun a b => key a ≠ key b)

theorem mapGet_of_mem (l : List α) (h : KeysNodup key l) (v : α) (hv : v ∈ l) : mapGet key (key v) l = some v := by
  unfold mapGet
  induction l with
  | nil => simp at hv
  | cons x xs ih =>
    rw [KeysNodup, List.pairwise_cons] at h
    simp only [List.find?_cons]
    rcases List.mem_cons.1 hv with e | e
    · simp [e]
    · have : key x ≠ key v := h.1 v e
      simp only [this, decide_false, Bool.false_eq_true]
      exact ih h.2 e

theorem keysNodup_mapSet (v : α) (l : List α) (h : KeysNodup key l) : KeysNodup key (mapSet key v l) := by
  unfold mapSet KeysNodup
  rw [(mapIns_perm key v _).pairwise_iff (fun h => Ne.symm h), List.pairwise_cons]
  refine ⟨?_, h.sublist List.filter_sublist⟩
  intro x hx
  have hne : key x ≠ key v := by simpa using (List.mem_filter.1 hx).2
  exact fun e => hne e.symm

theorem keysNodup_mapDel (k : K) (l : List α) (h : KeysNodup key l) : KeysNodup key (mapDel key k l) :=
  h.sublist List.filter_sublist

/-- a list with different keys contains exactly the values its lookup returns -/
theorem mem_iff_mapGet (l : List α) (h : KeysNodup key l) (v : α) : v ∈ l ↔ mapGet key (key v) l = some v :=
  ⟨mapGet_of_mem key l h v, fun e => (mapGet_some key _ l v e).2⟩

end generic

end PdModel.Rules
