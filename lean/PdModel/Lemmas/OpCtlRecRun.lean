import PdModel.Model.OpCtl
import PdModel.Lemmas.OpCtl
import PdModel.Lemmas.OpCtlRecords

/-!
`RecInv` (every record names an existing, ended operator of its region) is kept by every controller
function and every event.  The proofs are the `le_*` proofs of `Lemmas/OpCtl.lean` replayed for the
stronger relation `K c c' := Le c c' ∧ (RecInv c → RecInv c')`.
-/

namespace PdModel.OpCtl
open PdModel.Steps PdModel.Spec

/-- the region has a record -/
def HasRec (c : Ctl) (r : Nat) : Prop := c.records.any (fun x => x.1 == r) = true

structure K (c c' : Ctl) : Prop where
  le : Le c c'
  keeps : RecInv c → RecInv c'
  mono : ∀ r, HasRec c r → HasRec c' r

theorem K.refl (c : Ctl) : K c c := ⟨Le.refl c, id, fun _ h => h⟩
theorem K.trans {a b c : Ctl} (h1 : K a b) (h2 : K b c) : K a c := ⟨Le.trans h1.le h2.le, fun h => h2.keeps (h1.keeps h), fun r h => h2.mono r (h1.mono r h)⟩

theorem K.of_eq {c c' : Ctl} (h1 : c'.ops = c.ops) (h2 : c'.views = c.views)
    (h3 : c'.maxWaiting = c.maxWaiting) (h4 : c'.records = c.records) : K c c' :=
  ⟨Le.of_eq h1 h2 h3, recInv_of_le c c' (Le.of_eq h1 h2 h3) h4, fun r h => by unfold HasRec at *; rw [h4]; exact h⟩

theorem k_setOp' (c : Ctl) (k : Nat) (o o' : Op) (h : c.getOp k = some o) (hr : Rel o o') :
    K c (c.setOp o') :=
  ⟨le_setOp' c k o o' h hr, recInv_of_le c _ (le_setOp' c k o o' h hr) rfl, fun _ h => h⟩

theorem hasRec_bury (c : Ctl) (id r : Nat) (h : HasRec c r) : HasRec (bury c id) r := by
  cases hg : c.getOp id with
  | none => unfold bury; rw [hg]; exact h
  | some o =>
    rw [bury_eq c id o hg]
    unfold HasRec at *
    simp only [List.any_cons, List.any_filter, Bool.or_eq_true]
    by_cases e : (buried o).region = r
    · left; simp [e]
    · right
      rw [List.any_eq_true] at h ⊢
      obtain ⟨x, hx, hxr⟩ := h
      refine ⟨x, hx, ?_⟩
      have hx1 : x.1 = r := by simpa using hxr
      simp [hx1, Ne.symm e]

theorem k_bury (c : Ctl) (id : Nat) : K c (bury c id) := ⟨le_bury c id, recInv_bury c id, hasRec_bury c id⟩

theorem k_removeLocked (c : Ctl) (o : Op) : K c (removeLocked c o).1 := by
  unfold removeLocked
  split
  · exact K.of_eq rfl rfl rfl rfl
  · exact K.refl c



theorem k_removeOperator (c : Ctl) (id : Nat) : K c (removeOperator c id).1 := by
  unfold removeOperator
  split
  · exact K.refl c
  · next o ho =>
    generalize hr : removeLocked c o = r
    obtain ⟨c1, removed⟩ := r
    have h1 : K c c1 := by have := k_removeLocked c o; rw [hr] at this; exact this
    have hg : c1.getOp id = some o := by
      have := getOp_removeLocked c o id; rw [hr] at this; exact this.trans ho
    simp only
    split
    · exact K.trans h1 (K.trans (k_setOp' c1 id o _ hg (rel_to o .canceled)) (k_bury _ id))
    · exact h1

theorem k_rejectAll (c : Ctl) (ids : List Nat) : K c (rejectAll c ids) := by
  unfold rejectAll
  induction ids generalizing c with
  | nil => exact K.refl c
  | cons id rest ih =>
    simp only [List.foldl_cons]
    refine K.trans ?_ (ih _)
    split
    · exact K.refl c
    · next o ho => exact K.trans (k_setOp' c id o _ ho (rel_to o .canceled)) (k_bury _ id)

theorem k_expireAll (c : Ctl) (ids : List Nat) : K c (expireAll c ids).1 := by
  unfold expireAll
  suffices H : ∀ (l : List Nat) (acc : Ctl × Bool), K c acc.1 →
      K c (l.foldl (fun (acc : Ctl × Bool) id =>
        match acc.1.getOp id with
        | none => acc
        | some o => ((acc.1.setOp o.checkExpired.1), acc.2 || o.checkExpired.2)) acc).1 from
    H ids (c, false) (K.refl c)
  intro l
  induction l with
  | nil => intro acc h; exact h
  | cons id rest ih =>
    intro acc h
    simp only [List.foldl_cons]
    apply ih
    split
    · exact h
    · next o ho => exact K.trans h (k_setOp' acc.1 id o _ ho (rel_checkExpired o))

theorem k_checkAdd (c : Ctl) (ids : List Nat) : K c (checkAdd c ids).1 := by
  unfold checkAdd
  split
  · exact K.refl c
  · exact k_expireAll c ids

theorem k_replaceOld (c : Ctl) (region : Nat) : K c (replaceOld c region) := by
  unfold replaceOld
  split
  · next oldId _ =>
    split
    · next old hold =>
      have hg : (removeLocked c old).1.getOp oldId = some old := (getOp_removeLocked c old oldId).trans hold
      exact K.trans (k_removeLocked c old)
        (K.trans (k_setOp' _ oldId old _ hg (rel_to old .replaced)) (k_bury _ oldId))
    · exact K.refl c
  · exact K.refl c

/-- `startLocked` on an operator that is a legal evolution of the stored one -/
theorem k_startLocked (c : Ctl) (k : Nat) (o0 o : Op) (h : c.getOp k = some o0) (hr : Rel o0 o) :
    K c (startLocked c o).1 := by
  unfold startLocked
  simp only
  have h1 : K c ({ c.setOp o with running := c.running.filter (fun x => x.1 != o.region) ++ [(o.region, o.id)] } : Ctl) :=
    K.trans (k_setOp' c k o0 o h hr) (K.of_eq rfl rfl rfl rfl)
  split
  · next v hv =>
    have hg : ({ c.setOp o with running := c.running.filter (fun x => x.1 != o.region) ++ [(o.region, o.id)] } : Ctl).getOp k = some o := by
      show (c.setOp o).getOp k = some o
      rw [getOp_setOp, h]
      have : o0.id = o.id := hr.id.symm
      simp [this]
    exact K.trans h1 (K.trans (k_setOp' _ k o _ hg (rel_check o v)) (K.of_eq rfl rfl rfl rfl))
  · exact K.trans h1 (K.of_eq rfl rfl rfl rfl)

theorem k_addLocked (c : Ctl) (id : Nat) : K c (addLocked c id).1 := by
  unfold addLocked
  split
  · exact K.refl c
  · next o0 _ =>
    have h1 := k_replaceOld c o0.region
    simp only
    split
    · exact h1
    · next o ho =>
      split
      · exact h1
      · exact K.trans h1 (k_startLocked _ id o _ ho (rel_to o .started))

theorem k_addAll (c : Ctl) (ids : List Nat) : K c (addAll c ids).1 := by
  induction ids generalizing c with
  | nil => exact K.refl c
  | cons id rest ih =>
    simp only [addAll]
    have h1 := k_addLocked c id
    generalize addLocked c id = r at h1
    obtain ⟨c1, m, ok⟩ := r
    simp only
    split
    · exact h1
    · have h2 := ih c1
      generalize addAll c1 rest = r2 at h2
      obtain ⟨c2, m2, ok2⟩ := r2
      exact K.trans h1 h2

theorem k_addOperator (c : Ctl) (ids : List Nat) : K c (addOperator c ids).1 := by
  unfold addOperator
  have h1 := k_checkAdd c ids
  generalize checkAdd c ids = r at h1
  obtain ⟨c1, ok⟩ := r
  simp only
  split
  · exact K.trans h1 (k_rejectAll c1 ids)
  · exact K.trans h1 (k_addAll c1 ids)

theorem takeFrom_k (c : Ctl) (i : Nat) : K c (takeFrom c i).1 := by
  apply K.of_eq <;> (unfold takeFrom; repeat' split) <;> rfl

theorem k_promote (c : Ctl) (rs : List Nat) : K c (promote c rs).1 := by
  induction rs generalizing c with
  | nil => exact K.refl c
  | cons r rest ih =>
    simp only [promote]
    split
    · unfold bumpUnlessEmpty; split
      · exact K.refl c
      · exact K.of_eq rfl rfl rfl rfl
    · next i _ =>
      have h1 := K.trans (K.of_eq (c := c) (c' := bump c) rfl rfl rfl rfl) (takeFrom_k (bump c) i)
      generalize takeFrom (bump c) i = t at h1
      obtain ⟨c1, ids⟩ := t
      simp only
      split
      · exact h1
      · next first tl =>
        have h2 := k_checkAdd c1 (first :: tl)
        generalize checkAdd c1 (first :: tl) = q at h2
        obtain ⟨c2, ok⟩ := q
        simp only
        have h3 : K c2 (decWaiting c2 first) := K.of_eq rfl rfl rfl rfl
        split
        · exact K.trans h1 (K.trans h2 (K.trans h3 (K.trans (k_rejectAll _ _) (ih _))))
        · have h4 := k_addAll (decWaiting c2 first) (first :: tl)
          generalize addAll (decWaiting c2 first) (first :: tl) = q2 at h4
          obtain ⟨c3, m, ok3⟩ := q2
          exact K.trans h1 (K.trans h2 (K.trans h3 h4))

theorem k_putWaiting (c : Ctl) (id : Nat) : K c (putWaiting c id) := K.of_eq rfl rfl rfl rfl
theorem k_incWaiting (c : Ctl) (id : Nat) : K c (incWaiting c id) := K.of_eq rfl rfl rfl rfl

theorem k_addWaitingLoop (c : Ctl) (ids : List Nat) (added : Nat) : K c (addWaitingLoop c ids added).1 := by
  induction c, ids, added using addWaitingLoop.induct with
  | case1 c added => simp [addWaitingLoop, K.refl]
  | case2 c id added hm => simp [addWaitingLoop, hm, K.refl]
  | case3 c id added hm c1 ok hca hok =>
    simp only [addWaitingLoop, hm, hca, hok]
    have := k_checkAdd c [id]; rw [hca] at this
    exact K.trans this (k_rejectAll _ _)
  | case4 c id added hm c1 ok hca hok =>
    simp only [addWaitingLoop, hm, hca, hok]
    have := k_checkAdd c [id]; rw [hca] at this
    exact K.trans this (K.trans (k_putWaiting _ _) (k_incWaiting _ _))
  | case5 c id nxt rest added hm hn => simp [addWaitingLoop, hm, hn, K.refl]
  | case6 c id nxt rest added hm hn c1 ok hca hok =>
    simp only [addWaitingLoop, hm, hn, hca, hok]
    have := k_checkAdd c [id]; rw [hca] at this
    exact K.trans this (k_rejectAll _ _)
  | case7 c id nxt rest added hm hn c1 ok hca hok ih =>
    simp only [addWaitingLoop, hm, hn, hca, hok]
    have := k_checkAdd c [id]; rw [hca] at this
    exact K.trans this (K.trans (K.trans (K.trans (k_putWaiting _ _) (k_putWaiting _ _)) (k_incWaiting _ _)) ih)
  | case8 c id nxt rest added hm c1 ok hca hok =>
    simp only [addWaitingLoop, hm, hca, hok]
    have := k_checkAdd c [id]; rw [hca] at this
    exact K.trans this (k_rejectAll _ _)
  | case9 c id nxt rest added hm c1 ok hca hok ih =>
    simp only [addWaitingLoop, hm, hca, hok]
    have := k_checkAdd c [id]; rw [hca] at this
    exact K.trans this (K.trans (K.trans (k_putWaiting _ _) (k_incWaiting _ _)) ih)

theorem k_addWaiting (c : Ctl) (ids rs : List Nat) : K c (addWaiting c ids rs).1 := by
  unfold addWaiting
  have h1 := k_addWaitingLoop c ids 0
  generalize addWaitingLoop c ids 0 = r at h1
  obtain ⟨c1, added, completed⟩ := r
  simp only
  split
  · have h2 := k_promote c1 rs
    generalize promote c1 rs = q at h2
    obtain ⟨c2, m⟩ := q
    exact K.trans h1 h2
  · exact h1

theorem k_checkStale (c : Ctl) (o : Op) (s : Step) (v : View) : K c (checkStale c o s v).1 := by
  unfold checkStale
  split
  · have := k_removeOperator c o.id
    generalize removeOperator c o.id = r at this
    obtain ⟨c1, b⟩ := r; exact this
  · split
    · have := k_removeOperator c o.id
      generalize removeOperator c o.id = r at this
      obtain ⟨c1, b⟩ := r; exact this
    · exact K.refl c

theorem k_dispatch (c : Ctl) (v : View) (hb : Bool) (rs : List Nat) : K c (dispatch c v hb rs).1 := by
  unfold dispatch
  split
  · exact K.refl c
  · next id _ =>
    split
    · exact K.refl c
    · next o ho =>
      have h1 : K c (c.setOp (o.check v).1) := k_setOp' c id o _ ho (rel_check o v)
      generalize hch : o.check v = ch at h1
      obtain ⟨o1, step⟩ := ch
      simp only at h1 ⊢
      have hg : (c.setOp o1).getOp id = some o1 := by
        rw [getOp_setOp, ho]
        have : o.id = o1.id := by have := (rel_check o v).id; rw [hch] at this; exact this.symm
        simp [this]
      split
      · -- started
        split
        · next s =>
          split
          · have h2 := k_checkStale (c.setOp o1) o1 s v
            generalize checkStale (c.setOp o1) o1 s v = q at h2
            obtain ⟨c2, stale⟩ := q
            simp only
            split
            · have h3 := k_promote c2 rs
              generalize promote c2 rs = q3 at h3
              obtain ⟨c3, m⟩ := q3
              exact K.trans h1 (K.trans h2 h3)
            · exact K.trans h1 h2
          · exact h1
        · exact h1
      all_goals first
        | (have h2 := k_removeOperator (c.setOp o1) id
           generalize removeOperator (c.setOp o1) id = q at h2
           obtain ⟨c2, removed⟩ := q
           simp only
           split
           · exact K.trans h1 (K.trans h2 (k_promote c2 rs))
           · exact K.trans h1 h2)
        | (have h2 := k_removeLocked (c.setOp o1) o1
           have hg2 := getOp_removeLocked (c.setOp o1) o1 id
           generalize removeLocked (c.setOp o1) o1 = q at h2 hg2
           obtain ⟨c2, removed⟩ := q
           simp only at hg2 ⊢
           split
           · exact K.trans h1 (K.trans h2 (K.trans
               (K.trans (k_setOp' c2 id o1 _ (hg2.trans hg) (rel_to o1 .canceled)) (k_bury _ id))
               (k_promote _ rs)))
           · exact K.trans h1 h2)


theorem k_pushLoop (c : Ctl) (rs : List Nat) (fuel : Nat) : K c (pushLoop c rs fuel).1 := by
  induction fuel generalizing c rs with
  | zero => exact K.refl c
  | succ n ih =>
    simp only [pushLoop]
    split
    · exact K.refl c
    · next item _ _ =>
      have h0 : K c (dropItem c item.seq) := K.of_eq rfl rfl rfl rfl
      split
      · exact K.trans h0 (ih _ _)
      · next o ho =>
        have hoid := polledOp_some ho
        split
        · -- region disappeared
          have hg2 := getOp_removeLocked (dropItem c item.seq) o o.id
          exact K.trans h0 (K.trans (k_removeLocked _ o) (K.trans
            (K.trans (k_setOp' _ o.id o _ (hg2.trans hoid) (rel_to o .canceled)) (k_bury _ _)) (ih _ _)))
        · next v _ =>
          have h1 : K (dropItem c item.seq) ((dropItem c item.seq).setOp (o.check v).1) :=
            k_setOp' _ o.id o _ hoid (rel_check o v)
          split
          · have h2 := k_dispatch ((dropItem c item.seq).setOp (o.check v).1) v false rs
            generalize dispatch ((dropItem c item.seq).setOp (o.check v).1) v false rs = q at h2
            obtain ⟨c3, m⟩ := q
            simp only
            show K c (pushLoop c3 _ n).1
            exact K.trans h0 (K.trans h1 (K.trans h2 (ih _ _)))
          · next s _ =>
            split
            · exact K.trans h0 (K.trans h1 (K.of_eq rfl rfl rfl rfl))
            · generalize hc2 : ({ (dropItem c item.seq).setOp (o.check v).1 with
                  queue := ((dropItem c item.seq).setOp (o.check v).1).queue ++
                    [⟨item.op, notifyAfter (some s), ((dropItem c item.seq).setOp (o.check v).1).seq⟩],
                  seq := ((dropItem c item.seq).setOp (o.check v).1).seq + 1 } : Ctl) = c2'
              have h1' : K ((dropItem c item.seq).setOp (o.check v).1) c2' := by
                subst hc2; exact K.of_eq rfl rfl rfl rfl
              have h2 := k_dispatch c2' v false rs
              generalize dispatch c2' v false rs = q at h2
              obtain ⟨c3, m⟩ := q
              simp only
              show K c (pushLoop c3 _ n).1
              exact K.trans h0 (K.trans h1 (K.trans h1' (K.trans h2 (ih _ _))))

theorem k_touchRunning (c : Ctl) : K c (touchRunning c) := by
  unfold touchRunning
  suffices H : ∀ (l : List (Nat × Nat)) (acc : Ctl), K c acc →
      K c (l.foldl (fun c x => match c.getOp x.2 with | some o => c.setOp o.checkTimeout.1 | none => c) acc) from
    H c.running c (K.refl c)
  intro l
  induction l with
  | nil => intro acc h; exact h
  | cons x rest ih =>
    intro acc h
    simp only [List.foldl_cons]
    apply ih
    split
    · next o ho => exact K.trans h (k_setOp' acc x.2 o _ ho (rel_checkTimeout o))
    · exact h

theorem k_pushOperators (c : Ctl) (rs : List Nat) : K c (pushOperators c rs).1 :=
  k_pushLoop c rs _


/-- a step that keeps every lookup and the records keeps `RecInv` (cache events change `views`, so
    `Le` does not apply to them) -/
theorem recInv_of_getOp (c c' : Ctl) (hg : ∀ k o, c.getOp k = some o → c'.getOp k = some o)
    (hrec : c'.records = c.records) (hi : RecInv c) : RecInv c' := by
  intro r k hk
  rw [hrec] at hk
  obtain ⟨x, gx, rx, ex⟩ := hi r k hk
  exact ⟨x, hg k x gx, rx, ex⟩

/-- **every event keeps `RecInv`** -/
theorem recInv_stepEv (c : Ctl) (e : Ev) (hi : RecInv c) : RecInv (stepEv c e).1 := by
  cases e with
  | putRegion v => exact recInv_of_getOp c _ (fun k o h => h) rfl hi
  | delRegion r => exact recInv_of_getOp c _ (fun k o h => h) rfl hi
  | newOp n =>
    simp only [stepEv]
    split
    · exact hi
    · refine recInv_of_getOp c _ ?_ rfl hi
      intro k o h
      unfold Ctl.getOp at h ⊢
      simp only [List.find?_append, h, Option.some_or]
  | add ids => exact (k_addOperator c ids).keeps hi
  | addWaiting ids rs => exact (k_addWaiting c ids rs).keeps hi
  | promote rs => exact (k_promote c rs).keeps hi
  | heartbeat v rs =>
    have g : RecInv (putView c v) := recInv_of_getOp c _ (fun k o h => h) rfl hi
    exact (k_dispatch (putView c v) v true rs).keeps g
  | push rs => exact (k_pushOperators c rs).keeps hi
  | remove id => exact (k_removeOperator c id).keeps hi
  | expire id =>
    simp only [stepEv]
    split
    · next x hx =>
      exact (k_setOp' c id x { x with createdOld := true } hx
        ⟨rfl, rfl, rfl, rfl, rfl, rfl, rfl, rfl, rfl, Reach.refl _⟩).keeps hi
    · exact hi
  | markTimeout id =>
    simp only [stepEv]
    split
    · next x hx =>
      split
      · exact (k_setOp' c id x { x with startedOld := true } hx
          ⟨rfl, rfl, rfl, rfl, rfl, rfl, rfl, rfl, rfl, Reach.refl _⟩).keeps hi
      · exact hi
    · exact hi
  | sleep ms => exact recInv_of_getOp c _ (fun k o h => h) rfl hi
  | influence => exact (k_touchRunning c).keeps hi

theorem recInv_runEv (c : Ctl) (evs : List Ev) (hi : RecInv c) : RecInv (runEv c evs) := by
  induction evs generalizing c with
  | nil => exact hi
  | cons e rest ih => exact ih _ (recInv_stepEv c e hi)

/-- **a region that has a record keeps having one** (the model has no TTL; PD's record cache forgets after
    ten minutes) -/
theorem hasRec_stepEv (c : Ctl) (e : Ev) (r : Nat) (h : HasRec c r) : HasRec (stepEv c e).1 r := by
  cases e with
  | putRegion v => exact h
  | delRegion x => exact h
  | newOp n =>
    simp only [stepEv]
    split
    · exact h
    · exact h
  | add ids => exact (k_addOperator c ids).mono r h
  | addWaiting ids rs => exact (k_addWaiting c ids rs).mono r h
  | promote rs => exact (k_promote c rs).mono r h
  | heartbeat v rs =>
    have g : HasRec (putView c v) r := h
    exact (k_dispatch (putView c v) v true rs).mono r g
  | push rs => exact (k_pushOperators c rs).mono r h
  | remove id => exact (k_removeOperator c id).mono r h
  | expire id =>
    simp only [stepEv]
    split
    · exact h
    · exact h
  | markTimeout id =>
    simp only [stepEv]
    split
    · split
      · exact h
      · exact h
    · exact h
  | sleep ms => exact h
  | influence => exact (k_touchRunning c).mono r h

theorem hasRec_runEv (c : Ctl) (evs : List Ev) (r : Nat) (h : HasRec c r) : HasRec (runEv c evs) r := by
  induction evs generalizing c with
  | nil => exact h
  | cons e rest ih => exact ih _ (hasRec_stepEv c e r h)

theorem recInv_empty : RecInv ({} : Ctl) := by
  intro r k hk
  cases hk

end PdModel.OpCtl
