import PdModel.Lemmas.RuleOrder
set_option linter.unusedSimpArgs false
set_option linter.unusedVariables false
/-! prepareRulesForApply = the declarative override semantics, on lists in apply order. -/
namespace PdModel.Rules
open PdModel.Spec.C13

/-- `later` disables `r`: same group and `later` has the override flag, or another group whose group
    configuration has the override flag -/
def ovG (later r : GRule) : Bool :=
  (later.rule.group == r.rule.group && later.rule.override) ||
  (later.rule.group != r.rule.group && later.grp.override)

/-- a rule stays iff no rule after it in the list disables it -/
def applyPos : List GRule → List GRule
  | [] => []
  | x :: rest => (if rest.any (fun y => ovG y x) then [] else [x]) ++ applyPos rest

/-- (group index, group id) does not decrease -/
def KLe (a b : GRule) : Prop :=
  a.grp.index < b.grp.index ∨ (a.grp.index = b.grp.index ∧ a.rule.group ≤ b.rule.group)

theorem RLt.toKLe {a b : GRule} (h : RLt a b) : KLe a b := by unfold RLt at h; unfold KLe; omega

theorem applyPos_cons (x : GRule) (rest : List GRule) :
    applyPos (x :: rest) = [x].filter (fun r => !rest.any (fun y => ovG y r)) ++ applyPos rest := by
  simp only [applyPos, List.filter_cons, List.filter_nil]
  cases rest.any (fun y => ovG y x) <;> rfl

theorem filter_no_later (l : List GRule) :
    l.filter (fun r => !([] : List GRule).any (fun y => ovG y r)) = l := by
  rw [List.filter_eq_self]; intro r _; rfl

theorem filter_keep (l : List GRule) (x : GRule) (rest : List GRule)
    (h : ∀ r ∈ l, ovG x r = false) :
    l.filter (fun r => !(x :: rest).any (fun y => ovG y r)) = l.filter (fun r => !rest.any (fun y => ovG y r)) := by
  apply List.filter_congr
  intro r hr
  show (!(ovG x r || rest.any (fun y => ovG y r))) = (!rest.any (fun y => ovG y r))
  rw [h r hr]; rfl

theorem filter_drop (l : List GRule) (x : GRule) (rest : List GRule)
    (h : ∀ r ∈ l, ovG x r = true) :
    l.filter (fun r => !(x :: rest).any (fun y => ovG y r)) = [] := by
  rw [List.filter_eq_nil_iff]
  intro r hr
  show ¬ (!(ovG x r || rest.any (fun y => ovG y r))) = true
  rw [h r hr]; simp

structure PrepInv (res seg rest : List GRule) (g : Nat) : Prop where
  cons : ∀ a ∈ res ++ seg ++ rest, ∀ b ∈ res ++ seg ++ rest, a.rule.group = b.rule.group → a.grp = b.grp
  sorted : (seg ++ rest).Pairwise KLe
  segne : seg ≠ []
  segg : ∀ s ∈ seg, s.rule.group = g
  other : ∀ r ∈ res, ∀ y ∈ seg ++ rest, r.rule.group ≠ y.rule.group
  ovr : ∀ s ∈ seg, s.grp.override = true → res = []

theorem prepareLoop_spec : ∀ (rest res seg : List GRule) (g : Nat), PrepInv res seg rest g →
    prepareLoop res seg rest =
      (res ++ seg).filter (fun r => !rest.any (fun y => ovG y r)) ++ applyPos rest := by
  intro rest
  induction rest with
  | nil => intro res seg g _; simp only [prepareLoop, applyPos, List.append_nil]; exact (filter_no_later _).symm
  | cons x rest ih =>
    intro res seg g inv
    cases seg with
    | nil => exact absurd rfl inv.segne
    | cons s ss =>
      have hsg : s.rule.group = g := inv.segg s List.mem_cons_self
      have hmem_s : s ∈ res ++ (s :: ss) ++ (x :: rest) := by simp
      have hmem_x : x ∈ res ++ (s :: ss) ++ (x :: rest) := by simp
      simp only [prepareLoop]
      by_cases hgx : s.rule.group ≠ x.rule.group
      · -- a new group starts
        rw [if_pos hgx]
        -- the old group never comes back
        have hnoback : ∀ y ∈ rest, y.rule.group ≠ g := by
          intro y hy hyg
          have hs := inv.sorted
          rw [List.pairwise_append] at hs
          have h1 : KLe s x := hs.2.2 s List.mem_cons_self x List.mem_cons_self
          have h2 : KLe x y := (List.pairwise_cons.1 hs.2.1).1 y hy
          have hy_mem : y ∈ res ++ (s :: ss) ++ (x :: rest) := by simp [hy]
          have hgrp : s.grp = y.grp := inv.cons s hmem_s y hy_mem (by rw [hsg, hyg])
          unfold KLe at h1 h2
          rw [hgrp] at h1
          have : s.rule.group = y.rule.group := by rw [hsg, hyg]
          omega
        have hseg_other : ∀ r ∈ s :: ss, r.rule.group ≠ x.rule.group := by
          intro r hr; rw [inv.segg r hr, ← hsg]; exact hgx
        have hres_other : ∀ r ∈ res, r.rule.group ≠ x.rule.group :=
          fun r hr => inv.other r hr x (by simp)
        by_cases hov : x.grp.override = true
        · simp only [hov, ↓reduceIte]
          rw [ih [] [x] x.rule.group ?_]
          · have hdrop : ∀ r ∈ res ++ s :: ss, ovG x r = true := by
              intro r hr
              have : r.rule.group ≠ x.rule.group := by
                rcases List.mem_append.1 hr with h | h
                · exact hres_other r h
                · exact hseg_other r h
              have hne2 : x.rule.group ≠ r.rule.group := fun e => this e.symm
              simp [ovG, hne2, hov]
            rw [filter_drop _ x rest hdrop, applyPos_cons]
            rfl
          · refine ⟨?_, ?_, by simp, by simp, by simp, by simp⟩
            · intro a ha b hb
              exact inv.cons a (by simp at ha ⊢; rcases ha with h | h <;> simp [h]) b
                (by simp at hb ⊢; rcases hb with h | h <;> simp [h])
            · have hs := inv.sorted
              rw [List.pairwise_append] at hs
              exact hs.2.1
        · simp only [hov, Bool.false_eq_true, ↓reduceIte]
          rw [ih (res ++ s :: ss) [x] x.rule.group ?_]
          · have hkeep : ∀ r ∈ res ++ s :: ss, ovG x r = false := by
              intro r hr
              have : r.rule.group ≠ x.rule.group := by
                rcases List.mem_append.1 hr with h | h
                · exact hres_other r h
                · exact hseg_other r h
              have hne2 : x.rule.group ≠ r.rule.group := fun e => this e.symm
              simp [ovG, hne2, hov]
            rw [filter_keep _ x rest hkeep, applyPos_cons, List.filter_append (res ++ s :: ss) [x], List.append_assoc]
          · refine ⟨?_, ?_, by simp, by simp, ?_, ?_⟩
            · intro a ha b hb
              exact inv.cons a (by simp at ha ⊢; rcases ha with h | h | h | h <;> simp [h]) b
                (by simp at hb ⊢; rcases hb with h | h | h | h <;> simp [h])
            · have hs := inv.sorted
              rw [List.pairwise_append] at hs
              exact hs.2.1
            · intro r hr y hy
              rcases List.mem_append.1 hr with h | h
              · exact inv.other r h y (by simp at hy ⊢; rcases hy with e | e <;> simp [e])
              · rw [inv.segg r h]
                simp only [List.singleton_append, List.mem_cons] at hy
                rcases hy with e | e
                · rw [e, ← hsg]; exact hgx
                · exact fun e' => hnoback y e e'.symm
            · intro s' hs' hov'
              simp only [List.mem_singleton] at hs'
              rw [hs'] at hov'; exact absurd hov' hov
      · -- the same group continues
        have hgx' : s.rule.group = x.rule.group := by simpa using hgx
        simp only [hgx', ne_eq, not_true_eq_false, ↓reduceIte]
        have hgrp : s.grp = x.grp := inv.cons s hmem_s x hmem_x hgx'
        have hres_keep : ∀ r ∈ res, ovG x r = false := by
          intro r hr
          have hne : r.rule.group ≠ x.rule.group := inv.other r hr x (by simp)
          have hne' : x.rule.group ≠ r.rule.group := fun e => hne e.symm
          by_cases hov : x.grp.override = true
          · have := inv.ovr s List.mem_cons_self (by rw [hgrp]; exact hov)
            rw [this] at hr; simp at hr
          · simp [ovG, hne', hov]
        by_cases hxo : x.rule.override = true
        · simp only [hxo, ↓reduceIte]
          rw [ih res [x] g ?_]
          · have hdrop : ∀ r ∈ s :: ss, ovG x r = true := by
              intro r hr
              have : x.rule.group = r.rule.group := by rw [inv.segg r hr, ← hsg, hgx']
              simp [ovG, this, hxo]
            rw [List.filter_append res (s :: ss), filter_keep _ x rest hres_keep, filter_drop _ x rest hdrop,
              applyPos_cons, List.filter_append res [x], List.append_nil, List.append_assoc]
          · refine ⟨?_, ?_, by simp, ?_, ?_, ?_⟩
            · intro a ha b hb
              exact inv.cons a (by simp at ha ⊢; rcases ha with h | h | h <;> simp [h]) b
                (by simp at hb ⊢; rcases hb with h | h | h <;> simp [h])
            · have hs := inv.sorted
              rw [List.pairwise_append] at hs
              exact hs.2.1
            · intro s' hs'; simp only [List.mem_singleton] at hs'; rw [hs', ← hgx', hsg]
            · intro r hr y hy
              exact inv.other r hr y (by simp at hy ⊢; rcases hy with e | e <;> simp [e])
            · intro s' hs' hov'
              simp only [List.mem_singleton] at hs'
              rw [hs', ← hgrp] at hov'
              exact inv.ovr s List.mem_cons_self hov'
        · simp only [hxo, Bool.false_eq_true, ↓reduceIte]
          rw [ih res (s :: ss ++ [x]) g ?_]
          · have hkeep : ∀ r ∈ res ++ s :: ss, ovG x r = false := by
              intro r hr
              rcases List.mem_append.1 hr with h | h
              · exact hres_keep r h
              · have : x.rule.group = r.rule.group := by rw [inv.segg r h, ← hsg, hgx']
                simp [ovG, this, hxo]
            rw [filter_keep _ x rest hkeep, applyPos_cons, ← List.append_assoc res (s :: ss) [x],
              List.filter_append (res ++ s :: ss) [x], List.append_assoc]
          · refine ⟨?_, ?_, by simp, ?_, ?_, ?_⟩
            · intro a ha b hb
              exact inv.cons a (by simp at ha ⊢; rcases ha with h | h | h | h | h <;> simp [h]) b
                (by simp at hb ⊢; rcases hb with h | h | h | h | h <;> simp [h])
            · have hs := inv.sorted
              simpa [List.append_assoc] using hs
            · intro s' hs'
              rcases List.mem_append.1 hs' with h | h
              · exact inv.segg s' h
              · simp only [List.mem_singleton] at h; rw [h, ← hgx', hsg]
            · intro r hr y hy
              exact inv.other r hr y (by simp at hy ⊢; rcases hy with e | e | e | e <;> simp [e])
            · intro s' hs' hov'
              rcases List.mem_append.1 hs' with h | h
              · exact inv.ovr s' h hov'
              · simp only [List.mem_singleton] at h
                rw [h, ← hgrp] at hov'
                exact inv.ovr s List.mem_cons_self hov'

/-- **override semantics**: on a list in apply order whose rules of one group share their group configuration,
    prepareRulesForApply keeps exactly the rules that no later rule disables -/
theorem prepareRulesForApply_eq (l : List GRule) (hs : l.Pairwise RLt)
    (hc : ∀ a ∈ l, ∀ b ∈ l, a.rule.group = b.rule.group → a.grp = b.grp) :
    prepareRulesForApply l = applyPos l := by
  cases l with
  | nil => rfl
  | cons r rest =>
    simp only [prepareRulesForApply]
    rw [prepareLoop_spec rest [] [r] r.rule.group ?_]
    · rw [applyPos_cons]; rfl
    · refine ⟨by simpa using hc, by simpa using hs.imp (fun h => RLt.toKLe h), by simp, by simp, by simp, by simp⟩

end PdModel.Rules

namespace PdModel.Rules
open PdModel.Spec.C13

theorem applyPos_sublist : ∀ (l : List GRule), (applyPos l).Sublist l := by
  intro l
  induction l with
  | nil => exact List.Sublist.refl _
  | cons x rest ih =>
    simp only [applyPos]
    split
    · exact (ih.cons x)
    · exact ih.cons_cons x

/-- on a list in apply order: a rule stays iff no rule that is applied after it disables it -/
theorem mem_applyPos_sorted : ∀ (l : List GRule), l.Pairwise RLt → ∀ r,
    (r ∈ applyPos l ↔ (r ∈ l ∧ ∀ y ∈ l, RLt r y → ovG y r = false)) := by
  intro l
  induction l with
  | nil => intro _ r; simp [applyPos]
  | cons x rest ih =>
    intro hs r
    rw [List.pairwise_cons] at hs
    simp only [applyPos, List.mem_append]
    constructor
    · rintro (h | h)
      · split at h
        · simp at h
        · next hany =>
          simp only [List.mem_singleton] at h
          subst h
          refine ⟨List.mem_cons_self, ?_⟩
          intro y hy hlt
          rcases List.mem_cons.1 hy with e | e
          · subst e; exact absurd hlt (RLt.irrefl _)
          · simp only [Bool.not_eq_true, List.any_eq_false] at hany
            exact hany y e
      · obtain ⟨h1, h2⟩ := (ih hs.2 r).1 h
        refine ⟨List.mem_cons_of_mem _ h1, ?_⟩
        intro y hy hlt
        rcases List.mem_cons.1 hy with e | e
        · subst e
          exact absurd (RLt.trans _ _ _ hlt (hs.1 r h1)) (RLt.irrefl _)
        · exact h2 y e hlt
    · rintro ⟨h1, h2⟩
      rcases List.mem_cons.1 h1 with e | e
      · left
        subst e
        have : rest.any (fun y => ovG y r) = false := by
          rw [List.any_eq_false]
          intro y hy
          have := h2 y (List.mem_cons_of_mem _ hy) (hs.1 y hy)
          simp [this]
        simp [this]
      · right
        exact (ih hs.2 r).2 ⟨e, fun y hy hlt => h2 y (List.mem_cons_of_mem _ hy) hlt⟩

end PdModel.Rules
