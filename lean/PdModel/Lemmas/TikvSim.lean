import PdModel.Model.TikvSim
import PdModel.Spec.C06
set_option linter.unusedSimpArgs false
set_option linter.unusedVariables false
/-!
In a legitimate history the epoch of a region id only grows, and ids are never re-used.
-/
namespace PdModel.TikvSim
open PdModel.RegionTree PdModel.Spec

def Le3 (a b : Region) : Prop := a.version ≤ b.version ∧ a.confVer ≤ b.confVer ∧ a.term ≤ b.term

theorem Le3.refl (a : Region) : Le3 a a := ⟨Nat.le_refl _, Nat.le_refl _, Nat.le_refl _⟩
theorem Le3.trans {a b c : Region} (h1 : Le3 a b) (h2 : Le3 b c) : Le3 a c :=
  ⟨Nat.le_trans h1.1 h2.1, Nat.le_trans h1.2.1 h2.2.1, Nat.le_trans h1.2.2 h2.2.2⟩
theorem Le3.notBehind {a b : Region} (h : Le3 a b) : C06.NotBehind a b := ⟨h.1, h.2.1, fun _ => h.2.2⟩

/-- ids are unique and below the allocator's counter -/
def Good (s : Sim) : Prop :=
  (∀ a ∈ s.rs, ∀ b ∈ s.rs, a.id = b.id → a = b) ∧ (∀ a ∈ s.rs, a.id < s.next)

theorem mem_replace {rs : List Region} {id : Nat} {new : List Region} {b : Region} :
    b ∈ replace rs id new ↔ (b ∈ rs ∧ b.id ≠ id) ∨ (b ∈ new ∧ ∃ a ∈ rs, a.id = id) := by
  unfold replace
  simp only [List.mem_flatMap]
  constructor
  · rintro ⟨a, ha, hb⟩
    by_cases e : a.id = id
    · simp only [e, if_true] at hb
      exact Or.inr ⟨hb, a, ha, e⟩
    · simp only [e, if_false, List.mem_singleton] at hb
      subst hb; exact Or.inl ⟨ha, e⟩
  · rintro (⟨hb, hne⟩ | ⟨hb, a, ha, e⟩)
    · exact ⟨b, hb, by simp [hne]⟩
    · exact ⟨a, ha, by simp [e, hb]⟩

theorem find_some {rs : List Region} {id : Nat} {r : Region} (h : find rs id = some r) : r ∈ rs ∧ r.id = id := by
  unfold find at h
  exact ⟨List.mem_of_find?_eq_some h, by simpa using List.find?_some h⟩

/-- what one event does to the region list: some regions of one or two ids are replaced by regions that
    carry an old id with a larger-or-equal epoch, or the fresh id -/
theorem step_shape (s : Sim) (e : Ev) (hg : Good s) :
    s.next ≤ (step s e).next ∧
    (∀ b ∈ (step s e).rs, (∃ a ∈ s.rs, a.id = b.id ∧ Le3 a b) ∨ (s.next ≤ b.id ∧ b.id < (step s e).next)) ∧
    (∀ b ∈ (step s e).rs, ∀ b' ∈ (step s e).rs, b.id = b'.id → b = b') := by
  have same : s.next ≤ s.next ∧
      (∀ b ∈ s.rs, (∃ a ∈ s.rs, a.id = b.id ∧ Le3 a b) ∨ (s.next ≤ b.id ∧ b.id < s.next)) ∧
      (∀ b ∈ s.rs, ∀ b' ∈ s.rs, b.id = b'.id → b = b') :=
    ⟨Nat.le_refl _, fun b hb => Or.inl ⟨b, hb, rfl, Le3.refl b⟩, hg.1⟩
  -- replacing the region of one id by one region of the same id with a grown epoch
  have one : ∀ (id : Nat) (r m : Region), find s.rs id = some r → m.id = id → Le3 r m →
      (∀ b ∈ replace s.rs id [m], (∃ a ∈ s.rs, a.id = b.id ∧ Le3 a b) ∨ (s.next ≤ b.id ∧ b.id < s.next)) ∧
      (∀ b ∈ replace s.rs id [m], ∀ b' ∈ replace s.rs id [m], b.id = b'.id → b = b') := by
    intro id r m hf hm hle
    obtain ⟨hr, hrid⟩ := find_some hf
    constructor
    · intro b hb
      rcases mem_replace.1 hb with ⟨h1, _⟩ | ⟨h1, _⟩
      · exact Or.inl ⟨b, h1, rfl, Le3.refl b⟩
      · simp only [List.mem_singleton] at h1; subst h1
        exact Or.inl ⟨r, hr, by rw [hrid, hm], hle⟩
    · intro b hb b' hb' e
      rcases mem_replace.1 hb with ⟨h1, h2⟩ | ⟨h1, _⟩ <;> rcases mem_replace.1 hb' with ⟨h1', h2'⟩ | ⟨h1', _⟩
      · exact hg.1 b h1 b' h1' e
      · simp only [List.mem_singleton] at h1'; subst h1'; exact absurd (e.trans hm) h2
      · simp only [List.mem_singleton] at h1; subst h1; exact absurd (e.symm.trans hm) h2'
      · simp only [List.mem_singleton] at h1 h1'; rw [h1, h1']
  cases e with
  | split id key newPeers newLeader rightDerive =>
    simp only [step]
    cases hf : find s.rs id with
    | none => exact same
    | some r =>
      simp only
      split
      · obtain ⟨hr, hrid⟩ := find_some hf
        simp only
        refine ⟨by omega, ?_, ?_⟩
        · intro b hb
          rcases mem_replace.1 hb with ⟨h1, _⟩ | ⟨h1, _⟩
          · exact Or.inl ⟨b, h1, rfl, Le3.refl b⟩
          · cases rightDerive <;> simp only [Bool.false_eq_true, if_false, if_true, List.mem_cons, List.mem_nil_iff, or_false] at h1
            · rcases h1 with rfl | rfl
              · exact Or.inl ⟨r, hr, rfl, ⟨by simp, Nat.le_refl _, Nat.le_refl _⟩⟩
              · exact Or.inr ⟨Nat.le_refl _, by simp⟩
            · rcases h1 with rfl | rfl
              · exact Or.inr ⟨Nat.le_refl _, by simp⟩
              · exact Or.inl ⟨r, hr, rfl, ⟨by simp, Nat.le_refl _, Nat.le_refl _⟩⟩
        · intro b hb b' hb' e
          have hlt := hg.2 r hr
          rcases mem_replace.1 hb with ⟨h1, h2⟩ | ⟨h1, _⟩ <;> rcases mem_replace.1 hb' with ⟨h1', h2'⟩ | ⟨h1', _⟩
          · exact hg.1 b h1 b' h1' e
          · have hb1 := hg.2 b h1
            cases rightDerive <;> simp only [Bool.false_eq_true, if_false, if_true, List.mem_cons, List.mem_nil_iff, or_false] at h1' <;>
              rcases h1' with rfl | rfl <;> simp only at e <;> first | (exact absurd (e.trans hrid) h2) | omega
          · have hb1 := hg.2 b' h1'
            cases rightDerive <;> simp only [Bool.false_eq_true, if_false, if_true, List.mem_cons, List.mem_nil_iff, or_false] at h1 <;>
              rcases h1 with rfl | rfl <;> simp only at e <;> first | (exact absurd (e.symm.trans hrid) h2') | omega
          · cases rightDerive <;> simp only [Bool.false_eq_true, if_false, if_true, List.mem_cons, List.mem_nil_iff, or_false] at h1 h1' <;>
              rcases h1 with rfl | rfl <;> rcases h1' with rfl | rfl <;> simp only at e <;> first | rfl | omega
      · exact same
  | merge source target =>
    simp only [step]
    cases hfs : find s.rs source with
    | none => exact same
    | some a =>
      cases hft : find s.rs target with
      | none => exact same
      | some t =>
        simp only
        split
        · next hc =>
          obtain ⟨ha, haid⟩ := find_some hfs
          obtain ⟨ht, htid⟩ := find_some hft
          refine ⟨Nat.le_refl _, ?_, ?_⟩
          · intro b hb
            rcases mem_replace.1 hb with ⟨h1, _⟩ | ⟨h1, _⟩
            · rcases mem_replace.1 h1 with ⟨h2, _⟩ | ⟨h2, _⟩
              · exact Or.inl ⟨b, h2, rfl, Le3.refl b⟩
              · cases h2
            · simp only [List.mem_singleton] at h1; subst h1
              exact Or.inl ⟨t, ht, rfl, ⟨by simp only; omega, Nat.le_refl _, Nat.le_refl _⟩⟩
          · intro b hb b' hb' e
            have old : ∀ x, x ∈ replace s.rs source [] → x ∈ s.rs := by
              intro x hx
              rcases mem_replace.1 hx with ⟨h2, _⟩ | ⟨h2, _⟩
              · exact h2
              · cases h2
            rcases mem_replace.1 hb with ⟨h1, h2⟩ | ⟨h1, _⟩ <;> rcases mem_replace.1 hb' with ⟨h1', h2'⟩ | ⟨h1', _⟩
            · exact hg.1 b (old b h1) b' (old b' h1') e
            · simp only [List.mem_singleton] at h1'; subst h1'; exact absurd (e.trans htid) h2
            · simp only [List.mem_singleton] at h1; subst h1; exact absurd (e.symm.trans htid) h2'
            · simp only [List.mem_singleton] at h1 h1'; rw [h1, h1']
        · exact same
  | confChange id peers =>
    simp only [step]
    cases hf : find s.rs id with
    | none => exact same
    | some r =>
      have := one id r { r with peers := peers, confVer := r.confVer + 1 } hf (find_some hf).2
        ⟨Nat.le_refl _, by simp, Nat.le_refl _⟩
      exact ⟨Nat.le_refl _, this.1, this.2⟩
  | leader id leader =>
    simp only [step]
    cases hf : find s.rs id with
    | none => exact same
    | some r =>
      have := one id r { r with leader := leader, term := r.term + 1 } hf (find_some hf).2
        ⟨Nat.le_refl _, Nat.le_refl _, by simp⟩
      exact ⟨Nat.le_refl _, this.1, this.2⟩
  | stat id size =>
    simp only [step]
    cases hf : find s.rs id with
    | none => exact same
    | some r =>
      have := one id r { r with size := size } hf (find_some hf).2 (Le3.refl _)
      exact ⟨Nat.le_refl _, this.1, this.2⟩

theorem step_good (s : Sim) (e : Ev) (hg : Good s) : Good (step s e) := by
  obtain ⟨h1, h2, h3⟩ := step_shape s e hg
  refine ⟨h3, ?_⟩
  intro b hb
  rcases h2 b hb with ⟨a, ha, e', _⟩ | ⟨_, h⟩
  · have := hg.2 a ha; omega
  · exact h

def run (s : Sim) (es : List Ev) : Sim := es.foldl step s

theorem run_good (s : Sim) (es : List Ev) (hg : Good s) : Good (run s es) := by
  induction es generalizing s with
  | nil => exact hg
  | cons e es ih => exact ih _ (step_good s e hg)

/-- **the epoch of a region id only grows along a legitimate history** (and a dead id never comes back) -/
theorem run_le3 (s : Sim) (es : List Ev) (hg : Good s) :
    ∀ b ∈ (run s es).rs, (∃ a ∈ s.rs, a.id = b.id ∧ Le3 a b) ∨ s.next ≤ b.id := by
  induction es generalizing s with
  | nil => intro b hb; exact Or.inl ⟨b, hb, rfl, Le3.refl b⟩
  | cons e es ih =>
    intro b hb
    obtain ⟨h1, h2, _⟩ := step_shape s e hg
    rcases ih (step s e) (step_good s e hg) b hb with ⟨a', ha', e', hle⟩ | h
    · rcases h2 a' ha' with ⟨a, ha, e'', hle'⟩ | ⟨h, _⟩
      · exact Or.inl ⟨a, ha, e''.trans e', hle'.trans hle⟩
      · exact Or.inr (by omega)
    · exact Or.inr (by omega)

/-- reporting in order: walking through the history once, at every moment any regions of the current
    state may be reported (any number of times) -/
inductive Delivered : Sim → List Ev → List Region → Prop
  | stop (s : Sim) (es : List Ev) : Delivered s es []
  | report {s : Sim} {es : List Ev} {hb : Region} {hbs : List Region} :
      hb ∈ s.rs → Delivered s es hbs → Delivered s es (hb :: hbs)
  | advance {s : Sim} {e : Ev} {es : List Ev} {hbs : List Region} :
      Delivered (step s e) es hbs → Delivered s (e :: es) hbs

theorem delivered_later {s : Sim} {es : List Ev} {hbs : List Region} (hd : Delivered s es hbs) (hg : Good s) :
    ∀ b ∈ hbs, (∃ a ∈ s.rs, a.id = b.id ∧ Le3 a b) ∨ s.next ≤ b.id := by
  induction hd with
  | stop => intro b hb; cases hb
  | report hm _ ih =>
    intro b hb
    rcases List.mem_cons.1 hb with rfl | hb
    · exact Or.inl ⟨b, hm, rfl, Le3.refl b⟩
    · exact ih hg b hb
  | @advance s e es hbs _ ih =>
    intro b hb
    obtain ⟨h1, h2, _⟩ := step_shape s e hg
    rcases ih (step_good s e hg) b hb with ⟨a', ha', e', hle⟩ | h
    · rcases h2 a' ha' with ⟨a, ha, e'', hle'⟩ | ⟨h, _⟩
      · exact Or.inl ⟨a, ha, e''.trans e', hle'.trans hle⟩
      · exact Or.inr (by omega)
    · exact Or.inr (by omega)

/-- heartbeats reported in order carry epochs that only grow per id -/
theorem delivered_ordered {s : Sim} {es : List Ev} {hbs : List Region} (hd : Delivered s es hbs) (hg : Good s) :
    hbs.Pairwise (fun a b => a.id = b.id → Le3 a b) := by
  induction hd with
  | stop => exact List.Pairwise.nil
  | @report s es r hbs hm hd ih =>
    refine List.Pairwise.cons ?_ (ih hg)
    intro b hb e
    rcases delivered_later hd hg b hb with ⟨a, ha, e', hle⟩ | h
    · rw [hg.1 r hm a ha (e.trans e'.symm)]
      exact hle
    · have := hg.2 r hm; omega
  | @advance s e es hbs _ ih => exact ih (step_good s e hg)

end PdModel.TikvSim
