import PdModel.Model.RegionTree
import PdModel.Spec.C07
set_option linter.unusedSimpArgs false
set_option linter.unusedVariables false
/-!
Ordered lists of region items: the facts about `descendLE`, `ascendGE`, `find`, `overlapsOf`, … that hold when
the list is ascending in start keys / pairwise non-overlapping.  Generic in the item type `α` and the
accessor `acc : α → Region`, so the same lemmas serve item refs (model) and plain regions (spec).
-/
namespace PdModel.RegionTree
open PdModel.Spec.C07 (WFRange WF Overlap)

/-! ### keys -/
@[grind =] theorem Key.lt_nil (a : Key) : (a < []) = False := by simp
@[grind =] theorem Key.nil_le (a : Key) : (([] : Key) ≤ a) = True := by simp
@[grind =] theorem Key.nil_lt (a : Key) : (([] : Key) < a) = (a ≠ []) := by cases a <;> simp
@[grind =] theorem Key.le_nil (a : Key) : (a ≤ []) = (a = []) := by cases a <;> simp

section
variable {α : Type} (acc : α → Region)

/-- `x` lies entirely before `y` -/
def Before (x y : Region) : Prop := x.endKey ≠ [] ∧ x.endKey ≤ y.startKey

/-- ascending start keys -/
def Asc (l : List α) : Prop := l.Pairwise (fun a b => (acc a).startKey < (acc b).startKey)

/-- real key ranges, pairwise disjoint, in key order -/
def Ordered (l : List α) : Prop :=
  l.Pairwise (fun a b => Before (acc a) (acc b)) ∧ ∀ a ∈ l, WFRange (acc a)

theorem before_lt {x y : Region} (hx : WFRange x) (h : Before x y) : x.startKey < y.startKey := by
  unfold WFRange Before at *; grind

theorem Ordered.asc {l : List α} (h : Ordered acc l) : Asc acc l := by
  unfold Asc
  refine List.Pairwise.imp_of_mem ?_ h.1
  intro a b ha hb hab
  exact before_lt (h.2 a ha) hab

theorem Asc.sublist {l l' : List α} (h : Asc acc l) (hs : l'.Sublist l) : Asc acc l' :=
  List.Pairwise.sublist hs h

theorem Asc.filter {l : List α} (h : Asc acc l) (p : α → Bool) : Asc acc (l.filter p) :=
  h.sublist acc List.filter_sublist

theorem Ordered.sublist {l l' : List α} (h : Ordered acc l) (hs : l'.Sublist l) : Ordered acc l' :=
  ⟨List.Pairwise.sublist hs h.1, fun a ha => h.2 a (hs.subset ha)⟩

theorem Ordered.filter {l : List α} (h : Ordered acc l) (p : α → Bool) : Ordered acc (l.filter p) :=
  h.sublist acc List.filter_sublist

theorem Asc.nodup {l : List α} (h : Asc acc l) : l.Nodup := by
  unfold Asc at h
  refine List.Pairwise.imp ?_ h
  intro a b hab heq
  subst heq
  exact absurd hab (by grind)

/-- split an ascending list at one of its members -/
theorem Asc.split {l : List α} (h : Asc acc l) {a : α} (ha : a ∈ l) :
    ∃ l1 l2, l = l1 ++ a :: l2 ∧ (∀ b ∈ l1, (acc b).startKey < (acc a).startKey) ∧
      (∀ b ∈ l2, (acc a).startKey < (acc b).startKey) := by
  obtain ⟨l1, l2, rfl⟩ := List.append_of_mem ha
  refine ⟨l1, l2, rfl, ?_, ?_⟩
  · intro b hb
    have := List.pairwise_append.1 h
    exact this.2.2 b hb a (by simp)
  · intro b hb
    have := (List.pairwise_append.1 h).2.1
    exact (List.pairwise_cons.1 this).1 b hb

theorem Ordered.split {l : List α} (h : Ordered acc l) {a : α} (ha : a ∈ l) :
    ∃ l1 l2, l = l1 ++ a :: l2 ∧ (∀ b ∈ l1, Before (acc b) (acc a)) ∧
      (∀ b ∈ l2, Before (acc a) (acc b)) := by
  obtain ⟨l1, l2, rfl⟩ := List.append_of_mem ha
  refine ⟨l1, l2, rfl, ?_, ?_⟩
  · intro b hb
    exact (List.pairwise_append.1 h.1).2.2 b hb a (by simp)
  · intro b hb
    exact (List.pairwise_cons.1 (List.pairwise_append.1 h.1).2.1).1 b hb

/-- two members of an ordered list are equal or one lies before the other -/
theorem Ordered.tri {l : List α} (h : Ordered acc l) {a b : α} (ha : a ∈ l) (hb : b ∈ l) :
    a = b ∨ Before (acc a) (acc b) ∨ Before (acc b) (acc a) := by
  obtain ⟨l1, l2, rfl, h1, h2⟩ := h.split acc ha
  simp only [List.mem_append, List.mem_cons] at hb
  rcases hb with hb | rfl | hb
  · exact Or.inr (Or.inr (h1 b hb))
  · exact Or.inl rfl
  · exact Or.inr (Or.inl (h2 b hb))

theorem Asc.tri {l : List α} (h : Asc acc l) {a b : α} (ha : a ∈ l) (hb : b ∈ l) :
    a = b ∨ (acc a).startKey < (acc b).startKey ∨ (acc b).startKey < (acc a).startKey := by
  obtain ⟨l1, l2, rfl, h1, h2⟩ := h.split acc ha
  simp only [List.mem_append, List.mem_cons] at hb
  rcases hb with hb | rfl | hb
  · exact Or.inr (Or.inr (h1 b hb))
  · exact Or.inl rfl
  · exact Or.inr (Or.inl (h2 b hb))

/-- equal start keys in an ascending list: the same item -/
theorem Asc.eq_of_key {l : List α} (h : Asc acc l) {a b : α} (ha : a ∈ l) (hb : b ∈ l)
    (hk : (acc a).startKey = (acc b).startKey) : a = b := by
  rcases h.tri acc ha hb with h | h | h
  · exact h
  · rw [hk] at h; exact absurd h (by grind)
  · rw [hk] at h; exact absurd h (by grind)

/-- ascending lists with the same members are equal -/
theorem Asc.ext {l1 l2 : List α} (h1 : Asc acc l1) (h2 : Asc acc l2) (hm : ∀ a, a ∈ l1 ↔ a ∈ l2) : l1 = l2 := by
  induction l1 generalizing l2 with
  | nil =>
    cases l2 with
    | nil => rfl
    | cons b l2 => exact absurd ((hm b).2 (by simp)) (by simp)
  | cons a l1 ih =>
    cases l2 with
    | nil => exact absurd ((hm a).1 (by simp)) (by simp)
    | cons b l2 =>
      have ha := List.pairwise_cons.1 h1
      have hb := List.pairwise_cons.1 h2
      have hab : a = b := by
        have h3 : a ∈ b :: l2 := (hm a).1 (by simp)
        have h4 : b ∈ a :: l1 := (hm b).2 (by simp)
        simp only [List.mem_cons] at h3 h4
        rcases h3 with h3 | h3
        · exact h3
        · rcases h4 with h4 | h4
          · exact h4.symm
          · have := ha.1 b h4; have := hb.1 a h3; grind
      subst hab
      congr 1
      apply ih ha.2 hb.2
      intro x
      constructor
      · intro hx
        have h3 : x ∈ a :: l2 := (hm x).1 (by simp [hx])
        simp only [List.mem_cons] at h3
        rcases h3 with rfl | h3
        · have := ha.1 x hx; grind
        · exact h3
      · intro hx
        have h3 : x ∈ a :: l1 := (hm x).2 (by simp [hx])
        simp only [List.mem_cons] at h3
        rcases h3 with rfl | h3
        · have := hb.1 x hx; grind
        · exact h3

/-! ### the ordered-set reads -/

/-- last element of a filtered ascending list = the member with the largest start key that passes -/
theorem getLast?_filter_eq_some {l : List α} (h : Asc acc l) (p : α → Bool) {a : α} :
    (l.filter p).getLast? = some a ↔
      a ∈ l ∧ p a = true ∧ ∀ b ∈ l, p b = true → (acc b).startKey ≤ (acc a).startKey := by
  constructor
  · intro hl
    obtain ⟨ys, hys⟩ := List.getLast?_eq_some_iff.1 hl
    have hmem : a ∈ l.filter p := by rw [hys]; simp
    have hasc : Asc acc (ys ++ [a]) := hys ▸ h.filter acc p
    refine ⟨(List.mem_filter.1 hmem).1, (List.mem_filter.1 hmem).2, ?_⟩
    intro b hb hpb
    have hb' : b ∈ ys ++ [a] := hys ▸ List.mem_filter.2 ⟨hb, hpb⟩
    simp only [List.mem_append, List.mem_singleton] at hb'
    rcases hb' with hb' | rfl
    · have := (List.pairwise_append.1 hasc).2.2 b hb' a (by simp); grind
    · grind
  · rintro ⟨ha, hpa, hmax⟩
    obtain ⟨l1, l2, rfl, h1, h2⟩ := h.split acc ha
    have hnil : l2.filter p = [] := by
      rw [List.filter_eq_nil_iff]
      intro b hb hpb
      have := hmax b (by simp [hb]) hpb
      have := h2 b hb
      grind
    simp [List.filter_append, List.filter_cons, hpa, hnil]

theorem getLast?_filter_eq_none {l : List α} (p : α → Bool) :
    (l.filter p).getLast? = none ↔ ∀ b ∈ l, p b = false := by
  rw [List.getLast?_eq_none_iff, List.filter_eq_nil_iff]
  simp

theorem descendLE_eq_some {l : List α} (h : Asc acc l) {k : Key} {a : α} :
    descendLE acc l k = some a ↔
      a ∈ l ∧ (acc a).startKey ≤ k ∧ ∀ b ∈ l, (acc b).startKey ≤ k → (acc b).startKey ≤ (acc a).startKey := by
  unfold descendLE
  rw [getLast?_filter_eq_some acc h]
  simp

theorem descendLE_eq_none {l : List α} {k : Key} :
    descendLE acc l k = none ↔ ∀ b ∈ l, ¬ (acc b).startKey ≤ k := by
  unfold descendLE
  rw [getLast?_filter_eq_none]
  simp

theorem find_eq_some_iff {l : List α} (h : Ordered acc l) {k : Key} {a : α} :
    find acc l k = some a ↔ a ∈ l ∧ Contains (acc a) k := by
  unfold find
  constructor
  · intro hf
    split at hf
    · next b hb =>
      split at hf
      · next hc => cases hf; exact ⟨((descendLE_eq_some acc (h.asc acc)).1 hb).1, hc⟩
      · cases hf
    · cases hf
  · rintro ⟨ha, hc⟩
    have hd : descendLE acc l k = some a := by
      rw [descendLE_eq_some acc (h.asc acc)]
      refine ⟨ha, hc.1, ?_⟩
      intro b hb hbk
      have hwa := h.2 a ha
      have hwb := h.2 b hb
      rcases h.tri acc ha hb with rfl | hab | hab
      · grind
      · unfold Before Contains WFRange at *; grind
      · unfold Before Contains WFRange at *; grind
    simp [hd, hc]

theorem find_eq_none_iff {l : List α} (h : Ordered acc l) {k : Key} :
    find acc l k = none ↔ ∀ a ∈ l, ¬ Contains (acc a) k := by
  constructor
  · intro hf a ha hc
    have := (find_eq_some_iff acc h).2 ⟨ha, hc⟩
    rw [hf] at this; cases this
  · intro hn
    cases hf : find acc l k with
    | none => rfl
    | some a => exact absurd ((find_eq_some_iff acc h).1 hf).2 (hn a ((find_eq_some_iff acc h).1 hf).1)

/-- on an ascending list, `takeWhile` of a predicate that is closed towards smaller keys is `filter` -/
theorem takeWhile_eq_filter {l : List α} (h : Asc acc l) (q : α → Bool)
    (hq : ∀ a ∈ l, ∀ b ∈ l, (acc a).startKey < (acc b).startKey → q b = true → q a = true) :
    l.takeWhile q = l.filter q := by
  induction l with
  | nil => rfl
  | cons x xs ih =>
    have hx := List.pairwise_cons.1 h
    have ih' := ih hx.2 (fun a ha b hb => hq a (by simp [ha]) b (by simp [hb]))
    by_cases hqx : q x = true
    · simp [List.takeWhile_cons, List.filter_cons, hqx, ih']
    · have : xs.filter q = [] := by
        rw [List.filter_eq_nil_iff]
        intro b hb hqb
        exact hqx (hq x (by simp) b (by simp [hb]) (hx.1 b hb) hqb)
      simp [List.takeWhile_cons, List.filter_cons, hqx, this]

/-- regionTree.getOverlaps returns exactly the items whose range intersects the argument's -/
theorem overlapsOf_eq_filter {l : List α} (h : Ordered acc l) (r : Region) :
    overlapsOf acc l r = l.filter (fun a => Overlap (acc a) r) := by
  unfold overlapsOf ascendGE
  rw [takeWhile_eq_filter acc ((h.asc acc).filter acc _)]
  · rw [List.filter_filter]
    apply List.filter_congr
    intro a ha
    have hwa := h.2 a ha
    cases hf : find acc l r.startKey with
    | some c =>
      obtain ⟨hc, hcc⟩ := (find_eq_some_iff acc h).1 hf
      have hwc := h.2 c hc
      simp only [Bool.and_eq_true, decide_eq_true_eq, decide_eq_decide]
      rcases h.tri acc ha hc with rfl | hab | hab
      · unfold Before Contains WFRange Overlap at *; grind
      · unfold Before Contains WFRange Overlap at *; grind
      · unfold Before Contains WFRange Overlap at *; grind
    | none =>
      have hn := (find_eq_none_iff acc h).1 hf a ha
      simp only [Bool.and_eq_true, decide_eq_true_eq, decide_eq_decide]
      unfold Before Contains WFRange Overlap at *; grind
  · intro a _ b _ hab hqb
    simp only [decide_eq_true_eq] at *
    grind

theorem prev_eq_find? {l : List α} (h : Ordered acc l) (k : Key) :
    (match (l.filter (fun a => (acc a).startKey < k)).getLast? with
      | some a => if (acc a).endKey = k then some a else none
      | none => none) = l.find? (fun a => (acc a).endKey ≠ [] ∧ (acc a).endKey = k) := by
  by_cases hex : ∃ a ∈ l, (acc a).endKey ≠ [] ∧ (acc a).endKey = k
  · obtain ⟨a, ha, hne, hk⟩ := hex
    have hwa := h.2 a ha
    have hl : (l.filter (fun a => decide ((acc a).startKey < k))).getLast? = some a := by
      rw [getLast?_filter_eq_some acc (h.asc acc)]
      refine ⟨ha, by unfold WFRange at hwa; simp only [decide_eq_true_eq]; grind, ?_⟩
      intro b hb hbk
      simp only [decide_eq_true_eq] at hbk
      have hwb := h.2 b hb
      rcases h.tri acc ha hb with rfl | hab | hab
      · grind
      · unfold Before WFRange at *; grind
      · unfold Before WFRange at *; grind
    rw [hl]
    simp only [hk, if_true]
    symm
    obtain ⟨l1, l2, rfl, h1, h2⟩ := h.split acc ha
    rw [List.find?_append]
    have hnone : l1.find? (fun a => decide ((acc a).endKey ≠ [] ∧ (acc a).endKey = k)) = none := by
      rw [List.find?_eq_none]
      intro b hb
      have hwb := h.2 b (by simp [hb])
      have := h1 b hb
      simp only [decide_eq_true_eq]
      unfold Before WFRange at *; grind
    rw [hnone]
    have hk' : k ≠ [] := hk ▸ hne
    simp [List.find?_cons, hne, hk, hk']
  · have hnone : l.find? (fun a => decide ((acc a).endKey ≠ [] ∧ (acc a).endKey = k)) = none := by
      rw [List.find?_eq_none]
      intro b hb
      simp only [decide_eq_true_eq]
      intro hb2
      exact hex ⟨b, hb, hb2⟩
    rw [hnone]
    split
    · next a ha =>
      obtain ⟨ha1, ha2, _⟩ := (getLast?_filter_eq_some acc (h.asc acc) _).1 ha
      simp only [decide_eq_true_eq] at ha2
      split
      · next hk => exact absurd ⟨a, ha1, by grind, hk⟩ hex
      · rfl
    · rfl

/-! ### the ordered-set writes -/

theorem mem_deleteKey {l : List α} {k : Key} {a : α} :
    a ∈ deleteKey acc l k ↔ a ∈ l ∧ (acc a).startKey ≠ k := by
  simp [deleteKey, List.mem_filter]

/-- deleting the key of a member removes exactly that member -/
theorem mem_deleteKey_of_mem {l : List α} (h : Asc acc l) {x : α} (hx : x ∈ l) {a : α} :
    a ∈ deleteKey acc l (acc x).startKey ↔ a ∈ l ∧ a ≠ x := by
  rw [mem_deleteKey]
  constructor
  · rintro ⟨ha, hk⟩; exact ⟨ha, fun e => hk (e ▸ rfl)⟩
  · rintro ⟨ha, hne⟩; exact ⟨ha, fun e => hne (h.eq_of_key acc ha hx e)⟩

theorem deleteKey_sublist {l : List α} {k : Key} : (deleteKey acc l k).Sublist l := List.filter_sublist

theorem mem_insertItem {l : List α} {x a : α} :
    a ∈ insertItem acc l x ↔ a = x ∨ (a ∈ l ∧ (acc a).startKey ≠ (acc x).startKey) := by
  simp only [insertItem, List.mem_append, List.mem_cons, List.mem_filter, decide_eq_true_eq]
  constructor
  · rintro (⟨h1, h2⟩ | rfl | ⟨h1, h2⟩)
    · exact Or.inr ⟨h1, by grind⟩
    · exact Or.inl rfl
    · exact Or.inr ⟨h1, by grind⟩
  · rintro (rfl | ⟨h1, h2⟩)
    · exact Or.inr (Or.inl rfl)
    · rcases Nat.lt_or_ge 0 1 with _ | _
      · by_cases hlt : (acc a).startKey < (acc x).startKey
        · exact Or.inl ⟨h1, hlt⟩
        · exact Or.inr (Or.inr ⟨h1, by grind⟩)
      · omega

theorem Asc.insertItem {l : List α} (h : Asc acc l) (x : α) : Asc acc (insertItem acc l x) := by
  unfold Asc PdModel.RegionTree.insertItem
  rw [List.pairwise_append]
  refine ⟨h.filter acc _, ?_, ?_⟩
  · rw [List.pairwise_cons]
    refine ⟨?_, h.filter acc _⟩
    intro b hb
    simpa using (List.mem_filter.1 hb).2
  · intro a ha b hb
    have ha' := (List.mem_filter.1 ha).2
    simp only [decide_eq_true_eq] at ha'
    simp only [List.mem_cons, List.mem_filter, decide_eq_true_eq] at hb
    rcases hb with rfl | ⟨_, hb⟩
    · exact ha'
    · grind

/-- inserting a real range that intersects nothing keeps the list ordered -/
theorem Ordered.insertItem {l : List α} (h : Ordered acc l) (x : α) (hx : WFRange (acc x))
    (hno : ∀ a ∈ l, ¬ Overlap (acc a) (acc x)) : Ordered acc (insertItem acc l x) := by
  refine ⟨?_, ?_⟩
  · unfold PdModel.RegionTree.insertItem
    rw [List.pairwise_append]
    refine ⟨(h.filter acc _).1, ?_, ?_⟩
    · rw [List.pairwise_cons]
      refine ⟨?_, (h.filter acc _).1⟩
      intro b hb
      obtain ⟨hb1, hb2⟩ := List.mem_filter.1 hb
      simp only [decide_eq_true_eq] at hb2
      have := hno b hb1
      have := h.2 b hb1
      unfold Before Overlap WFRange at *; grind
    · intro a ha b hb
      obtain ⟨ha1, ha2⟩ := List.mem_filter.1 ha
      simp only [decide_eq_true_eq] at ha2
      have hna := hno a ha1
      have hwa := h.2 a ha1
      have hax : Before (acc a) (acc x) := by unfold Before Overlap WFRange at *; grind
      simp only [List.mem_cons, List.mem_filter, decide_eq_true_eq] at hb
      rcases hb with rfl | ⟨hb1, hb2⟩
      · exact hax
      · have hnb := hno b hb1
        have hwb := h.2 b hb1
        unfold Before Overlap WFRange at *; grind
  · intro a ha
    rcases (mem_insertItem acc).1 ha with rfl | ⟨ha, _⟩
    · exact hx
    · exact h.2 a ha

/-- inserting an item whose key is new keeps every member -/
theorem mem_insertItem_of_new {l : List α} {x a : α} (hnew : ∀ b ∈ l, (acc b).startKey ≠ (acc x).startKey) :
    a ∈ insertItem acc l x ↔ a = x ∨ a ∈ l := by
  rw [mem_insertItem]
  constructor
  · rintro (h | ⟨h, _⟩); exact Or.inl h; exact Or.inr h
  · rintro (h | h); exact Or.inl h; exact Or.inr ⟨h, hnew a h⟩

/-- filtering commutes with insertion (the inserted item passes) -/
theorem filter_insertItem_pos {l : List α} (x : α) (p : α → Bool) (hp : p x = true) :
    (insertItem acc l x).filter p = insertItem acc (l.filter p) x := by
  simp only [insertItem, List.filter_append, List.filter_cons, hp, if_true, List.filter_filter]
  congr 1
  · apply List.filter_congr; intro a _; simp [Bool.and_comm]
  · congr 1; apply List.filter_congr; intro a _; simp [Bool.and_comm]

/-- … and when the inserted item does not pass (and its key is new) nothing changes -/
theorem filter_insertItem_neg {l : List α} (h : Asc acc l) (x : α) (p : α → Bool) (hp : p x = false)
    (hnew : ∀ b ∈ l, (acc b).startKey ≠ (acc x).startKey) :
    (insertItem acc l x).filter p = l.filter p := by
  apply Asc.ext acc (((h.insertItem acc x)).filter acc p) (h.filter acc p)
  intro a
  simp only [List.mem_filter, mem_insertItem_of_new acc hnew]
  constructor
  · rintro ⟨rfl | ha, hpa⟩
    · rw [hp] at hpa; cases hpa
    · exact ⟨ha, hpa⟩
  · rintro ⟨ha, hpa⟩; exact ⟨Or.inr ha, hpa⟩

/-! ### rank queries (RandomRegion) -/

theorem getElem?_mem_window {l : List α} {a : α} {i si ei : Nat} (hi : l[i]? = some a) (h1 : si ≤ i) (h2 : i < ei) :
    a ∈ (l.drop si).take (ei - si) := by
  rw [List.mem_iff_getElem?]
  refine ⟨i - si, ?_⟩
  rw [List.getElem?_take]
  have : i - si < ei - si := by omega
  simp only [this, if_true, List.getElem?_drop]
  have : si + (i - si) = i := by omega
  rw [this]; exact hi

theorem randStart_le (l : List α) (sk : Key) : randStart acc l sk ≤ rank acc l sk := by
  unfold randStart
  simp only
  split <;> omega

/-- RandomRegion, one range: the returnable items are exactly the items lying inside the range -/
theorem randCands1_eq_filter {l : List α} (h : Ordered acc l) (sk ek : Key) :
    randCands1 acc l sk ek = l.filter (fun a => Involved (acc a) sk ek) := by
  have hasc := h.asc acc
  have hsub : (randWindow acc l sk ek).Sublist l := by
    unfold randWindow
    split
    · exact List.nil_sublist _
    · exact (List.take_sublist _ _).trans (List.drop_sublist _ _)
  apply Asc.ext acc ((hasc.sublist acc hsub).filter acc _) (hasc.filter acc _)
  intro a
  simp only [List.mem_filter, decide_eq_true_eq]
  constructor
  · rintro ⟨ha, hi⟩; exact ⟨hsub.subset ha, hi⟩
  · rintro ⟨ha, hi⟩
    refine ⟨?_, hi⟩
    have hwa := h.2 a ha
    obtain ⟨l1, l2, rfl, h1, h2⟩ := hasc.split acc ha
    -- the index of `a` is `l1.length`; it lies in [startIndex, endIndex)
    have hidx : (l1 ++ a :: l2)[l1.length]? = some a := by simp
    have hrk : rank acc (l1 ++ a :: l2) sk ≤ l1.length := by
      unfold rank
      rw [List.filter_append, List.filter_cons]
      have hA : ¬ (acc a).startKey < sk := by unfold Involved at hi; grind
      have hB : l2.filter (fun b => decide ((acc b).startKey < sk)) = [] := by
        rw [List.filter_eq_nil_iff]; intro b hb; have := h2 b hb; simp only [decide_eq_true_eq]; grind
      simp only [hA, decide_false, hB, List.append_nil, Bool.false_eq_true, if_false]
      exact List.length_filter_le _ _
    have hstart : randStart acc (l1 ++ a :: l2) sk ≤ l1.length :=
      Nat.le_trans (randStart_le acc _ sk) hrk
    have hend : l1.length < randEnd acc (l1 ++ a :: l2) ek := by
      unfold randEnd
      split
      · next hek =>
        unfold rank
        rw [List.filter_append, List.filter_cons]
        have hA : (acc a).startKey < ek := by unfold Involved WFRange at *; grind
        have hB : l1.filter (fun b => decide ((acc b).startKey < ek)) = l1 := by
          rw [List.filter_eq_self]; intro b hb; have := h1 b hb; simp only [decide_eq_true_eq]; grind
        simp only [hA, decide_true, hB, if_true, List.length_append, List.length_cons]
        omega
      · simp
    unfold randWindow
    split
    · omega
    · exact getElem?_mem_window hidx hstart hend

end
end PdModel.RegionTree
